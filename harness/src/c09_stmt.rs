//! C09, statement trees: `C09.st \t <statement s-expression>`.
//!
//! The request is a statement tree (built from a parsed random program, ambiguous declaration/expression nodes resolved,
//! or written by hand in the corpus).  It is put into `void f() { … }`, printed by the real formatter, re-read by the real
//! preprocessor + parser; the re-read statement (ambiguities resolved with the type names the original uses) must be the
//! original, and the second print the first.
//! observation : `<printed statement, white space collapsed> ==> <re-read tree | ERR:stage>`
use super::*;

fn none_list(h: &str) -> SExp {
    SExp::list(h, vec![])
}

// ------------------------------------------------------------------------------------------ serialisation
fn ser_type_nodecl(t: &ast::Type) -> SExp {
    ser_type(&ast::TypeId {
        base: t.clone(),
        abstract_declarator: ast::Declarator::Empty,
    })
}

fn de_type_nodecl(s: &SExp) -> Option<ast::Type> {
    let t = de_type(s)?;
    if t.abstract_declarator != ast::Declarator::Empty {
        return None;
    }
    Some(t.base)
}

fn ser_declarator(d: &ast::Declarator) -> SExp {
    match d {
        ast::Declarator::Empty => none_list("d-empty"),
        ast::Declarator::Identifier(id, attrs) => {
            if attrs.is_empty() {
                SExp::list("d-name", ser_scoped(id))
            } else {
                none_list("d-attr")
            }
        }
        ast::Declarator::Pointer(p) => {
            if !p.attributes.is_empty() {
                return none_list("d-attr");
            }
            let quals: Vec<SExp> = p
                .qualifiers
                .modifiers
                .iter()
                .map(|m| {
                    SExp::atom(MODIFIERS.iter().find(|(_, md)| *md == m.node).map(|(n, _)| *n).unwrap_or("modifier?"))
                })
                .collect();
            SExp::list("d-ptr", vec![SExp::List(quals), ser_declarator(&p.inner)])
        }
        ast::Declarator::Reference(r) => {
            if !r.attributes.is_empty() {
                return none_list("d-attr");
            }
            SExp::list("d-ref", vec![ser_declarator(&r.inner)])
        }
        ast::Declarator::Array(a) => {
            if !a.attributes.is_empty() {
                return none_list("d-attr");
            }
            match &a.array_size {
                Some(e) => SExp::list("d-arr", vec![ser_declarator(&a.inner), ser_expr(&e.node)]),
                None => SExp::list("d-arrn", vec![ser_declarator(&a.inner)]),
            }
        }
    }
}

fn de_declarator(s: &SExp) -> Option<ast::Declarator> {
    let a = s.args();
    Some(match s.head()? {
        "d-empty" => ast::Declarator::Empty,
        "d-name" => ast::Declarator::Identifier(de_scoped(a)?, Vec::new()),
        "d-ptr" => {
            let mut quals = Vec::new();
            for q in a.first()?.as_list()? {
                let q = q.as_atom()?;
                quals.push(loc(MODIFIERS.iter().find(|(n, _)| *n == q)?.1));
            }
            ast::Declarator::Pointer(ast::PointerDeclarator {
                attributes: Vec::new(),
                qualifiers: ast::TypeModifierSet { modifiers: quals },
                inner: Box::new(de_declarator(a.get(1)?)?),
            })
        }
        "d-ref" => ast::Declarator::Reference(ast::ReferenceDeclarator {
            attributes: Vec::new(),
            inner: Box::new(de_declarator(a.first()?)?),
        }),
        "d-arr" => ast::Declarator::Array(ast::ArrayDeclarator {
            inner: Box::new(de_declarator(a.first()?)?),
            array_size: Some(Box::new(loc(de_expr(a.get(1)?)?))),
            attributes: Vec::new(),
        }),
        "d-arrn" => ast::Declarator::Array(ast::ArrayDeclarator {
            inner: Box::new(de_declarator(a.first()?)?),
            array_size: None,
            attributes: Vec::new(),
        }),
        _ => return None,
    })
}

fn ser_initializer(i: &ast::Initializer) -> SExp {
    match i {
        ast::Initializer::Expression(e) => ser_expr(&e.node),
        ast::Initializer::Aggregate(v) => SExp::list("agg", v.iter().map(ser_initializer).collect()),
        ast::Initializer::StaticSampler(_) => none_list("static-sampler"),
    }
}

fn de_initializer(s: &SExp) -> Option<ast::Initializer> {
    match s.head()? {
        "agg" => {
            let mut v = Vec::new();
            for x in s.args() {
                v.push(de_initializer(x)?);
            }
            Some(ast::Initializer::Aggregate(v))
        }
        "static-sampler" => None,
        _ => Some(ast::Initializer::Expression(loc(de_expr(s)?))),
    }
}

fn ser_vardef(v: &ast::VarDef) -> SExp {
    let mut items = vec![ser_type_nodecl(&v.local_type)];
    for d in &v.defs {
        let init = match &d.init {
            None => none_list("noinit"),
            Some(i) => SExp::list("init", vec![ser_initializer(i)]),
        };
        let mut parts = vec![ser_declarator(&d.declarator), init];
        if !d.location_annotations.is_empty() {
            parts.push(none_list("annot"));
        }
        items.push(SExp::list("idecl", parts));
    }
    SExp::list("vd", items)
}

fn de_vardef(s: &SExp) -> Option<ast::VarDef> {
    if s.head()? != "vd" {
        return None;
    }
    let a = s.args();
    let local_type = de_type_nodecl(a.first()?)?;
    let mut defs = Vec::new();
    for d in &a[1..] {
        if d.head()? != "idecl" || d.args().len() != 2 {
            return None;
        }
        let declarator = de_declarator(&d.args()[0])?;
        let init = match d.args()[1].head()? {
            "noinit" => None,
            "init" => Some(de_initializer(d.args()[1].args().first()?)?),
            _ => return None,
        };
        defs.push(ast::InitDeclarator {
            declarator,
            location_annotations: Vec::new(),
            init,
        });
    }
    if defs.is_empty() {
        return None;
    }
    Some(ast::VarDef { local_type, defs })
}

fn ser_attr(a: &ast::Attribute) -> SExp {
    SExp::list(
        "attr",
        vec![
            SExp::atom(if a.two_square_brackets { "2" } else { "1" }),
            SExp::list("n", a.name.iter().map(|n| SExp::atom(&n.node)).collect()),
            SExp::List(a.arguments.iter().map(|e| ser_expr(&e.node)).collect()),
        ],
    )
}

fn de_attr(s: &SExp) -> Option<ast::Attribute> {
    if s.head()? != "attr" {
        return None;
    }
    let a = s.args();
    let name: Vec<_> = a.get(1)?.args().iter().filter_map(|x| x.as_atom()).map(|x| loc(x.to_string())).collect();
    if name.is_empty() || a.get(1)?.head()? != "n" {
        return None;
    }
    let mut arguments = Vec::new();
    for x in a.get(2)?.as_list()? {
        arguments.push(loc(de_expr(x)?));
    }
    Some(ast::Attribute {
        name,
        arguments,
        two_square_brackets: a.first()?.as_atom()? == "2",
    })
}

fn ser_opt(e: &Option<Located<ast::Expression>>) -> SExp {
    match e {
        None => none_list("none"),
        Some(e) => SExp::list("some", vec![ser_expr(&e.node)]),
    }
}

fn de_opt(s: &SExp) -> Option<Option<Located<ast::Expression>>> {
    match s.head()? {
        "none" => Some(None),
        "some" => Some(Some(loc(de_expr(s.args().first()?)?))),
        _ => None,
    }
}

pub fn ser_stmt(s: &ast::Statement) -> SExp {
    let kind = match &s.kind {
        ast::StatementKind::Empty => none_list("empty"),
        ast::StatementKind::Expression(e) => SExp::list("expr", vec![ser_expr(e)]),
        ast::StatementKind::Var(v) => SExp::list("var", vec![ser_vardef(v)]),
        ast::StatementKind::AmbiguousDeclarationOrExpression(v, e) => {
            SExp::list("ambiguous", vec![ser_vardef(v), ser_expr(e)])
        }
        ast::StatementKind::Block(b) => SExp::list("block", b.iter().map(ser_stmt).collect()),
        ast::StatementKind::If(c, t) => SExp::list("if", vec![ser_expr(&c.node), ser_stmt(t)]),
        ast::StatementKind::IfElse(c, t, e) => {
            SExp::list("ifelse", vec![ser_expr(&c.node), ser_stmt(t), ser_stmt(e)])
        }
        ast::StatementKind::For(init, cond, inc, body) => {
            let i = match init {
                ast::InitStatement::Empty => none_list("none"),
                ast::InitStatement::Expression(e) => SExp::list("e", vec![ser_expr(&e.node)]),
                ast::InitStatement::Declaration(v) => SExp::list("d", vec![ser_vardef(v)]),
            };
            SExp::list("for", vec![i, ser_opt(cond), ser_opt(inc), ser_stmt(body)])
        }
        ast::StatementKind::While(c, b) => SExp::list("while", vec![ser_expr(&c.node), ser_stmt(b)]),
        ast::StatementKind::DoWhile(b, c) => SExp::list("do", vec![ser_stmt(b), ser_expr(&c.node)]),
        ast::StatementKind::Switch(c, b) => SExp::list("switch", vec![ser_expr(&c.node), ser_stmt(b)]),
        ast::StatementKind::Break => none_list("break"),
        ast::StatementKind::Continue => none_list("continue"),
        ast::StatementKind::Discard => none_list("discard"),
        ast::StatementKind::Return(None) => none_list("ret"),
        ast::StatementKind::Return(Some(e)) => SExp::list("ret", vec![ser_expr(&e.node)]),
        ast::StatementKind::CaseLabel(v, n) => SExp::list("case", vec![ser_expr(&v.node), ser_stmt(n)]),
        ast::StatementKind::DefaultLabel(n) => SExp::list("default", vec![ser_stmt(n)]),
    };
    SExp::list("st", vec![SExp::List(s.attributes.iter().map(ser_attr).collect()), kind])
}

pub fn de_stmt(s: &SExp) -> Option<ast::Statement> {
    if s.head()? != "st" {
        return None;
    }
    let mut attributes = Vec::new();
    for a in s.args().first()?.as_list()? {
        attributes.push(de_attr(a)?);
    }
    let k = s.args().get(1)?;
    let a = k.args();
    let bx = |x: &SExp| -> Option<Box<ast::Statement>> { Some(Box::new(de_stmt(x)?)) };
    let kind = match k.head()? {
        "empty" => ast::StatementKind::Empty,
        "expr" => ast::StatementKind::Expression(de_expr(a.first()?)?),
        "var" => ast::StatementKind::Var(de_vardef(a.first()?)?),
        "block" => {
            let mut v = Vec::new();
            for x in a {
                v.push(de_stmt(x)?);
            }
            ast::StatementKind::Block(v)
        }
        "if" => ast::StatementKind::If(loc(de_expr(a.first()?)?), bx(a.get(1)?)?),
        "ifelse" => ast::StatementKind::IfElse(loc(de_expr(a.first()?)?), bx(a.get(1)?)?, bx(a.get(2)?)?),
        "for" => {
            let i = a.first()?;
            let init = match i.head()? {
                "none" => ast::InitStatement::Empty,
                "e" => ast::InitStatement::Expression(loc(de_expr(i.args().first()?)?)),
                "d" => ast::InitStatement::Declaration(de_vardef(i.args().first()?)?),
                _ => return None,
            };
            ast::StatementKind::For(init, de_opt(a.get(1)?)?, de_opt(a.get(2)?)?, bx(a.get(3)?)?)
        }
        "while" => ast::StatementKind::While(loc(de_expr(a.first()?)?), bx(a.get(1)?)?),
        "do" => ast::StatementKind::DoWhile(bx(a.first()?)?, loc(de_expr(a.get(1)?)?)),
        "switch" => ast::StatementKind::Switch(loc(de_expr(a.first()?)?), bx(a.get(1)?)?),
        "break" => ast::StatementKind::Break,
        "continue" => ast::StatementKind::Continue,
        "discard" => ast::StatementKind::Discard,
        "ret" => match a.first() {
            None => ast::StatementKind::Return(None),
            Some(e) => ast::StatementKind::Return(Some(loc(de_expr(e)?))),
        },
        "case" => ast::StatementKind::CaseLabel(loc(de_expr(a.first()?)?), bx(a.get(1)?)?),
        "default" => ast::StatementKind::DefaultLabel(bx(a.first()?)?),
        _ => return None,
    };
    Some(ast::Statement {
        kind,
        location: rssl_text::SourceLocation::UNKNOWN,
        attributes,
    })
}

// ------------------------------------------------------------------------------------------ type names and resolution
fn type_names_decl(d: &ast::Declarator, out: &mut Vec<ast::ScopedIdentifier>) {
    match d {
        ast::Declarator::Empty | ast::Declarator::Identifier(..) => {}
        ast::Declarator::Pointer(p) => type_names_decl(&p.inner, out),
        ast::Declarator::Reference(r) => type_names_decl(&r.inner, out),
        ast::Declarator::Array(a) => {
            type_names_decl(&a.inner, out);
            if let Some(e) = &a.array_size {
                type_names_expr(&e.node, out);
            }
        }
    }
}

fn type_names_vardef(v: &ast::VarDef, out: &mut Vec<ast::ScopedIdentifier>) {
    type_names_type(
        &ast::TypeId {
            base: v.local_type.clone(),
            abstract_declarator: ast::Declarator::Empty,
        },
        out,
    );
    for d in &v.defs {
        type_names_decl(&d.declarator, out);
        if let Some(i) = &d.init {
            type_names_init(i, out);
        }
    }
}

pub fn type_names_stmt(s: &ast::Statement, out: &mut Vec<ast::ScopedIdentifier>) {
    for a in &s.attributes {
        for e in &a.arguments {
            type_names_expr(&e.node, out);
        }
    }
    let ex = |e: &Located<ast::Expression>, out: &mut Vec<ast::ScopedIdentifier>| type_names_expr(&e.node, out);
    match &s.kind {
        ast::StatementKind::Empty
        | ast::StatementKind::Break
        | ast::StatementKind::Continue
        | ast::StatementKind::Discard
        | ast::StatementKind::Return(None) => {}
        ast::StatementKind::Expression(e) => type_names_expr(e, out),
        ast::StatementKind::Var(v) => type_names_vardef(v, out),
        ast::StatementKind::AmbiguousDeclarationOrExpression(_, _) => {}
        ast::StatementKind::Block(b) => b.iter().for_each(|x| type_names_stmt(x, out)),
        ast::StatementKind::If(c, t) => {
            ex(c, out);
            type_names_stmt(t, out)
        }
        ast::StatementKind::IfElse(c, t, e) => {
            ex(c, out);
            type_names_stmt(t, out);
            type_names_stmt(e, out)
        }
        ast::StatementKind::For(i, c, n, b) => {
            match i {
                ast::InitStatement::Empty => {}
                ast::InitStatement::Expression(e) => ex(e, out),
                ast::InitStatement::Declaration(v) => type_names_vardef(v, out),
            }
            if let Some(c) = c {
                ex(c, out)
            }
            if let Some(n) = n {
                ex(n, out)
            }
            type_names_stmt(b, out)
        }
        ast::StatementKind::While(c, b) | ast::StatementKind::Switch(c, b) => {
            ex(c, out);
            type_names_stmt(b, out)
        }
        ast::StatementKind::DoWhile(b, c) => {
            type_names_stmt(b, out);
            ex(c, out)
        }
        ast::StatementKind::Return(Some(e)) => ex(e, out),
        ast::StatementKind::CaseLabel(v, n) => {
            ex(v, out);
            type_names_stmt(n, out)
        }
        ast::StatementKind::DefaultLabel(n) => type_names_stmt(n, out),
    }
}

fn resolve_decl(d: &ast::Declarator, types: &[ast::ScopedIdentifier]) -> ast::Declarator {
    match d {
        ast::Declarator::Empty | ast::Declarator::Identifier(..) => d.clone(),
        ast::Declarator::Pointer(p) => ast::Declarator::Pointer(ast::PointerDeclarator {
            attributes: p.attributes.clone(),
            qualifiers: p.qualifiers.clone(),
            inner: Box::new(resolve_decl(&p.inner, types)),
        }),
        ast::Declarator::Reference(r) => ast::Declarator::Reference(ast::ReferenceDeclarator {
            attributes: r.attributes.clone(),
            inner: Box::new(resolve_decl(&r.inner, types)),
        }),
        ast::Declarator::Array(a) => ast::Declarator::Array(ast::ArrayDeclarator {
            inner: Box::new(resolve_decl(&a.inner, types)),
            array_size: a.array_size.as_ref().map(|e| Box::new(loc(resolve(&e.node, types)))),
            attributes: a.attributes.clone(),
        }),
    }
}

fn resolve_vardef(v: &ast::VarDef, types: &[ast::ScopedIdentifier]) -> ast::VarDef {
    let tid = resolve_type(
        &ast::TypeId {
            base: v.local_type.clone(),
            abstract_declarator: ast::Declarator::Empty,
        },
        types,
    );
    ast::VarDef {
        local_type: tid.base,
        defs: v
            .defs
            .iter()
            .map(|d| ast::InitDeclarator {
                declarator: resolve_decl(&d.declarator, types),
                location_annotations: d.location_annotations.clone(),
                init: d.init.as_ref().map(|i| resolve_init(i, types)),
            })
            .collect(),
    }
}

/// what the type checker makes of the tree when exactly `types` are type names
pub fn resolve_stmt(s: &ast::Statement, types: &[ast::ScopedIdentifier]) -> ast::Statement {
    let ex = |e: &Located<ast::Expression>| loc(resolve(&e.node, types));
    let st = |x: &ast::Statement| Box::new(resolve_stmt(x, types));
    let kind = match &s.kind {
        ast::StatementKind::Expression(e) => ast::StatementKind::Expression(resolve(e, types)),
        ast::StatementKind::Var(v) => ast::StatementKind::Var(resolve_vardef(v, types)),
        ast::StatementKind::AmbiguousDeclarationOrExpression(v, e) => {
            // `parse_localtype(&vd.local_type)` succeeds: the name is a type
            if types.contains(&v.local_type.layout.0.clone().unlocate()) {
                ast::StatementKind::Var(resolve_vardef(v, types))
            } else {
                ast::StatementKind::Expression(resolve(e, types))
            }
        }
        ast::StatementKind::Block(b) => ast::StatementKind::Block(b.iter().map(|x| resolve_stmt(x, types)).collect()),
        ast::StatementKind::If(c, t) => ast::StatementKind::If(ex(c), st(t)),
        ast::StatementKind::IfElse(c, t, e) => ast::StatementKind::IfElse(ex(c), st(t), st(e)),
        ast::StatementKind::For(i, c, n, b) => ast::StatementKind::For(
            match i {
                ast::InitStatement::Empty => ast::InitStatement::Empty,
                ast::InitStatement::Expression(e) => ast::InitStatement::Expression(ex(e)),
                ast::InitStatement::Declaration(v) => ast::InitStatement::Declaration(resolve_vardef(v, types)),
            },
            c.as_ref().map(ex),
            n.as_ref().map(ex),
            st(b),
        ),
        ast::StatementKind::While(c, b) => ast::StatementKind::While(ex(c), st(b)),
        ast::StatementKind::DoWhile(b, c) => ast::StatementKind::DoWhile(st(b), ex(c)),
        ast::StatementKind::Switch(c, b) => ast::StatementKind::Switch(ex(c), st(b)),
        ast::StatementKind::Return(Some(e)) => ast::StatementKind::Return(Some(ex(e))),
        ast::StatementKind::CaseLabel(v, n) => ast::StatementKind::CaseLabel(ex(v), st(n)),
        ast::StatementKind::DefaultLabel(n) => ast::StatementKind::DefaultLabel(st(n)),
        other => other.clone(),
    };
    ast::Statement {
        kind,
        location: rssl_text::SourceLocation::UNKNOWN,
        attributes: s
            .attributes
            .iter()
            .map(|a| ast::Attribute {
                name: a.name.iter().map(|n| loc(n.node.clone())).collect(),
                arguments: a.arguments.iter().map(|e| loc(resolve(&e.node, types))).collect(),
                two_square_brackets: a.two_square_brackets,
            })
            .collect(),
    }
}

// ------------------------------------------------------------------------------------------ running one tree
pub fn collapse_ws(s: &str) -> String {
    s.split_whitespace().collect::<Vec<_>>().join(" ")
}

fn body_text(full: &str) -> String {
    let t = full.trim();
    match (t.find('{'), t.rfind('}')) {
        (Some(i), Some(j)) if i < j => collapse_ws(&t[i + 1..j]),
        _ => collapse_ws(t),
    }
}

fn put_stmt(m: &mut ast::Module, s: ast::Statement) -> Option<()> {
    match m.root_definitions.first_mut()? {
        ast::RootDefinition::Function(f) => {
            let b = f.body.as_mut()?;
            b.clear();
            b.push(s);
            Some(())
        }
        _ => None,
    }
}

fn get_stmt(m: &ast::Module) -> Result<ast::Statement, String> {
    if m.root_definitions.len() != 1 {
        return Err(format!("ERR:shape roots={}", m.root_definitions.len()));
    }
    match &m.root_definitions[0] {
        ast::RootDefinition::Function(f) => {
            let b = f.body.as_ref().ok_or("ERR:shape no-body")?;
            if b.len() != 1 {
                return Err(format!("ERR:shape statements={}", b.len()));
            }
            Ok(b[0].clone())
        }
        _ => Err("ERR:shape not-a-function".to_string()),
    }
}

pub fn run_stmt(tree: &SExp) -> Outcome {
    let s = match de_stmt(tree) {
        Some(s) => s,
        None => {
            return Outcome {
                obs: "bad-request".into(),
                oracle: "SKIP:bad tree".into(),
            };
        }
    };
    let mut module = match lex_parse("void f() { zz; }") {
        Ok(m) => m,
        Err(e) => {
            return Outcome {
                obs: "template".into(),
                oracle: format!("SKIP:template {}", e),
            };
        }
    };
    if put_stmt(&mut module, s.clone()).is_none() {
        return Outcome {
            obs: "template".into(),
            oracle: "SKIP:template shape".into(),
        };
    }
    let text = match guard(|| rssl_formatter::format(&module, rssl_formatter::Target::Hlsl)) {
        Ok(Ok(t)) => t,
        Ok(Err(_)) => {
            return Outcome {
                obs: "FMT-ERR".into(),
                oracle: "SKIP:tree has an ambiguous node (not printable)".into(),
            };
        }
        Err(p) => {
            return Outcome {
                obs: "FMT-PANIC".into(),
                oracle: format!("FAIL:panic {}", p),
            };
        }
    };
    let stext = body_text(&text);
    let original = ser_stmt(&s).show();
    let m2 = match guard(|| lex_parse(&text)) {
        Ok(Ok(m)) => m,
        Ok(Err(e)) => {
            return Outcome {
                obs: format!("{} ==> {}", stext, e),
                oracle: format!("FAIL:printed text is rejected ({})", e),
            };
        }
        Err(p) => {
            return Outcome {
                obs: format!("{} ==> PANIC", stext),
                oracle: format!("FAIL:panic {}", p),
            };
        }
    };
    let mut types = Vec::new();
    type_names_stmt(&s, &mut types);
    let s2 = match get_stmt(&m2) {
        Ok(x) => resolve_stmt(&x, &types),
        Err(e) => {
            return Outcome {
                obs: format!("{} ==> {}", stext, e),
                oracle: format!("FAIL:printed text reads back as another construct ({})", e),
            };
        }
    };
    let back_s = align(&ser_stmt(&s), &ser_stmt(&s2));
    let back = back_s.show();
    let obs = format!("{} ==> {}", stext, back);
    if back != original {
        return Outcome {
            obs,
            oracle: format!("FAIL:tree differs after print+parse [{}]", diff_sig(&ser_stmt(&s), &back_s)),
        };
    }
    let mut m3 = m2.clone();
    if put_stmt(&mut m3, s2).is_some() {
        match guard(|| rssl_formatter::format(&m3, rssl_formatter::Target::Hlsl)) {
            Ok(Ok(t2)) if t2 == text => {}
            Ok(Ok(_)) => {
                return Outcome {
                    obs,
                    oracle: "FAIL:second print differs from first".into(),
                };
            }
            _ => {
                return Outcome {
                    obs,
                    oracle: "FAIL:second print failed".into(),
                };
            }
        }
    }
    Outcome {
        obs,
        oracle: "ok".into(),
    }
}

/// greedy minimisation over statement structure: replace a statement by one of its sub-statements / by `;`,
/// drop attributes, drop block elements, simplify expressions to `(id a)`; keeps the failure kind
pub fn shrink_stmt(tree: &SExp, kind: &str) -> SExp {
    let mut tree = tree.clone();
    let mut budget = 400i32;
    let still = |t: &SExp, budget: &mut i32| -> bool {
        *budget -= 1;
        de_stmt(t).is_some() && fail_kind(&run_stmt(t).oracle) == kind
    };
    fn paths(s: &SExp, here: &mut Vec<usize>, out: &mut Vec<Vec<usize>>) {
        if let SExp::List(l) = s {
            out.push(here.clone());
            for (i, x) in l.iter().enumerate() {
                here.push(i);
                paths(x, here, out);
                here.pop();
            }
        }
    }
    let empty = parse_sexp("(st () (empty))").unwrap();
    let ida = parse_sexp("(id a)").unwrap();
    let mut progress = true;
    while progress && budget > 0 {
        progress = false;
        let mut ps = Vec::new();
        paths(&tree, &mut Vec::new(), &mut ps);
        'outer: for p in &ps {
            let node = at(&tree, p).clone();
            let mut cands: Vec<SExp> = Vec::new();
            if node.head() == Some("st") {
                if node != empty {
                    cands.push(empty.clone());
                }
                // sub-statements
                let mut sub = Vec::new();
                paths(&node, &mut Vec::new(), &mut sub);
                for q in sub.iter().filter(|q| !q.is_empty()) {
                    let x = at(&node, q);
                    if x.head() == Some("st") {
                        cands.push(x.clone());
                    }
                }
                // without attributes
                if let SExp::List(l) = &node {
                    if l.len() == 3 && l[1] != SExp::List(vec![]) {
                        cands.push(SExp::List(vec![l[0].clone(), SExp::List(vec![]), l[2].clone()]));
                    }
                }
            } else if is_expr_node(&node) && node != ida {
                cands.push(ida.clone());
                let mut sub = Vec::new();
                expr_paths(&node, &mut Vec::new(), &mut sub);
                for q in sub.iter().filter(|q| !q.is_empty()) {
                    cands.push(at(&node, q).clone());
                }
            }
            cands.sort_by_key(|c| c.size());
            for c in cands {
                if c.size() >= node.size() && c.show().len() >= node.show().len() {
                    continue;
                }
                let t2 = replace_at(&tree, p, &c);
                if t2 != tree && still(&t2, &mut budget) {
                    tree = t2;
                    progress = true;
                    break 'outer;
                }
                if budget <= 0 {
                    break 'outer;
                }
            }
            // drop an element of a block / declarator list / aggregate / argument list
            if let Some((last, parent)) = p.split_last() {
                let par = at(&tree, parent);
                if matches!(par.head(), Some("block") | Some("vd") | Some("agg")) && *last >= 1 {
                    let t2 = remove_at(&tree, p);
                    if still(&t2, &mut budget) {
                        tree = t2;
                        progress = true;
                        break 'outer;
                    }
                }
            }
        }
    }
    tree
}

// ------------------------------------------------------------------------------------------ generator
const KNOWN_TYPES: [&str; 11] = ["float", "uint", "int", "float4", "float3x3", "S", "bool", "vector", "matrix", "T", "N::S"];

fn known_types() -> Vec<ast::ScopedIdentifier> {
    KNOWN_TYPES
        .iter()
        .map(|n| ast::ScopedIdentifier {
            base: ast::ScopedIdentifierBase::Relative,
            identifiers: n.split("::").map(|p| loc(p.to_string())).collect(),
        })
        .collect()
}

/// statements of the functions of a parsed module, printable (ambiguous nodes resolved with the generator's type names)
pub fn statements_of(text: &str) -> Vec<SExp> {
    let m = match guard(|| lex_parse(text)) {
        Ok(Ok(m)) => m,
        _ => return Vec::new(),
    };
    let types = known_types();
    let mut out = Vec::new();
    for d in &m.root_definitions {
        if let ast::RootDefinition::Function(f) = d {
            if let Some(b) = &f.body {
                for s in b {
                    out.push(ser_stmt(&resolve_stmt(s, &types)));
                }
            }
        }
    }
    out
}

// ------------------------------------------------------------------------------------------ whole modules (source stream)
fn type_names_of_type(t: &ast::Type, out: &mut Vec<ast::ScopedIdentifier>) {
    type_names_type(
        &ast::TypeId {
            base: t.clone(),
            abstract_declarator: ast::Declarator::Empty,
        },
        out,
    );
}

fn type_names_function(f: &ast::FunctionDefinition, out: &mut Vec<ast::ScopedIdentifier>) {
    type_names_of_type(&f.returntype.return_type, out);
    for p in &f.params {
        type_names_of_type(&p.param_type, out);
        type_names_decl(&p.declarator, out);
        if let Some(e) = &p.default_expr {
            type_names_expr(e, out);
        }
    }
    if let Some(b) = &f.body {
        b.iter().for_each(|s| type_names_stmt(s, out));
    }
}

/// names used as types anywhere in the module
pub fn type_names_module(defs: &[ast::RootDefinition], out: &mut Vec<ast::ScopedIdentifier>) {
    for d in defs {
        match d {
            ast::RootDefinition::Function(f) => type_names_function(f, out),
            ast::RootDefinition::Struct(s) => {
                for b in &s.base_types {
                    type_names_of_type(b, out);
                }
                for m in &s.members {
                    match m {
                        ast::StructEntry::Variable(v) => type_names_of_type(&v.ty, out),
                        ast::StructEntry::Method(f) => type_names_function(f, out),
                    }
                }
            }
            ast::RootDefinition::GlobalVariable(g) => type_names_of_type(&g.global_type, out),
            ast::RootDefinition::ConstantBuffer(c) => c.members.iter().for_each(|m| type_names_of_type(&m.ty, out)),
            ast::RootDefinition::Namespace(_, inner) => type_names_module(inner, out),
            _ => {}
        }
    }
}

fn resolve_function(f: &ast::FunctionDefinition, types: &[ast::ScopedIdentifier]) -> ast::FunctionDefinition {
    let mut f = f.clone();
    f.returntype.return_type = resolve_plain_type(&f.returntype.return_type, types);
    for p in f.params.iter_mut() {
        p.param_type = resolve_plain_type(&p.param_type, types);
        p.declarator = resolve_decl(&p.declarator, types);
        p.default_expr = p.default_expr.as_ref().map(|e| resolve(e, types));
    }
    if let Some(b) = &f.body {
        f.body = Some(b.iter().map(|s| resolve_stmt_keep(s, types)).collect());
    }
    f
}

/// `resolve_stmt` restricted to what matters for a parser-produced tree: the statement-level ambiguity and the
/// expression-level ambiguity nodes; everything else (locations included) stays as it is
fn resolve_stmt_keep(s: &ast::Statement, types: &[ast::ScopedIdentifier]) -> ast::Statement {
    let mut r = resolve_stmt(s, types);
    r.location = s.location;
    r
}

/// the module as the type checker reads it when exactly `types` are type names (function bodies; the template arguments
/// of the types of signatures, struct bases / members and globals)
pub fn resolve_module(defs: &[ast::RootDefinition], types: &[ast::ScopedIdentifier]) -> Vec<ast::RootDefinition> {
    defs.iter()
        .map(|d| match d {
            ast::RootDefinition::Function(f) => ast::RootDefinition::Function(resolve_function(f, types)),
            ast::RootDefinition::Struct(s) => {
                let mut s = s.clone();
                s.base_types = s.base_types.iter().map(|b| resolve_plain_type(b, types)).collect();
                s.members = s
                    .members
                    .iter()
                    .map(|m| match m {
                        ast::StructEntry::Method(f) => ast::StructEntry::Method(resolve_function(f, types)),
                        ast::StructEntry::Variable(v) => {
                            let mut v = v.clone();
                            v.ty = resolve_plain_type(&v.ty, types);
                            for d in v.defs.iter_mut() {
                                d.declarator = resolve_decl(&d.declarator, types);
                                d.init = d.init.as_ref().map(|i| resolve_init(i, types));
                            }
                            ast::StructEntry::Variable(v)
                        }
                    })
                    .collect();
                ast::RootDefinition::Struct(s)
            }
            ast::RootDefinition::GlobalVariable(g) => {
                let mut g = g.clone();
                g.global_type = resolve_plain_type(&g.global_type, types);
                // initialisers and array sizes are expressions: `static const T g = f<(n)>();` prints `f<n>()`, which reads
                // back as `Either` (compared as the expression, like everywhere else)
                for d in g.defs.iter_mut() {
                    d.declarator = resolve_decl(&d.declarator, types);
                    d.init = d.init.as_ref().map(|i| resolve_init(i, types));
                }
                ast::RootDefinition::GlobalVariable(g)
            }
            ast::RootDefinition::Enum(e) => {
                // `B = sizeof((a))` prints `sizeof(a)`: `Either`, compared as the expression
                let mut e = e.clone();
                for v in e.values.iter_mut() {
                    v.value = v.value.as_ref().map(|x| loc(resolve(&x.node, types)));
                }
                ast::RootDefinition::Enum(e)
            }
            ast::RootDefinition::Namespace(n, inner) => {
                ast::RootDefinition::Namespace(n.clone(), resolve_module(inner, types))
            }
            other => other.clone(),
        })
        .collect()
}

// ------------------------------------------------------------------------------------------ function and struct definitions as trees
fn sem_name(s: &ast::Semantic) -> String {
    match s {
        ast::Semantic::DispatchThreadId => "SV_DispatchThreadID".into(),
        ast::Semantic::GroupId => "SV_GroupID".into(),
        ast::Semantic::GroupIndex => "SV_GroupIndex".into(),
        ast::Semantic::GroupThreadId => "SV_GroupThreadID".into(),
        ast::Semantic::VertexId => "SV_VertexID".into(),
        ast::Semantic::InstanceId => "SV_InstanceID".into(),
        ast::Semantic::PrimitiveId => "SV_PrimitiveID".into(),
        ast::Semantic::Position => "SV_Position".into(),
        ast::Semantic::Target(i) => format!("SV_Target{}", i),
        ast::Semantic::Depth => "SV_Depth".into(),
        ast::Semantic::DepthGreaterEqual => "SV_DepthGreaterEqual".into(),
        ast::Semantic::DepthLessEqual => "SV_DepthLessEqual".into(),
        ast::Semantic::User(s) => s.clone(),
    }
}

fn sem_of(name: &str) -> ast::Semantic {
    match name.to_lowercase().as_str() {
        "sv_dispatchthreadid" => ast::Semantic::DispatchThreadId,
        "sv_groupid" => ast::Semantic::GroupId,
        "sv_groupindex" => ast::Semantic::GroupIndex,
        "sv_groupthreadid" => ast::Semantic::GroupThreadId,
        "sv_vertexid" => ast::Semantic::VertexId,
        "sv_instanceid" => ast::Semantic::InstanceId,
        "sv_primitiveid" => ast::Semantic::PrimitiveId,
        "sv_position" => ast::Semantic::Position,
        "sv_target" => ast::Semantic::Target(0),
        "sv_depth" => ast::Semantic::Depth,
        "sv_depthgreaterequal" => ast::Semantic::DepthGreaterEqual,
        "sv_depthlessequal" => ast::Semantic::DepthLessEqual,
        l if l.starts_with("sv_target") && l.len() == 10 && l.as_bytes()[9].is_ascii_digit() && l.as_bytes()[9] < b'8' => {
            ast::Semantic::Target(l.as_bytes()[9] - b'0')
        }
        _ => ast::Semantic::User(name.to_string()),
    }
}

/// `(nosem)` / `(sem NAME)`; anything else (register, several annotations) = `(annot)` (outside the model)
fn ser_annots(a: &[ast::LocationAnnotation]) -> SExp {
    match a {
        [] => none_list("nosem"),
        [ast::LocationAnnotation::Semantic(s)] => SExp::list("sem", vec![SExp::atom(&sem_name(s))]),
        _ => none_list("annot"),
    }
}

fn de_annots(s: &SExp) -> Option<Vec<ast::LocationAnnotation>> {
    match s.head()? {
        "nosem" => Some(Vec::new()),
        "sem" => Some(vec![ast::LocationAnnotation::Semantic(sem_of(s.args().first()?.as_atom()?))]),
        _ => None,
    }
}

pub fn ser_function(f: &ast::FunctionDefinition) -> SExp {
    let params: Vec<SExp> = f
        .params
        .iter()
        .map(|p| {
            SExp::list(
                "param",
                vec![
                    ser_type_nodecl(&p.param_type),
                    ser_declarator(&p.declarator),
                    ser_annots(&p.location_annotations),
                    match &p.default_expr {
                        None => none_list("nodef"),
                        Some(e) => SExp::list("def", vec![ser_expr(e)]),
                    },
                ],
            )
        })
        .collect();
    let mut flags = Vec::new();
    if !f.template_params.0.is_empty() {
        flags.push(SExp::atom("template"));
    }
    if f.is_const {
        flags.push(SExp::atom("const"));
    }
    if f.is_volatile {
        flags.push(SExp::atom("volatile"));
    }
    SExp::list(
        "fn",
        vec![
            SExp::List(f.attributes.iter().map(ser_attr).collect()),
            ser_type_nodecl(&f.returntype.return_type),
            SExp::atom(&f.name.node),
            SExp::List(params),
            ser_annots(&f.returntype.location_annotations),
            match &f.body {
                None => none_list("nobody"),
                Some(b) => SExp::list("body", b.iter().map(ser_stmt).collect()),
            },
            SExp::List(flags),
        ],
    )
}

pub fn de_function(s: &SExp) -> Option<ast::FunctionDefinition> {
    if s.head()? != "fn" {
        return None;
    }
    let a = s.args();
    let mut attributes = Vec::new();
    for x in a.first()?.as_list()? {
        attributes.push(de_attr(x)?);
    }
    let ret = de_type_nodecl(a.get(1)?)?;
    let name = a.get(2)?.as_atom()?.to_string();
    let mut params = Vec::new();
    for p in a.get(3)?.as_list()? {
        if p.head()? != "param" {
            return None;
        }
        let q = p.args();
        params.push(ast::FunctionParam {
            param_type: de_type_nodecl(q.first()?)?,
            declarator: de_declarator(q.get(1)?)?,
            location_annotations: de_annots(q.get(2)?)?,
            default_expr: match q.get(3)?.head()? {
                "nodef" => None,
                "def" => Some(de_expr(q.get(3)?.args().first()?)?),
                _ => return None,
            },
        });
    }
    let annots = de_annots(a.get(4)?)?;
    let body = match a.get(5)?.head()? {
        "nobody" => None,
        "body" => {
            let mut v = Vec::new();
            for x in a.get(5)?.args() {
                v.push(de_stmt(x)?);
            }
            Some(v)
        }
        _ => return None,
    };
    if !a.get(6)?.as_list()?.is_empty() {
        return None; // template parameters / const / volatile methods: outside the request language
    }
    Some(ast::FunctionDefinition {
        name: loc(name),
        returntype: ast::FunctionReturn {
            return_type: ret,
            location_annotations: annots,
        },
        template_params: ast::TemplateParamList(Vec::new()),
        params,
        is_const: false,
        is_volatile: false,
        body,
        attributes,
    })
}

pub fn ser_struct(d: &ast::StructDefinition) -> SExp {
    let members: Vec<SExp> = d
        .members
        .iter()
        .map(|m| match m {
            ast::StructEntry::Variable(v) => {
                let vd = ast::VarDef {
                    local_type: v.ty.clone(),
                    defs: v.defs.clone(),
                };
                SExp::list("member", vec![SExp::List(v.attributes.iter().map(ser_attr).collect()), ser_vardef(&vd)])
            }
            ast::StructEntry::Method(f) => SExp::list("method", vec![ser_function(f)]),
        })
        .collect();
    let mut flags = Vec::new();
    if !d.template_params.0.is_empty() {
        flags.push(SExp::atom("template"));
    }
    if !d.base_types.is_empty() {
        // printed since 2e907a1: ` : A, B<…>`
        flags.push(SExp::list("bases", d.base_types.iter().map(ser_type_nodecl).collect()));
    }
    SExp::list("struct", vec![SExp::atom(&d.name.node), SExp::List(members), SExp::List(flags)])
}

pub fn de_struct(s: &SExp) -> Option<ast::StructDefinition> {
    if s.head()? != "struct" {
        return None;
    }
    let a = s.args();
    let name = a.first()?.as_atom()?.to_string();
    let mut members = Vec::new();
    for m in a.get(1)?.as_list()? {
        match m.head()? {
            "member" => {
                let mut attributes = Vec::new();
                for x in m.args().first()?.as_list()? {
                    attributes.push(de_attr(x)?);
                }
                let vd = de_vardef(m.args().get(1)?)?;
                members.push(ast::StructEntry::Variable(ast::StructMember {
                    ty: vd.local_type,
                    defs: vd.defs,
                    attributes,
                }));
            }
            "method" => members.push(ast::StructEntry::Method(de_function(m.args().first()?)?)),
            _ => return None,
        }
    }
    let mut base_types = Vec::new();
    for f in a.get(2)?.as_list()? {
        if f.head()? != "bases" || !base_types.is_empty() {
            return None; // template parameters: outside the request language
        }
        for t in f.args() {
            base_types.push(de_type_nodecl(t)?);
        }
        if base_types.is_empty() {
            return None;
        }
    }
    Some(ast::StructDefinition {
        name: loc(name),
        base_types,
        template_params: ast::TemplateParamList(Vec::new()),
        members,
    })
}

fn ser_def(d: &ast::RootDefinition) -> Option<SExp> {
    match d {
        ast::RootDefinition::Function(f) => Some(ser_function(f)),
        ast::RootDefinition::Struct(s) => Some(ser_struct(s)),
        _ => None,
    }
}

fn de_def(s: &SExp) -> Option<ast::RootDefinition> {
    match s.head()? {
        "fn" => Some(ast::RootDefinition::Function(de_function(s)?)),
        "struct" => Some(ast::RootDefinition::Struct(de_struct(s)?)),
        _ => None,
    }
}

/// `C09.def <tree>`: a function or struct definition as the only root definition of a module
pub fn run_def(tree: &SExp) -> Outcome {
    let d = match de_def(tree) {
        Some(d) => d,
        None => {
            return Outcome {
                obs: "bad-request".into(),
                oracle: "SKIP:bad tree".into(),
            };
        }
    };
    let module = ast::Module {
        root_definitions: vec![d.clone()],
    };
    let text = match guard(|| rssl_formatter::format(&module, rssl_formatter::Target::Hlsl)) {
        Ok(Ok(t)) => t,
        Ok(Err(_)) => {
            return Outcome {
                obs: "FMT-ERR".into(),
                oracle: "SKIP:tree has an ambiguous node (not printable)".into(),
            };
        }
        Err(p) => {
            return Outcome {
                obs: "FMT-PANIC".into(),
                oracle: format!("FAIL:panic {}", p),
            };
        }
    };
    let stext = collapse_ws(&text);
    let original = ser_def(&d).map(|s| s.show()).unwrap_or_default();
    let m2 = match guard(|| lex_parse(&text)) {
        Ok(Ok(m)) => m,
        Ok(Err(e)) => {
            return Outcome {
                obs: format!("{} ==> {}", stext, e),
                oracle: format!("FAIL:printed text is rejected ({})", e),
            };
        }
        Err(p) => {
            return Outcome {
                obs: format!("{} ==> PANIC", stext),
                oracle: format!("FAIL:panic {}", p),
            };
        }
    };
    let mut types = Vec::new();
    type_names_module(&module.root_definitions, &mut types);
    let r2 = resolve_module(&m2.root_definitions, &types);
    if r2.len() != 1 {
        return Outcome {
            obs: format!("{} ==> ERR:shape roots={}", stext, r2.len()),
            oracle: "FAIL:printed text reads back as another construct".into(),
        };
    }
    let back_s = match ser_def(&r2[0]) {
        Some(b) => align(&ser_def(&d).unwrap(), &b),
        None => {
            return Outcome {
                obs: format!("{} ==> ERR:shape kind", stext),
                oracle: "FAIL:printed text reads back as another construct".into(),
            };
        }
    };
    let back = back_s.show();
    let obs = format!("{} ==> {}", stext, back);
    if back != original {
        return Outcome {
            obs,
            oracle: format!("FAIL:tree differs after print+parse [{}]", diff_sig(&ser_def(&d).unwrap(), &back_s)),
        };
    }
    let m3 = ast::Module { root_definitions: r2 };
    match guard(|| rssl_formatter::format(&m3, rssl_formatter::Target::Hlsl)) {
        Ok(Ok(t2)) if t2 == text => Outcome {
            obs,
            oracle: "ok".into(),
        },
        _ => Outcome {
            obs,
            oracle: "FAIL:second print differs from first".into(),
        },
    }
}

/// the function and struct definitions of a parsed module that lie in the request language, bodies resolved
pub fn defs_of(text: &str) -> Vec<SExp> {
    let m = match guard(|| lex_parse(text)) {
        Ok(Ok(m)) => m,
        _ => return Vec::new(),
    };
    let types = known_types();
    let mut out = Vec::new();
    fn walk(defs: &[ast::RootDefinition], types: &[ast::ScopedIdentifier], out: &mut Vec<SExp>) {
        for d in resolve_module(defs, types) {
            match &d {
                ast::RootDefinition::Namespace(_, inner) => walk(inner, types, out),
                _ => {
                    if let Some(s) = ser_def(&d) {
                        if de_def(&s).is_some() {
                            out.push(s);
                        }
                    }
                }
            }
        }
    }
    walk(&m.root_definitions, &types, &mut out);
    out
}

import RsslVerif.Lemmas.ElabSoundX
import RsslVerif.Spec.ElabX
/-! Lemmas for C03, statements: the typing judgment and the typed-statement predicates are monotone in the environment
(registering more variables keeps everything typed); initialisers, definitions and statements elaborate to typed ones.
Core Lean only. -/
namespace RsslVerif.Lemmas.StmtX
open RsslVerif.Gen.RankTable RsslVerif.Gen.TypingTables RsslVerif.Model.Conv RsslVerif.Model.Overload
open RsslVerif.Model.IrTyping (FuncSig opReturn boolOf)
open RsslVerif.Model.Elab (Err)
open RsslVerif.Model.IrTypingX RsslVerif.Model.ElabX RsslVerif.Model.StmtX RsslVerif.Spec.ElabX
open RsslVerif.Lemmas.ElabConv RsslVerif.Lemmas.ElabX RsslVerif.Lemmas.ElabFormsX RsslVerif.Lemmas.ElabExactX
open RsslVerif.Lemmas.ElabSoundX

/-! ## environments -/

theorem extends_refl (Γ : Env) : Extends Γ Γ := ⟨rfl, rfl, rfl, [], by simp⟩

theorem extends_trans {Γ1 Γ2 Γ3 : Env} (h12 : Extends Γ1 Γ2) (h23 : Extends Γ2 Γ3) : Extends Γ1 Γ3 := by
  obtain ⟨f1, o1, r1, e1, v1⟩ := h12
  obtain ⟨f2, o2, r2, e2, v2⟩ := h23
  exact ⟨f2.trans f1, o2.trans o1, r2.trans r1, e1 ++ e2, by rw [v2, v1, List.append_assoc]⟩

theorem extends_popScope (Γ : Env) (m : Nat) : Extends Γ (popScope Γ m) := ⟨rfl, rfl, rfl, [], by simp [popScope]⟩

theorem extends_of_popScope (Γ : Env) (m : Nat) : Extends (popScope Γ m) Γ := ⟨rfl, rfl, rfl, [], by simp [popScope]⟩

theorem extends_pushVar (Γ : Env) (t : Ty) : Extends Γ (pushVar Γ t) := ⟨rfl, rfl, rfl, [t], by simp [pushVar]⟩

theorem getElem?_append_some {α : Type} {l : List α} {i : Nat} {a : α} (ext : List α) (h : l[i]? = some a) :
    (l ++ ext)[i]? = some a := by
  have hlt : i < l.length := by
    rcases Nat.lt_or_ge i l.length with hl | hl
    · exact hl
    · rw [List.getElem?_eq_none hl] at h; simp at h
  rw [List.getElem?_append_left hlt]; exact h

mutual
/-- registering more variables keeps every expression typed at the same type -/
theorem hasType_mono {Γ Γ' : Env} (hx : Extends Γ Γ') : ∀ (e : IExpr) (τ : ETy), HasType Γ e τ → HasType Γ' e τ
  | .lit k, _, h => by cases h; exact .lit k
  | .var i, _, h => by
    cases h with
    | var hv =>
      obtain ⟨_, _, _, ext, hvars⟩ := hx
      exact .var (by rw [hvars]; exact getElem?_append_some ext hv)
  | .tern c a b, _, h => by
    cases h with
    | tern hc ha hb hl => exact .tern (hasType_mono hx c _ hc) (hasType_mono hx a _ ha) (hasType_mono hx b _ hb) hl
  | .seq a b, _, h => by
    cases h with
    | seq ha hb => exact .seq (hasType_mono hx a _ ha) (hasType_mono hx b _ hb)
  | .call f args, _, h => by
    cases h with
    | call hf ha => exact .call (by rw [hx.1]; exact hf) (hasArgs_mono hx args _ ha)
  | .cast t e, _, h => by
    cases h with
    | cast he => exact .cast (hasType_mono hx e _ he)
  | .op o args, _, h => by
    cases h with
    | op ha hr => exact .op (hasArgs_mono hx args _ ha) hr
  | .swizzle e slots, _, h => by
    cases h with
    | swizzleS he hl hn h4 hb => exact .swizzleS (hasType_mono hx e _ he) hl hn h4 hb
    | swizzleV he hl hn h4 hb => exact .swizzleV (hasType_mono hx e _ he) hl hn h4 hb
  | .mswizzle e slots, _, h => by
    cases h with
    | mswizzle he hl hn h4 hb => exact .mswizzle (hasType_mono hx e _ he) hl hn h4 hb
  | .index a i, _, h => by
    cases h with
    | indexV ha hi hl => exact .indexV (hasType_mono hx a _ ha) (hasType_mono hx i _ hi) hl
    | indexM ha hi hl => exact .indexM (hasType_mono hx a _ ha) (hasType_mono hx i _ hi) hl
    | indexA ha hi hl ho => exact .indexA (hasType_mono hx a _ ha) (hasType_mono hx i _ hi) hl (by rw [hx.2.1]; exact ho)
    | indexR ha hi hl ho hr =>
      exact .indexR (hasType_mono hx a _ ha) (hasType_mono hx i _ hi) hl (by rw [hx.2.1]; exact ho) hr
  | .member e sid idx, _, h => by
    cases h with
    | member he hl ho hm => exact .member (hasType_mono hx e _ he) hl (by rw [hx.2.1]; exact ho) hm
  | .ctor t ar args, _, h => by
    cases h with
    | ctor ha hs hok hsum => exact .ctor (hasArgs_mono hx args _ ha) hs hok hsum
theorem hasArgs_mono {Γ Γ' : Env} (hx : Extends Γ Γ') : ∀ (as : IArgs) (ts : List ETy), HasArgs Γ as ts → HasArgs Γ' as ts
  | .nil, _, h => by cases h; exact .nil
  | .cons e r, _, h => by
    cases h with
    | cons he hr => exact .cons (hasType_mono hx e _ he) (hasArgs_mono hx r _ hr)
end

theorem typed_mono {Γ Γ' : Env} (hx : Extends Γ Γ') {e : IExpr} (h : ∃ τ, HasType Γ e τ) : ∃ τ, HasType Γ' e τ := by
  obtain ⟨τ, h⟩ := h; exact ⟨τ, hasType_mono hx e τ h⟩

mutual
theorem initTyped_mono {Γ Γ' : Env} (hx : Extends Γ Γ') : ∀ (i : IInit) (t : Ty), InitTyped Γ t i → InitTyped Γ' t i
  | .expr e, t, h => by
    simp only [InitTyped] at h ⊢
    obtain ⟨τ, h1, h2⟩ := h
    exact ⟨τ, hasType_mono hx e τ h1, h2⟩
  | .agg items, t, h => by
    simp only [InitTyped] at h ⊢
    rw [hx.2.1]
    generalize t.layer = l at h ⊢
    cases l with
    | vector s n => exact initsSame_mono hx items _ _ h
    | other k =>
      simp only at h ⊢
      generalize Γ.others[k]? = o at h ⊢
      cases o with
      | none => exact h.elim
      | some d =>
        cases d with
        | array elem len => exact initsSame_mono hx items _ _ h
        | struct ms => exact initsZip_mono hx items _ h
        | void => exact h.elim
        | object => exact h.elim
        | resource _ _ => exact h.elim
    | scalar _ => exact h.elim
    | matrix _ _ _ => exact h.elim
    | enum _ => exact h.elim
theorem initsSame_mono {Γ Γ' : Env} (hx : Extends Γ Γ') : ∀ (is : IInits) (t : Ty) (n : Nat),
    InitsSame Γ t n is → InitsSame Γ' t n is
  | .nil, t, 0, _ => by simp [InitsSame]
  | .nil, t, n + 1, h => by simp [InitsSame] at h
  | .cons i r, t, 0, h => by simp [InitsSame] at h
  | .cons i r, t, n + 1, h => by
    simp only [InitsSame] at h ⊢
    exact ⟨initTyped_mono hx i t h.1, initsSame_mono hx r t n h.2⟩
theorem initsZip_mono {Γ Γ' : Env} (hx : Extends Γ Γ') : ∀ (is : IInits) (ts : List Ty),
    InitsZip Γ ts is → InitsZip Γ' ts is
  | .nil, [], _ => by simp [InitsZip]
  | .nil, _ :: _, h => by simp [InitsZip] at h
  | .cons i r, [], h => by simp [InitsZip] at h
  | .cons i r, t :: ts, h => by
    simp only [InitsZip] at h ⊢
    exact ⟨initTyped_mono hx i t h.1, initsZip_mono hx r ts h.2⟩
end

theorem declTyped_mono {Γ Γ' : Env} (hx : Extends Γ Γ') {t : Ty} {id : Nat} {init : Option IInit}
    (h : DeclTyped Γ t id init) : DeclTyped Γ' t id init := by
  obtain ⟨hv, hi⟩ := h
  have hx' := hx
  obtain ⟨_, _, _, ext, hvars⟩ := hx'
  refine ⟨by rw [hvars]; exact getElem?_append_some ext hv, ?_⟩
  cases init with
  | none => trivial
  | some i => exact initTyped_mono hx i t hi

theorem optTyped_mono {Γ Γ' : Env} (hx : Extends Γ Γ') {e : Option IExpr} (h : OptTyped Γ e) : OptTyped Γ' e := by
  cases e with
  | none => trivial
  | some e => exact typed_mono hx h

theorem retExact_mono {Γ Γ' : Env} (hx : Extends Γ Γ') {τ : ETy} (h : RetExact Γ τ) : RetExact Γ' τ := by
  unfold RetExact at h ⊢
  rw [hx.2.2.1, hx.2.1]; exact h

mutual
theorem stmtTyped_mono {Γ Γ' : Env} (hx : Extends Γ Γ') : ∀ (s : IStmt), StmtTyped Γ s → StmtTyped Γ' s
  | .expr e, h => by simp only [StmtTyped] at h ⊢; exact typed_mono hx h
  | .ret none, h => by simp only [StmtTyped] at h ⊢; rw [hx.2.2.1]; exact h
  | .ret (some e), h => by
    simp only [StmtTyped] at h ⊢
    obtain ⟨τ, h1, h2⟩ := h
    exact ⟨τ, hasType_mono hx e τ h1, retExact_mono hx h2⟩
  | .decl t id init, h => by simp only [StmtTyped] at h ⊢; exact declTyped_mono hx h
  | .block ss, h => by simp only [StmtTyped] at h ⊢; exact stmtsTyped_mono hx ss h
  | .ifS c b, h => by simp only [StmtTyped] at h ⊢; exact ⟨typed_mono hx h.1, stmtsTyped_mono hx b h.2⟩
  | .ifElse c a b, h => by
    simp only [StmtTyped] at h ⊢
    exact ⟨typed_mono hx h.1, stmtsTyped_mono hx a h.2.1, stmtsTyped_mono hx b h.2.2⟩
  | .forS init c n b, h => by
    simp only [StmtTyped] at h ⊢
    refine ⟨?_, optTyped_mono hx h.2.1, optTyped_mono hx h.2.2.1, stmtsTyped_mono hx b h.2.2.2⟩
    cases init with
    | none => trivial
    | expr e => exact typed_mono hx h.1
    | decl t id i => exact declTyped_mono hx h.1
  | .whileS c b, h => by simp only [StmtTyped] at h ⊢; exact ⟨typed_mono hx h.1, stmtsTyped_mono hx b h.2⟩
  | .doS b c, h => by simp only [StmtTyped] at h ⊢; exact ⟨stmtsTyped_mono hx b h.1, typed_mono hx h.2⟩
  | .switchS c b, h => by simp only [StmtTyped] at h ⊢; exact ⟨typed_mono hx h.1, stmtsTyped_mono hx b h.2⟩
  | .caseLabel, _ => by simp [StmtTyped]
  | .defaultLabel, _ => by simp [StmtTyped]
  | .breakS, _ => by simp [StmtTyped]
  | .continueS, _ => by simp [StmtTyped]
  | .discardS, _ => by simp [StmtTyped]
theorem stmtsTyped_mono {Γ Γ' : Env} (hx : Extends Γ Γ') : ∀ (ss : IStmts), StmtsTyped Γ ss → StmtsTyped Γ' ss
  | .nil, _ => by simp [StmtsTyped]
  | .cons s r, h => by
    simp only [StmtsTyped] at h ⊢
    exact ⟨stmtTyped_mono hx s h.1, stmtsTyped_mono hx r h.2⟩
end

theorem stmtsTyped_append {Γ : Env} : ∀ (a b : IStmts), StmtsTyped Γ a → StmtsTyped Γ b → StmtsTyped Γ (a.append b)
  | .nil, b, _, hb => by simpa [IStmts.append] using hb
  | .cons s r, b, ha, hb => by
    simp only [IStmts.append, StmtsTyped] at ha ⊢
    exact ⟨ha.1, stmtsTyped_append r b ha.2 hb⟩

theorem stmtsTyped_one {Γ : Env} {s : IStmt} (h : StmtTyped Γ s) : StmtsTyped Γ (.one s) := by
  simp only [IStmts.one, StmtsTyped]; exact ⟨h, trivial⟩

/-! ## expressions at statement level -/

variable {Γ : Env}

theorem elabTop_sound {dbg : Bool} {e : SExpr} {e' : IExpr} {τ : ETy}
    (h : elabTop dbg Γ e = .ok (e', τ)) : HasType Γ e' τ := by
  unfold elabTop at h
  split at h
  · simp at h
  · rename_i e1 τ1 h1
    obtain ⟨rfl, rfl⟩ := selfCheck_type h
    exact elab_sound_any dbg e _ _ h1

theorem elabOpt_sound {dbg : Bool} {e : Option SExpr} {e' : Option IExpr} (h : elabOpt dbg Γ e = .ok e') :
    OptTyped Γ e' := by
  cases e with
  | none => simp [elabOpt] at h; subst h; trivial
  | some e =>
    simp only [elabOpt] at h
    split at h
    · simp at h
    · rename_i e1 τ1 h1
      simp at h; subst h
      exact ⟨τ1, elabTop_sound h1⟩

/-! ## initialisers -/

theorem initTyped_congr {t t' : Ty} (hl : t.layer = t'.layer) : ∀ (i : IInit), InitTyped Γ t i → InitTyped Γ t' i
  | .expr e, h => by
    simp only [InitTyped] at h ⊢
    obtain ⟨τ, h1, h2⟩ := h
    exact ⟨τ, h1, by rw [h2]; simp [Ty.unmod, hl]⟩
  | .agg items, h => by
    simp only [InitTyped] at h ⊢
    rw [← hl]; exact h

theorem elabInitExpr_sound {dbg : Bool} {t : Ty} {e : SExpr} {e' : IExpr} (h : elabInitExpr dbg Γ t e = .ok e') :
    ∃ τ, HasType Γ e' τ ∧ τ.ty = t.unmod := by
  unfold elabInitExpr at h
  split at h
  · simp at h
  · rename_i e1 τ1 h1
    split at h
    · simp at h
    · simp at h
    · rename_i c hf
      obtain ⟨τ', ht, hty, _⟩ := applyConv_type (elabTop_sound h1) hf h
      exact ⟨τ', ht, by simpa [Ty.r] using hty⟩

theorem sinits_length_zero : ∀ (is : SInits), is.length = 0 → is = .nil
  | .nil, _ => rfl
  | .cons _ r, h => by simp [SInits.length] at h

mutual
/-- `parse_initializer` produces a typed initialiser for the type it is given -/
theorem elabInit_sound (dbg : Bool) : ∀ (i : SInit) (t : Ty) (i' : IInit),
    elabInit dbg Γ t i = .ok i' → InitTyped Γ t i'
  | .expr e, t, i', h => by
    simp only [elabInit] at h
    split at h
    · simp at h
    · rename_i e' he
      simp at h; subst h
      simp only [InitTyped]
      exact elabInitExpr_sound he
  | .agg items, t, i', h => by
    simp only [elabInit] at h
    split at h
    · -- scalar: `{ x }` is read as `x`
      rename_i s hl
      split at h
      · rename_i i0
        have ih := elabInit_sound dbg i0 ⟨{}, .scalar s⟩ i' h
        exact initTyped_congr (by simp [hl]) i' ih
      · simp at h
    · rename_i s n hl
      split at h
      · simp at h
      · rename_i hlen
        split at h
        · simp at h
        · rename_i is his
          simp at h; subst h
          simp only [InitTyped, hl]
          exact elabInitsSame_sound dbg items _ n is (by simpa using hlen) his
    · rename_i id hl
      split at h
      · rename_i elem len ho
        split at h
        · simp at h
        · rename_i hlen
          split at h
          · simp at h
          · rename_i is his
            simp at h; subst h
            simp only [InitTyped, hl, ho]
            exact elabInitsSame_sound dbg items _ len is (by simpa using hlen) his
      · rename_i ms ho
        split at h
        · simp at h
        · rename_i hlen
          split at h
          · simp at h
          · rename_i is his
            simp at h; subst h
            simp only [InitTyped, hl, ho]
            exact elabInitsZip_sound dbg items _ is (by simpa using hlen) his
      · simp at h
      · simp at h
    · simp at h
theorem elabInitsSame_sound (dbg : Bool) : ∀ (is : SInits) (t : Ty) (n : Nat) (is' : IInits),
    is.length = n → elabInitsSame dbg Γ t is = .ok is' → InitsSame Γ t n is'
  | .nil, t, n, is', hn, h => by
    simp only [elabInitsSame] at h
    simp at h; subst h
    simp [SInits.length] at hn; subst hn
    simp [InitsSame]
  | .cons i r, t, n, is', hn, h => by
    simp only [elabInitsSame] at h
    split at h
    · simp at h
    · rename_i i1 hi
      split at h
      · simp at h
      · rename_i r1 hr
        simp at h; subst h
        simp only [SInits.length] at hn
        subst hn
        simp only [InitsSame]
        exact ⟨elabInit_sound dbg i t i1 hi, elabInitsSame_sound dbg r t _ r1 rfl hr⟩
theorem elabInitsZip_sound (dbg : Bool) : ∀ (is : SInits) (ts : List Ty) (is' : IInits),
    is.length = ts.length → elabInitsZip dbg Γ ts is = .ok is' → InitsZip Γ ts is'
  | .nil, [], is', _, h => by
    simp only [elabInitsZip] at h
    simp at h; subst h; simp [InitsZip]
  | .nil, _ :: _, is', hn, _ => by simp [SInits.length] at hn
  | .cons _ _, [], is', hn, _ => by simp [SInits.length] at hn
  | .cons i r, t :: ts, is', hn, h => by
    simp only [elabInitsZip] at h
    split at h
    · simp at h
    · rename_i i1 hi
      split at h
      · simp at h
      · rename_i r1 hr
        simp at h; subst h
        simp only [SInits.length, List.length_cons, Nat.add_right_cancel_iff] at hn
        simp only [InitsZip]
        exact ⟨elabInit_sound dbg i t i1 hi, elabInitsZip_sound dbg r ts r1 hn hr⟩
end

/-! ## definitions, returns -/

theorem elabDecl_sound {dbg : Bool} {t : Ty} {init : Option SInit} {i' : Option IInit} {id : Nat} {Γ' : Env}
    (h : elabDecl dbg Γ t init = .ok (i', id, Γ')) : Extends Γ Γ' ∧ DeclTyped Γ' t id i' := by
  unfold elabDecl at h
  split at h
  · simp at h
  · cases init with
    | none =>
      simp at h; obtain ⟨rfl, rfl, rfl⟩ := h
      exact ⟨extends_pushVar Γ t, by simp [pushVar], trivial⟩
    | some i =>
      simp only at h
      split at h
      · simp at h
      · rename_i i1 hi
        simp at h; obtain ⟨rfl, rfl, rfl⟩ := h
        refine ⟨extends_pushVar Γ t, by simp [pushVar], ?_⟩
        exact initTyped_mono (extends_pushVar Γ t) i1 t (elabInit_sound dbg i t i1 hi)

theorem elabForInit_sound {dbg : Bool} {fi : SForInit} {fi' : IForInit} {Γ' : Env}
    (h : elabForInit dbg Γ fi = .ok (fi', Γ')) : Extends Γ Γ' ∧ ForInitTyped Γ' fi' := by
  cases fi with
  | none => simp [elabForInit] at h; obtain ⟨rfl, rfl⟩ := h; exact ⟨extends_refl Γ, trivial⟩
  | expr e =>
    simp only [elabForInit] at h
    split at h
    · simp at h
    · rename_i e1 τ1 h1
      simp at h; obtain ⟨rfl, rfl⟩ := h
      exact ⟨extends_refl Γ, τ1, elabTop_sound h1⟩
  | decl t init =>
    simp only [elabForInit] at h
    split at h
    · simp at h
    · rename_i i1 id Γ1 hd
      simp at h; obtain ⟨rfl, rfl⟩ := h
      exact elabDecl_sound hd

theorem convertRet_sound {e e' : IExpr} {τ : ETy} {rt : Ty} (he : HasType Γ e τ) (h : convertRet e τ rt = .ok e') :
    ∃ τ', HasType Γ e' τ' ∧ τ'.ty = rt := by
  unfold convertRet at h
  split at h
  · simp at h
  · simp at h
  · rename_i c hf
    obtain ⟨τ', ht, hty, _⟩ := applyConv_type he hf h
    exact ⟨τ', ht, by simpa [Ty.r] using hty⟩

theorem elabRet_sound {dbg : Bool} {e : SExpr} {e' : IExpr} (h : elabRet dbg Γ e = .ok e') :
    ∃ τ, HasType Γ e' τ ∧ RetExact Γ τ := by
  unfold elabRet at h
  split at h
  · simp at h
  · rename_i e1 τ1 h1
    have ht := elabTop_sound h1
    split at h
    · rename_i hr
      split at h
      · rename_i id hl
        split at h
        · rename_i hv
          obtain ⟨τ', h1', h2'⟩ := convertRet_sound ht h
          exact ⟨τ', h1', by simp only [RetExact, hr]; exact ⟨id, h2', hv⟩⟩
        · simp at h
      · simp at h
    · rename_i rt hr
      obtain ⟨τ', h1', h2'⟩ := convertRet_sound ht h
      exact ⟨τ', h1', by simp only [RetExact, hr]; exact h2'⟩

/-! ## statements -/

mutual
/-- **Accepted statements are well typed**, in the environment that registers the variables they define. -/
theorem elabStmt_sound (dbg : Bool) : ∀ (s : SStmt) (sc : Bool) (Γ : Env) (ss' : IStmts) (Γ' : Env),
    elabStmt dbg sc Γ s = .ok (ss', Γ') → Extends Γ Γ' ∧ StmtsTyped Γ' ss'
  | .emptyS, sc, Γ, ss', Γ', h => by
    simp only [elabStmt] at h
    simp at h; obtain ⟨rfl, rfl⟩ := h
    exact ⟨extends_refl Γ, by simp [StmtsTyped]⟩
  | .expr e, sc, Γ, ss', Γ', h => by
    simp only [elabStmt] at h
    split at h
    · simp at h
    · rename_i e1 τ1 h1
      simp at h; obtain ⟨rfl, rfl⟩ := h
      exact ⟨extends_refl Γ, stmtsTyped_one (by simp only [StmtTyped]; exact ⟨τ1, elabTop_sound h1⟩)⟩
  | .decl t init, sc, Γ, ss', Γ', h => by
    simp only [elabStmt] at h
    split at h
    · simp at h
    · rename_i i1 id Γ1 hd
      simp at h; obtain ⟨rfl, rfl⟩ := h
      obtain ⟨hx, hdt⟩ := elabDecl_sound hd
      exact ⟨hx, stmtsTyped_one (by simp only [StmtTyped]; exact hdt)⟩
  | .block ss, sc, Γ, ss', Γ', h => by
    simp only [elabStmt] at h
    split at h
    · simp at h
    · rename_i ss1 Γ1 hs
      obtain ⟨hx, ht⟩ := elabStmts_sound dbg ss Γ ss1 Γ1 hs
      split at h
      · simp at h; obtain ⟨rfl, rfl⟩ := h
        exact ⟨hx, ht⟩
      · simp at h; obtain ⟨rfl, rfl⟩ := h
        exact ⟨extends_trans hx (extends_popScope _ _),
          stmtsTyped_one (by simp only [StmtTyped]; exact stmtsTyped_mono (extends_popScope _ _) _ ht)⟩
  | .ifS c s, sc, Γ, ss', Γ', h => by
    simp only [elabStmt] at h
    split at h
    · simp at h
    · rename_i c1 τc hc
      split at h
      · simp at h
      · rename_i b Γ1 hb
        simp at h; obtain ⟨rfl, rfl⟩ := h
        obtain ⟨hx, ht⟩ := elabStmt_sound dbg s true Γ b Γ1 hb
        have hx' := extends_trans hx (extends_popScope Γ1 Γ.vars.length)
        exact ⟨hx', stmtsTyped_one (by
          simp only [StmtTyped]
          exact ⟨typed_mono hx' ⟨τc, elabTop_sound hc⟩, stmtsTyped_mono (extends_popScope _ _) _ ht⟩)⟩
  | .ifElse c s1 s2, sc, Γ, ss', Γ', h => by
    simp only [elabStmt] at h
    split at h
    · simp at h
    · rename_i c1 τc hc
      split at h
      · simp at h
      · rename_i b1 Γ1 hb1
        split at h
        · simp at h
        · rename_i b2 Γ2 hb2
          simp at h; obtain ⟨rfl, rfl⟩ := h
          obtain ⟨hx1, ht1⟩ := elabStmt_sound dbg s1 true Γ b1 Γ1 hb1
          obtain ⟨hx2, ht2⟩ := elabStmt_sound dbg s2 true _ b2 Γ2 hb2
          have h12 : Extends Γ1 Γ2 := extends_trans (extends_popScope Γ1 Γ.vars.length) hx2
          have hxe := extends_popScope Γ2 Γ.vars.length
          have hx' := extends_trans (extends_trans hx1 h12) hxe
          exact ⟨hx', stmtsTyped_one (by
            simp only [StmtTyped]
            exact ⟨typed_mono hx' ⟨τc, elabTop_sound hc⟩, stmtsTyped_mono (extends_trans h12 hxe) _ ht1,
              stmtsTyped_mono hxe _ ht2⟩)⟩
  | .forS init c n s, sc, Γ, ss', Γ', h => by
    simp only [elabStmt] at h
    split at h
    · simp at h
    · rename_i init1 Γ0 hi
      obtain ⟨hx0, hti⟩ := elabForInit_sound hi
      split at h
      · simp at h
      · rename_i c1 hc
        split at h
        · simp at h
        · rename_i n1 hn
          split at h
          · simp at h
          · rename_i b Γ1 hb
            simp at h; obtain ⟨rfl, rfl⟩ := h
            obtain ⟨hx1, ht⟩ := elabStmt_sound dbg s true Γ0 b Γ1 hb
            have hxe := extends_popScope Γ1 Γ.vars.length
            have hx01 := extends_trans hx1 hxe
            refine ⟨extends_trans hx0 hx01, stmtsTyped_one ?_⟩
            simp only [StmtTyped]
            refine ⟨?_, optTyped_mono hx01 (elabOpt_sound hc), optTyped_mono hx01 (elabOpt_sound hn),
              stmtsTyped_mono hxe _ ht⟩
            cases init1 with
            | none => trivial
            | expr e => exact typed_mono hx01 hti
            | decl t id i => exact declTyped_mono hx01 hti
  | .whileS c s, sc, Γ, ss', Γ', h => by
    simp only [elabStmt] at h
    split at h
    · simp at h
    · rename_i c1 τc hc
      split at h
      · simp at h
      · rename_i b Γ1 hb
        simp at h; obtain ⟨rfl, rfl⟩ := h
        obtain ⟨hx, ht⟩ := elabStmt_sound dbg s true Γ b Γ1 hb
        have hx' := extends_trans hx (extends_popScope Γ1 Γ.vars.length)
        exact ⟨hx', stmtsTyped_one (by
          simp only [StmtTyped]
          exact ⟨typed_mono hx' ⟨τc, elabTop_sound hc⟩, stmtsTyped_mono (extends_popScope _ _) _ ht⟩)⟩
  | .doS s c, sc, Γ, ss', Γ', h => by
    simp only [elabStmt] at h
    split at h
    · simp at h
    · rename_i b Γ1 hb
      split at h
      · simp at h
      · rename_i c1 τc hc
        simp at h; obtain ⟨rfl, rfl⟩ := h
        obtain ⟨hx, ht⟩ := elabStmt_sound dbg s true Γ b Γ1 hb
        have hx' := extends_trans hx (extends_popScope Γ1 Γ.vars.length)
        exact ⟨hx', stmtsTyped_one (by
          simp only [StmtTyped]
          exact ⟨stmtsTyped_mono (extends_popScope _ _) _ ht, τc, elabTop_sound hc⟩)⟩
  | .switchS c s, sc, Γ, ss', Γ', h => by
    simp only [elabStmt] at h
    split at h
    · simp at h
    · rename_i c1 τc hc
      split at h
      · simp at h
      · rename_i b Γ1 hb
        simp at h; obtain ⟨rfl, rfl⟩ := h
        obtain ⟨hx, ht⟩ := elabStmt_sound dbg s true Γ b Γ1 hb
        have hx' := extends_trans hx (extends_popScope Γ1 Γ.vars.length)
        exact ⟨hx', stmtsTyped_one (by
          simp only [StmtTyped]
          exact ⟨typed_mono hx' ⟨τc, elabTop_sound hc⟩, stmtsTyped_mono (extends_popScope _ _) _ ht⟩)⟩
  | .breakS, sc, Γ, ss', Γ', h => by
    simp only [elabStmt] at h
    simp at h; obtain ⟨rfl, rfl⟩ := h
    exact ⟨extends_refl Γ, stmtsTyped_one (by simp [StmtTyped])⟩
  | .continueS, sc, Γ, ss', Γ', h => by
    simp only [elabStmt] at h
    simp at h; obtain ⟨rfl, rfl⟩ := h
    exact ⟨extends_refl Γ, stmtsTyped_one (by simp [StmtTyped])⟩
  | .discardS, sc, Γ, ss', Γ', h => by
    simp only [elabStmt] at h
    simp at h; obtain ⟨rfl, rfl⟩ := h
    exact ⟨extends_refl Γ, stmtsTyped_one (by simp [StmtTyped])⟩
  | .ret none, sc, Γ, ss', Γ', h => by
    simp only [elabStmt] at h
    split at h
    · rename_i hr
      simp at h; obtain ⟨rfl, rfl⟩ := h
      exact ⟨extends_refl Γ, stmtsTyped_one (by simp only [StmtTyped]; exact hr)⟩
    · simp at h
  | .ret (some e), sc, Γ, ss', Γ', h => by
    simp only [elabStmt] at h
    split at h
    · simp at h
    · rename_i e1 he
      simp at h; obtain ⟨rfl, rfl⟩ := h
      exact ⟨extends_refl Γ, stmtsTyped_one (by simp only [StmtTyped]; exact elabRet_sound he)⟩
  | .caseS c s, sc, Γ, ss', Γ', h => by
    simp only [elabStmt] at h
    split at h
    · simp at h
    · split at h
      · split at h
        · simp at h
        · rename_i ss1 Γ1 hs
          simp at h; obtain ⟨rfl, rfl⟩ := h
          obtain ⟨hx, ht⟩ := elabStmt_sound dbg s false Γ ss1 Γ1 hs
          exact ⟨hx, by simp only [StmtsTyped, StmtTyped]; exact ⟨trivial, ht⟩⟩
      · simp at h
  | .defaultS s, sc, Γ, ss', Γ', h => by
    simp only [elabStmt] at h
    split at h
    · simp at h
    · rename_i ss1 Γ1 hs
      simp at h; obtain ⟨rfl, rfl⟩ := h
      obtain ⟨hx, ht⟩ := elabStmt_sound dbg s false Γ ss1 Γ1 hs
      exact ⟨hx, by simp only [StmtsTyped, StmtTyped]; exact ⟨trivial, ht⟩⟩
theorem elabStmts_sound (dbg : Bool) : ∀ (ss : SStmts) (Γ : Env) (ss' : IStmts) (Γ' : Env),
    elabStmts dbg Γ ss = .ok (ss', Γ') → Extends Γ Γ' ∧ StmtsTyped Γ' ss'
  | .nil, Γ, ss', Γ', h => by
    simp only [elabStmts] at h
    simp at h; obtain ⟨rfl, rfl⟩ := h
    exact ⟨extends_refl Γ, by simp [StmtsTyped]⟩
  | .cons s r, Γ, ss', Γ', h => by
    simp only [elabStmts] at h
    split at h
    · simp at h
    · rename_i s1 Γ1 hs
      split at h
      · simp at h
      · rename_i r1 Γ2 hr
        simp at h; obtain ⟨rfl, rfl⟩ := h
        obtain ⟨hx1, ht1⟩ := elabStmt_sound dbg s false Γ s1 Γ1 hs
        obtain ⟨hx2, ht2⟩ := elabStmts_sound dbg r Γ1 r1 Γ2 hr
        exact ⟨extends_trans hx1 hx2, stmtsTyped_append _ _ (stmtsTyped_mono hx2 _ ht1) ht2⟩
end

end RsslVerif.Lemmas.StmtX

import RsslVerif.Model.DefinedLoc
/-!
# Lemmas about the macro scan with locations (C08): where `defined` can fire, and on which tokens
-/
namespace RsslVerif.Lemmas.DefinedLoc
open RsslVerif.Model.DefinedLoc RsslVerif.Gen.ArithSites

/-- no `Token::Concat` among the first `n` tokens -/
def NC (toks : List Tok) (n : Nat) : Prop := ∀ i t, i < n → toks[i]? = some t → t.k ≠ .concat

/-- no `Token::Concat` at all -/
def NoConcat (toks : List Tok) : Prop := ∀ t ∈ toks, t.k ≠ .concat

theorem NC_of_NoConcat {toks : List Tok} (h : NoConcat toks) (n : Nat) : NC toks n := by
  intro i t _ hi
  exact h t (List.mem_of_getElem? hi)

theorem NoConcat_of_NC {toks : List Tok} (h : NC toks toks.length) : NoConcat toks := by
  intro t ht
  obtain ⟨i, hi, rfl⟩ := List.getElem_of_mem ht
  exact h i _ hi (List.getElem?_eq_getElem hi)

theorem NC_mono {toks : List Tok} {n m : Nat} (h : NC toks n) (hm : m ≤ n) : NC toks m :=
  fun i t hi ht => h i t (by omega) ht

/-! ## suffix lengths -/

theorem trimStart_length_le (l : List Tok) : (trimStart l).length ≤ l.length := by
  unfold trimStart
  exact (List.dropWhile_suffix _).length_le

theorem trimStartNL_length_le (l : List Tok) : (trimStartNL l).length ≤ l.length := by
  unfold trimStartNL
  exact (List.dropWhile_suffix _).length_le

theorem scanArgs_length (l : List Tok) : ∀ (cur : List Tok) (args : List (List Tok)) (d : Nat) (rest : List Tok)
    (as : List (List Tok)), scanArgs l cur args d = .ok (rest, as) → rest.length < l.length + 1 := by
  induction l with
  | nil => intro cur args d rest as h; simp [scanArgs] at h
  | cons t r ih =>
    intro cur args d rest as h
    unfold scanArgs at h
    split at h
    · split at h
      · have := ih _ _ _ _ _ h; simp only [List.length_cons]; omega
      · have := ih _ _ _ _ _ h; simp only [List.length_cons]; omega
    · have := ih _ _ _ _ _ h; simp only [List.length_cons]; omega
    · split at h
      · simp only [Except.ok.injEq, Prod.mk.injEq] at h
        rw [← h.1]; simp only [List.length_cons]; omega
      · have := ih _ _ _ _ _ h; simp only [List.length_cons]; omega
    · have := ih _ _ _ _ _ h; simp only [List.length_cons]; omega

/-- what `split_macro_args` leaves is shorter than what follows the opening parenthesis -/
theorem splitArgs_length (remaining rest : List Tok) (as : List (List Tok))
    (h : splitArgs remaining = .ok (rest, as)) :
    ∃ a b tail, trimStartNL remaining = ⟨.lparen, a, b⟩ :: tail ∧ rest.length ≤ tail.length := by
  unfold splitArgs at h
  split at h
  · rename_i a b tail heq
    exact ⟨a, b, tail, heq, by have := scanArgs_length _ _ _ _ _ _ h; omega⟩
  · cases h

theorem splitArgs_length' (remaining rest : List Tok) (as : List (List Tok))
    (h : splitArgs remaining = .ok (rest, as)) : rest.length + 1 ≤ remaining.length := by
  obtain ⟨a, b, tail, heq, hl⟩ := splitArgs_length remaining rest as h
  have := trimStartNL_length_le remaining
  rw [heq] at this
  simp only [List.length_cons] at this
  omega

/-! ## `find_single_macro` -/

theorem lastNonWs_bound (l : List Tok) : ∀ (i : Nat) (acc : Option Nat) (r : Nat),
    lastNonWs l i acc = some r → acc = some r ∨ (i ≤ r ∧ r < i + l.length) := by
  induction l with
  | nil => intro i acc r h; left; simpa [lastNonWs] using h
  | cons t rest ih =>
    intro i acc r h
    unfold lastNonWs at h
    rcases ih _ _ _ h with h1 | h1
    · split at h1
      · left; exact h1
      · right; simp only [Option.some.injEq] at h1; subst h1; simp
    · right; simp only [List.length_cons]; omega

theorem lastNonWs_take_lt (toks : List Tok) (j l : Nat) (h : lastNonWs (toks.take j) 0 none = some l) : l < j := by
  rcases lastNonWs_bound _ _ _ _ h with h1 | h1
  · cases h1
  · have := List.length_take_le j toks
    omega

/-- what `matchMacro` finds: an enabled entry with that name, and where the invocation "activates" -/
theorem matchMacro_spec (toks : List Tok) (i name : Nat) (sp : SearchPos) :
    ∀ (es : List Entry) (mi0 mi : Nat), matchMacro toks i name sp mi0 es = some mi →
      ∃ e, es[mi - mi0]? = some e ∧ mi0 ≤ mi ∧
        (e.m.isFunction = true → ∃ a, parenAfter toks i = some a ∧ sp.next ≤ a) ∧
        (e.m.isFunction = false → sp.next ≤ i) := by
  intro es
  induction es with
  | nil => intro mi0 mi h; simp [matchMacro] at h
  | cons e es ih =>
    intro mi0 mi h
    have step : ∀ mi, matchMacro toks i name sp (mi0 + 1) es = some mi →
        ∃ e', (e :: es)[mi - mi0]? = some e' ∧ mi0 ≤ mi ∧
          (e'.m.isFunction = true → ∃ a, parenAfter toks i = some a ∧ sp.next ≤ a) ∧
          (e'.m.isFunction = false → sp.next ≤ i) := by
      intro mi h
      obtain ⟨e', h1, h2, h3, h4⟩ := ih _ _ h
      refine ⟨e', ?_, by omega, h3, h4⟩
      have : mi - mi0 = (mi - (mi0 + 1)) + 1 := by omega
      rw [this, List.getElem?_cons_succ]
      exact h1
    unfold matchMacro at h
    split at h
    · exact step _ h
    · split at h
      · exact step _ h
      · split at h
        · split at h
          · rename_i hfn
            split at h
            · rename_i a ha
              split at h
              · exact step _ h
              · simp only [Option.some.injEq] at h
                subst h
                refine ⟨e, by simp, Nat.le_refl _, ?_, ?_⟩
                · intro _; exact ⟨a, ha, by omega⟩
                · intro hf; simp [hfn] at hf
            · exact step _ h
          · rename_i hfn
            split at h
            · exact step _ h
            · simp only [Option.some.injEq] at h
              subst h
              refine ⟨e, by simp, Nat.le_refl _, ?_, ?_⟩
              · intro hf; simp [hf] at hfn
              · intro _; omega
        · exact step _ h

theorem drop_cons_facts {α : Type} (l : List α) (j : Nat) (t : α) (r : List α) (h : l.drop j = t :: r) :
    l[j]? = some t ∧ l.drop (j + 1) = r := by
  constructor
  · have := List.getElem?_drop (xs := l) (i := j) (j := 0)
    rw [h] at this
    simpa using this.symm
  · have : (l.drop j).drop 1 = r := by rw [h]; rfl
    rw [List.drop_drop] at this
    exact this

/-- up to which index a result of the search vouches for "no `Concat` token" -/
def foundPos (len : Nat) : Found → Nat
  | .user _ p => p
  | .defined p => p
  | .concat l _ => l
  | .none => len

/-- The search passes over no `Concat` token: if there is none before `max j next_pos`, there is none before
the position it reports (none at all when it reports nothing). -/
theorem scanFrom_NC (toks : List Tok) (sp : SearchPos) (env : List Entry) (ad : Bool) :
    ∀ (rest : List Tok) (j : Nat) (f : Found), toks.drop j = rest →
      (∀ i t, (i < j ∨ i < sp.next) → toks[i]? = some t → t.k ≠ .concat) →
      scanFrom toks sp env ad rest j = .ok f → NC toks (foundPos toks.length f) := by
  intro rest
  induction rest with
  | nil =>
    intro j f hd H h
    simp only [scanFrom, Except.ok.injEq] at h
    subst h
    intro i t hi ht
    have hj : toks.length ≤ j := by
      have := congrArg List.length hd
      simp only [List.length_drop, List.length_nil] at this
      omega
    exact H i t (Or.inl (by simp only [foundPos] at hi; omega)) ht
  | cons t rest ih =>
    intro j f hd H h
    obtain ⟨htj, hd'⟩ := drop_cons_facts toks j t rest hd
    have Hnext : t.k ≠ .concat → ∀ i u, (i < j + 1 ∨ i < sp.next) → toks[i]? = some u → u.k ≠ .concat := by
      intro hk i u hi hu
      by_cases hij : i = j
      · subst hij; rw [htj] at hu; cases hu; exact hk
      · exact H i u (by omega) hu
    have Hj : NC toks j := fun i u hi hu => H i u (Or.inl hi) hu
    unfold scanFrom at h
    split at h
    · rename_i name hk
      split at h
      · simp only [Except.ok.injEq] at h; subst h; exact Hj
      · split at h
        · simp only [Except.ok.injEq] at h; subst h; exact Hj
        · exact ih _ _ hd' (Hnext (by rw [hk]; simp)) h
    · split at h
      · cases h
      · split at h
        · cases h
        · rename_i l hl
          split at h
          · cases h
          · simp only [Except.ok.injEq] at h; subst h
            have := lastNonWs_take_lt toks j l hl
            exact NC_mono Hj (by simp only [foundPos]; omega)
    · rename_i hk1 hk2
      exact ih _ _ hd' (Hnext (by intro hc; exact hk2 hc)) h

/-- what a result of the search says about the token it points at -/
def FoundOk (toks : List Tok) (sp : SearchPos) (env : List Entry) (ad : Bool) : Found → Prop
  | .defined p => sp.next ≤ p ∧ ad = true ∧ p < toks.length
  | .user mi p => p < toks.length ∧ ∃ e, env[mi]? = some e ∧
      (e.m.isFunction = true → ∃ a, parenAfter toks p = some a ∧ sp.next ≤ a) ∧
      (e.m.isFunction = false → sp.next ≤ p)
  | .concat _ _ => ∃ (i : Nat) (t : Tok), toks[i]? = some t ∧ t.k = K.concat
  | .none => True

theorem scanFrom_found (toks : List Tok) (sp : SearchPos) (env : List Entry) (ad : Bool) :
    ∀ (rest : List Tok) (j : Nat) (f : Found), toks.drop j = rest →
      scanFrom toks sp env ad rest j = .ok f →
      FoundOk toks sp env ad f := by
  intro rest
  induction rest with
  | nil => intro j f _ h; simp only [scanFrom, Except.ok.injEq] at h; subst h; trivial
  | cons t rest ih =>
    intro j f hd h
    obtain ⟨htj, hd'⟩ := drop_cons_facts toks j t rest hd
    have hjl : j < toks.length := by
      rcases Nat.lt_or_ge j toks.length with h1 | h1
      · exact h1
      · rw [List.getElem?_eq_none h1] at htj; cases htj
    unfold scanFrom at h
    split at h
    · rename_i name hk
      split at h
      · rename_i hc
        simp only [Except.ok.injEq] at h; subst h
        exact ⟨hc.1, hc.2.1, hjl⟩
      · split at h
        · rename_i mi hm
          simp only [Except.ok.injEq] at h; subst h
          obtain ⟨e, h1, _, h3, h4⟩ := matchMacro_spec toks j name sp env 0 mi hm
          exact ⟨hjl, e, by simpa using h1, h3, h4⟩
        · exact ih _ _ hd' h
    · rename_i hk
      split at h
      · cases h
      · split at h
        · cases h
        · split at h
          · cases h
          · simp only [Except.ok.injEq] at h; subst h
            exact ⟨j, t, htj, hk⟩
    · exact ih _ _ hd' h

theorem findSingle_NC (toks : List Tok) (sp : SearchPos) (env : List Entry) (ad : Bool) (f : Found)
    (H : NC toks sp.next) (h : findSingle toks sp env ad = .ok f) : NC toks (foundPos toks.length f) := by
  unfold findSingle at h
  split at h
  · rename_i he
    exact scanFrom_NC toks sp env ad _ _ f rfl (fun i t hi ht => H i t (by omega) ht) h
  · cases h

theorem findSingle_found (toks : List Tok) (sp : SearchPos) (env : List Entry) (ad : Bool) (f : Found)
    (h : findSingle toks sp env ad = .ok f) :
    FoundOk toks sp env ad f := by
  unfold findSingle at h
  split at h
  · exact scanFrom_found toks sp env ad _ _ f rfl h
  · cases h

/-! ## splice -/

theorem NC_splice (toks mid : List Tok) (s e : Nat) (hs : s ≤ toks.length) (h1 : NC toks s) (h2 : NoConcat mid) :
    NC (splice toks s e mid) (s + mid.length) := by
  intro i t hi ht
  unfold splice at ht
  rw [List.append_assoc] at ht
  by_cases his : i < s
  · rw [List.getElem?_append_left (by simp; omega)] at ht
    rw [List.getElem?_take_of_lt his] at ht
    exact h1 i t his ht
  · rw [List.getElem?_append_right (by simp; omega)] at ht
    have hlen : (toks.take s).length = s := by simp; omega
    rw [hlen] at ht
    rw [List.getElem?_append_left (by omega)] at ht
    exact h2 t (List.mem_of_getElem? ht)

theorem drop_splice (toks mid : List Tok) (s e : Nat) (hs : s ≤ toks.length) :
    (splice toks s e mid).drop (s + mid.length) = toks.drop e := by
  unfold splice
  rw [List.append_assoc]
  have hlen : (toks.take s).length = s := by simp; omega
  rw [List.drop_append]
  simp [hlen]

theorem NoConcat_splice (toks mid : List Tok) (s e : Nat) (h1 : NoConcat toks) (h2 : NoConcat mid) :
    NoConcat (splice toks s e mid) := by
  intro t ht
  unfold splice at ht
  simp only [List.mem_append] at ht
  rcases ht with (ht | ht) | ht
  · exact h1 t (List.mem_of_mem_take ht)
  · exact h2 t ht
  · exact h1 t (List.mem_of_mem_drop ht)

/-! ## the scan loop -/

/-- **A completed scan leaves no `Concat` token behind** (for every `##` oracle that, like the lexer, does not
produce one): the scan passes over none, and what it splices in is the output of a completed scan or the
oracle's token. -/
theorem applyLoop_noConcat (paste : Tok → Tok → Option Tok) (bf af : FlagSrc)
    (hp : ∀ a b t, paste a b = some t → t.k ≠ .concat) :
    ∀ (fuel : Nat) (env : List Entry) (toks : List Tok) (sp : SearchPos) (ad : Bool) (out : List Tok),
      NC toks sp.next → applyLoop paste bf af fuel env toks sp ad = .ok out → NoConcat out := by
  intro fuel
  induction fuel with
  | zero => intro env toks sp ad out _ h; simp [applyLoop] at h
  | succ fuel ih =>
    intro env toks sp ad out H h
    rw [applyLoop] at h
    split at h
    · rename_i hlt
      split at h
      · cases h
      · -- nothing found
        rename_i hf
        simp only [Except.ok.injEq] at h; subst h
        exact NoConcat_of_NC (findSingle_NC toks sp env ad _ H hf)
      · -- ##
        rename_i l r hf
        have hl := findSingle_NC toks sp env ad _ H hf
        simp only [foundPos] at hl
        split at h
        · rename_i lt rt hlt' hrt'
          split at h
          · split at h
            · cases h
            · rename_i merged hm
              refine ih _ _ _ _ _ ?_ h
              have hll : l ≤ toks.length := by
                rcases Nat.lt_or_ge l toks.length with h1 | h1
                · omega
                · rw [List.getElem?_eq_none h1] at hlt'; cases hlt'
              have := NC_splice toks [merged] l (r + 1) hll hl
                (by intro t ht; simp only [List.mem_singleton] at ht; subst ht; exact hp _ _ _ hm)
              exact NC_mono this (by simp)
          · cases h
        · cases h
      · -- defined
        rename_i p hf
        have hpn := findSingle_NC toks sp env ad _ H hf
        have hfo := findSingle_found toks sp env ad _ hf
        simp only [foundPos] at hpn
        simp only [FoundOk] at hfo
        split at h
        · cases h
        · rename_i rem hrem
          split at h
          · cases h
          · rename_i generated hg
            refine ih _ _ _ _ _ ?_ h
            have hk : generated.k ≠ .concat := by
              unfold definedToken at hg
              split at hg
              · cases hg
              · split at hg
                · split at hg
                  · cases hg
                  · split at hg
                    · cases hg
                    · simp only [Except.ok.injEq] at hg; rw [← hg]; simp
                · cases hg
            have := NC_splice toks [generated] p (toks.length - rem.length) (by omega) hpn
              (by intro t ht; simp only [List.mem_singleton] at ht; subst ht; exact hk)
            simpa using this
      · -- user macro
        rename_i mi p hf
        have hpn := findSingle_NC toks sp env ad _ H hf
        have hfo := findSingle_found toks sp env ad _ hf
        simp only [foundPos] at hpn
        simp only [FoundOk] at hfo
        split at h
        · cases h
        · rename_i e he
          split at h
          · cases h
          · rename_i rest args hra
            simp only at h
            split at h
            · cases h
            · rename_i args' _
              split at h
              · cases h
              · rename_i output _
                split at h
                · split at h
                  · cases h
                  · rename_i output' hout
                    have hno : NoConcat output' := ih _ _ _ _ _ (by intro i t hi; simp [SearchPos.start] at hi) hout
                    split at h
                    · refine ih _ _ _ _ _ ?_ h
                      exact NC_splice toks output' p _ (by omega) hpn hno
                    · cases h
                · cases h
    · simp only [Except.ok.injEq] at h; subst h
      exact NoConcat_of_NC (NC_mono H (by omega))

/-! ## which errors the pieces can produce -/

theorem scanFrom_ne_sub (toks : List Tok) (sp : SearchPos) (env : List Entry) (ad : Bool) :
    ∀ (rest : List Tok) (j : Nat), scanFrom toks sp env ad rest j ≠ .error .subOverflow := by
  intro rest
  induction rest with
  | nil => intro j h; simp [scanFrom] at h
  | cons t rest ih =>
    intro j h
    unfold scanFrom at h
    split at h
    · split at h
      · cases h
      · split at h
        · cases h
        · exact ih _ h
    · split at h
      · cases h
      · split at h
        · cases h
        · split at h <;> cases h
    · exact ih _ h

theorem findSingle_ne_sub (toks : List Tok) (sp : SearchPos) (env : List Entry) (ad : Bool) :
    findSingle toks sp env ad ≠ .error .subOverflow := by
  unfold findSingle
  split
  · exact scanFrom_ne_sub _ _ _ _ _ _
  · intro h; cases h

theorem scanArgs_ne_sub (l : List Tok) : ∀ (cur : List Tok) (args : List (List Tok)) (d : Nat),
    scanArgs l cur args d ≠ .error .subOverflow := by
  induction l with
  | nil => intro cur args d h; simp [scanArgs] at h
  | cons t r ih =>
    intro cur args d h
    unfold scanArgs at h
    split at h
    · split at h <;> exact ih _ _ _ h
    · exact ih _ _ _ h
    · split at h
      · cases h
      · exact ih _ _ _ h
    · exact ih _ _ _ h

theorem splitArgs_ne_sub (remaining : List Tok) : splitArgs remaining ≠ .error .subOverflow := by
  unfold splitArgs
  split
  · exact scanArgs_ne_sub _ _ _ _
  · intro h; cases h

theorem readArgs_ne_sub (m : Macro) (remaining : List Tok) : readArgs m remaining ≠ .error .subOverflow := by
  unfold readArgs
  split
  · split
    · rename_i e he
      intro h
      simp only [Except.error.injEq] at h
      subst h
      exact splitArgs_ne_sub _ he
    · split
      · split
        · split <;> (intro h; cases h)
        · intro h; cases h
      · split <;> (intro h; cases h)
  · intro h; cases h

theorem readArgs_spec (m : Macro) (remaining rest : List Tok) (args : List (List Tok))
    (h : readArgs m remaining = .ok (rest, args)) :
    (m.isFunction = true → ∃ as, splitArgs remaining = .ok (rest, as)) ∧
    (m.isFunction = false → rest = remaining) := by
  unfold readArgs at h
  split at h
  · rename_i hf
    refine ⟨fun _ => ?_, fun hff => by simp [hf] at hff⟩
    split at h
    · cases h
    · rename_i rest' args' hs
      split at h
      · split at h
        · split at h
          · simp only [Except.ok.injEq, Prod.mk.injEq] at h
            exact ⟨_, by rw [hs, h.1]⟩
          · cases h
        · cases h
      · split at h
        · cases h
        · simp only [Except.ok.injEq, Prod.mk.injEq] at h
          exact ⟨_, by rw [hs, h.1]⟩
  · rename_i hf
    simp only [Except.ok.injEq, Prod.mk.injEq] at h
    exact ⟨fun hff => by simp [hff] at hf, fun _ => h.1.symm⟩

theorem substitute_ne_sub (body : List Tok) (args : List (List Tok)) :
    substitute body args ≠ .error .subOverflow := by
  induction body with
  | nil => intro h; simp [substitute] at h
  | cons t r ih =>
    intro h
    unfold substitute at h
    split at h
    · split at h
      · cases h
      · split at h
        · cases h
        · rename_i e he
          simp only [Except.error.injEq] at h; subst h; exact ih he
    · split at h
      · cases h
      · rename_i e he
        simp only [Except.error.injEq] at h; subst h; exact ih he

theorem mapE_error {α β : Type} (f : α → Except Err β) (l : List α) (e : Err) (h : mapE f l = .error e) :
    ∃ a ∈ l, f a = .error e := by
  induction l with
  | nil => simp [mapE] at h
  | cons a r ih =>
    unfold mapE at h
    split at h
    · rename_i e' he
      simp only [Except.error.injEq] at h; subst h
      exact ⟨a, by simp, he⟩
    · split at h
      · rename_i e' he
        simp only [Except.error.injEq] at h; subst h
        obtain ⟨x, hx, hfx⟩ := ih he
        exact ⟨x, by simp [hx], hfx⟩
      · cases h

theorem definedRest_ne_sub (remaining : List Tok) : definedRest remaining ≠ .error .subOverflow := by
  unfold definedRest
  simp only
  split
  · split
    · intro h; cases h
    · split
      · rename_i e he
        intro h
        simp only [Except.error.injEq] at h; subst h
        exact splitArgs_ne_sub _ he
      · split <;> (intro h; cases h)
  · split
    · rename_i e he
      intro h
      simp only [Except.error.injEq] at h; subst h
      exact splitArgs_ne_sub _ he
    · split <;> (intro h; cases h)

/-- the operand of `defined` takes at least one token -/
theorem definedRest_length (remaining rem : List Tok) (h : definedRest remaining = .ok rem) :
    rem.length + 1 ≤ remaining.length := by
  unfold definedRest at h
  simp only at h
  split at h
  · rename_i n a b rest heq
    split at h
    · simp only [Except.ok.injEq] at h; subst h
      have := trimStart_length_le remaining
      rw [heq] at this
      simp only [List.length_cons] at this
      omega
    · split at h
      · cases h
      · rename_i rest' args hs
        split at h
        · simp only [Except.ok.injEq] at h; subst h
          exact splitArgs_length' _ _ _ hs
        · cases h
  · split at h
    · cases h
    · rename_i rest' args hs
      split at h
      · simp only [Except.ok.injEq] at h; subst h
        exact splitArgs_length' _ _ _ hs
      · cases h

/-! ## the invariant of a scan with `apply_defined = true` -/

/-- locations grow along the command line: a token never starts after a later token ends
(what one run of the lexer over one file produces, see `Thm.C10.spans_tile`) -/
def Mono (cmd : List Tok) : Prop :=
  ∀ (i j : Nat) (a b : Tok), i ≤ j → cmd[i]? = some a → cmd[j]? = some b → a.start ≤ b.stop

/-- The invariant of the outermost scan: no `Concat` token anywhere, and everything from `next_pos` on is an
untouched suffix of the command line that was handed to `apply_macros`. -/
def Inv (cmd toks : List Tok) (sp : SearchPos) : Prop :=
  NoConcat toks ∧ ∃ k, toks.drop sp.next = cmd.drop k

theorem Inv_getElem {cmd toks : List Tok} {sp : SearchPos} (h : Inv cmd toks sp) (p : Nat) (hp : sp.next ≤ p) :
    ∃ k, ∀ q, p ≤ q → toks[q]? = cmd[k + (q - p)]? := by
  obtain ⟨_, k, hk⟩ := h
  refine ⟨k + (p - sp.next), ?_⟩
  intro q hq
  have h1 : (toks.drop sp.next)[q - sp.next]? = toks[q]? := by
    rw [List.getElem?_drop]; congr 1; omega
  have h2 : (cmd.drop k)[q - sp.next]? = cmd[k + (p - sp.next) + (q - p)]? := by
    rw [List.getElem?_drop]; congr 1; omega
  rw [← h1, hk, h2]

theorem Inv_step {cmd toks mid : List Tok} {sp : SearchPos} (h : Inv cmd toks sp) (p e : Nat) (hm : NoConcat mid)
    (hp : p ≤ toks.length) (he : sp.next ≤ e) (early : Nat) (lf : Option Nat) :
    Inv cmd (splice toks p e mid) ⟨p + mid.length, early, lf⟩ := by
  obtain ⟨hnc, k, hk⟩ := h
  refine ⟨NoConcat_splice toks mid p e hnc hm, k + (e - sp.next), ?_⟩
  show (splice toks p e mid).drop (p + mid.length) = _
  rw [drop_splice toks mid p e hp]
  have : toks.drop e = (toks.drop sp.next).drop (e - sp.next) := by
    rw [List.drop_drop]; congr 1; omega
  rw [this, hk, List.drop_drop]

/-- **The `defined` location subtraction cannot overflow on the current code.**  For a scan whose two recursive
scans (arguments, substituted body) run with `apply_defined = false`: if the scan itself runs without
`apply_defined`, the `defined` operation never happens; if it runs with it and the invariant holds, the `defined`
keyword and the last token of its operand both lie in the untouched suffix of the command line, so the end
location is not before the start location. -/
theorem applyLoop_no_subOverflow (paste : Tok → Tok → Option Tok)
    (hpaste : ∀ a b t, paste a b = some t → t.k ≠ .concat) (cmd : List Tok) (hmono : Mono cmd) :
    ∀ (fuel : Nat) (env : List Entry) (toks : List Tok) (sp : SearchPos) (ad : Bool),
      (ad = true → Inv cmd toks sp) →
      applyLoop paste .constFalse .constFalse fuel env toks sp ad ≠ .error .subOverflow := by
  intro fuel
  induction fuel with
  | zero => intro env toks sp ad _ h; simp [applyLoop] at h
  | succ fuel ih =>
    intro env toks sp ad hinv h
    rw [applyLoop] at h
    split at h
    · rename_i hlt
      split at h
      · rename_i e hf
        simp only [Except.error.injEq] at h; subst h
        exact findSingle_ne_sub _ _ _ _ hf
      · cases h
      · -- ##: impossible with the invariant, an ordinary step without it
        rename_i l r hf
        have hfo := findSingle_found toks sp env ad _ hf
        simp only [FoundOk] at hfo
        split at h
        · split at h
          · split at h
            · cases h
            · refine ih _ _ _ _ ?_ h
              intro had
              obtain ⟨i, t, hi, hk⟩ := hfo
              exact absurd hk ((hinv had).1 t (List.mem_of_getElem? hi))
          · cases h
        · cases h
      · -- defined
        rename_i p hf
        have hfo := findSingle_found toks sp env ad _ hf
        simp only [FoundOk] at hfo
        obtain ⟨hnp, had, hpl⟩ := hfo
        have hI := hinv had
        split at h
        · rename_i e hr
          simp only [Except.error.injEq] at h; subst h
          exact definedRest_ne_sub _ hr
        · rename_i rem hrem
          have hlen := definedRest_length _ _ hrem
          simp only [List.length_drop] at hlen
          split at h
          · rename_i e hg
            simp only [Except.error.injEq] at h; subst h
            -- the subtraction itself
            unfold definedToken at hg
            split at hg
            · cases hg
            · rename_i d hd
              split at hg
              · split at hg
                · cases hg
                · rename_i last hl
                  split at hg
                  · rename_i hov
                    obtain ⟨k, hk⟩ := Inv_getElem hI p hnp
                    have h1 := hk p (Nat.le_refl _)
                    have h2 := hk (toks.length - rem.length - 1) (by omega)
                    rw [hd] at h1
                    rw [hl] at h2
                    have := hmono _ _ d last (by omega) h1.symm h2.symm
                    omega
                  · cases hg
              · cases hg
          · rename_i generated hg
            refine ih _ _ _ _ ?_ h
            intro _
            have hk : generated.k ≠ .concat := by
              unfold definedToken at hg
              split at hg
              · cases hg
              · split at hg
                · split at hg
                  · cases hg
                  · split at hg
                    · cases hg
                    · simp only [Except.ok.injEq] at hg; rw [← hg]; simp
                · cases hg
            have := Inv_step hI p (toks.length - rem.length) (mid := [generated])
              (by intro t ht; simp only [List.mem_singleton] at ht; subst ht; exact hk)
              (by omega) (by omega) (p + 1) none
            simpa using this
      · -- user macro
        rename_i mi p hf
        have hfo := findSingle_found toks sp env ad _ hf
        simp only [FoundOk] at hfo
        obtain ⟨hpl, e0, he0, hfn, hob⟩ := hfo
        split at h
        · cases h
        · rename_i e he
          rw [he0] at he
          simp only [Option.some.injEq] at he
          subst he
          split at h
          · rename_i er hr
            simp only [Except.error.injEq] at h; subst h
            exact readArgs_ne_sub _ _ hr
          · rename_i rest args hra
            simp only at h
            split at h
            · rename_i er hm
              simp only [Except.error.injEq] at h; subst h
              obtain ⟨a, _, ha⟩ := mapE_error _ _ _ hm
              exact ih _ _ _ _ (by intro hc; simp [FlagSrc.eval] at hc) ha
            · rename_i args' _
              split at h
              · rename_i er hs
                simp only [Except.error.injEq] at h; subst h
                exact substitute_ne_sub _ _ hs
              · rename_i output _
                split at h
                · split at h
                  · rename_i er hb
                    simp only [Except.error.injEq] at h; subst h
                    exact ih _ _ _ _ (by intro hc; simp [FlagSrc.eval] at hc) hb
                  · rename_i output' hout
                    split at h
                    · rename_i hpe
                      refine ih _ _ _ _ ?_ h
                      intro had
                      have hI := hinv had
                      have hno : NoConcat output' :=
                        applyLoop_noConcat paste _ _ hpaste _ _ _ _ _ _
                          (by intro i t hi; simp [SearchPos.start] at hi) hout
                      obtain ⟨hsp, hrr⟩ := readArgs_spec _ _ _ _ hra
                      have hend : sp.next ≤ toks.length - rest.length := by
                        cases hfe : e0.m.isFunction with
                        | true =>
                          obtain ⟨a, hpa, hna⟩ := hfn hfe
                          obtain ⟨as, hsa⟩ := hsp hfe
                          obtain ⟨x, y, tail, htr, htl⟩ := splitArgs_length _ _ _ hsa
                          unfold parenAfter at hpa
                          rw [htr] at hpa
                          simp only [Option.some.injEq] at hpa
                          have := trimStartNL_length_le (toks.drop (p + 1))
                          rw [htr] at this
                          simp only [List.length_cons, List.length_drop] at this
                          omega
                        | false =>
                          have := hrr hfe
                          have hn := hob hfe
                          rw [this]
                          simp only [List.length_drop]
                          omega
                      exact Inv_step hI p _ hno (by omega) hend p _
                    · cases h
                · cases h
    · cases h

/-! ## locations of one lexer run are monotone -/

/-- consecutive spans: every token ends at or after its start, and the next one starts at or after that end
(the spans of one `TokenStream` run tile the file; a command line is a contiguous part of such a run) -/
def tiled : List Tok → Bool
  | [] => true
  | t :: r => decide (t.start ≤ t.stop) && (match r with | [] => true | u :: _ => decide (t.stop ≤ u.start)) && tiled r

theorem tiled_head (r : List Tok) : ∀ (t : Tok), tiled (t :: r) = true →
    t.start ≤ t.stop ∧ tiled r = true ∧ ∀ (j : Nat) (b : Tok), r[j]? = some b → t.stop ≤ b.start := by
  induction r with
  | nil =>
    intro t h
    simp only [tiled, Bool.and_true, decide_eq_true_eq] at h
    exact ⟨h, rfl, by intro j b hb; simp at hb⟩
  | cons u r ih =>
    intro t h
    rw [tiled] at h
    simp only [Bool.and_eq_true, decide_eq_true_eq] at h
    obtain ⟨⟨h1, h2⟩, h3⟩ := h
    obtain ⟨hu, _, hall⟩ := ih u h3
    refine ⟨h1, h3, ?_⟩
    intro j b hb
    cases j with
    | zero => simp only [List.getElem?_cons_zero, Option.some.injEq] at hb; subst hb; exact h2
    | succ j =>
      simp only [List.getElem?_cons_succ] at hb
      have := hall j b hb
      omega

theorem tiled_all (l : List Tok) : tiled l = true → ∀ (j : Nat) (b : Tok), l[j]? = some b → b.start ≤ b.stop := by
  induction l with
  | nil => intro _ j b hb; simp at hb
  | cons t r ih =>
    intro h j b hb
    obtain ⟨h1, h2, _⟩ := tiled_head r t h
    cases j with
    | zero => simp only [List.getElem?_cons_zero, Option.some.injEq] at hb; subst hb; exact h1
    | succ j => exact ih h2 j b (by simpa using hb)

theorem mono_of_tiled (cmd : List Tok) : tiled cmd = true → Mono cmd := by
  induction cmd with
  | nil => intro _ i j a b _ ha; simp at ha
  | cons t r ih =>
    intro h i j a b hij ha hb
    obtain ⟨h1, h2, h3⟩ := tiled_head r t h
    cases i with
    | zero =>
      simp only [List.getElem?_cons_zero, Option.some.injEq] at ha; subst ha
      cases j with
      | zero => simp only [List.getElem?_cons_zero, Option.some.injEq] at hb; subst hb; exact h1
      | succ j =>
        simp only [List.getElem?_cons_succ] at hb
        have := h3 j b hb
        have := tiled_all r h2 j b hb
        omega
    | succ i =>
      cases j with
      | zero => omega
      | succ j =>
        simp only [List.getElem?_cons_succ] at ha hb
        exact ih h2 i j a b (by omega) ha hb

end RsslVerif.Lemmas.DefinedLoc

//! Type-directed generator of RSSL programs that use every declaration kind (structs with methods,
//! enums, namespaces, cbuffers, resources with register/space annotations and bind-group attributes,
//! static/groupshared globals, function templates, overloads, default parameters, in/out/inout) and
//! every statement / expression form of the executable subset. Shared by C04, C15, C18.
#![allow(dead_code)]

use crate::util::*;

#[derive(Clone, Copy, PartialEq, Eq, Debug)]
pub enum Ty {
    Int,
    UInt,
    Float,
    Bool,
    Float2,
    Float3,
    Float4,
    Int2,
    UInt3,
}

impl Ty {
    pub fn name(self) -> &'static str {
        match self {
            Ty::Int => "int",
            Ty::UInt => "uint",
            Ty::Float => "float",
            Ty::Bool => "bool",
            Ty::Float2 => "float2",
            Ty::Float3 => "float3",
            Ty::Float4 => "float4",
            Ty::Int2 => "int2",
            Ty::UInt3 => "uint3",
        }
    }
    fn scalar(self) -> Ty {
        match self {
            Ty::Float2 | Ty::Float3 | Ty::Float4 => Ty::Float,
            Ty::Int2 => Ty::Int,
            Ty::UInt3 => Ty::UInt,
            t => t,
        }
    }
    fn dim(self) -> usize {
        match self {
            Ty::Float2 | Ty::Int2 => 2,
            Ty::Float3 | Ty::UInt3 => 3,
            Ty::Float4 => 4,
            _ => 1,
        }
    }
}

fn neg(inner: &str) -> String {
    if inner.starts_with('-') { format!("-({})", inner) } else { format!("-{}", inner) }
}

const SCALARS: [Ty; 4] = [Ty::Int, Ty::UInt, Ty::Float, Ty::Bool];
const ALL_TYS: [Ty; 9] = [
    Ty::Int, Ty::UInt, Ty::Float, Ty::Bool, Ty::Float2, Ty::Float3, Ty::Float4, Ty::Int2, Ty::UInt3,
];

#[derive(Clone)]
struct Var {
    name: String,
    ty: Ty,
    writable: bool,
}

#[derive(Clone)]
struct FnSig {
    name: String,
    ret: Ty,
    params: Vec<(Ty, &'static str)>, // type, direction ("", "out", "inout")
    defaults: usize,                 // number of trailing parameters with a default value
}

pub struct Gen<'r> {
    rng: &'r mut Rng,
    vars: Vec<Var>,
    fns: Vec<FnSig>,
    counter: u32,
    /// hook to rename user identifiers (C15); identity by default
    pub rename: Box<dyn Fn(&str) -> String>,
}

impl<'r> Gen<'r> {
    pub fn new(rng: &'r mut Rng) -> Self {
        Gen { rng, vars: Vec::new(), fns: Vec::new(), counter: 0, rename: Box::new(|s| s.to_string()) }
    }

    fn id(&self, s: &str) -> String {
        (self.rename)(s)
    }

    fn fresh(&mut self, prefix: &str) -> String {
        self.counter += 1;
        format!("{}{}", prefix, self.counter)
    }

    fn literal(&mut self, ty: Ty) -> String {
        match ty {
            Ty::Int => format!("{}", self.rng.range(0, 9)),
            Ty::UInt => format!("{}u", self.rng.range(0, 9)),
            Ty::Float => {
                let pool = ["0.0", "1.0", "0.5", "2.25", "3.0f", "0.125f", "1.5e2", "0.0031308", "7.0", "0.1f"];
                self.rng.pick(&pool).to_string()
            }
            Ty::Bool => if self.rng.chance(1, 2) { "true".into() } else { "false".into() },
            v => {
                let s = v.scalar();
                let parts: Vec<String> = (0..v.dim()).map(|_| self.literal(s)).collect();
                format!("{}({})", v.name(), parts.join(", "))
            }
        }
    }

    fn var_of(&mut self, ty: Ty, writable: bool) -> Option<String> {
        let c: Vec<&Var> = self.vars.iter().filter(|v| v.ty == ty && (!writable || v.writable)).collect();
        if c.is_empty() {
            None
        } else {
            let k = self.rng.below(c.len() as u64) as usize;
            Some(self.id(&c[k].name))
        }
    }

    /// an expression of exactly type `ty`
    pub fn expr(&mut self, ty: Ty, depth: u32) -> String {
        if depth == 0 || self.rng.chance(1, 5) {
            if self.rng.chance(2, 3) {
                if let Some(v) = self.var_of(ty, false) {
                    return v;
                }
            }
            return self.literal(ty);
        }
        let d = depth - 1;
        // comma (sequence) expressions in every position, and subscripts whose index is a sequence
        if self.rng.chance(1, 10) {
            let side = *self.rng.pick(&[Ty::Int, Ty::Float, Ty::Bool]);
            return format!("({}, {})", self.expr(side, d), self.expr(ty, d));
        }
        if self.rng.chance(1, 6) {
            let v = match ty.scalar() {
                Ty::Float if ty.dim() == 1 => Some(*self.rng.pick(&[Ty::Float2, Ty::Float3, Ty::Float4])),
                Ty::Int if ty.dim() == 1 => Some(Ty::Int2),
                Ty::UInt if ty.dim() == 1 => Some(Ty::UInt3),
                _ => None,
            };
            if let Some(v) = v {
                let idx = if self.rng.chance(1, 2) {
                    // a uint-typed sequence, so that the index needs no conversion and stays a bare sequence
                    format!("({}, {}u)", self.expr(Ty::Int, d), self.rng.below(2))
                } else {
                    format!("{}", self.rng.below(2))
                };
                return format!("{}[{}]", self.atom(v, d), idx);
            }
        }
        match ty {
            Ty::Bool => match self.rng.below(7) {
                0 => format!("({} && {})", self.expr(Ty::Bool, d), self.expr(Ty::Bool, d)),
                1 => format!("({} || {})", self.expr(Ty::Bool, d), self.expr(Ty::Bool, d)),
                2 => format!("!{}", self.expr(Ty::Bool, d)),
                3 | 4 => {
                    let t = *self.rng.pick(&[Ty::Int, Ty::UInt, Ty::Float]);
                    let op = *self.rng.pick(&["<", "<=", ">", ">=", "==", "!="]);
                    format!("({} {} {})", self.expr(t, d), op, self.expr(t, d))
                }
                5 => format!("(bool){}", self.expr(Ty::Int, d)),
                _ => format!("({} ? {} : {})", self.expr(Ty::Bool, d), self.expr(Ty::Bool, d), self.expr(Ty::Bool, d)),
            },
            Ty::Int | Ty::UInt => match self.rng.below(12) {
                0..=2 => {
                    let op = *self.rng.pick(&["+", "-", "*", "&", "|", "^"]);
                    format!("({} {} {})", self.expr(ty, d), op, self.expr(ty, d))
                }
                3 => format!("({} / {})", self.expr(ty, d), self.nonzero(ty)),
                4 => format!("({} % {})", self.expr(ty, d), self.nonzero(ty)),
                5 => format!("({} << {})", self.expr(ty, d), self.small_shift(ty)),
                6 => format!("({} >> {})", self.expr(ty, d), self.small_shift(ty)),
                7 => if ty == Ty::Int { neg(&self.expr(ty, d)) } else { format!("~{}", self.expr(ty, d)) },
                8 => {
                    let from = *self.rng.pick(&[Ty::Float, Ty::Int, Ty::UInt, Ty::Bool]);
                    format!("({}){}", ty.name(), self.expr(from, d))
                }
                9 => format!("({} ? {} : {})", self.expr(Ty::Bool, d), self.expr(ty, d), self.expr(ty, d)),
                10 => self.call_of(ty, d).unwrap_or_else(|| format!("min({}, {})", self.expr(ty, d), self.expr(ty, d))),
                _ => {
                    // component of a vector
                    let (v, sw) = if ty == Ty::Int { (Ty::Int2, *self.rng.pick(&["x", "y"])) } else { (Ty::UInt3, *self.rng.pick(&["x", "y", "z"])) };
                    format!("{}.{}", self.atom(v, d), sw)
                }
            },
            Ty::Float => match self.rng.below(12) {
                0..=3 => {
                    let op = *self.rng.pick(&["+", "-", "*", "/"]);
                    format!("({} {} {})", self.expr(ty, d), op, self.expr(ty, d))
                }
                4 => neg(&self.expr(ty, d)),
                5 => {
                    let from = *self.rng.pick(&[Ty::Int, Ty::UInt, Ty::Bool]);
                    format!("(float){}", self.expr(from, d))
                }
                6 => format!("({} ? {} : {})", self.expr(Ty::Bool, d), self.expr(ty, d), self.expr(ty, d)),
                7 => {
                    let f = *self.rng.pick(&["abs", "sqrt", "saturate", "floor", "frac", "exp2"]);
                    format!("{}({})", f, self.expr(ty, d))
                }
                8 => format!("{}({}, {})", self.rng.pick(&["min", "max"]), self.expr(ty, d), self.expr(ty, d)),
                9 => {
                    let v = *self.rng.pick(&[Ty::Float2, Ty::Float3, Ty::Float4]);
                    format!("dot({}, {})", self.expr(v, d), self.expr(v, d))
                }
                10 => self.call_of(ty, d).unwrap_or_else(|| format!("lerp({}, {}, {})", self.expr(ty, d), self.expr(ty, d), self.expr(ty, d))),
                _ => {
                    let v = *self.rng.pick(&[Ty::Float2, Ty::Float3, Ty::Float4]);
                    let sw = ["x", "y", "z", "w"][self.rng.below(v.dim() as u64) as usize];
                    format!("{}.{}", self.atom(v, d), sw)
                }
            },
            v => match self.rng.below(6) {
                0 | 1 => {
                    let op = if v.scalar() == Ty::Float { *self.rng.pick(&["+", "-", "*"]) } else { *self.rng.pick(&["+", "-", "&", "|"]) };
                    format!("({} {} {})", self.expr(v, d), op, self.expr(v, d))
                }
                2 => {
                    let s = v.scalar();
                    let parts: Vec<String> = (0..v.dim()).map(|_| self.expr(s, d)).collect();
                    format!("{}({})", v.name(), parts.join(", "))
                }
                3 if v == Ty::Float2 => format!("{}.{}", self.atom(Ty::Float4, d), self.rng.pick(&["xy", "zw", "yx", "xx"])),
                3 if v == Ty::Float3 => format!("{}.{}", self.atom(Ty::Float4, d), self.rng.pick(&["xyz", "zyx", "rgb"])),
                4 => format!("({} ? {} : {})", self.expr(Ty::Bool, d), self.expr(v, d), self.expr(v, d)),
                _ => self.atom(v, d),
            },
        }
    }

    /// a primary expression (safe as the object of a member access)
    fn atom(&mut self, ty: Ty, d: u32) -> String {
        if let Some(v) = self.var_of(ty, false) {
            if self.rng.chance(2, 3) {
                return v;
            }
        }
        let s = ty.scalar();
        let parts: Vec<String> = (0..ty.dim()).map(|_| self.expr(s, d.min(1))).collect();
        format!("{}({})", ty.name(), parts.join(", "))
    }

    fn nonzero(&mut self, ty: Ty) -> String {
        if ty == Ty::UInt { format!("{}u", self.rng.range(1, 7)) } else { format!("{}", self.rng.range(1, 7)) }
    }

    fn small_shift(&mut self, ty: Ty) -> String {
        if ty == Ty::UInt { format!("{}u", self.rng.range(0, 5)) } else { format!("{}", self.rng.range(0, 5)) }
    }

    fn call_of(&mut self, ret: Ty, d: u32) -> Option<String> {
        let c: Vec<FnSig> = self.fns.iter().filter(|f| f.ret == ret).cloned().collect();
        if c.is_empty() {
            return None;
        }
        let f = c[self.rng.below(c.len() as u64) as usize].clone();
        let drop = if f.defaults > 0 && self.rng.chance(1, 2) { self.rng.below(f.defaults as u64 + 1) as usize } else { 0 };
        let mut args = Vec::new();
        for (ty, dir) in f.params.iter().take(f.params.len() - drop) {
            if *dir == "" {
                args.push(self.expr(*ty, d));
            } else {
                match self.var_of(*ty, true) {
                    Some(v) => args.push(v),
                    None => return None,
                }
            }
        }
        Some(format!("{}({})", self.id(&f.name), args.join(", ")))
    }

    fn stmt(&mut self, depth: u32, ret: Option<Ty>, ind: &str, in_loop: bool) -> String {
        let d = 2;
        let choice = if depth == 0 { self.rng.below(4) } else { self.rng.below(13) };
        match choice {
            0 | 1 => {
                let ty = *self.rng.pick(&ALL_TYS);
                let name = self.fresh("v");
                let init = self.expr(ty, d);
                self.vars.push(Var { name: name.clone(), ty, writable: true });
                let m = if self.rng.chance(1, 6) { self.vars.last_mut().unwrap().writable = false; "const " } else { "" };
                format!("{}{}{} {} = {};\n", ind, m, ty.name(), self.id(&name), init)
            }
            2 | 3 => {
                let ty = *self.rng.pick(&ALL_TYS);
                match self.var_of(ty, true) {
                    Some(v) => {
                        let op = if ty == Ty::Bool { "=" } else if ty.scalar() == Ty::Float { *self.rng.pick(&["=", "+=", "-=", "*="]) } else { *self.rng.pick(&["=", "+=", "-=", "*=", "&=", "|=", "^="]) };
                        format!("{}{} {} {};\n", ind, v, op, self.expr(ty, d))
                    }
                    None => format!("{};\n", ind.to_string() + &self.expr(Ty::Int, 1)),
                }
            }
            4 => {
                let keep = self.vars.len();
                let c = self.expr(Ty::Bool, d);
                let attr = *self.rng.pick(&["", "", "[branch] ", "[flatten] "]);
                let mut s = format!("{}{}if ({})\n{}{{\n", ind, attr, c, ind);
                s.push_str(&self.block(depth - 1, ret, &format!("{}    ", ind), in_loop));
                self.vars.truncate(keep);
                s.push_str(&format!("{}}}\n", ind));
                if self.rng.chance(1, 2) {
                    s.push_str(&format!("{}else\n{}{{\n", ind, ind));
                    s.push_str(&self.block(depth - 1, ret, &format!("{}    ", ind), in_loop));
                    self.vars.truncate(keep);
                    s.push_str(&format!("{}}}\n", ind));
                }
                s
            }
            5 => {
                let keep = self.vars.len();
                let i = self.fresh("i");
                self.vars.push(Var { name: i.clone(), ty: Ty::Int, writable: false });
                let attr = *self.rng.pick(&["", "", "[unroll] ", "[loop] "]);
                let inc = if self.rng.chance(1, 3) { format!("{}++", self.id(&i)) } else if self.rng.chance(1, 2) { format!("++{}", self.id(&i)) } else { format!("{} += 1", self.id(&i)) };
                let mut s = format!("{}{}for (int {} = 0; {} < {}; {})\n{}{{\n", ind, attr, self.id(&i), self.id(&i), self.rng.range(1, 4), inc, ind);
                s.push_str(&self.block(depth - 1, ret, &format!("{}    ", ind), true));
                self.vars.truncate(keep);
                s.push_str(&format!("{}}}\n", ind));
                s
            }
            6 => {
                let keep = self.vars.len();
                let n = self.fresh("n");
                let mut s = format!("{}int {} = {};\n", ind, self.id(&n), self.rng.range(1, 3));
                s.push_str(&format!("{}while ({} > 0)\n{}{{\n{}    {}--;\n", ind, self.id(&n), ind, ind, self.id(&n)));
                s.push_str(&self.block(depth - 1, ret, &format!("{}    ", ind), true));
                self.vars.truncate(keep);
                s.push_str(&format!("{}}}\n", ind));
                s
            }
            7 => {
                let keep = self.vars.len();
                let n = self.fresh("k");
                let mut s = format!("{}uint {} = 0u;\n{}do\n{}{{\n{}    {} += 1u;\n", ind, self.id(&n), ind, ind, ind, self.id(&n));
                s.push_str(&self.block(depth - 1, ret, &format!("{}    ", ind), true));
                self.vars.truncate(keep);
                s.push_str(&format!("{}}}\n{}while ({} < {}u);\n", ind, ind, self.id(&n), self.rng.range(1, 3)));
                s
            }
            8 => {
                let keep = self.vars.len();
                let sel = self.expr(Ty::Int, 1);
                let mut s = format!("{}switch ({})\n{}{{\n", ind, sel, ind);
                let ncases = self.rng.range(1, 3);
                for c in 0..ncases {
                    s.push_str(&format!("{}    case {}:\n{}    {{\n", ind, c, ind));
                    s.push_str(&self.block(depth - 1, ret, &format!("{}        ", ind), false));
                    self.vars.truncate(keep);
                    s.push_str(&format!("{}        break;\n{}    }}\n", ind, ind));
                }
                s.push_str(&format!("{}    default:\n{}    {{\n{}        break;\n{}    }}\n{}}}\n", ind, ind, ind, ind, ind));
                s
            }
            9 => {
                let keep = self.vars.len();
                let mut s = format!("{}{{\n", ind);
                s.push_str(&self.block(depth - 1, ret, &format!("{}    ", ind), in_loop));
                self.vars.truncate(keep);
                s.push_str(&format!("{}}}\n", ind));
                s
            }
            10 if in_loop => format!("{}if ({})\n{}{{\n{}    {};\n{}}}\n", ind, self.expr(Ty::Bool, 1), ind, ind, self.rng.pick(&["break", "continue"]), ind),
            11 => {
                let c = self.expr(Ty::Bool, 1);
                let r = match ret {
                    Some(t) => format!("return {};", self.expr(t, d)),
                    None => "return;".to_string(),
                };
                format!("{}if ({})\n{}{{\n{}    {}\n{}}}\n", ind, c, ind, ind, r, ind)
            }
            _ => {
                // expression statement: a call with out parameters, or an increment
                match self.var_of(Ty::Int, true) {
                    Some(v) => format!("{}{}++;\n", ind, v),
                    None => format!("{}{};\n", ind, self.expr(Ty::Float, 1)),
                }
            }
        }
    }

    fn block(&mut self, depth: u32, ret: Option<Ty>, ind: &str, in_loop: bool) -> String {
        let n = self.rng.range(1, 3);
        let mut s = String::new();
        for _ in 0..n {
            s.push_str(&self.stmt(depth, ret, ind, in_loop));
        }
        s
    }

    fn function(&mut self, name: &str, ret: Ty, params: Vec<(Ty, &'static str)>, defaults: usize, ind: &str, qualifier: &str) -> String {
        let keep = self.vars.len();
        let mut ps = Vec::new();
        let np = params.len();
        for (k, (ty, dir)) in params.iter().enumerate() {
            let pn = format!("p{}", k);
            self.vars.push(Var { name: pn.clone(), ty: *ty, writable: true });
            let dflt = if k + defaults >= np && *dir == "" { format!(" = {}", self.literal(*ty)) } else { String::new() };
            let dirs = if *dir == "" { String::new() } else { format!("{} ", dir) };
            ps.push(format!("{}{} {}{}", dirs, ty.name(), self.id(&pn), dflt));
        }
        let mut s = format!("{}{}{} {}({})\n{}{{\n", ind, qualifier, ret.name(), self.id(name), ps.join(", "), ind);
        // out parameters must be written
        for (k, (ty, dir)) in params.iter().enumerate() {
            if *dir == "out" {
                s.push_str(&format!("{}    {} = {};\n", ind, self.id(&format!("p{}", k)), self.literal(*ty)));
            }
        }
        s.push_str(&self.block(2, Some(ret), &format!("{}    ", ind), false));
        s.push_str(&format!("{}    return {};\n{}}}\n", ind, self.expr(ret, 2), ind));
        self.vars.truncate(keep);
        s
    }

    pub fn program(&mut self) -> String {
        let mut s = String::new();
        // enum
        if self.rng.chance(2, 3) {
            s.push_str(&format!("enum {}\n{{\n    {},\n    {} = 3,\n    {},\n}};\n", self.id("Mode"), self.id("ModeA"), self.id("ModeB"), self.id("ModeC")));
        }
        // struct with a method
        let has_struct = self.rng.chance(2, 3);
        if has_struct {
            s.push_str(&format!("struct {}\n{{\n    float {};\n    int {};\n    float3 {};\n", self.id("Item"), self.id("weight"), self.id("count"), self.id("dir")));
            if self.rng.chance(1, 2) {
                s.push_str(&format!("    float {}()\n    {{\n        return {} * 2.0;\n    }}\n", self.id("scaled"), self.id("weight")));
            }
            s.push_str("};\n");
        }
        // globals
        if self.rng.chance(2, 3) {
            s.push_str(&format!("static const int {} = {};\n", self.id("kCount"), self.rng.range(1, 8)));
            self.vars.push(Var { name: "kCount".into(), ty: Ty::Int, writable: false });
        }
        if self.rng.chance(1, 2) {
            s.push_str(&format!("static float {} = 0.5;\n", self.id("s_accum")));
            self.vars.push(Var { name: "s_accum".into(), ty: Ty::Float, writable: true });
        }
        if self.rng.chance(1, 3) {
            s.push_str(&format!("groupshared uint {}[4];\n", self.id("lds_data")));
        }
        // cbuffer and resources with annotations
        if self.rng.chance(1, 2) {
            let reg = if self.rng.chance(1, 2) { format!(" : register(b{})", self.rng.below(3)) } else { String::new() };
            s.push_str(&format!("cbuffer {}{}\n{{\n    float4 {};\n    int {};\n}}\n", self.id("Params"), reg, self.id("c_color"), self.id("c_index")));
            self.vars.push(Var { name: "c_color".into(), ty: Ty::Float4, writable: false });
            self.vars.push(Var { name: "c_index".into(), ty: Ty::Int, writable: false });
        }
        let res_kinds = [
            ("Texture2D<float4>", "t"), ("RWTexture2D<float4>", "u"), ("StructuredBuffer<float4>", "t"),
            ("RWStructuredBuffer<uint>", "u"), ("ByteAddressBuffer", "t"), ("RWByteAddressBuffer", "u"),
            ("Buffer<float4>", "t"), ("RWBuffer<float4>", "u"), ("SamplerState", "s"), ("Texture3D<float4>", "t"),
            ("TextureCube<float4>", "t"), ("Texture2DArray<float4>", "t"), ("SamplerComparisonState", "s"),
            ("RaytracingAccelerationStructure", "t"), ("BufferAddress", "t"), ("RWBufferAddress", "u"),
        ];
        let nres = self.rng.below(6);
        for k in 0..nres {
            let (ty, letter) = *self.rng.pick(&res_kinds);
            let name = format!("g_res{}", k);
            let mut line = String::new();
            match self.rng.below(4) {
                0 => line.push_str(&format!("[[rssl::bind_group({})]] ", self.rng.below(3))),
                _ => {}
            }
            line.push_str(&format!("{} {}", ty, self.id(&name)));
            if self.rng.chance(1, 5) {
                line.push_str(&format!("[{}]", self.rng.range(1, 3)));
            }
            match self.rng.below(4) {
                0 => line.push_str(&format!(" : register({}{})", letter, self.rng.below(4))),
                1 => line.push_str(&format!(" : register({}{}, space{})", letter, self.rng.below(4), self.rng.below(3))),
                _ => {}
            }
            line.push_str(";\n");
            s.push_str(&line);
        }
        // function template
        if self.rng.chance(1, 3) {
            s.push_str(&format!("template<typename T>\nT {}(T x)\n{{\n    return x;\n}}\n", self.id("passthrough")));
        }
        // namespace with a helper
        if self.rng.chance(1, 2) {
            let keep = self.vars.len();
            let body = self.function("helper", Ty::Float, vec![(Ty::Float, "")], 0, "    ", "");
            self.vars.truncate(keep);
            s.push_str(&format!("namespace {}\n{{\n{}}}\n", self.id("util"), body));
        }
        // free functions: overload pair, out/inout, default parameters
        let nf = self.rng.range(1, 4);
        for k in 0..nf {
            let ret = *self.rng.pick(&[Ty::Int, Ty::UInt, Ty::Float, Ty::Bool, Ty::Float3, Ty::Float4]);
            let np = self.rng.below(4) as usize;
            let mut params = Vec::new();
            for _ in 0..np {
                let ty = *self.rng.pick(&ALL_TYS);
                let dir = *self.rng.pick(&["", "", "", "out", "inout"]);
                params.push((ty, dir));
            }
            let defaults = if params.last().map(|p| p.1 == "").unwrap_or(false) && self.rng.chance(1, 3) { 1 } else { 0 };
            let name = format!("fn{}", k);
            s.push_str(&self.function(&name, ret, params.clone(), defaults, "", ""));
            self.fns.push(FnSig { name, ret, params, defaults });
        }
        if self.rng.chance(1, 3) {
            // an overload set on the first parameter type
            for (i, ty) in [Ty::Int, Ty::Float].iter().enumerate() {
                let _ = i;
                s.push_str(&self.function("pick", *ty, vec![(*ty, "")], 0, "", ""));
            }
        }
        // an entry point using some of the above
        let keep = self.vars.len();
        s.push_str(&format!("[numthreads(8, 8, 1)]\nvoid {}(uint3 {} : SV_DispatchThreadID)\n{{\n", self.id("CSMain"), self.id("dtid")));
        self.vars.push(Var { name: "dtid".into(), ty: Ty::UInt3, writable: false });
        if has_struct {
            s.push_str(&format!("    {} {};\n    {}.{} = 1.0;\n    {}.{} = 2;\n    {}.{} = float3(0.0, 1.0, 0.0);\n",
                self.id("Item"), self.id("item"), self.id("item"), self.id("weight"), self.id("item"), self.id("count"), self.id("item"), self.id("dir")));
        }
        s.push_str(&self.block(2, None, "    ", false));
        s.push_str("}\n");
        self.vars.truncate(keep);
        s
    }
}

pub fn gen_source(rng: &mut Rng) -> String {
    let mut g = Gen::new(rng);
    g.program()
}

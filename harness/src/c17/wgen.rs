//! "Wide" shader files for C17 / C18: an abstract program that is carried *in the request line* (self-contained,
//! so replay, shrinking and the Lean model all see the same thing) and rendered deterministically.
//!
//! encoding  : items separated by ` | `, fields of an item by one space
//!   R <name> <kind> <len|-> <group|-> <flags|-> [<sampler props {..}>]   resource (flags: s static sampler, b bindless,
//!                                            t declared through a typedef, x the sampler properties are invalid)
//!                                            len `0` = unsized array; for kind `cbuffer`, len = number of members
//!                                            (`0` = empty block)
//!   T <k>                                    text that mentions RSSL_TARGET_* where it can not matter (k: 0 comment,
//!                                            1 `#if 0` block, 2 `#ifdef` of an undefined name, 3 unused macro body)
//!   S <k>                                    `static int s_value<k> = 0;`
//!   F <name> <shape><flags> <threads|-> <uses|-> <calls|-> <statics|->
//!         shape : h `void f()`  c compute  v vertex  p pixel  r pixel reading a per-primitive attribute  t task  m mesh
//!                 n mesh with payload  q mesh with per-primitive output and control flow around the output writes
//!                 u mesh whose per-primitive output is a plain array with a semantic of its own  f pixel with system-value
//!                 inputs the previous stage does not write  g compute with every thread-id input  w vertex with an
//!                 instance id  z (always with flag T) `template<typename T> T f(T tparam) { return tparam; }`
//!         flags : d declaration only, T function template, N inside `namespace ns1`, M method of `struct S_<name>`,
//!                 D only under `#if WIDE_ON`, E only under `#if !WIDE_ON`, R rich body (method calls on the resources,
//!                 locals, arithmetic)
//!         threads `8,c4,1` (cN = a constant expression with value N); uses/calls names joined by `.`; statics `0.2`
//!   P <name> <flags|-> <prop> <prop> ...     pipeline block (flags N D E as above)
//!         prop  : Name=val ; val : i:ident  q:qualified::ident  s:String  n:123  k:5 (constant expression)  m:1 (= -1)
//!                 f:1.5  b:1|b:0  x:0 (no value at all: a syntax error)  {Sub=val,Sub=val}
//!                 z:name (`sizeof(name<uint>(1u))` = 4; instantiates the function template `name`)
//!                 v:0 (`lds_payload.start_location`: well typed, not a constant expression)
//! rendering : every property on a line of its own, so that a diagnostic's line identifies the property;
//!             `path` of a property = its number in a depth-first walk of the block (1-based; 0 = the header line).
#![allow(dead_code)]
use crate::util::*;

#[derive(Clone, Debug, PartialEq)]
pub enum Val {
    Ident(String),
    Qual(String),
    Str(String),
    Num(u64),
    Konst(u64),
    Neg(u64),
    Float(String),
    Bool(bool),
    /// `sizeof(<name><uint>(1u))`: a constant expression with the value 4 whose type check instantiates the function
    /// template `<name>` (an item `F <name> zT`); encoded `z:<name>`
    SizeofInst(String),
    /// `lds_payload.start_location`: a well-typed expression that is not a constant expression; encoded `v:0`
    NonConst,
    /// nothing between `=` and `;`: the parser rejects the file
    Garbage,
    Agg(Vec<Prop>),
}

#[derive(Clone, Debug, PartialEq)]
pub struct Prop {
    pub name: String,
    pub val: Val,
}

#[derive(Clone, Debug, PartialEq)]
pub struct WRes {
    pub name: String,
    pub kind: String,
    pub len: Option<u32>,
    pub group: Option<u32>,
    pub static_sampler: bool,
    pub bindless: bool,
    /// declared through `typedef <type>[<len>] T_<name>;`
    pub typedefd: bool,
    /// the static sampler's properties are invalid (the front end rejects the file at this declaration)
    pub bad_sampler: bool,
    pub sampler_props: Vec<Prop>,
}

#[derive(Clone, Copy, Debug, PartialEq)]
pub struct Thr {
    pub v: u32,
    pub konst: bool,
    /// 0 = fine; else an argument the constant evaluator can not turn into a u32: 1 `-1`, 2 `4294967296`, 3 `1.5`,
    /// 4 a member of a groupshared variable (not a constant expression); encoded `x<k>`
    pub bad: u8,
}

#[derive(Clone, Debug, PartialEq)]
pub struct WFunc {
    pub name: String,
    pub shape: char,
    /// subset of "dTNMDE"
    pub flags: String,
    pub threads: Option<[Thr; 3]>,
    pub uses: Vec<String>,
    pub calls: Vec<String>,
    pub statics: Vec<usize>,
}

#[derive(Clone, Debug, PartialEq)]
pub struct WPipe {
    pub name: String,
    /// subset of "NDE"
    pub flags: String,
    pub props: Vec<Prop>,
}

#[derive(Clone, Debug, PartialEq)]
pub enum WItem {
    Res(WRes),
    Static(usize),
    /// inactive text that mentions the target macros
    Inactive(usize),
    Func(WFunc),
    Pipe(WPipe),
}

#[derive(Clone, Debug, PartialEq, Default)]
pub struct WProgram {
    pub items: Vec<WItem>,
}

pub const WRES_KINDS: &[(&str, &str)] = &[
    ("Buffer", "Buffer<float4>"),
    ("RWBuffer", "RWBuffer<float4>"),
    ("ByteAddressBuffer", "ByteAddressBuffer"),
    ("RWByteAddressBuffer", "RWByteAddressBuffer"),
    ("BufferAddress", "BufferAddress"),
    ("RWBufferAddress", "RWBufferAddress"),
    ("StructuredBuffer", "StructuredBuffer<float4>"),
    ("RWStructuredBuffer", "RWStructuredBuffer<float4>"),
    ("Texture2D", "Texture2D<float4>"),
    ("Texture2DArray", "Texture2DArray<float4>"),
    ("RWTexture2D", "RWTexture2D<float4>"),
    ("RWTexture2DArray", "RWTexture2DArray<float4>"),
    ("TextureCube", "TextureCube<float4>"),
    ("TextureCubeArray", "TextureCubeArray<float4>"),
    ("Texture3D", "Texture3D<float4>"),
    ("RWTexture3D", "RWTexture3D<float4>"),
    ("ConstantBuffer", "ConstantBuffer<CbS>"),
    ("SamplerState", "SamplerState"),
    ("SamplerComparisonState", "SamplerComparisonState"),
    ("RaytracingAccelerationStructure", "RaytracingAccelerationStructure"),
    ("cbuffer", "cbuffer"),
    // a structured buffer whose element has different layouts in HLSL and Metal: rejected by layout validation only
    ("TrapBuffer", "StructuredBuffer<LayoutTrap>"),
];

// ------------------------------------------------------------------------------------------------ encoding

fn show_val(v: &Val) -> String {
    match v {
        Val::Ident(s) => format!("i:{}", s),
        Val::Qual(s) => format!("q:{}", s),
        Val::Str(s) => format!("s:{}", s),
        Val::Num(n) => format!("n:{}", n),
        Val::Konst(n) => format!("k:{}", n),
        Val::Neg(n) => format!("m:{}", n),
        Val::Float(s) => format!("f:{}", s),
        Val::SizeofInst(s) => format!("z:{}", s),
        Val::NonConst => "v:0".to_string(),
        Val::Bool(b) => format!("b:{}", if *b { 1 } else { 0 }),
        Val::Garbage => "x:0".to_string(),
        Val::Agg(ps) => format!("{{{}}}", ps.iter().map(show_prop).collect::<Vec<_>>().join(",")),
    }
}

pub fn show_prop(p: &Prop) -> String {
    format!("{}={}", p.name, show_val(&p.val))
}

fn dash<T: AsRef<str>>(xs: &[T]) -> String {
    if xs.is_empty() { "-".to_string() } else { xs.iter().map(|x| x.as_ref().to_string()).collect::<Vec<_>>().join(".") }
}

fn opt_num(n: Option<u32>) -> String {
    n.map(|x| x.to_string()).unwrap_or_else(|| "-".into())
}

impl WProgram {
    pub fn show(&self) -> String {
        let mut parts = Vec::new();
        for it in &self.items {
            parts.push(match it {
                WItem::Res(r) => {
                    let mut fl = String::new();
                    if r.static_sampler {
                        fl.push('s');
                    }
                    if r.bindless {
                        fl.push('b');
                    }
                    if r.typedefd {
                        fl.push('t');
                    }
                    if r.bad_sampler {
                        fl.push('x');
                    }
                    if fl.is_empty() {
                        fl.push('-');
                    }
                    let mut s = format!("R {} {} {} {} {}", r.name, r.kind, opt_num(r.len), opt_num(r.group), fl);
                    if !r.sampler_props.is_empty() {
                        s.push_str(&format!(" {}", show_val(&Val::Agg(r.sampler_props.clone()))));
                    }
                    s
                }
                WItem::Static(k) => format!("S {}", k),
                WItem::Inactive(k) => format!("T {}", k),
                WItem::Func(f) => {
                    let th = match &f.threads {
                        None => "-".to_string(),
                        Some(t) => t
                            .iter()
                            .map(|x| if x.bad != 0 { format!("x{}", x.bad) } else { format!("{}{}", if x.konst { "c" } else { "" }, x.v) })
                            .collect::<Vec<_>>()
                            .join(","),
                    };
                    let st: Vec<String> = f.statics.iter().map(|k| k.to_string()).collect();
                    format!("F {} {}{} {} {} {} {}", f.name, f.shape, f.flags, th, dash(&f.uses), dash(&f.calls), dash(&st))
                }
                WItem::Pipe(p) => {
                    let mut s = format!("P {} {}", p.name, if p.flags.is_empty() { "-" } else { &p.flags });
                    for pr in &p.props {
                        s.push(' ');
                        s.push_str(&show_prop(pr));
                    }
                    s
                }
            });
        }
        parts.join(" | ")
    }

    pub fn parse(s: &str) -> Option<WProgram> {
        let mut items = Vec::new();
        if s.trim().is_empty() {
            return Some(WProgram { items });
        }
        for part in s.split(" | ") {
            let f: Vec<&str> = part.split(' ').filter(|x| !x.is_empty()).collect();
            match f.first().copied() {
                Some("R") if f.len() == 6 || f.len() == 7 => {
                    let sampler_props = if f.len() == 7 {
                        match parse_val(f[6])? {
                            Val::Agg(ps) => ps,
                            _ => return None,
                        }
                    } else {
                        Vec::new()
                    };
                    items.push(WItem::Res(WRes {
                        name: f[1].to_string(),
                        kind: f[2].to_string(),
                        len: if f[3] == "-" { None } else { Some(f[3].parse().ok()?) },
                        group: if f[4] == "-" { None } else { Some(f[4].parse().ok()?) },
                        static_sampler: f[5].contains('s'),
                        bindless: f[5].contains('b'),
                        typedefd: f[5].contains('t'),
                        bad_sampler: f[5].contains('x'),
                        sampler_props,
                    }));
                }
                Some("S") if f.len() == 2 => items.push(WItem::Static(f[1].parse().ok()?)),
                Some("T") if f.len() == 2 => items.push(WItem::Inactive(f[1].parse().ok()?)),
                Some("F") if f.len() == 7 => {
                    let mut ch = f[2].chars();
                    let shape = ch.next()?;
                    if !"hcvprtmnqufgwz".contains(shape) {
                        return None;
                    }
                    let flags: String = ch.collect();
                    let threads = if f[3] == "-" {
                        None
                    } else {
                        let v: Vec<&str> = f[3].split(',').collect();
                        if v.len() != 3 {
                            return None;
                        }
                        let mut t = [Thr { v: 1, konst: false, bad: 0 }; 3];
                        for (i, x) in v.iter().enumerate() {
                            if let Some(b) = x.strip_prefix('x') {
                                t[i] = Thr { v: 1, konst: false, bad: b.parse().ok()? };
                                continue;
                            }
                            let (k, n) = match x.strip_prefix('c') {
                                Some(n) => (true, n),
                                None => (false, *x),
                            };
                            t[i] = Thr { v: n.parse().ok()?, konst: k, bad: 0 };
                        }
                        Some(t)
                    };
                    let list = |x: &str| -> Vec<String> {
                        if x == "-" { Vec::new() } else { x.split('.').map(|y| y.to_string()).collect() }
                    };
                    let mut statics = Vec::new();
                    for x in list(f[6]) {
                        statics.push(x.parse().ok()?);
                    }
                    items.push(WItem::Func(WFunc {
                        name: f[1].to_string(),
                        shape,
                        flags,
                        threads,
                        uses: list(f[4]),
                        calls: list(f[5]),
                        statics,
                    }));
                }
                Some("P") if f.len() >= 3 => {
                    let mut props = Vec::new();
                    for x in &f[3..] {
                        props.push(parse_prop(x)?);
                    }
                    items.push(WItem::Pipe(WPipe {
                        name: f[1].to_string(),
                        flags: if f[2] == "-" { String::new() } else { f[2].to_string() },
                        props,
                    }));
                }
                _ => return None,
            }
        }
        Some(WProgram { items })
    }

    pub fn pipes(&self) -> Vec<&WPipe> {
        self.items.iter().filter_map(|i| if let WItem::Pipe(p) = i { Some(p) } else { None }).collect()
    }

    pub fn funcs(&self) -> Vec<&WFunc> {
        self.items.iter().filter_map(|i| if let WItem::Func(p) = i { Some(p) } else { None }).collect()
    }

    pub fn resources(&self) -> Vec<&WRes> {
        self.items.iter().filter_map(|i| if let WItem::Res(p) = i { Some(p) } else { None }).collect()
    }

    /// the program without the pipeline items for which `keep(index among pipelines)` is false
    pub fn keep_pipes(&self, keep: &dyn Fn(usize) -> bool) -> WProgram {
        let mut k = 0;
        let mut items = Vec::new();
        for it in &self.items {
            if let WItem::Pipe(_) = it {
                if keep(k) {
                    items.push(it.clone());
                }
                k += 1;
            } else {
                items.push(it.clone());
            }
        }
        WProgram { items }
    }

    /// items that exist under the given setting of the API define WIDE_ON (`D` items need it, `E` items need its absence)
    pub fn active(&self, wide_on: bool) -> WProgram {
        let ok = |fl: &str| !(fl.contains('D') && !wide_on) && !(fl.contains('E') && wide_on);
        WProgram {
            items: self
                .items
                .iter()
                .filter(|it| match it {
                    WItem::Func(f) => ok(&f.flags),
                    WItem::Pipe(p) => ok(&p.flags),
                    _ => true,
                })
                .cloned()
                .collect(),
        }
    }
}

fn split_top(s: &str) -> Vec<&str> {
    let mut out = Vec::new();
    let mut depth = 0;
    let mut start = 0;
    for (i, c) in s.char_indices() {
        match c {
            '{' => depth += 1,
            '}' => depth -= 1,
            ',' if depth == 0 => {
                out.push(&s[start..i]);
                start = i + 1;
            }
            _ => {}
        }
    }
    if start < s.len() {
        out.push(&s[start..]);
    }
    out
}

fn parse_val(s: &str) -> Option<Val> {
    if let Some(inner) = s.strip_prefix('{') {
        let inner = inner.strip_suffix('}')?;
        let mut ps = Vec::new();
        for x in split_top(inner) {
            ps.push(parse_prop(x)?);
        }
        return Some(Val::Agg(ps));
    }
    let (k, v) = s.split_once(':')?;
    Some(match k {
        "i" => Val::Ident(v.to_string()),
        "q" => Val::Qual(v.to_string()),
        "s" => Val::Str(v.to_string()),
        "n" => Val::Num(v.parse().ok()?),
        "k" => Val::Konst(v.parse().ok()?),
        "m" => Val::Neg(v.parse().ok()?),
        "f" => Val::Float(v.to_string()),
        "z" => Val::SizeofInst(v.to_string()),
        "v" => Val::NonConst,
        "b" => Val::Bool(v == "1"),
        "x" => Val::Garbage,
        _ => return None,
    })
}

pub fn parse_prop(s: &str) -> Option<Prop> {
    let (n, v) = s.split_once('=')?;
    Some(Prop { name: n.to_string(), val: parse_val(v)? })
}

// ------------------------------------------------------------------------------------------------ rendering

pub struct RenderOpts {
    /// put the middle third of the items into `wide_inc.rssl`
    pub include: bool,
}

pub struct Rendered {
    /// (file name, contents); the first is the entry file `main.rssl`
    pub files: Vec<(String, String)>,
    /// (file, 1-based line) -> (pipeline name, path index)
    pub lines: Vec<((String, usize), (String, usize))>,
}

impl Rendered {
    pub fn path_of(&self, file: &str, line: usize) -> Option<String> {
        self.lines.iter().find(|((f, l), _)| f == file && *l == line).map(|(_, (p, k))| format!("{}.{}", p, k))
    }
}

fn render_scalar(v: &Val) -> String {
    match v {
        Val::Ident(s) | Val::Qual(s) => s.clone(),
        Val::Str(s) => format!("\"{}\"", s),
        Val::Num(n) => n.to_string(),
        Val::Konst(n) => {
            if *n == 0 { "(K_ONE - 1)".to_string() } else { format!("(K_ONE + {})", n - 1) }
        }
        Val::Neg(n) => format!("-{}", n),
        Val::Float(s) => s.clone(),
        Val::SizeofInst(s) => format!("sizeof({}<uint>(1u))", s),
        Val::NonConst => "lds_payload.start_location".to_string(),
        Val::Bool(b) => (if *b { "true" } else { "false" }).to_string(),
        Val::Garbage => String::new(),
        Val::Agg(_) => unreachable!(),
    }
}

struct Writer {
    file: String,
    text: String,
    line: usize,
}

impl Writer {
    fn new(file: &str) -> Self {
        Writer { file: file.to_string(), text: String::new(), line: 1 }
    }
    fn push(&mut self, s: &str) {
        self.text.push_str(s);
        self.text.push('\n');
        self.line += 1 + s.matches('\n').count();
    }
}

fn render_props(w: &mut Writer, props: &[Prop], indent: usize, pipe: &str, k: &mut usize, lines: &mut Vec<((String, usize), (String, usize))>) {
    let pad = " ".repeat(indent);
    for p in props {
        *k += 1;
        lines.push(((w.file.clone(), w.line), (pipe.to_string(), *k)));
        match &p.val {
            Val::Agg(sub) => {
                w.push(&format!("{}{} = {{", pad, p.name));
                render_props(w, sub, indent + 4, pipe, k, lines);
                w.push(&format!("{}}}", pad));
            }
            v => w.push(&format!("{}{} = {};", pad, p.name, render_scalar(v))),
        }
    }
}

/// a statement that really uses the resource (method call / subscript / member), or `None` when only a mention is possible
fn rich_use(res: &WRes) -> Option<String> {
    let g = match res.len {
        Some(0) => return None,
        Some(_) => format!("{}[0u]", res.name),
        None => res.name.clone(),
    };
    Some(match res.kind.as_str() {
        "Buffer" | "StructuredBuffer" => format!("    acc += {}.Load(0);\n", g),
        "RWBuffer" | "RWStructuredBuffer" => format!("    acc += {}.Load(0);\n    {}[1] = acc;\n", g, g),
        "ByteAddressBuffer" => format!("    word += {}.Load(0u);\n    acc += {}.Load<float4>(16u);\n", g, g),
        "RWByteAddressBuffer" => format!("    word += {}.Load(4u);\n    {}.Store(0u, word);\n", g, g),
        "BufferAddress" => format!("    word += {}.Load<uint>(0u);\n", g),
        "RWBufferAddress" => format!("    word += {}.Load<uint>(8u);\n    {}.Store<uint>(8u, word);\n", g, g),
        "Texture2D" => format!("    acc += {}.Load(int3(0, 0, 0));\n", g),
        "Texture2DArray" | "Texture3D" => format!("    acc += {}.Load(int4(0, 0, 0, 0));\n", g),
        "RWTexture2D" => format!("    acc += {}.Load(int2(0, 0));\n    {}[uint2(0, 0)] = acc;\n", g, g),
        "RWTexture2DArray" => format!("    acc += {}.Load(int3(0, 0, 0));\n", g),
        "RWTexture3D" => format!("    {}[uint3(0, 0, 0)] = acc;\n", g),
        "ConstantBuffer" => format!("    acc += {}.v;\n", g),
        "TrapBuffer" => format!("    acc.x += {}.Load(0).a;\n", g),
        _ => return None,
    })
}

fn body_of(prog: &WProgram, f: &WFunc) -> String {
    let mut s = String::new();
    let rich = f.flags.contains('R');
    if rich {
        s.push_str("    float4 acc = float4(0, 0, 0, 0);\n    uint word = K_ONE;\n");
    }
    for u in &f.uses {
        if let Some(res) = prog.resources().into_iter().find(|r| &r.name == u) {
            if rich && res.kind == "cbuffer" && res.len != Some(0) {
                // members of a cbuffer block inside every kind of statement and expression (the Metal exporter rewrites each
                // of these uses into a member access on the generated global)
                let m = format!("{}_v0", res.name);
                s.push_str(&format!(
                    "    acc += {m};\n    do\n    {{\n        acc.w += ({m}.x > 0.0 ? {m}.y : 1.0);\n    }}\n    while (acc.w < 0.0);\n    switch (word)\n    {{\n        case 0u:\n            acc += {m};\n            break;\n        default:\n            acc.x = ({m}.z, {m}.w);\n            break;\n    }}\n    float4 copy_{n}[2] = {{ {m}, {m}.wzyx }};\n    acc += copy_{n}[1];\n",
                    m = m,
                    n = res.name
                ));
                continue;
            }
            if rich && res.kind != "cbuffer" {
                if let Some(st) = rich_use(res) {
                    s.push_str(&st);
                    continue;
                }
            }
            if res.kind == "cbuffer" {
                if res.len != Some(0) {
                    s.push_str(&format!("    {}_v0;\n", res.name));
                }
            } else if res.len.is_some() {
                s.push_str(&format!("    {}[0u];\n", res.name));
            } else {
                s.push_str(&format!("    {};\n", res.name));
            }
        }
    }
    for c in &f.calls {
        if let Some(callee) = prog.funcs().into_iter().find(|g| &g.name == c && g.shape == 'h' && !g.flags.contains('M') && !g.flags.contains('T')) {
            if callee.flags.contains('N') && !f.flags.contains('N') {
                s.push_str(&format!("    ns1::{}();\n", c));
            } else {
                s.push_str(&format!("    {}();\n", c));
            }
        }
    }
    for k in &f.statics {
        s.push_str(&format!("    s_value{} = s_value{} + 1;\n", k, k));
    }
    if rich {
        s.push_str("    if (acc.x > 1.0 && word != 0u)\n    {\n        word = (uint)acc.y << 2;\n    }\n    for (uint it = 0; it < word && it < 4u; ++it)\n    {\n        acc.z += (float)it * 0.5;\n    }\n");
    }
    s
}

fn render_func(prog: &WProgram, f: &WFunc) -> String {
    let n = &f.name;
    let decl = f.flags.contains('d');
    let b = if decl { String::new() } else { body_of(prog, f) };
    let th = match &f.threads {
        Some(t) => {
            let d: Vec<String> =
                t.iter()
                    .map(|x| match x.bad {
                        0 => if x.konst { render_scalar(&Val::Konst(x.v as u64)) } else { x.v.to_string() },
                        1 => "-1".to_string(),
                        2 => "4294967296".to_string(),
                        3 => "1.5".to_string(),
                        _ => "lds_payload.start_location".to_string(),
                    })
                    .collect();
            format!("[numthreads({}, {}, {})]\n", d[0], d[1], d[2])
        }
        None => String::new(),
    };
    let tmpl = f.flags.contains('T');
    let (sig, tail) = match f.shape {
        'h' => {
            if tmpl {
                (format!("template<typename T> void {}(T tparam)", n), String::new())
            } else {
                (format!("void {}()", n), String::new())
            }
        }
        'z' => (format!("template<typename T> T {}(T tparam)", n), "    return tparam;\n".to_string()),
        'c' => (format!("void {}(uint3 dtid : SV_DispatchThreadID)", n), String::new()),
        'g' => (
            format!("void {}(uint3 dtid : SV_DispatchThreadID, uint3 gid : SV_GroupID, uint3 gtid : SV_GroupThreadID, uint gindex : SV_GroupIndex)", n),
            String::new(),
        ),
        'w' => (
            format!("void {}(uint vid : SV_VertexID, uint iid : SV_InstanceID, out float4 o_pos : SV_Position)", n),
            "    o_pos = float4(vid, iid, 0, 1);\n".to_string(),
        ),
        'f' => (
            format!("float4 {}(float4 i_pos : SV_Position, bool i_front : SV_IsFrontFace, uint i_prim : SV_PrimitiveID) : SV_Target0", n),
            "    return float4(i_prim, i_front ? 1 : 0, 0, 0);\n".to_string(),
        ),
        'u' => (
            format!(
                "[outputtopology(\"triangle\")]\nvoid {}(\n    uint3 dtid : SV_DispatchThreadID,\n    out vertices MeshVertex o_vertices[64],\n    out primitives uint o_material[64] : MATERIAL,\n    out indices uint3 o_triangles[64]\n)",
                n
            ),
            "    SetMeshOutputCounts(64, 64);\n    MeshVertex vertex;\n    vertex.position = float4(0, 0, 0, 1);\n    o_vertices[dtid.x] = vertex;\n    o_material[dtid.x] = dtid.x % 8;\n    o_triangles[dtid.x] = uint3(0, 1, 2);\n".to_string(),
        ),
        'v' => (
            format!("void {}(uint vid : SV_VertexID, out float4 o_pos : SV_Position)", n),
            "    o_pos = float4(0, 0, 0, 1);\n".to_string(),
        ),
        'p' => (format!("float4 {}(float4 i_pos : SV_Position) : SV_Target0", n), "    return float4(0, 0, 0, 0);\n".to_string()),
        'r' => (
            format!("float4 {}(float4 i_pos : SV_Position, uint i_material : MATERIAL) : SV_Target0", n),
            "    return float4(i_material, 0, 0, 0);\n".to_string(),
        ),
        'q' => (
            format!(
                "[outputtopology(\"triangle\")]\nvoid {}(\n    uint3 dtid : SV_DispatchThreadID,\n    out vertices MeshVertex o_vertices[64],\n    out primitives MeshPrim o_primitives[64],\n    out indices uint3 o_triangles[64]\n)",
                n
            ),
            "    SetMeshOutputCounts(64, 64);\n    for (uint v = dtid.x; v < 64; v += 64)\n    {\n        MeshVertex vertex;\n        vertex.position = float4(0, 0, 0, 1);\n        o_vertices[v] = vertex;\n    }\n    MeshPrim prim;\n    prim.material = dtid.x % 8;\n    if (dtid.x < 64)\n    {\n        o_primitives[dtid.x] = prim;\n    }\n    else\n    {\n        o_primitives[0] = prim;\n    }\n    uint i = 0;\n    while (i < 1)\n    {\n        o_triangles[dtid.x] = uint3(0, 1, 2);\n        i++;\n    }\n".to_string(),
        ),
        't' => (
            format!("void {}(uint3 dtid : SV_DispatchThreadID)", n),
            "    lds_payload.start_location = dtid.x;\n    DispatchMesh(4u, 1u, 1u, lds_payload);\n".to_string(),
        ),
        _ => {
            let payload = if f.shape == 'n' { "    in payload TaskPayload data,\n" } else { "" };
            (
                format!(
                    "[outputtopology(\"triangle\")]\nvoid {}(\n    uint3 dtid : SV_DispatchThreadID,\n{}    out vertices MeshVertex o_vertices[64],\n    out indices uint3 o_triangles[64]\n)",
                    n, payload
                ),
                "    SetMeshOutputCounts(64, 64);\n    MeshVertex vertex;\n    vertex.position = float4(0, 0, 0, 1);\n    o_vertices[dtid.x] = vertex;\n    o_triangles[dtid.x] = uint3(0, 1, 2);\n".to_string(),
            )
        }
    };
    let mut s = String::new();
    s.push_str(&th);
    if decl {
        s.push_str(&format!("{};", sig));
    } else {
        s.push_str(&format!("{} {{\n{}{}}}", sig, b, tail));
    }
    if f.flags.contains('M') {
        s = format!("struct S_{} {{\n{}\n}};", n, s);
    }
    if f.flags.contains('N') {
        s = format!("namespace ns1 {{\n{}\n}}", s);
    }
    s
}

fn render_res(r: &WRes) -> String {
    let mut s = String::new();
    if r.bindless {
        s.push_str("[[rssl::bindless]] ");
    }
    if let Some(g) = r.group {
        s.push_str(&format!("[[rssl::bind_group({})]] ", g));
    }
    if r.kind == "cbuffer" {
        let n = r.len.unwrap_or(1);
        let tys = ["float4", "float", "uint", "float2", "int"];
        let members: Vec<String> = (0..n).map(|i| format!("{} {}_v{};", tys[i as usize % tys.len()], r.name, i)).collect();
        if members.is_empty() {
            return format!("{}cbuffer {} {{}}", s, r.name);
        }
        return format!("{}cbuffer {} {{ {} }}", s, r.name, members.join(" "));
    }
    let ty = WRES_KINDS.iter().find(|(k, _)| *k == r.kind).map(|(_, t)| *t).unwrap_or("Texture2D<float4>");
    let dims = match r.len {
        Some(0) => "[]".to_string(),
        Some(n) => format!("[{}]", n),
        None => String::new(),
    };
    if r.typedefd {
        s = format!("typedef {} T_{}{};\n{}T_{} {}", ty, r.name, dims, s, r.name, r.name);
    } else {
        s.push_str(&format!("{} {}{}", ty, r.name, dims));
    }
    if r.static_sampler {
        if r.sampler_props.is_empty() {
            s.push_str(" = StaticSampler { Filter = MIN_MAG_MIP_LINEAR; }");
        } else {
            let ps: Vec<String> = r.sampler_props.iter().map(|p| format!("{} = {};", p.name, render_scalar(&p.val))).collect();
            s.push_str(&format!(" = StaticSampler {{ {} }}", ps.join(" ")));
        }
    }
    s.push(';');
    s
}

pub const PREAMBLE: &str = "struct CbS { float4 v; };\nstatic const uint K_ONE = 1;\nstruct MeshVertex { float4 position : SV_Position; };\nstruct TaskPayload { uint start_location; };\ngroupshared TaskPayload lds_payload;\nstruct MeshPrim { uint material : MATERIAL; };\nstruct LayoutTrap { float a; float2 b; float3 c; };";

pub fn render_wide(prog: &WProgram, o: &RenderOpts) -> Rendered {
    let mut lines = Vec::new();
    let mut main = Writer::new("main.rssl");
    let mut inc = Writer::new("wide_inc.rssl");
    main.push(PREAMBLE);
    let n = prog.items.len();
    let (lo, hi) = if o.include && n >= 3 { (n / 3, 2 * n / 3) } else { (n, n) };
    if o.include {
        inc.push("#pragma once");
    }
    let mut included = false;
    for (idx, it) in prog.items.iter().enumerate() {
        let in_inc = idx >= lo && idx < hi;
        if in_inc && !included {
            main.push("#include \"wide_inc.rssl\"");
            included = true;
        }
        let w = if in_inc { &mut inc } else { &mut main };
        let flags: &str = match it {
            WItem::Func(f) => &f.flags,
            WItem::Pipe(p) => &p.flags,
            _ => "",
        };
        let cond = if flags.contains('D') {
            Some("#if WIDE_ON")
        } else if flags.contains('E') {
            Some("#ifndef WIDE_ON")
        } else {
            None
        };
        if let Some(c) = cond {
            w.push(c);
        }
        match it {
            WItem::Res(r) => {
                lines.push(((w.file.clone(), w.line + if r.typedefd { 1 } else { 0 }), (format!("R:{}", r.name), 0)));
                w.push(&render_res(r));
            }
            WItem::Static(k) => w.push(&format!("static int s_value{} = 0;", k)),
            WItem::Inactive(k) => w.push(match k % 4 {
                0 => "// RSSL_TARGET_MSL and RSSL_TARGET_HLSL are only named in this comment /* RSSL_TARGET_MSL */",
                1 => "#if 0\n#if RSSL_TARGET_MSL\nstatic NoSuchType g_only_on_metal;\n#else\nstatic AlsoNoSuchType g_only_on_hlsl;\n#endif\n#endif",
                2 => "#ifdef WIDE_NEVER_DEFINED\n#if RSSL_TARGET_HLSL == 1\nbroken (\n#endif\n#elif 0\nRSSL_TARGET_MSL\n#endif",
                _ => "#define WIDE_UNUSED_MACRO (RSSL_TARGET_MSL + RSSL_TARGET_HLSL)",
            }),
            WItem::Func(f) => w.push(&render_func(prog, f)),
            WItem::Pipe(p) => {
                let ns = p.flags.contains('N');
                if ns {
                    w.push("namespace ns1 {");
                }
                lines.push(((w.file.clone(), w.line), (p.name.clone(), 0)));
                w.push(&format!("Pipeline {}", p.name));
                w.push("{");
                let mut k = 0;
                render_props(w, &p.props, 4, &p.name, &mut k, &mut lines);
                w.push("}");
                if ns {
                    w.push("}");
                }
            }
        }
        if cond.is_some() {
            w.push("#endif");
        }
    }
    let mut files = vec![("main.rssl".to_string(), main.text)];
    if o.include {
        files.push(("wide_inc.rssl".to_string(), inc.text));
    }
    Rendered { files, lines }
}

// ------------------------------------------------------------------------------------------------ generation

pub const BLEND_FACTORS: &[&str] = &[
    "Zero", "One", "SrcColor", "OneMinusSrcColor", "DstColor", "OneMinusDstColor", "SrcAlpha", "OneMinusSrcAlpha", "DstAlpha",
    "OneMinusDstAlpha", "SrcAlphaSaturate", "ConstantColor", "OneMinusConstantColor", "ConstantAlpha", "OneMinusConstantAlpha",
    "Src1Color", "OneMinusSrc1Color", "Src1Alpha", "OneMinusSrc1Alpha",
];
pub const BLEND_OPS: &[&str] = &["Add", "Subtrack", "RevSubtract", "Min", "Max"];
const FORMATS: &[&str] = &["R8G8B8A8_UNORM", "R16G16B16A16_FLOAT", "R32_UINT", "B8G8R8A8_SRGB", "D32_FLOAT", "X"];

fn num_val(rng: &mut Rng, n: u64) -> Val {
    match rng.below(4) {
        0 => Val::Konst(n),
        _ => Val::Num(n),
    }
}

fn gen_blend_sub(rng: &mut Rng, bad: bool) -> Vec<Prop> {
    let mut ps = Vec::new();
    let n = rng.below(5);
    for _ in 0..n {
        let name = *rng.pick(&["BlendEnabled", "SrcBlend", "DstBlend", "BlendOp", "SrcBlendAlpha", "DstBlendAlpha", "BlendOpAlpha", "WriteMask"]);
        let val = match name {
            "BlendEnabled" => Val::Bool(rng.chance(1, 2)),
            "BlendOp" | "BlendOpAlpha" => Val::Str(rng.pick(BLEND_OPS).to_string()),
            "WriteMask" => {
                let m = rng.below(16);
                num_val(rng, m)
            }
            _ => Val::Str(rng.pick(BLEND_FACTORS).to_string()),
        };
        ps.push(Prop { name: name.to_string(), val });
    }
    if bad && !ps.is_empty() {
        let i = rng.below(ps.len() as u64) as usize;
        match rng.below(6) {
            0 => ps[i].name = "BlendColour".to_string(),
            1 => ps[i].val = Val::Str("Sideways".into()),
            2 => ps[i].val = Val::Num(if ps[i].name == "WriteMask" { 256 } else { 1 }),
            3 => ps[i].val = Val::Agg(Vec::new()),
            4 => ps[i].val = Val::Neg(1),
            _ => ps[i].val = Val::Bool(true),
        }
    } else if bad {
        ps.push(Prop { name: "Nothing".into(), val: Val::Num(1) });
    }
    ps
}

/// state properties of a graphics pipeline (valid ones)
fn gen_state(rng: &mut Rng) -> Vec<Prop> {
    let mut ps = Vec::new();
    let mut used: Vec<String> = Vec::new();
    let n = rng.below(6);
    for _ in 0..n {
        let name = match rng.below(7) {
            0 | 1 => format!("RenderTargetFormat{}", rng.below(8)),
            2 => "DepthTargetFormat".to_string(),
            3 => "CullMode".to_string(),
            4 => "WindingOrder".to_string(),
            5 => "BlendState".to_string(),
            _ => format!("BlendState{}", rng.below(8)),
        };
        if used.contains(&name) {
            continue;
        }
        used.push(name.clone());
        let val = if name.starts_with("RenderTargetFormat") || name == "DepthTargetFormat" {
            Val::Str(rng.pick(FORMATS).to_string())
        } else if name == "CullMode" {
            Val::Str(rng.pick(&["None", "Front", "Back"]).to_string())
        } else if name == "WindingOrder" {
            Val::Str(rng.pick(&["CounterClockwise", "Clockwise"]).to_string())
        } else {
            Val::Agg(gen_blend_sub(rng, false))
        };
        ps.push(Prop { name, val });
    }
    ps
}

fn stage_prop(stage: &str, func: &str) -> Prop {
    Prop { name: format!("{}Shader", stage), val: Val::Ident(func.to_string()) }
}

fn gen_sampler_props(rng: &mut Rng) -> Vec<Prop> {
    let mut ps = Vec::new();
    let names = ["Filter", "AddressU", "AddressV", "AddressW", "CompareFunc", "MaxAnisotropy", "MinLOD", "MaxLOD", "BorderColor"];
    for n in names {
        if !rng.chance(1, 3) {
            continue;
        }
        let val = match n {
            "Filter" => Val::Ident(rng.pick(&["MIN_MAG_MIP_POINT", "MIN_MAG_MIP_LINEAR"]).to_string()),
            "AddressU" | "AddressV" | "AddressW" => Val::Ident(rng.pick(&["Wrap", "Clamp", "Border"]).to_string()),
            "CompareFunc" => Val::Ident(
                rng.pick(&["None", "Never", "Less", "Equal", "LessEqual", "Greater", "NotEqual", "GreaterEqual", "Always"]).to_string(),
            ),
            "MaxAnisotropy" => {
                let m = 1 + rng.below(16);
                num_val(rng, m)
            }
            "MinLOD" | "MaxLOD" => Val::Float(rng.pick(&["0.0f", "1.5f", "8.0f", "1000.0f"]).to_string()),
            _ => Val::Ident(
                rng.pick(&["TransparentBlack", "OpaqueBlack", "OpaqueWhite", "TransparentBlackInt", "OpaqueBlackInt", "OpaqueWhiteInt"])
                    .to_string(),
            ),
        };
        ps.push(Prop { name: n.to_string(), val });
    }
    ps
}

pub struct WideOpts {
    /// probability (percent) that a resource is forced to be a cbuffer block
    pub cbuffer_percent: u64,
    /// never add a second overload of an entry point (the HLSL exporter renames overloads: C15's subject)
    pub no_overloads: bool,
    /// allow `T g[];` (rejected by the Metal back end)
    pub unsized_arrays: bool,
    /// probability (percent) that a static sampler gets invalid properties
    pub bad_sampler_percent: u64,
    /// probability (percent) that a function gets a rich body
    pub rich_percent: u64,
    /// allow mesh / task pipelines (rejected by the Metal back end when combined with some intrinsics)
    pub allow_mesh: bool,
    /// probability (percent) that the program gets "odd" edits: errors, duplicates, clashes, misplaced items
    pub odd_percent: u64,
    pub max_pipes: u64,
}

impl Default for WideOpts {
    fn default() -> Self {
        WideOpts { cbuffer_percent: 0, no_overloads: false, unsized_arrays: true, bad_sampler_percent: 8, rich_percent: 40, allow_mesh: true, odd_percent: 50, max_pipes: 4 }
    }
}

struct Node {
    item: WItem,
    /// indices of nodes that must come first
    deps: Vec<usize>,
}

pub fn gen_wide(rng: &mut Rng, o: &WideOpts) -> WProgram {
    let mut nodes: Vec<Node> = Vec::new();
    // resources
    let nres = rng.below(7) as usize;
    let mut res_nodes: Vec<usize> = Vec::new();
    for i in 0..nres {
        let (mut kind, _) = *rng.pick(WRES_KINDS);
        if o.cbuffer_percent > 0 && rng.below(100) < o.cbuffer_percent {
            kind = "cbuffer";
        }
        let is_sampler = kind.starts_with("Sampler");
        let static_sampler = is_sampler && rng.chance(1, 2);
        let can_array = kind != "cbuffer" && !static_sampler && kind != "ConstantBuffer";
        let mut len = if can_array && rng.chance(1, 4) { Some(rng.range(1, 3) as u32) } else { None };
        if len.is_some() && o.unsized_arrays && rng.chance(1, 6) {
            len = Some(0);
        }
        let bindless = len.is_some() && rng.chance(1, 3) && !kind.contains("Address");
        let typedefd = kind != "cbuffer" && !static_sampler && len != Some(0) && rng.chance(1, 6);
        if kind == "cbuffer" {
            len = Some(*rng.pick(&[0u32, 1, 1, 2, 5]));
        }
        let mut sampler_props = if static_sampler && rng.chance(2, 3) { gen_sampler_props(rng) } else { Vec::new() };
        let bad_sampler = static_sampler && rng.below(100) < o.bad_sampler_percent;
        if bad_sampler {
            match rng.below(5) {
                0 => sampler_props.push(Prop { name: "Philter".into(), val: Val::Ident("MIN_MAG_MIP_POINT".into()) }),
                1 => sampler_props.push(Prop { name: "AddressU".into(), val: Val::Ident("Mirror".into()) }),
                2 => {
                    sampler_props.retain(|p| p.name != "Filter");
                    sampler_props.push(Prop { name: "Filter".into(), val: Val::Ident("MIN_MAG_MIP_LINEAR".into()) });
                    sampler_props.push(Prop { name: "Filter".into(), val: Val::Ident("MIN_MAG_MIP_POINT".into()) });
                }
                3 => {
                    sampler_props.retain(|p| p.name != "MaxAnisotropy");
                    sampler_props.push(Prop { name: "MaxAnisotropy".into(), val: Val::Neg(1) });
                }
                _ => sampler_props.push(Prop { name: "BorderColor".into(), val: Val::Num(1) }),
            }
        }
        res_nodes.push(nodes.len());
        nodes.push(Node {
            item: WItem::Res(WRes {
                name: format!("g_r{}", i),
                kind: kind.to_string(),
                len,
                group: if rng.chance(1, 3) { Some(rng.below(3) as u32) } else { None },
                static_sampler,
                bindless,
                typedefd,
                bad_sampler,
                sampler_props,
            }),
            deps: Vec::new(),
        });
    }
    for _ in 0..rng.below(3) {
        if rng.chance(1, 3) {
            let k = rng.below(4) as usize;
            nodes.push(Node { item: WItem::Inactive(k), deps: Vec::new() });
        }
    }
    let nstatics = rng.below(4) as usize;
    let mut static_nodes = Vec::new();
    for k in 0..nstatics {
        static_nodes.push(nodes.len());
        nodes.push(Node { item: WItem::Static(k), deps: Vec::new() });
    }
    // helpers
    let nh = rng.below(4) as usize;
    let mut helper_nodes: Vec<usize> = Vec::new();
    let gen_body = |rng: &mut Rng, nodes: &Vec<Node>, helpers: &[usize]| -> (Vec<String>, Vec<String>, Vec<usize>, Vec<usize>) {
        let mut deps = Vec::new();
        let mut uses = Vec::new();
        for r in &res_nodes {
            if rng.chance(1, 3) {
                if let WItem::Res(res) = &nodes[*r].item {
                    uses.push(res.name.clone());
                    deps.push(*r);
                }
            }
        }
        let mut calls = Vec::new();
        for h in helpers {
            if rng.chance(1, 3) {
                if let WItem::Func(f) = &nodes[*h].item {
                    calls.push(f.name.clone());
                    deps.push(*h);
                }
            }
        }
        let mut statics = Vec::new();
        for (k, s) in static_nodes.iter().enumerate() {
            if rng.chance(1, 2) {
                statics.push(k);
                deps.push(*s);
            }
        }
        (uses, calls, statics, deps)
    };
    for i in 0..nh {
        let (uses, calls, statics, deps) = gen_body(rng, &nodes, &helper_nodes);
        let mut flags = if rng.chance(1, 5) { "N".to_string() } else { String::new() };
        if rng.below(100) < o.rich_percent {
            flags.push('R');
        }
        helper_nodes.push(nodes.len());
        nodes.push(Node {
            item: WItem::Func(WFunc { name: format!("helper{}", i), shape: 'h', flags, threads: None, uses, calls, statics }),
            deps,
        });
    }
    // pipelines and their entry points
    let np = rng.below(o.max_pipes + 1) as usize;
    // names that are prefixes / case variants of one another now and then
    const NAME_SCHEMES: [[&str; 4]; 4] =
        [["P0", "P1", "P2", "P3"], ["P", "P1", "P10", "P11"], ["Main", "main", "MAIN", "Main2"], ["AA", "A", "AAAA", "AAA"]];
    let scheme = if rng.chance(1, 3) { 1 + rng.below(3) as usize } else { 0 };
    // (stage, node index)
    let mut entries: Vec<(&'static str, usize)> = Vec::new();
    let mut pipe_nodes: Vec<usize> = Vec::new();
    for i in 0..np {
        let kind = rng.below(if o.allow_mesh { 7 } else { 5 });
        let stage_names: &[&'static str] = match kind {
            0 | 1 => &["Compute"],
            2 | 3 => &["Vertex", "Pixel"],
            4 => &["Vertex"],
            5 => &["Mesh", "Pixel"],
            _ => &["Task", "Mesh"],
        };
        let task_mesh = kind == 6;
        let mut props = Vec::new();
        let mut deps = Vec::new();
        for st in stage_names {
            let reuse: Vec<usize> =
                entries.iter().filter(|(s, _)| s == st && *st != "Mesh" && *st != "Task").map(|(_, n)| *n).collect();
            let node = if !reuse.is_empty() && rng.chance(1, 4) {
                *rng.pick(&reuse)
            } else {
                let k = entries.len();
                let (prefix, mut shape) = match *st {
                    "Compute" => ("cs", 'c'),
                    "Vertex" => ("vs", 'v'),
                    "Pixel" => ("ps", if kind == 5 && rng.chance(1, 3) { 'r' } else { 'p' }),
                    "Mesh" => if task_mesh { ("mst", 'n') } else if rng.chance(1, 3) { ("ms", 'q') } else { ("ms", 'm') },
                    _ => ("ts", 't'),
                };
                // more signature shapes (C17 only: no draw when overloads are switched off)
                if !o.no_overloads && rng.chance(1, 4) {
                    shape = match shape {
                        'c' => 'g',
                        'v' => 'w',
                        'p' => 'f',
                        'm' | 'q' => 'u',
                        x => x,
                    };
                }
                let (uses, calls, statics, d) = gen_body(rng, &nodes, &helper_nodes);
                let threads = match *st {
                    "Compute" => {
                        let t = [1u32 << rng.below(4), 1 << rng.below(3), 1];
                        let konst = rng.chance(1, 4);
                        Some([Thr { v: t[0], konst, bad: 0 }, Thr { v: t[1], konst: false, bad: 0 }, Thr { v: t[2], konst: konst && rng.chance(1, 2), bad: 0 }])
                    }
                    "Mesh" | "Task" => Some([Thr { v: 64, konst: false, bad: 0 }, Thr { v: 1, konst: false, bad: 0 }, Thr { v: 1, konst: false, bad: 0 }]),
                    _ => None,
                };
                let mut flags = String::new();
                if rng.chance(1, 8) {
                    flags.push('N');
                }
                if rng.below(100) < o.rich_percent {
                    flags.push('R');
                }
                let n = nodes.len();
                nodes.push(Node {
                    item: WItem::Func(WFunc { name: format!("{}_{}", prefix, k), shape, flags, threads, uses, calls, statics }),
                    deps: d,
                });
                entries.push((st, n));
                n
            };
            if let WItem::Func(f) = &nodes[node].item {
                props.push(stage_prop(st, &f.name));
            }
            deps.push(node);
        }
        if props.len() == 2 && rng.chance(1, 3) {
            props.reverse();
        }
        // state and default group, before / between / after the stage properties
        let mut extra = Vec::new();
        if stage_names[0] != "Compute" && rng.chance(1, 2) {
            extra.extend(gen_state(rng));
        }
        if rng.chance(1, 3) {
            let g = rng.below(4);
            let val = match rng.below(6) {
                0 => Val::Konst(g),
                1 => Val::Bool(g % 2 == 1),
                _ => Val::Num(g),
            };
            extra.push(Prop { name: "DefaultBindGroup".into(), val });
        }
        for e in extra {
            let at = rng.below(props.len() as u64 + 1) as usize;
            props.insert(at, e);
        }
        let flags = if rng.chance(1, 10) { "N".to_string() } else { String::new() };
        pipe_nodes.push(nodes.len());
        nodes.push(Node { item: WItem::Pipe(WPipe { name: NAME_SCHEMES[scheme][i % 4].to_string(), flags, props }), deps });
    }
    // a function nobody references
    if rng.chance(1, 3) {
        let (uses, calls, statics, deps) = gen_body(rng, &nodes, &helper_nodes);
        let shape = *rng.pick(&['h', 'c', 'v', 'p']);
        let threads = if shape == 'c' { Some([Thr { v: 4, konst: false, bad: 0 }, Thr { v: 4, konst: false, bad: 0 }, Thr { v: 1, konst: false, bad: 0 }]) } else { None };
        nodes.push(Node {
            item: WItem::Func(WFunc { name: "unused_fn".into(), shape, flags: String::new(), threads, uses, calls, statics }),
            deps,
        });
    }

    // ---- odd edits
    let odd = rng.below(100) < o.odd_percent;
    // (node that must come *after* another although it should not): pipeline placed before its entry point
    let mut inverted: Vec<(usize, usize)> = Vec::new();
    if odd {
        let nedits = 1 + rng.below(2);
        for _ in 0..nedits {
            let pick_pipe = |rng: &mut Rng| -> Option<usize> { if pipe_nodes.is_empty() { None } else { Some(*rng.pick(&pipe_nodes)) } };
            // the edits 25.. exist for C17 only (C18's programs, generated with `no_overloads`, draw exactly as before)
            match rng.below(if o.no_overloads { 25 } else { 32 }) {
                0 => {
                    // entry point defined after the pipeline that names it
                    if let Some(p) = pick_pipe(rng) {
                        if let Some(d) = nodes[p].deps.pop() {
                            inverted.push((p, d));
                        }
                    }
                }
                1 => {
                    // unknown / intrinsic / qualified entry name
                    if let Some(p) = pick_pipe(rng) {
                        if let WItem::Pipe(pp) = &mut nodes[p].item {
                            if let Some(pr) = pp.props.iter_mut().find(|x| x.name.ends_with("Shader")) {
                                pr.val = match rng.below(4) {
                                    0 => Val::Ident("no_such_entry".into()),
                                    1 => Val::Ident("abs".into()),
                                    2 => Val::Ident("AllMemoryBarrier".into()),
                                    _ => match &pr.val {
                                        Val::Ident(n) => Val::Qual(format!("ns1::{}", n)),
                                        v => v.clone(),
                                    },
                                };
                            }
                        }
                    }
                }
                2 if !o.no_overloads => {
                    // a second overload of an entry point (before or after the pipelines)
                    if let Some((_, e)) = entries.first().copied() {
                        if let WItem::Func(f) = &nodes[e].item {
                            let mut g = f.clone();
                            g.shape = if f.shape == 'h' { 'p' } else { 'h' };
                            // a second method of that name would be a second `struct S_<name>`: a redefinition, not an overload
                            g.flags.retain(|c| c != 'M');
                            g.threads = None;
                            g.uses.clear();
                            g.calls.clear();
                            g.statics.clear();
                            let late = rng.chance(1, 2);
                            let n = nodes.len();
                            nodes.push(Node { item: WItem::Func(g), deps: if late { pipe_nodes.clone() } else { Vec::new() } });
                            if !late {
                                for p in &pipe_nodes {
                                    if rng.chance(1, 2) {
                                        nodes[*p].deps.push(n);
                                    }
                                }
                            }
                        }
                    }
                }
                3 => {
                    // entry point only declared / declared first and defined later / a template / a method / named like an intrinsic
                    if let Some((_, e)) = entries.get(rng.below(entries.len().max(1) as u64) as usize).copied() {
                        let choice = rng.below(5);
                        let mut extra: Option<WFunc> = None;
                        if let WItem::Func(f) = &mut nodes[e].item {
                            match choice {
                                0 => f.flags.push('d'),
                                1 => {
                                    let mut d = f.clone();
                                    d.flags.push('d');
                                    extra = Some(d);
                                }
                                2 => {
                                    if f.shape == 'h' || rng.chance(1, 2) {
                                        f.shape = 'h';
                                        f.threads = None;
                                        f.flags.push('T');
                                    }
                                }
                                3 => {
                                    f.shape = 'h';
                                    f.threads = None;
                                    f.flags = "M".to_string();
                                    f.uses.clear();
                                    f.calls.clear();
                                    f.statics.clear();
                                }
                                _ => {}
                            }
                        }
                        if let Some(d) = extra {
                            // the declaration comes first; the pipelines may sit between declaration and definition
                            let n = nodes.len();
                            let deps = nodes[e].deps.clone();
                            nodes.push(Node { item: WItem::Func(d), deps });
                            nodes[e].deps.push(n);
                            if rng.chance(1, 2) {
                                for p in &pipe_nodes {
                                    if let Some(i) = nodes[*p].deps.iter().position(|x| *x == e) {
                                        nodes[*p].deps[i] = n;
                                        inverted.push((*p, e));
                                    }
                                }
                            }
                        }
                    }
                }
                4 => {
                    // duplicate pipeline name
                    if pipe_nodes.len() >= 2 {
                        let a = *rng.pick(&pipe_nodes);
                        let b = *rng.pick(&pipe_nodes);
                        if a != b {
                            let name = if let WItem::Pipe(p) = &nodes[a].item { p.name.clone() } else { String::new() };
                            if let WItem::Pipe(p) = &mut nodes[b].item {
                                p.name = name;
                            }
                        }
                    }
                }
                5 => {
                    // duplicate property
                    if let Some(p) = pick_pipe(rng) {
                        if let WItem::Pipe(pp) = &mut nodes[p].item {
                            if !pp.props.is_empty() {
                                let d = rng.pick(&pp.props).clone();
                                let at = rng.below(pp.props.len() as u64 + 1) as usize;
                                pp.props.insert(at, d);
                            }
                        }
                    }
                }
                6 => {
                    // no entry point at all / empty block
                    if let Some(p) = pick_pipe(rng) {
                        if let WItem::Pipe(pp) = &mut nodes[p].item {
                            pp.props.retain(|x| !x.name.ends_with("Shader"));
                            if rng.chance(1, 2) {
                                pp.props.clear();
                            }
                        }
                    }
                }
                7 => {
                    // compute mixed with graphics stages, in both orders
                    if let (Some(p), Some((_, e))) = (pick_pipe(rng), entries.iter().find(|(s, _)| *s == "Compute").copied()) {
                        let en = if let WItem::Func(f) = &nodes[e].item { f.name.clone() } else { String::new() };
                        nodes[p].deps.push(e);
                        if let WItem::Pipe(pp) = &mut nodes[p].item {
                            if !pp.props.iter().any(|x| x.name == "ComputeShader") {
                                let at = if rng.chance(1, 2) { 0 } else { pp.props.len() };
                                pp.props.insert(at, stage_prop("Compute", &en));
                            }
                        }
                    }
                }
                8 => {
                    // graphics state on any pipeline (an error on compute pipelines)
                    if let Some(p) = pick_pipe(rng) {
                        let st = gen_state(rng);
                        if let WItem::Pipe(pp) = &mut nodes[p].item {
                            for s in st {
                                if !pp.props.iter().any(|x| x.name == s.name) {
                                    pp.props.push(s);
                                }
                            }
                        }
                    }
                }
                9 => {
                    // unknown property, at a random position
                    if let Some(p) = pick_pipe(rng) {
                        if let WItem::Pipe(pp) = &mut nodes[p].item {
                            let name = *rng.pick(&["NoSuchProperty", "BlendState8", "RenderTargetFormat8", "RenderTargetFormat", "cullmode", "GeometryShader"]);
                            let val = match rng.below(3) {
                                0 => Val::Num(1),
                                1 => Val::Str("None".into()),
                                _ => Val::Agg(Vec::new()),
                            };
                            let at = rng.below(pp.props.len() as u64 + 1) as usize;
                            pp.props.insert(at, Prop { name: name.to_string(), val });
                        }
                    }
                }
                10 | 11 => {
                    // a value of the wrong kind / out of range for an existing property
                    if let Some(p) = pick_pipe(rng) {
                        if let WItem::Pipe(pp) = &mut nodes[p].item {
                            if !pp.props.is_empty() {
                                let i = rng.below(pp.props.len() as u64) as usize;
                                pp.props[i].val = match rng.below(8) {
                                    0 => Val::Num(rng.below(3)),
                                    1 => Val::Str("Sideways".into()),
                                    2 => Val::Agg(Vec::new()),
                                    3 => Val::Neg(1),
                                    4 => Val::Num(4294967296),
                                    5 => Val::Float("1.5".into()),
                                    6 => Val::Bool(true),
                                    _ => Val::Agg(gen_blend_sub(rng, true)),
                                };
                            }
                        }
                    }
                }
                12 => {
                    // blend state with a bad sub-property
                    if let Some(p) = pick_pipe(rng) {
                        let sub = gen_blend_sub(rng, true);
                        if let WItem::Pipe(pp) = &mut nodes[p].item {
                            let name = if rng.chance(1, 2) { "BlendState".to_string() } else { format!("BlendState{}", rng.below(8)) };
                            if !pp.props.iter().any(|x| x.name == name) {
                                pp.props.push(Prop { name, val: Val::Agg(sub) });
                            }
                        }
                    }
                }
                13 => {
                    // DefaultBindGroup with a value the evaluator can not turn into a u32
                    if let Some(p) = pick_pipe(rng) {
                        if let WItem::Pipe(pp) = &mut nodes[p].item {
                            pp.props.retain(|x| x.name != "DefaultBindGroup");
                            let val = match rng.below(if o.no_overloads { 5 } else { 7 }) {
                                5 | 6 => Val::NonConst,
                                0 => Val::Neg(1),
                                1 => Val::Float("1.0".into()),
                                2 => Val::Num(4294967296),
                                3 => Val::Agg(vec![Prop { name: "A".into(), val: Val::Num(1) }]),
                                _ => Val::Num(4294967295 - rng.below(2) * 4294967290),
                            };
                            // the largest u32 itself would make the exporters allocate that many bind groups: keep it small
                            let val = if val == Val::Num(4294967295) { Val::Num(7) } else { val };
                            pp.props.push(Prop { name: "DefaultBindGroup".into(), val });
                        }
                    }
                }
                14 => {
                    // one function is the entry point of several stages / pipelines of different kinds
                    if let Some(p) = pick_pipe(rng) {
                        let any: Vec<usize> = helper_nodes.iter().chain(entries.iter().map(|(_, n)| n)).copied().collect();
                        if !any.is_empty() {
                            let f = *rng.pick(&any);
                            let name = if let WItem::Func(ff) = &nodes[f].item { ff.name.clone() } else { String::new() };
                            nodes[p].deps.push(f);
                            if let WItem::Pipe(pp) = &mut nodes[p].item {
                                if let Some(pr) = pp.props.iter_mut().filter(|x| x.name.ends_with("Shader")).last() {
                                    pr.val = Val::Ident(name);
                                }
                            }
                        }
                    }
                }
                15 => {
                    // pipeline / entry only present with (or without) the API define
                    if let Some(p) = pick_pipe(rng) {
                        let fl = if rng.chance(1, 2) { 'D' } else { 'E' };
                        if let WItem::Pipe(pp) = &mut nodes[p].item {
                            if !pp.flags.contains('D') && !pp.flags.contains('E') {
                                pp.flags.push(fl);
                            }
                        }
                    }
                }
                16 => {
                    // two definitions of one entry point name, one for each setting of the API define
                    if let Some((_, e)) = entries.first().copied() {
                        if let WItem::Func(f) = &nodes[e].item {
                            if !f.flags.contains('D') && !f.flags.contains('E') {
                                let mut g = f.clone();
                                g.flags.push('E');
                                g.uses.clear();
                                let deps = nodes[e].deps.clone();
                                if let WItem::Func(f) = &mut nodes[e].item {
                                    f.flags.push('D');
                                }
                                let n = nodes.len();
                                nodes.push(Node { item: WItem::Func(g), deps });
                                for p in &pipe_nodes {
                                    if nodes[*p].deps.contains(&e) {
                                        nodes[*p].deps.push(n);
                                    }
                                }
                            }
                        }
                    }
                }
                17 => {
                    // compute entry point without a numthreads attribute
                    if let Some((_, e)) = entries.iter().find(|(s, _)| *s == "Compute").copied() {
                        if let WItem::Func(f) = &mut nodes[e].item {
                            f.threads = None;
                        }
                    }
                }
                18 => {
                    // stage kinds that do not match the function's signature
                    if let Some(p) = pick_pipe(rng) {
                        if let WItem::Pipe(pp) = &mut nodes[p].item {
                            let n = pp.props.iter().filter(|x| x.name.ends_with("Shader")).count();
                            if n == 1 {
                                if let Some(pr) = pp.props.iter_mut().find(|x| x.name.ends_with("Shader")) {
                                    pr.name = rng.pick(&["VertexShader", "PixelShader", "ComputeShader", "MeshShader", "TaskShader"]).to_string();
                                }
                            }
                        }
                    }
                }
                19 => {
                    // entry value that is not an identifier
                    if let Some(p) = pick_pipe(rng) {
                        if let WItem::Pipe(pp) = &mut nodes[p].item {
                            if let Some(pr) = pp.props.iter_mut().find(|x| x.name.ends_with("Shader")) {
                                pr.val = match rng.below(3) {
                                    0 => Val::Agg(vec![Prop { name: "A".into(), val: Val::Num(1) }]),
                                    1 => Val::Num(1),
                                    _ => Val::Str("cs_0".into()),
                                };
                            }
                        }
                    }
                }
                20 => {
                    // a property without a value: the parser rejects the file
                    if let Some(p) = pick_pipe(rng) {
                        if let WItem::Pipe(pp) = &mut nodes[p].item {
                            if !pp.props.is_empty() {
                                let i = rng.below(pp.props.len() as u64) as usize;
                                pp.props[i].val = Val::Garbage;
                            }
                        }
                    }
                }
                21 => {
                    // a helper that is declared and never defined (nobody calls it)
                    nodes.push(Node {
                        item: WItem::Func(WFunc {
                            name: "declared_only".into(),
                            shape: 'h',
                            flags: "d".into(),
                            threads: None,
                            uses: Vec::new(),
                            calls: Vec::new(),
                            statics: Vec::new(),
                        }),
                        deps: Vec::new(),
                    });
                }
                22 => {
                    // a pixel shader that reads a per-primitive attribute, shared by whoever names it
                    if let Some((_, e)) = entries.iter().find(|(s, _)| *s == "Pixel").copied() {
                        if let WItem::Func(f) = &mut nodes[e].item {
                            if f.shape == 'p' {
                                f.shape = 'r';
                            }
                        }
                    }
                }
                25 | 26 => {
                    // a `numthreads` argument that the constant evaluator can not turn into a u32: on an entry point
                    // (the blocks that name it are rejected, without a location), now and then on a function no block
                    // names (invisible to every block)
                    let fine = |v: u32| Thr { v, konst: false, bad: 0 };
                    let pool: Vec<usize> = if !entries.is_empty() && !rng.chance(1, 5) {
                        entries.iter().map(|(_, n)| *n).collect()
                    } else {
                        helper_nodes.clone()
                    };
                    if !pool.is_empty() {
                        let e = *rng.pick(&pool);
                        let bad = 1 + rng.below(4) as u8;
                        let at = rng.below(3) as usize;
                        if let WItem::Func(f) = &mut nodes[e].item {
                            let mut t = f.threads.unwrap_or([fine(8), fine(1), fine(1)]);
                            t[at] = Thr { v: 1, konst: false, bad };
                            f.threads = Some(t);
                        }
                    }
                }
                27 | 28 => {
                    // prototype and definition carry different attributes (the definition's count): a prototype before the
                    // definition (the blocks may stand between the two) and / or repeated after it, with another
                    // `numthreads`, none, or one that does not evaluate; now and then the attribute on the prototype only
                    let with_threads: Vec<usize> = entries.iter().map(|(_, n)| *n).filter(|n| matches!(&nodes[*n].item, WItem::Func(f) if f.threads.is_some())).collect();
                    let pool: Vec<usize> = if with_threads.is_empty() { entries.iter().map(|(_, n)| *n).collect() } else { with_threads };
                    if !pool.is_empty() {
                        let e = *rng.pick(&pool);
                        let fine = |v: u32| Thr { v, konst: false, bad: 0 };
                        let mut proto = if let WItem::Func(f) = &nodes[e].item { f.clone() } else { unreachable!() };
                        proto.flags.retain(|c| c != 'R');
                        proto.flags.push('d');
                        proto.threads = match rng.below(4) {
                            0 => None,
                            1 => Some([fine(2), fine(2), fine(2)]),
                            2 => Some([fine(32), Thr { v: 1, konst: false, bad: 1 + rng.below(4) as u8 }, fine(1)]),
                            _ => proto.threads,
                        };
                        if rng.chance(1, 4) {
                            // the attribute stays on the prototype only
                            if let WItem::Func(f) = &mut nodes[e].item {
                                if proto.threads.is_none() {
                                    proto.threads = f.threads;
                                }
                                f.threads = None;
                            }
                        }
                        let before = rng.chance(1, 2);
                        let after = !before || rng.chance(1, 3);
                        if before {
                            let n = nodes.len();
                            let deps = nodes[e].deps.clone();
                            nodes.push(Node { item: WItem::Func(proto.clone()), deps });
                            nodes[e].deps.push(n);
                            if rng.chance(1, 3) {
                                for p in &pipe_nodes {
                                    if let Some(i) = nodes[*p].deps.iter().position(|x| *x == e) {
                                        nodes[*p].deps[i] = n;
                                        inverted.push((*p, e));
                                    }
                                }
                            }
                        }
                        if after {
                            let n = nodes.len();
                            let late = rng.chance(1, 2);
                            let mut deps = vec![e];
                            if late {
                                deps.extend(pipe_nodes.iter().copied());
                            }
                            nodes.push(Node { item: WItem::Func(proto), deps });
                            if !late {
                                for p in &pipe_nodes {
                                    if nodes[*p].deps.contains(&e) && rng.chance(1, 2) {
                                        nodes[*p].deps.push(n);
                                    }
                                }
                            }
                        }
                    }
                }
                29 => {
                    // an entry value that is an identifier but not a trivial one: `ns1::f`, `::f`
                    if let Some(p) = pick_pipe(rng) {
                        if let WItem::Pipe(pp) = &mut nodes[p].item {
                            let k = rng.below(4) as usize;
                            let mut shaders: Vec<&mut Prop> = pp.props.iter_mut().filter(|x| x.name.ends_with("Shader")).collect();
                            if !shaders.is_empty() {
                                let i = k % shaders.len();
                                if let Val::Ident(n) = shaders[i].val.clone() {
                                    shaders[i].val = Val::Qual(if k < 2 { format!("ns1::{}", n) } else { format!("::{}", n) });
                                }
                            }
                        }
                    }
                }
                30 => {
                    // one state property with a well-formed value of the right kind that no table knows / that is out of
                    // range, on a graphics pipeline if there is one
                    let graphics: Vec<usize> = pipe_nodes
                        .iter()
                        .copied()
                        .filter(|p| matches!(&nodes[*p].item, WItem::Pipe(pp) if !pp.props.iter().any(|x| x.name == "ComputeShader")))
                        .collect();
                    let p = if graphics.is_empty() { pick_pipe(rng) } else { Some(*rng.pick(&graphics)) };
                    if let Some(p) = p {
                        let sub = |n: &str, v: Val| Val::Agg(vec![Prop { name: "BlendEnabled".into(), val: Val::Bool(true) }, Prop { name: n.to_string(), val: v }]);
                        let (name, val) = match rng.below(9) {
                            0 => ("CullMode".to_string(), Val::Str("Sideways".into())),
                            1 => ("WindingOrder".to_string(), Val::Str("clockwise".into())),
                            2 => ("BlendState".to_string(), sub("SrcBlend", Val::Str("Sideways".into()))),
                            3 => (format!("BlendState{}", rng.below(8)), sub("BlendOpAlpha", Val::Str("Subtract".into()))),
                            4 => (format!("BlendState{}", rng.below(8)), sub("WriteMask", Val::Num(256))),
                            5 => ("BlendState".to_string(), sub("WriteMask", Val::Konst(300))),
                            6 => ("BlendState".to_string(), sub("BlendEnabled", Val::Num(1))),
                            7 => ("BlendState".to_string(), sub("WriteMask", if rng.chance(1, 2) { Val::NonConst } else { Val::Agg(Vec::new()) })),
                            _ => ("DefaultBindGroup".to_string(), Val::Agg(vec![Prop { name: "A".into(), val: Val::Num(1) }])),
                        };
                        if let WItem::Pipe(pp) = &mut nodes[p].item {
                            pp.props.retain(|x| x.name != name);
                            let at = rng.below(pp.props.len() as u64 + 1) as usize;
                            pp.props.insert(at, Prop { name, val });
                        }
                    }
                }
                31 => {
                    // a property value whose type check instantiates a function template: `sizeof(wide_tf<uint>(1u))`
                    if let Some(p) = pick_pipe(rng) {
                        let n = nodes.len();
                        if !nodes.iter().any(|x| matches!(&x.item, WItem::Func(f) if f.name == "wide_tf")) {
                            nodes.push(Node {
                                item: WItem::Func(WFunc { name: "wide_tf".into(), shape: 'z', flags: "T".into(), threads: None, uses: Vec::new(), calls: Vec::new(), statics: Vec::new() }),
                                deps: Vec::new(),
                            });
                            for q in &pipe_nodes {
                                nodes[*q].deps.push(n);
                            }
                        }
                        let val = Val::SizeofInst("wide_tf".into());
                        if let WItem::Pipe(pp) = &mut nodes[p].item {
                            let graphics = !pp.props.iter().any(|x| x.name == "ComputeShader");
                            let (name, val) = if graphics && rng.chance(1, 3) {
                                ("BlendState".to_string(), Val::Agg(vec![Prop { name: "WriteMask".into(), val }]))
                            } else {
                                ("DefaultBindGroup".to_string(), val)
                            };
                            pp.props.retain(|x| x.name != name);
                            pp.props.push(Prop { name, val });
                        }
                    }
                }
                _ => {
                    // three stages: task + mesh + pixel, or vertex + pixel + mesh
                    if let (Some(p), Some((_, e))) = (pick_pipe(rng), entries.iter().find(|(s, _)| *s == "Pixel").copied()) {
                        let en = if let WItem::Func(f) = &nodes[e].item { f.name.clone() } else { String::new() };
                        nodes[p].deps.push(e);
                        if let WItem::Pipe(pp) = &mut nodes[p].item {
                            if !pp.props.iter().any(|x| x.name == "PixelShader") {
                                pp.props.push(stage_prop("Pixel", &en));
                            }
                        }
                    }
                }
            }
        }
    }

    // ---- same-named functions, routinely (not an "odd" edit): the exporters' name map renames every member of a group of
    // same-named symbols of one namespace - wherever in the file they stand, used or not -, so an entry point `f` is reported
    // as `f_k`; the entry lookup counts the functions of that name in the registry of the moment (before the block: the
    // name is ambiguous, after it: accepted).  Skipped (no random draws) when overloads are switched off.
    if !o.no_overloads && rng.chance(2, 5) {
        let rounds = 1 + rng.below(2);
        for _ in 0..rounds {
            let targets: Vec<usize> = entries.iter().map(|(_, n)| *n).chain(helper_nodes.iter().copied()).collect();
            if targets.is_empty() {
                break;
            }
            // entry points three times as often as helpers
            let t = if !entries.is_empty() && rng.chance(3, 4) { entries[rng.below(entries.len() as u64) as usize].1 } else { *rng.pick(&targets) };
            let (tname, tshape) = match &nodes[t].item {
                WItem::Func(f) => (f.name.clone(), f.shape),
                _ => continue,
            };
            let other_shape = if tshape == 'h' { 'p' } else { 'h' };
            let is_entry = entries.iter().any(|(_, n)| *n == t);
            let plain = |name: String, shape: char, flags: &str| WFunc {
                name,
                shape,
                flags: flags.to_string(),
                threads: None,
                uses: Vec::new(),
                calls: Vec::new(),
                statics: Vec::new(),
            };
            let mut added: Vec<WFunc> = Vec::new();
            match rng.below(7) {
                // an overload in the same namespace as a root function
                0 | 1 => added.push(plain(tname.clone(), other_shape, "")),
                // the same name inside namespace ns1 (another scope of the name map, the same name for the entry lookup);
                // only for entry points: a helper of that name inside ns1 would hide the root helper from callers in ns1
                2 => added.push(plain(tname.clone(), other_shape, if is_entry { "N" } else { "" })),
                // a method of that name (registered in the namespace of its struct)
                3 => added.push(plain(tname.clone(), 'h', "M")),
                // the first generated candidate `f_0` is taken by a function of its own, next to an overload of `f`
                4 => {
                    added.push(plain(format!("{}_0", tname), 'h', ""));
                    added.push(plain(tname.clone(), other_shape, ""));
                }
                // an overload that is only declared
                5 => added.push(plain(tname.clone(), other_shape, "d")),
                // two more functions of that name
                _ => {
                    added.push(plain(tname.clone(), other_shape, ""));
                    added.push(plain(tname.clone(), if other_shape == 'p' { 'v' } else { 'p' }, ""));
                }
            }
            for g in added {
                // after every pipeline (accepted, renamed) two times out of three, else anywhere / before some blocks
                let late = rng.chance(2, 3);
                let n = nodes.len();
                nodes.push(Node { item: WItem::Func(g), deps: if late { pipe_nodes.clone() } else { Vec::new() } });
                if !late {
                    for p in &pipe_nodes {
                        if rng.chance(1, 3) {
                            nodes[*p].deps.push(n);
                        }
                    }
                }
            }
        }
    }

    // ---- order: a random linear extension of the dependency order; `style` biases which ready item goes next
    let style = rng.below(4);
    let n = nodes.len();
    let mut placed = vec![false; n];
    let mut order: Vec<usize> = Vec::new();
    while order.len() < n {
        let ready: Vec<usize> = (0..n)
            .filter(|i| !placed[*i] && nodes[*i].deps.iter().all(|d| placed[*d]))
            .filter(|i| !inverted.iter().any(|(p, e)| e == i && !placed[*p]))
            .collect();
        let ready = if ready.is_empty() { (0..n).filter(|i| !placed[*i]).collect::<Vec<_>>() } else { ready };
        let rank = |i: usize| -> u32 {
            match (&nodes[i].item, style) {
                // classic: resources, statics, functions, pipelines
                (WItem::Res(_), 0) | (WItem::Static(_), 0) | (WItem::Inactive(_), 0) => 0,
                (WItem::Func(_), 0) => 1,
                (WItem::Pipe(_), 0) => 2,
                // pipelines as early as possible, resources as late as possible
                (WItem::Pipe(_), 1) => 0,
                (WItem::Func(_), 1) => 1,
                (_, 1) => 2,
                // functions first
                (WItem::Func(_), 2) => 0,
                (WItem::Pipe(_), 2) => 1,
                (_, 2) => 2,
                _ => 0,
            }
        };
        let best = ready.iter().map(|i| rank(*i)).min().unwrap_or(0);
        let cands: Vec<usize> = if style == 3 { ready.clone() } else { ready.iter().copied().filter(|i| rank(*i) == best).collect() };
        let pick = if style == 0 { cands[0] } else { *rng.pick(&cands) };
        placed[pick] = true;
        order.push(pick);
    }
    // two odd edits may have added the same definition twice: keep the first (a redefinition is a front-end error that
    // has nothing to do with pipelines)
    let mut items: Vec<WItem> = Vec::new();
    for i in order {
        if let WItem::Func(f) = &nodes[i].item {
            let dup = items.iter().any(|it| match it {
                // every method is wrapped in a struct of its own, named after the method: one per name and namespace
                WItem::Func(g) if g.name == f.name && g.flags.contains('M') && f.flags.contains('M') && g.flags.contains('N') == f.flags.contains('N') => true,
                WItem::Func(g) => {
                    g.name == f.name
                        && g.shape == f.shape
                        && g.flags.contains('d') == f.flags.contains('d')
                        && g.flags.contains('N') == f.flags.contains('N')
                        && g.flags.contains('M') == f.flags.contains('M')
                        && !(g.flags.contains('D') && f.flags.contains('E'))
                        && !(g.flags.contains('E') && f.flags.contains('D'))
                }
                _ => false,
            });
            if dup {
                continue;
            }
        }
        items.push(nodes[i].item.clone());
    }
    WProgram { items }
}

import RsslVerif.Lemmas.StmtX
/-! Lemmas for C03, projection chains: `const` and the value category through member access, swizzles and subscripts, for
chains of any length. Core Lean only. -/
namespace RsslVerif.Lemmas.ProjX
open RsslVerif.Gen.RankTable RsslVerif.Gen.TypingTables RsslVerif.Model.Conv RsslVerif.Model.Overload
open RsslVerif.Model.IrTyping (FuncSig opReturn boolOf)
open RsslVerif.Model.Elab (Err)
open RsslVerif.Model.IrTypingX RsslVerif.Model.ElabX RsslVerif.Model.StmtX RsslVerif.Spec.ElabX
open RsslVerif.Lemmas.ElabConv RsslVerif.Lemmas.ElabX RsslVerif.Lemmas.ElabFormsX RsslVerif.Lemmas.ElabExactX
open RsslVerif.Lemmas.ElabNewX RsslVerif.Lemmas.ElabSoundX

variable {Γ : Env}

theorem swizzleLayer_numeric (s : Scalar) (n : Nat) : (swizzleLayer s n).isNumeric = true := by
  unfold swizzleLayer; split <;> rfl

/-- a member access on a const numeric value is a swizzle, and keeps `const` -/
theorem elabMember_constNum {name : String} {e n : IExpr} {τ τ' : ETy} (hc : ConstNum τ)
    (h : elabMember Γ name e τ = .ok (n, τ')) : ConstNum τ' := by
  obtain ⟨hconst, hnum⟩ := hc
  unfold elabMember at h
  split at h
  · simp at h
  · split at h
    · rename_i id hl; simp [hl, Layer.isNumeric] at hnum
    · split at h
      · split at h
        · simp at h
        · simp at h; obtain ⟨_, rfl⟩ := h; exact ⟨hconst, swizzleLayer_numeric _ _⟩
      · simp at h
    · split at h
      · split at h
        · simp at h
        · simp at h; obtain ⟨_, rfl⟩ := h; exact ⟨hconst, swizzleLayer_numeric _ _⟩
      · simp at h
    · split at h
      · simp at h; obtain ⟨_, rfl⟩ := h; exact ⟨hconst, swizzleLayer_numeric _ _⟩
      · simp at h
    · simp at h

/-- a subscript on a const vector / matrix keeps `const` (and is numeric again) -/
theorem elabIndex_constNum {a i n : IExpr} {τa τi τ : ETy} (ha : HasType Γ a τa) (hc : ConstNum τa)
    (h : elabIndex Γ a τa i τi = .ok (n, τ)) : ConstNum τ := by
  obtain ⟨hconst, hnum⟩ := hc
  unfold elabIndex at h
  split at h
  · simp at h
  · split at h
    · simp at h
    · simp at h
    · split at h
      · simp at h
      · split at h
        · simp at h
        · rename_i ety hty
          simp at h; obtain ⟨_, rfl⟩ := h
          simp only [typeOf, typeOf_of_hasType a τa ha] at hty
          split at hty
          · simp at hty; subst hty; exact ⟨hconst, rfl⟩
          · simp at hty; subst hty; exact ⟨hconst, rfl⟩
          · rename_i id hl; simp [hl, Layer.isNumeric] at hnum
          · simp at hty

/-- an element of an array of const numeric elements is const numeric -/
theorem elabIndex_constArr {a i n : IExpr} {τa τi τ : ETy} (ha : HasType Γ a τa) (hc : ConstArr Γ τa)
    (h : elabIndex Γ a τa i τi = .ok (n, τ)) : ConstNum τ := by
  obtain ⟨id, elem, len, hl, ho, hconst, hnum⟩ := hc
  unfold elabIndex at h
  split at h
  · simp at h
  · split at h
    · simp at h
    · simp at h
    · split at h
      · simp at h
      · split at h
        · simp at h
        · rename_i ety hty
          simp at h; obtain ⟨_, rfl⟩ := h
          simp only [typeOf, typeOf_of_hasType a τa ha, hl, ho] at hty
          simp at hty; subst hty; exact ⟨hconst, hnum⟩

/-- an element of a read-only resource is const -/
theorem elabIndex_readOnlyRes {a i n : IExpr} {τa τi τ : ETy} (ha : HasType Γ a τa) (hc : ReadOnlyRes Γ τa)
    (h : elabIndex Γ a τa i τi = .ok (n, τ)) : ConstNum τ := by
  obtain ⟨id, kind, elem, hl, ho, hro, hnum⟩ := hc
  unfold elabIndex at h
  split at h
  · simp at h
  · split at h
    · simp at h
    · simp at h
    · split at h
      · simp at h
      · split at h
        · simp at h
        · rename_i ety hty
          simp at h; obtain ⟨_, rfl⟩ := h
          simp only [typeOf, typeOf_of_hasType a τa ha, hl, ho, resourceElem, hro, if_true] at hty
          simp at hty; subst hty; exact ⟨rfl, hnum⟩

/-! ## chains -/

theorem elabE_member_inv {dbg : Bool} {e : SExpr} {name : String} {r : IExpr × ETy}
    (h : elabE dbg Γ (.member e name) = .ok r) :
    ∃ e0 τ0 n τ', elabE dbg Γ e = .ok (e0, τ0) ∧ elabMember Γ name e0 τ0 = .ok (n, τ') ∧ r = (n, τ') := by
  simp only [elabE] at h
  split at h
  · simp at h
  · rename_i e0 τ0 h0
    split at h
    · simp at h
    · rename_i n τ' hn
      obtain ⟨r1, r2⟩ := r
      obtain ⟨h1, h2⟩ := selfCheck_type h
      exact ⟨e0, τ0, n, τ', h0, hn, by rw [h1, h2]⟩

theorem elabE_index_inv {dbg : Bool} {a i : SExpr} {r : IExpr × ETy}
    (h : elabE dbg Γ (.index a i) = .ok r) :
    ∃ a0 τa i0 τi n τ', elabE dbg Γ a = .ok (a0, τa) ∧ elabE dbg Γ i = .ok (i0, τi) ∧
      elabIndex Γ a0 τa i0 τi = .ok (n, τ') ∧ r = (n, τ') := by
  simp only [elabE] at h
  split at h
  · simp at h
  · rename_i a0 τa ha
    split at h
    · simp at h
    · rename_i i0 τi hi
      split at h
      · simp at h
      · rename_i n τ' hn
        obtain ⟨r1, r2⟩ := r
        obtain ⟨h1, h2⟩ := selfCheck_type h
        exact ⟨a0, τa, i0, τi, n, τ', ha, hi, hn, by rw [h1, h2]⟩

/-- a chain is only accepted if its base is -/
theorem chain_base_ok {dbg : Bool} : ∀ (ps : List Proj) (e : SExpr) (r : IExpr × ETy),
    elabE dbg Γ (applyChain e ps) = .ok r → ∃ r0, elabE dbg Γ e = .ok r0
  | [], e, r, h => ⟨r, h⟩
  | p :: ps, e, r, h => by
    obtain ⟨r1, h1⟩ := chain_base_ok ps (applyProj e p) r h
    cases p with
    | member name =>
      obtain ⟨e0, τ0, _, _, h0, _, _⟩ := elabE_member_inv h1
      exact ⟨_, h0⟩
    | index i =>
      obtain ⟨a0, τa, _, _, _, _, ha, _, _, _⟩ := elabE_index_inv h1
      exact ⟨_, ha⟩

/-- one step keeps "const numeric" -/
theorem step_constNum {dbg : Bool} {e : SExpr} {p : Proj} {e0 : IExpr} {τ0 : ETy} {r : IExpr × ETy}
    (h0 : elabE dbg Γ e = .ok (e0, τ0)) (hc : ConstNum τ0) (h : elabE dbg Γ (applyProj e p) = .ok r) : ConstNum r.2 := by
  cases p with
  | member name =>
    obtain ⟨e1, τ1, n, τ', h1, hm, rfl⟩ := elabE_member_inv h
    rw [h0] at h1; simp at h1; obtain ⟨rfl, rfl⟩ := h1
    exact elabMember_constNum hc hm
  | index i =>
    obtain ⟨a1, τa, i0, τi, n, τ', h1, _, hx, rfl⟩ := elabE_index_inv h
    rw [h0] at h1; simp at h1; obtain ⟨rfl, rfl⟩ := h1
    exact elabIndex_constNum (elab_sound_any dbg e _ _ h0) hc hx

/-- **`const` is kept through every chain of swizzles and subscripts** on a const scalar / vector / matrix -/
theorem chain_constNum {dbg : Bool} : ∀ (ps : List Proj) (e : SExpr) (e0 : IExpr) (τ0 : ETy) (r : IExpr × ETy),
    elabE dbg Γ e = .ok (e0, τ0) → ConstNum τ0 → elabE dbg Γ (applyChain e ps) = .ok r → ConstNum r.2
  | [], e, e0, τ0, r, h0, hc, h => by
    simp only [applyChain] at h
    rw [h0] at h; simp at h; subst h; exact hc
  | p :: ps, e, e0, τ0, r, h0, hc, h => by
    simp only [applyChain] at h
    obtain ⟨⟨e1, τ1⟩, h1⟩ := chain_base_ok ps (applyProj e p) r h
    exact chain_constNum ps (applyProj e p) e1 τ1 r h1 (step_constNum h0 hc h1) h

/-- ... and through `[i]` followed by any chain on an array of const elements -/
theorem chain_constArr {dbg : Bool} {ps : List Proj} {e i : SExpr} {e0 : IExpr} {τ0 : ETy} {r : IExpr × ETy}
    (h0 : elabE dbg Γ e = .ok (e0, τ0)) (hc : ConstArr Γ τ0)
    (h : elabE dbg Γ (applyChain e (.index i :: ps)) = .ok r) : ConstNum r.2 := by
  simp only [applyChain] at h
  obtain ⟨⟨e1, τ1⟩, h1⟩ := chain_base_ok ps _ r h
  have hc1 : ConstNum τ1 := by
    obtain ⟨a1, τa, i0, τi, n, τ', ha, _, hx, heq⟩ := elabE_index_inv h1
    rw [h0] at ha; simp at ha; obtain ⟨rfl, rfl⟩ := ha
    simp at heq; obtain ⟨rfl, rfl⟩ := heq
    exact elabIndex_constArr (elab_sound_any dbg e _ _ h0) hc hx
  exact chain_constNum ps _ e1 τ1 r h1 hc1 h

/-- ... and through `[i]` followed by any chain on a read-only resource -/
theorem chain_readOnlyRes {dbg : Bool} {ps : List Proj} {e i : SExpr} {e0 : IExpr} {τ0 : ETy} {r : IExpr × ETy}
    (h0 : elabE dbg Γ e = .ok (e0, τ0)) (hc : ReadOnlyRes Γ τ0)
    (h : elabE dbg Γ (applyChain e (.index i :: ps)) = .ok r) : ConstNum r.2 := by
  simp only [applyChain] at h
  obtain ⟨⟨e1, τ1⟩, h1⟩ := chain_base_ok ps _ r h
  have hc1 : ConstNum τ1 := by
    obtain ⟨a1, τa, i0, τi, n, τ', ha, _, hx, heq⟩ := elabE_index_inv h1
    rw [h0] at ha; simp at ha; obtain ⟨rfl, rfl⟩ := ha
    simp at heq; obtain ⟨rfl, rfl⟩ := heq
    exact elabIndex_readOnlyRes (elab_sound_any dbg e _ _ h0) hc hx
  exact chain_constNum ps _ e1 τ1 r h1 hc1 h

/-! ## value category through member chains -/

def memberChain : List String → List Proj := List.map Proj.member

/-- members and swizzles of a value that is not an lvalue are not lvalues, for chains of any length -/
theorem chain_members_rvalue {dbg : Bool} : ∀ (names : List String) (e : SExpr) (e0 : IExpr) (τ0 : ETy) (r : IExpr × ETy),
    elabE dbg Γ e = .ok (e0, τ0) → τ0.vt = .rvalue → elabE dbg Γ (applyChain e (memberChain names)) = .ok r →
    r.2.vt = .rvalue
  | [], e, e0, τ0, r, h0, hv, h => by
    simp only [memberChain, List.map, applyChain] at h
    rw [h0] at h; simp at h; subst h; exact hv
  | nm :: names, e, e0, τ0, r, h0, hv, h => by
    simp only [memberChain, List.map, applyChain] at h
    obtain ⟨⟨e1, τ1⟩, h1⟩ := chain_base_ok (memberChain names) _ r h
    have hv1 : τ1.vt = .rvalue := by
      obtain ⟨e2, τ2, n, τ', h2, hm, heq⟩ := elabE_member_inv h1
      rw [h0] at h2; simp at h2; obtain ⟨rfl, rfl⟩ := h2
      simp at heq; obtain ⟨rfl, rfl⟩ := heq
      exact elabMember_rvalue hv hm
    exact chain_members_rvalue names _ e1 τ1 r h1 hv1 h

end RsslVerif.Lemmas.ProjX

import RsslVerif.Lemmas.FixpointNames
/-!
# Every scope table the descriptor machine builds is well formed

`run_inv`: for every instruction list, the table of `Model.FixpointNames.run` satisfies `TableWF` (scope 0 is the only
scope without a parent, parents have smaller indices), the current scope exists, and every namespace / enum-scope symbol
points to an existing scope.  So `TableWF` is not an assumption about the programs of the `C04.names` stream: it is what
`make_scope` / `push_scope` give.
-/
namespace RsslVerif.Lemmas.FixpointNames
open RsslVerif.Model.FixpointNames

theorem modifyAt_length (T : Table) (i : Nat) (f : Scope → Scope) : (modifyAt T i f).length = T.length := by
  induction T generalizing i with
  | nil => simp [modifyAt]
  | cons s r ih =>
    cases i with
    | zero => simp [modifyAt]
    | succ i => simp [modifyAt, ih]

theorem modifyAt_getElem? (T : Table) (i : Nat) (f : Scope → Scope) (j : Nat) :
    (modifyAt T i f)[j]? = if j = i then (T[j]?).map f else T[j]? := by
  induction T generalizing i j with
  | nil => simp [modifyAt]
  | cons s r ih =>
    cases i with
    | zero =>
      cases j with
      | zero => simp [modifyAt]
      | succ j => simp [modifyAt]
    | succ i =>
      cases j with
      | zero => simp [modifyAt]
      | succ j => simp [modifyAt, ih]

/-- every namespace / enum-scope symbol of the table points to an existing scope -/
def SymsValid (T : Table) : Prop :=
  ∀ (i : Nat) (sc : Scope) (n : String) (idx : Nat), T[i]? = some sc → Sym.scope idx ∈ sc.symsOf n → idx < T.length

theorem wf_modifyAt {T : Table} (wf : TableWF T) (i : Nat) (f : Scope → Scope) (hf : ∀ sc, (f sc).parent = sc.parent) :
    TableWF (modifyAt T i f) := by
  have key : ∀ (j : Nat) (sc' : Scope), (modifyAt T i f)[j]? = some sc' → ∃ sc : Scope, T[j]? = some sc ∧ sc'.parent = sc.parent := by
    intro j sc' h
    rw [modifyAt_getElem?] at h
    split at h
    · cases hj : T[j]? with
      | none => simp [hj] at h
      | some sc => simp [hj] at h; exact ⟨sc, rfl, by rw [← h, hf]⟩
    · exact ⟨sc', h, rfl⟩
  refine ⟨?_, ?_, ?_⟩
  · obtain ⟨sc, h0, hp⟩ := wf.root
    have : (modifyAt T i f)[0]? = some (if 0 = i then f sc else sc) := by
      rw [modifyAt_getElem?]; split <;> simp [h0]
    refine ⟨_, this, ?_⟩
    split <;> simp [hf, hp]
  · intro j sc' p h hp
    obtain ⟨sc, hs, hpar⟩ := key j sc' h
    exact wf.parent_lt j sc p hs (by rw [← hpar]; exact hp)
  · intro j sc' h hj
    obtain ⟨sc, hs, hpar⟩ := key j sc' h
    obtain ⟨p, hp⟩ := wf.nonroot j sc hs hj
    exact ⟨p, by rw [hpar]; exact hp⟩

theorem wf_append {T : Table} (wf : TableWF T) (sc : Scope) (p : Nat) (hp : sc.parent = some p) (hlt : p < T.length) :
    TableWF (T ++ [sc]) := by
  have hpos : 0 < T.length := by
    obtain ⟨s0, h0, _⟩ := wf.root
    exact lt_of_valid h0
  have key : ∀ (j : Nat) (s : Scope), (T ++ [sc])[j]? = some s → (j < T.length ∧ T[j]? = some s) ∨ (j = T.length ∧ s = sc) := by
    intro j s h
    rcases Nat.lt_or_ge j T.length with hj | hj
    · rw [List.getElem?_append_left hj] at h; exact Or.inl ⟨hj, h⟩
    · rw [List.getElem?_append_right hj] at h
      rcases Nat.eq_zero_or_pos (j - T.length) with h0 | h1
      · rw [h0] at h; simp at h; exact Or.inr ⟨by omega, h.symm⟩
      · have : [sc][j - T.length]? = none := by
          apply List.getElem?_eq_none; simp; omega
        rw [this] at h; cases h
  refine ⟨?_, ?_, ?_⟩
  · obtain ⟨s0, h0, hp0⟩ := wf.root
    exact ⟨s0, by rw [List.getElem?_append_left hpos]; exact h0, hp0⟩
  · intro j s q h hq
    rcases key j s h with ⟨_, hs⟩ | ⟨hj, hs⟩
    · exact wf.parent_lt j s q hs hq
    · subst hs; rw [hp] at hq; cases hq; omega
  · intro j s h hj
    rcases key j s h with ⟨_, hs⟩ | ⟨_, hs⟩
    · exact wf.nonroot j s hs hj
    · subst hs; exact ⟨p, hp⟩

theorem assoc_pushSym (n : String) (s : Sym) (l : List (String × List Sym)) (m : String) :
    assoc m (pushSym n s l) = if m = n then some ((assoc n l).getD [] ++ [s]) else assoc m l := by
  induction l with
  | nil =>
    by_cases h : m = n
    · subst h; simp [pushSym, assoc]
    · simp [pushSym, assoc, h]; intro h'; exact absurd h'.symm h
  | cons kv r ih =>
    obtain ⟨k, v⟩ := kv
    by_cases hk : k = n
    · subst hk
      by_cases h : m = k
      · subst h; simp [pushSym, assoc]
      · have h' : ¬ k = m := fun e => h e.symm
        simp [pushSym, assoc, h, h']
    · by_cases h : m = n
      · subst h
        have hk' : ¬ k = m := hk
        simp [pushSym, assoc, hk', ih]
      · by_cases hkm : k = m
        · subst hkm; simp [pushSym, assoc, hk]
        · simp [pushSym, assoc, hk, hkm, ih, h]

theorem symsValid_modifyAt_syms {T : Table} (sv : SymsValid T) (i : Nat) (f : Scope → Scope)
    (hf : ∀ sc n idx, Sym.scope idx ∈ (f sc).symsOf n → Sym.scope idx ∈ sc.symsOf n ∨ idx < T.length) :
    SymsValid (modifyAt T i f) := by
  intro j sc' n idx h hm
  rw [modifyAt_length]
  rw [modifyAt_getElem?] at h
  split at h
  · cases hj : T[j]? with
    | none => simp [hj] at h
    | some sc =>
      simp [hj] at h
      subst h
      rcases hf sc n idx hm with h1 | h2
      · exact sv j sc n idx hj h1
      · exact h2
  · exact sv j sc' n idx h hm

theorem symsValid_addSym {T : Table} (sv : SymsValid T) (i : Nat) (n : String) (s : Sym)
    (hs : ∀ idx, s = .scope idx → idx < T.length) : SymsValid (addSym T i n s) := by
  apply symsValid_modifyAt_syms sv
  intro sc m idx hm
  simp only [Scope.symsOf, assoc_pushSym] at hm
  split at hm
  · rename_i hmn
    subst hmn
    simp only [Option.getD_some, List.mem_append, List.mem_singleton] at hm
    rcases hm with h | h
    · exact Or.inl h
    · exact Or.inr (hs idx h.symm)
  · exact Or.inl hm

theorem symsValid_append {T : Table} (sv : SymsValid T) (sc : Scope) (hsc : sc.syms = []) : SymsValid (T ++ [sc]) := by
  intro j s n idx h hm
  simp only [List.length_append, List.length_cons, List.length_nil]
  rcases Nat.lt_or_ge j T.length with hj | hj
  · rw [List.getElem?_append_left hj] at h
    have := sv j s n idx h hm
    omega
  · rw [List.getElem?_append_right hj] at h
    rcases Nat.eq_zero_or_pos (j - T.length) with h0 | h1
    · rw [h0] at h; simp at h; subst h
      simp [Scope.symsOf, hsc, assoc] at hm
    · have : [sc][j - T.length]? = none := by
        apply List.getElem?_eq_none; simp; omega
      rw [this] at h; cases h

/-- the invariant of the descriptor machine -/
structure Inv (st : St) : Prop where
  wf : TableWF st.T
  cur : st.cur < st.T.length
  syms : SymsValid st.T

theorem addSym_length (T : Table) (i : Nat) (n : String) (s : Sym) : (addSym T i n s).length = T.length :=
  modifyAt_length _ _ _

theorem wf_addSym {T : Table} (wf : TableWF T) (i : Nat) (n : String) (s : Sym) : TableWF (addSym T i n s) :=
  wf_modifyAt wf i _ (fun _ => rfl)

theorem firstScope_mem {l : List Sym} {i : Nat} (h : firstScope l = some i) : Sym.scope i ∈ l := by
  induction l with
  | nil => simp [firstScope] at h
  | cons s r ih =>
    cases s with
    | scope j => simp [firstScope] at h; subst h; simp
    | fn _ => simp [firstScope] at h; simp [ih h]
    | val _ => simp [firstScope] at h; simp [ih h]
    | ty _ => simp [firstScope] at h; simp [ih h]

theorem parentOf_lt {T : Table} (wf : TableWF T) {i : Nat} (hi : i < T.length) : parentOf T i < T.length := by
  obtain ⟨sc, hs⟩ := valid_of_lt hi
  unfold parentOf
  rw [hs]
  cases hp : sc.parent with
  | none => simp [hp]; omega
  | some p =>
    simp [hp]
    have := wf.parent_lt i sc p hs hp
    omega

theorem registerVals_inv {T : Table} (wf : TableWF T) (sv : SymsValid T) (parent es : Nat) (vals : List String) (id : Nat) :
    TableWF (registerVals T parent es vals id) ∧ SymsValid (registerVals T parent es vals id) ∧
      (registerVals T parent es vals id).length = T.length := by
  induction vals generalizing T id with
  | nil => exact ⟨wf, sv, rfl⟩
  | cons v r ih =>
    simp only [registerVals]
    have wf1 := wf_addSym (wf_addSym wf es v (.val id)) parent v (.val id)
    have sv1 : SymsValid (addSym (addSym T es v (.val id)) parent v (.val id)) :=
      symsValid_addSym (symsValid_addSym sv es v (.val id) (by intro idx h; cases h)) parent v (.val id)
        (by intro idx h; cases h)
    obtain ⟨a, b, c⟩ := ih wf1 sv1 (id + 1)
    exact ⟨a, b, by rw [c, addSym_length, addSym_length]⟩

theorem exec_inv {st : St} (h : Inv st) (i : Instr) : Inv (exec st i) := by
  obtain ⟨wf, hc, sv⟩ := h
  have hpos : 0 < st.T.length := by omega
  cases i with
  | ns n =>
    simp only [exec]
    split
    · rename_i idx hfs
      obtain ⟨sc, hs⟩ := valid_of_lt hc
      have hm : Sym.scope idx ∈ sc.symsOf n := by
        apply firstScope_mem
        simpa [hs] using hfs
      exact ⟨wf, sv _ sc n idx hs hm, sv⟩
    · refine ⟨wf_addSym (wf_append wf _ st.cur rfl hc) _ _ _, ?_, ?_⟩
      · simp [addSym_length]
      · apply symsValid_addSym (symsValid_append sv _ rfl)
        intro idx hidx; cases hidx; simp
  | «end» =>
    simp only [exec]
    split
    · exact ⟨wf, hc, sv⟩
    · exact ⟨wf, parentOf_lt wf (parentOf_lt wf hc), sv⟩
    · exact ⟨wf, parentOf_lt wf hc, sv⟩
  | gv n =>
    exact ⟨wf_addSym wf _ _ _, by simpa [exec, addSym_length] using hc,
      symsValid_addSym sv _ _ _ (by intro idx h; cases h)⟩
  | fn n p =>
    simp only [exec]
    refine ⟨wf_addSym (wf_append wf _ st.cur rfl hc) _ _ _, by simp [addSym_length], ?_⟩
    exact symsValid_addSym (symsValid_append sv _ rfl) _ _ _ (by intro idx h; cases h)
  | st n =>
    simp only [exec]
    have e : st.T ++ [({ parent := some st.cur } : Scope), { parent := some st.T.length, members := some (structMembers st.nextId) }]
        = (st.T ++ [({ parent := some st.cur } : Scope)]) ++ [{ parent := some st.T.length, members := some (structMembers st.nextId) }] := by
      simp
    rw [e]
    have wf1 := wf_append wf ({ parent := some st.cur } : Scope) st.cur rfl hc
    have wf2 := wf_append wf1 ({ parent := some st.T.length, members := some (structMembers st.nextId) } : Scope)
      st.T.length rfl (by simp)
    refine ⟨wf_addSym wf2 _ _ _, by simp [addSym_length], ?_⟩
    exact symsValid_addSym (symsValid_append (symsValid_append sv _ rfl) _ rfl) _ _ _ (by intro idx h; cases h)
  | en n vals =>
    simp only [exec]
    have wf1 := wf_append wf ({ parent := some st.cur } : Scope) st.cur rfl hc
    have sv1 := symsValid_append sv ({ parent := some st.cur } : Scope) rfl
    have wf2 := wf_addSym (wf_addSym wf1 st.cur n (.scope st.T.length)) st.cur n (.ty st.nextId)
    have sv2 : SymsValid (addSym (addSym (st.T ++ [({ parent := some st.cur } : Scope)]) st.cur n (.scope st.T.length)) st.cur n (.ty st.nextId)) :=
      symsValid_addSym (symsValid_addSym sv1 _ _ _ (by intro idx h; cases h; simp)) _ _ _ (by intro idx h; cases h)
    obtain ⟨a, b, c⟩ := registerVals_inv wf2 sv2 st.cur st.T.length vals (st.nextId + 1)
    split
    · exact ⟨wf, hc, sv⟩
    · exact ⟨a, by rw [c]; simp [addSym_length]; omega, b⟩
  | td n p =>
    simp only [exec]
    split
    · exact ⟨wf_addSym wf _ _ _, by simpa [addSym_length] using hc, symsValid_addSym sv _ _ _ (by intro idx h; cases h)⟩
    · exact ⟨wf, hc, sv⟩
  | lv n =>
    simp only [exec]
    split
    · exact ⟨wf, hc, sv⟩
    · split
      · exact ⟨wf, hc, sv⟩
      · refine ⟨wf_modifyAt wf _ _ (fun _ => rfl), by simpa [modifyAt_length] using hc, ?_⟩
        exact symsValid_modifyAt_syms sv _ _ (fun sc m idx hm => Or.inl hm)
  | bl =>
    simp only [exec]
    exact ⟨wf_append wf _ st.cur rfl hc, by simp, symsValid_append sv _ rfl⟩
  | use k p => exact ⟨wf, hc, sv⟩

theorem init_inv : Inv ({} : St) := by
  refine ⟨⟨⟨_, rfl, rfl⟩, ?_, ?_⟩, by decide, ?_⟩
  · intro i sc p h hp
    cases i with
    | zero => simp at h; subst h; simp at hp
    | succ i => simp at h
  · intro i sc h hi
    cases i with
    | zero => exact absurd rfl hi
    | succ i => simp at h
  · intro i sc n idx h hm
    cases i with
    | zero => simp at h; subst h; simp [Scope.symsOf, assoc] at hm
    | succ i => simp at h

theorem foldl_inv (is : List Instr) : ∀ st, Inv st → Inv (is.foldl exec st) := by
  induction is with
  | nil => intro st h; exact h
  | cons i r ih => intro st h; exact ih _ (exec_inv h i)

/-- **every table the descriptor machine builds is well formed**, and its current scope exists -/
theorem run_inv (is : List Instr) : Inv (run is) := foldl_inv is _ init_inv

end RsslVerif.Lemmas.FixpointNames

import RsslVerif.Lemmas.FixpointArith
set_option linter.unusedSimpArgs false
/-!
Lemmas for C04 `reelab_no_new_casts`, part 3: the conditional operator, the assignment family and the unary
operators are rebuilt identically from re-elaborated operands.  Core Lean only.
-/
namespace RsslVerif.Lemmas.FixpointForms
open RsslVerif.Gen.RankTable RsslVerif.Gen.TypingTables
open RsslVerif.Model.Conv RsslVerif.Model.Overload RsslVerif.Model.IrTyping RsslVerif.Model.Elab
open RsslVerif.Model.Fixpoint RsslVerif.Lemmas.ElabConv RsslVerif.Lemmas.Elab RsslVerif.Lemmas.ElabExact
open RsslVerif.Lemmas.ElabRelease RsslVerif.Lemmas.FixpointElab RsslVerif.Lemmas.FixpointArith

/-! ## `?:` — the common type of the arms is stable -/

@[simp] theorem mostSig_idem1 (l r : Scalar) : mostSigScalar (mostSigScalar l r) r = mostSigScalar l r := by
  cases l <;> cases r <;> decide
@[simp] theorem mostSig_idem2 (l r : Scalar) : mostSigScalar l (mostSigScalar l r) = mostSigScalar l r := by
  cases l <;> cases r <;> decide
@[simp] theorem mostSig_idem3 (l : Scalar) : mostSigScalar l l = l := by
  cases l <;> decide

def vdim (n1 n2 : Nat) : Nat := if n1 = 1 ∨ n2 = 1 then max n1 n2 else min n1 n2

theorem vdim_idem (n1 n2 : Nat) :
    vdim (vdim n1 n2) n2 = vdim n1 n2 ∧ vdim n1 (vdim n1 n2) = vdim n1 n2 ∧ vdim (vdim n1 n2) (vdim n1 n2) = vdim n1 n2 := by
  unfold vdim
  refine ⟨?_, ?_, ?_⟩ <;> (repeat' split) <;> omega

theorem ternTargets_vv (s1 s2 : Scalar) (n1 n2 : Nat) :
    ternTargets (.vector s1 n1) (.vector s2 n2) =
      .ok (.vector (mostSigScalar s1 s2) (vdim n1 n2), .vector (mostSigScalar s1 s2) (vdim n1 n2)) := by
  unfold vdim
  by_cases hc : n1 = 1 ∨ n2 = 1 <;>
    simp [ternTargets, Layer.extractScalar, mostSignificantDimension, Layer.ofDim, hc]

theorem ternTargets_stable {la lb lt la0 lb0 : Layer} (h : ternTargets la lb = .ok (lt, lt))
    (ha : la0 = la ∨ la0 = lt) (hb : lb0 = lb ∨ lb0 = lt) : ternTargets la0 lb0 = .ok (lt, lt) := by
  cases la <;> cases lb
  case vector.vector s1 n1 s2 n2 =>
    rw [ternTargets_vv] at h
    simp at h
    subst h
    obtain ⟨d1, d2, d3⟩ := vdim_idem n1 n2
    rcases ha with rfl | rfl <;> rcases hb with rfl | rfl <;> rw [ternTargets_vv] <;> simp [*]
  all_goals
    simp [ternTargets, Layer.extractScalar, mostSignificantDimension, Layer.transformScalar, Layer.ofDim] at h
  all_goals (try (obtain ⟨h1, h2⟩ := h; subst h1; first | (cases h2; done) | skip))
  all_goals (try subst h)
  all_goals (try (rcases ha with rfl | rfl <;> rcases hb with rfl | rfl <;>
    simp [ternTargets, Layer.extractScalar, mostSignificantDimension, Layer.transformScalar, Layer.ofDim] <;> done))
  · injection h2 with h2; subst h2
    rcases ha with rfl | rfl <;> rcases hb with rfl | rfl <;>
      simp [ternTargets, Layer.extractScalar, mostSignificantDimension]
  · injection h2 with h2; subst h2
    rcases ha with rfl | rfl <;> rcases hb with rfl | rfl <;>
      simp [ternTargets, Layer.extractScalar, mostSignificantDimension]

theorem ternTargets_floatLit_left (lb x : Layer) :
    ternTargets (.scalar .floatLiteral) lb ≠ .ok (.scalar .int32, x) := by
  cases lb with
  | scalar s => cases s <;> simp +decide [ternTargets, Layer.extractScalar, mostSignificantDimension, Layer.ofDim, mostSigScalar]
  | vector s n => cases s <;> simp +decide [ternTargets, Layer.extractScalar, mostSignificantDimension, Layer.ofDim, mostSigScalar]
  | matrix s p q => cases s <;> simp +decide [ternTargets, Layer.extractScalar, mostSignificantDimension, Layer.transformScalar, mostSigScalar]
  | enum i => simp [ternTargets, Layer.extractScalar, mostSignificantDimension]
  | other i => simp [ternTargets, Layer.extractScalar, mostSignificantDimension]

theorem ternTargets_floatLit_right (la x : Layer) :
    ternTargets la (.scalar .floatLiteral) ≠ .ok (x, .scalar .int32) := by
  cases la with
  | scalar s => cases s <;> simp +decide [ternTargets, Layer.extractScalar, mostSignificantDimension, Layer.ofDim, mostSigScalar]
  | vector s n => cases s <;> simp +decide [ternTargets, Layer.extractScalar, mostSignificantDimension, Layer.ofDim, mostSigScalar]
  | matrix s p q => cases s <;> simp +decide [ternTargets, Layer.extractScalar, mostSignificantDimension, Layer.transformScalar, mostSigScalar]
  | enum i => simp [ternTargets, Layer.extractScalar, mostSignificantDimension]
  | other i => simp [ternTargets, Layer.extractScalar, mostSignificantDimension]

theorem convert_inv {e e' : IExpr} {s d t : ETy} (h : convert e s d = .ok (some (e', t))) :
    ∃ c, find s d = .ok (some c) ∧ applyConv c e = .ok e' ∧ t = d := by
  unfold convert at h
  split at h
  · simp at h
  · simp at h
  · rename_i c hf
    split at h
    · simp at h
    · rename_i e2 ha
      rw [targetType_ok hf] at h
      simp at h
      exact ⟨c, hf, by rw [ha, h.1], h.2.symm⟩

theorem and3_idem (m : Nat) : (m &&& 3) &&& 3 = m &&& 3 := by
  rw [Nat.and_assoc]; rfl

/-- the type the arms of `?:` are converted to -/
def TTy (τa : ETy) (lt : Layer) : ETy := (Ty.mk { rest := τa.ty.mod.rest &&& 3 } lt).r

theorem boolR_ne_int32 : boolR ≠ (scalarTy .int32).r := by decide

/-- **`?:` is stable under re-elaboration.** -/
theorem elabTern_stable {c' a' b' n c0 a0 b0 : IExpr} {τc τa τb τ τc0 τa0 τb0 : ETy}
    (h : elabTern c' τc a' τa b' τb = .ok (n, τ)) :
    ∃ D cc ca cb c2 a2 b2, find τc boolR = .ok (some cc) ∧ applyConv cc c' = .ok c2 ∧
      find τa D = .ok (some ca) ∧ find τb D = .ok (some cb) ∧ D.vt = .rvalue ∧
      applyConv ca a' = .ok a2 ∧ applyConv cb b' = .ok b2 ∧ n = .tern c2 a2 b2 ∧
      (Back τc boolR c' c2 c0 τc0 → Back τa D a' a2 a0 τa0 → Back τb D b' b2 b0 τb0 →
        elabTern c0 τc0 a0 τa0 b0 τb0 = .ok (n, τ)) := by
  unfold elabTern at h
  split at h
  · simp at h
  · rename_i lt rt htt
    split at h
    · simp at h
    · rename_i heq
      simp at heq; subst heq
      split at h
      · simp at h
      · simp at h
      · rename_i ca hca
        split at h
        · simp at h
        · simp at h
        · rename_i cb hcb
          unfold ternBuild at h
          split at h
          · simp at h
          · rename_i a2 ha2
            split at h
            · simp at h
            · rename_i b2 hb2
              rw [targetType_ok hca, targetType_ok hcb] at h
              simp only [ne_eq, not_true_eq_false, if_false] at h
              split at h
              · simp at h
              · rename_i hvm
                split at h
                · simp at h
                · simp at h
                · rename_i c2 tc hcc
                  simp at h
                  obtain ⟨cc, hfc, hac, _⟩ := convert_inv hcc
                  refine ⟨TTy τa lt, cc, ca, cb, c2, a2, b2, hfc, hac, hca, hcb, rfl, ha2, hb2, h.1.symm, ?_⟩
                  intro hbc hba hbb
                  -- the left arm decides the modifier of the common type
                  have hD0 : TTy τa0 lt = TTy τa lt := by
                    cases hba with
                    | same => rfl
                    | exact _ => simp [TTy, Ty.r, and3_idem]
                    | relit _ hD hτ =>
                      rcases hτ with rfl | rfl
                      · rfl
                      · exfalso
                        have hl : lt = .scalar .int32 := by
                          have := congrArg (fun (t : ETy) => t.ty.layer) hD
                          simpa [TTy, Ty.r, scalarTy] using this
                        subst hl
                        exact ternTargets_floatLit_left _ _ htt
                  have hla : τa0.ty.layer = τa.ty.layer ∨ τa0.ty.layer = lt := by
                    cases hba with
                    | same => exact Or.inl rfl
                    | exact _ => exact Or.inr rfl
                    | relit _ hD hτ =>
                      rcases hτ with rfl | rfl
                      · exact Or.inl rfl
                      · exfalso
                        have hl : lt = .scalar .int32 := by
                          have := congrArg (fun (t : ETy) => t.ty.layer) hD
                          simpa [TTy, Ty.r, scalarTy] using this
                        subst hl
                        exact ternTargets_floatLit_left _ _ htt
                  have hlb : τb0.ty.layer = τb.ty.layer ∨ τb0.ty.layer = lt := by
                    cases hbb with
                    | same => exact Or.inl rfl
                    | exact _ => exact Or.inr rfl
                    | relit _ hD hτ =>
                      rcases hτ with rfl | rfl
                      · exact Or.inl rfl
                      · exfalso
                        have hl : lt = .scalar .int32 := by
                          have := congrArg (fun (t : ETy) => t.ty.layer) hD
                          simpa [TTy, Ty.r, scalarTy] using this
                        subst hl
                        exact ternTargets_floatLit_right _ _ htt
                  have htt0 := ternTargets_stable htt hla hlb
                  obtain ⟨ca0, hca0, ha20⟩ := back_find hca ha2 hba
                  obtain ⟨cb0, hcb0, hb20⟩ := back_find hcb hb2 hbb
                  have hcc0 := back_convert hfc hac hbc
                  have hvm0 : τc0.ty.layer.isVecOrMat = false := by
                    cases hbc with
                    | same => simpa using hvm
                    | exact _ => rfl
                    | relit _ hD _ => exact absurd hD boolR_ne_int32
                  unfold TTy at hD0
                  unfold elabTern
                  simp only [htt0, ne_eq, not_true_eq_false, if_false, hD0, hca0, hcb0]
                  unfold ternBuild
                  simp only [ha20, hb20, targetType_ok hca0, targetType_ok hcb0, ne_eq, not_true_eq_false, if_false, hvm0,
                    hcc0]
                  simp [h.1, h.2]

end RsslVerif.Lemmas.FixpointForms

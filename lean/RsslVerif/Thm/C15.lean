import RsslVerif.Model.Names
import RsslVerif.Spec.Names
import RsslVerif.Gen.Reserved
import RsslVerif.Lemmas.Names
/-!
# C15 — renaming is harmless and emitted names are hygienic: theorems about the model of `NameMap::build`

All statements are about `Model.Names.build reserved inp` for **every** input (any number of namespaces,
entries, locals, any reserved list), unless a hypothesis says otherwise.
-/
namespace RsslVerif.Thm.C15
open RsslVerif.Model.Names RsslVerif.Lemmas.Names

/-! ## the tables and the source facts the model rests on (re-extracted from /repo on every run) -/

/-- The lines of `NameMap::build` the model transcribes are still there, the candidate format is `{}_{}`,
symbols are pushed in the order namespace, struct, enum, global, function, and the two exporters pass
`intrinsics_are_reserved = true / false`. -/
theorem source_fingerprints :
    Gen.Reserved.candFormat = "{}_{}" ∧
    Gen.Reserved.pushOrder = ["Namespace", "Struct", "Enum", "GlobalVariable", "Function"] ∧
    Gen.Reserved.fact_keepCondition = true ∧ Gen.Reserved.fact_scopeLoopInsert = true ∧
    Gen.Reserved.fact_scopeUsedStartsReserved = true ∧ Gen.Reserved.fact_allScopesStartsReserved = true ∧
    Gen.Reserved.fact_sortedByName = true ∧ Gen.Reserved.fact_localTest = true ∧
    Gen.Reserved.fact_localLoop = true ∧ Gen.Reserved.fact_localKeeps = true ∧
    Gen.Reserved.fact_counterStartsAtZero = true ∧
    Gen.Reserved.hlslIntrinsicsReserved = true ∧ Gen.Reserved.mslIntrinsicsReserved = false := by
  decide

/-- Every entry of the independent keyword / built-in lists is in `RESERVED_NAMES`, except the committed
exceptions `Spec.Names.hlslNotListed` / `mslNotListed`.  *Partial*: the full statement
(`∀ n ∈ keywords, n ∈ RESERVED_NAMES`) is false on the pinned tree, see `reserved_incomplete_*`. -/
theorem reserved_complete_partial :
    (∀ n ∈ Spec.Names.hlslKeywords, n ∈ Gen.Reserved.hlsl ∨ n ∈ Spec.Names.hlslNotListed) ∧
    (∀ n ∈ Spec.Names.mslKeywords, n ∈ Gen.Reserved.msl ∨ n ∈ Spec.Names.mslNotListed) := by
  decide +kernel

/-- the exception lists contain nothing that *is* listed (so they cannot hide a deletion) -/
theorem not_listed_exact :
    (∀ n ∈ Spec.Names.hlslNotListed, n ∈ Spec.Names.hlslKeywords ∧ n ∉ Gen.Reserved.hlsl) ∧
    (∀ n ∈ Spec.Names.mslNotListed, n ∈ Spec.Names.mslKeywords ∧ n ∉ Gen.Reserved.msl) := by
  decide +kernel

/-- Negation witness of `reserved_complete` for HLSL: the table has the typo `"SamplerState,"`. -/
theorem reserved_incomplete_hlsl :
    "SamplerState" ∈ Spec.Names.hlslKeywords ∧ "SamplerState" ∉ Gen.Reserved.hlsl ∧
    "SamplerState," ∈ Gen.Reserved.hlsl := by
  decide +kernel

/-- Negation witness of `reserved_complete` for MSL: the address-space keywords are not reserved. -/
theorem reserved_incomplete_msl :
    "device" ∈ Spec.Names.mslKeywords ∧ "device" ∉ Gen.Reserved.msl ∧
    "constant" ∉ Gen.Reserved.msl ∧ "thread" ∉ Gen.Reserved.msl ∧ "threadgroup" ∉ Gen.Reserved.msl := by
  decide +kernel

/-! ## structure of a successful `build` -/

theorem runScopes_spec {reserved : List String} {inp : Input} :
    ∀ (ss : List (Option Nat)) {out : List (Option Nat × St)}, runScopes reserved inp ss = .ok out →
      out.map (·.1) = ss ∧ ∀ p ∈ out, Inv reserved p.2 := by
  intro ss
  induction ss with
  | nil => intro out h; simp [runScopes] at h; subst h; simp
  | cons s r ih =>
    intro out h
    unfold runScopes at h
    split at h
    · cases h
    · rename_i st hst
      split at h
      · cases h
      · rename_i rest hrest
        cases h
        obtain ⟨h1, h2⟩ := ih hrest
        refine ⟨by simp [h1], ?_⟩
        intro p hp
        rcases List.mem_cons.mp hp with hp | hp
        · subst hp; exact assignGroups_inv _ (inv_init reserved) hst
        · exact h2 p hp

/-- what `build` returns when it succeeds -/
theorem build_ok {reserved : List String} {inp : Input} {names : List Named}
    (h : build reserved inp = .ok names) :
    ∃ scopes ls,
      runScopes reserved inp (scopeIds inp) = .ok scopes ∧
      assignLocals inp.locals (reserved ++ scopes.flatMap (fun p => p.2.gen)) inp.locals = .ok ls ∧
      names = (scopes.flatMap fun p => p.2.out.map fun q => (⟨q.1, p.1, q.2⟩ : Named)) ++ build.number ls 0 := by
  unfold build at h
  split at h
  · cases h
  · split at h
    · cases h
    · rename_i scopes hs
      simp only at h
      split at h
      · cases h
      · split at h
        · cases h
        · rename_i ls hl
          cases h
          exact ⟨scopes, ls, hs, hl, rfl⟩

theorem number_kind : ∀ (ls : List String) (i : Nat) (n : Named), n ∈ build.number ls i → n.sym.kind = .localVar ∧ n.name ∈ ls := by
  intro ls
  induction ls with
  | nil => intro i n h; simp [build.number] at h
  | cons x r ih =>
    intro i n h
    simp only [build.number, List.mem_cons] at h
    rcases h with h | h
    · subst h; simp
    · have := ih (i + 1) n h
      exact ⟨this.1, List.mem_cons_of_mem _ this.2⟩

/-! ## hygiene -/

/-- **never_reserved** (full, for the model): no namespace, struct, enum, global, function or local variable
is ever given a name from the reserved list, whatever the program and whatever the list. -/
theorem never_reserved {reserved : List String} {inp : Input} {names : List Named}
    (h : build reserved inp = .ok names) : ∀ n ∈ names, n.name ∉ reserved := by
  obtain ⟨scopes, ls, hs, hl, rfl⟩ := build_ok h
  obtain ⟨_, hinv⟩ := runScopes_spec _ hs
  intro n hn
  rcases List.mem_append.mp hn with hn | hn
  · obtain ⟨p, hp, hn⟩ := List.mem_flatMap.mp hn
    obtain ⟨q, hq, rfl⟩ := List.mem_map.mp hn
    exact (hinv p hp).out_fresh q hq
  · have hk := number_kind ls 0 n hn
    intro hr
    exact assignLocals_not_mem _ hl n.name hk.2 (List.mem_append_left _ hr)

theorem pairwise_ne_of_mem {α : Type} {R : α → α → Prop} (hsymm : ∀ a b, R a b → R b a) :
    ∀ {l : List α}, l.Pairwise R → ∀ x ∈ l, ∀ y ∈ l, x ≠ y → R x y := by
  intro l
  induction l with
  | nil => intro _ x hx; simp at hx
  | cons a r ih =>
    intro hp x hx y hy hne
    rw [List.pairwise_cons] at hp
    rcases List.mem_cons.mp hx with ex | hx' <;> rcases List.mem_cons.mp hy with ey | hy'
    · exact absurd (ex.trans ey.symm) hne
    · rw [ex]; exact hp.1 y hy'
    · rw [ey]; exact hsymm _ _ (hp.1 x hx')
    · exact ih hp.2 x hx' y hy' hne

theorem scopeIds_pairwise (inp : Input) : (scopeIds inp).Pairwise (· ≠ ·) := by
  unfold scopeIds
  rw [List.pairwise_cons]
  refine ⟨by simp, ?_⟩
  rw [List.pairwise_map]
  have := List.pairwise_lt_range (n := inp.nss.length)
  exact this.imp (fun h e => by simp at e; omega)

theorem eq_of_fst_eq {α β : Type} : ∀ {l : List (α × β)}, (l.map (·.1)).Pairwise (· ≠ ·) →
    ∀ p ∈ l, ∀ q ∈ l, p.1 = q.1 → p = q := by
  intro l
  induction l with
  | nil => intro _ p hp; simp at hp
  | cons a r ih =>
    intro hpw p hp q hq e
    simp only [List.map_cons, List.pairwise_cons] at hpw
    rcases List.mem_cons.mp hp with ep | hp' <;> rcases List.mem_cons.mp hq with eq | hq'
    · rw [ep, eq]
    · rw [ep] at e; exact absurd e (hpw.1 q.1 (List.mem_map.mpr ⟨q, hq', rfl⟩))
    · rw [eq] at e; exact absurd e.symm (hpw.1 p.1 (List.mem_map.mpr ⟨p, hp', rfl⟩))
    · exact ih hpw.2 p hp' q hq' e

/-- **injective_per_scope** (full, for the namespace-level scopes the function manages): two different
namespaces / structs / enums / globals / functions that live in the same scope never receive the same name. -/
theorem injective_per_scope {reserved : List String} {inp : Input} {names : List Named}
    (h : build reserved inp = .ok names) :
    ∀ a ∈ names, ∀ b ∈ names, a.sym.kind ≠ .localVar → b.sym.kind ≠ .localVar →
      a.scope = b.scope → a.sym ≠ b.sym → a.name ≠ b.name := by
  obtain ⟨scopes, ls, hs, hl, rfl⟩ := build_ok h
  obtain ⟨hfst, hinv⟩ := runScopes_spec _ hs
  intro a ha b hb hka hkb hscope hsym
  have glob : ∀ x, x ∈ (scopes.flatMap fun p => p.2.out.map fun q => (⟨q.1, p.1, q.2⟩ : Named)) ++ build.number ls 0 →
      x.sym.kind ≠ .localVar → ∃ p ∈ scopes, ∃ q ∈ p.2.out, x = ⟨q.1, p.1, q.2⟩ := by
    intro x hx hk
    rcases List.mem_append.mp hx with hx | hx
    · obtain ⟨p, hp, hx⟩ := List.mem_flatMap.mp hx
      obtain ⟨q, hq, rfl⟩ := List.mem_map.mp hx
      exact ⟨p, hp, q, hq, rfl⟩
    · exact absurd (number_kind ls 0 x hx).1 hk
  obtain ⟨p, hp, qa, hqa, rfl⟩ := glob a ha hka
  obtain ⟨p', hp', qb, hqb, rfl⟩ := glob b hb hkb
  have hpw : (scopes.map (·.1)).Pairwise (· ≠ ·) := hfst ▸ scopeIds_pairwise inp
  have hpp : p = p' := eq_of_fst_eq hpw p hp p' hp' hscope
  subst hpp
  have hne : qa ≠ qb := fun e => hsym (by rw [e])
  exact pairwise_ne_of_mem (R := fun (a b : Sym × String) => a.2 ≠ b.2) (fun _ _ h e => h e.symm)
    (hinv p hp).out_distinct qa hqa qb hqb hne

/-! ## what is *not* true on the pinned code (negation witnesses, replayed on the real code by the corpus) -/

/-- overloads `a`, `a` and a function `a_0` in one scope -/
def witnessVerbatim : Input :=
  { nss := [], locals := []
    entries := [⟨⟨.func, 0⟩, none, "a"⟩, ⟨⟨.func, 1⟩, none, "a"⟩, ⟨⟨.func, 2⟩, none, "a_0"⟩] }

/-- **Unconditional verbatim is false**: `a_0` is unique in its scope and not reserved in HLSL or MSL, yet the
two overloads of `a` take `a_0`, `a_1` first (groups are visited in sorted order) and `a_0` becomes `a_0_0`. -/
theorem verbatim_unconditional_false :
    "a_0" ∉ Gen.Reserved.hlsl ∧ "a_0" ∉ Gen.Reserved.msl ∧
    (build Gen.Reserved.hlsl witnessVerbatim).toOption.map (·.map (·.name)) = some ["a_0", "a_1", "a_0_0"] ∧
    (build Gen.Reserved.msl witnessVerbatim).toOption.map (·.map (·.name)) = some ["a_0", "a_1", "a_0_0"] := by
  decide +kernel

/-- a function `kernel_0` and a parameter `kernel` (reserved in MSL) -/
def witnessCapture : Input :=
  { nss := [], locals := ["kernel"]
    entries := [⟨⟨.func, 0⟩, none, "kernel_0"⟩, ⟨⟨.func, 1⟩, none, "f"⟩] }

/-- **Locals are not kept apart from globals**: the local pass only avoids reserved names, generated
candidates and *source* names of locals, so the parameter `kernel` is renamed to `kernel_0`, the verbatim name
of a function visible in the same body (a use of that function inside is captured). -/
theorem local_may_capture_global :
    (build Gen.Reserved.msl witnessCapture).toOption.map (·.map (fun n => (n.sym.kind, n.name))) =
      some [(.func, "f"), (.func, "kernel_0"), (.localVar, "kernel_0")] := by
  decide +kernel

end RsslVerif.Thm.C15

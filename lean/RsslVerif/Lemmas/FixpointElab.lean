import RsslVerif.Model.Fixpoint
import RsslVerif.Lemmas.ElabRelease
/-!
Lemmas for C04 `reelab_no_new_casts`, part 1: table facts (`rereadKind`, `opSyn`), the identity conversion, and the
key lemma `reconv`: what elaboration makes of an exported *converted operand* (`ImplicitConversion::apply` output).
Core Lean only.
-/
namespace RsslVerif.Lemmas.FixpointElab
open RsslVerif.Gen.RankTable RsslVerif.Gen.TypingTables
open RsslVerif.Model.Conv RsslVerif.Model.Overload RsslVerif.Model.IrTyping RsslVerif.Model.Elab
open RsslVerif.Model.Fixpoint RsslVerif.Lemmas.ElabConv RsslVerif.Lemmas.Elab RsslVerif.Lemmas.ElabExact
open RsslVerif.Lemmas.ElabRelease

/-! ## tables -/

/-- every scalar kind is emitted and read back; only `Int32` changes (it has no suffix: `3` is an `IntLiteral`) -/
theorem rereadKind_table : ∀ k, rereadKind? k = some (if k = .int32 then .intLiteral else k) := by
  intro k; cases k <;> decide

theorem rereadKind_eq (k : Scalar) : rereadKind k = if k = .int32 then .intLiteral else k := by
  simp [rereadKind, rereadKind_table]

theorem rereadKind_of_ne {k : Scalar} (h : k ≠ .int32) : rereadKind k = k := by
  simp [rereadKind_eq, h]

theorem rereadKind_int32 : rereadKind .int32 = .intLiteral := by decide

theorem rereadKind_fixed_iff (k : Scalar) : rereadKind k = k ↔ k ≠ .int32 := by
  cases k <;> decide

theorem rereadKind_idem (k : Scalar) : rereadKind (rereadKind k) = rereadKind k := by
  cases k <;> decide

/-- the binary operator nodes the type checker builds are printed with the operator they were written with -/
theorem opSyn_bin : ∀ (b : BinOp) (i : IOp), b.toIOp = some i → opSyn i = some (.bin b) := by
  intro b i h; cases b <;> simp [BinOp.toIOp] at h <;> subst h <;> decide

theorem opSyn_bin_inv {b o : BinOp} {i : IOp} (h : opSyn i = some (.bin b)) (ho : o.toIOp = some i) : b = o := by
  rw [opSyn_bin o i ho] at h
  simp at h
  exact h.symm

theorem opSyn_not_un_of_bin {o : BinOp} {i : IOp} {u : UnOp} (ho : o.toIOp = some i) : opSyn i ≠ some (.un u) := by
  rw [opSyn_bin o i ho]; simp

theorem opSyn_prefixIncrement : opSyn .prefixIncrement = some (.un .prefixIncrement) := by decide
theorem opSyn_prefixDecrement : opSyn .prefixDecrement = some (.un .prefixDecrement) := by decide
theorem opSyn_postfixIncrement : opSyn .postfixIncrement = some (.un .postfixIncrement) := by decide
theorem opSyn_postfixDecrement : opSyn .postfixDecrement = some (.un .postfixDecrement) := by decide
theorem opSyn_plus : opSyn .plus = some (.un .plus) := by decide
theorem opSyn_minus : opSyn .minus = some (.un .minus) := by decide
theorem opSyn_logicalNot : opSyn .logicalNot = some (.un .logicalNot) := by decide
theorem opSyn_bitwiseNot : opSyn .bitwiseNot = some (.un .bitwiseNot) := by decide

/-! ## elaboration of leaves, release mode -/

variable {Γ Γ' : Env}

theorem elabE_lit (k : Scalar) : elabE false Γ' (.lit k) = .ok (.lit k, (scalarTy k).r) := by
  simp [elabE, selfCheck]

/-- `-literal` is folded whenever constant evaluation of the negation succeeds -/
theorem elabE_neg_lit {k : Scalar} (h : minusFolds k = true) :
    elabE false Γ' (.un .minus (.lit k)) = .ok (.lit k, (scalarTy k).r) := by
  cases k <;> simp [minusFolds] at h <;> simp [elabE, selfCheck, elabUn, minusFolds, scalarTy, Ty.r, Ty.unmod]

/-- both printed forms of a constant of kind `k` elaborate to the constant of the re-read kind -/
theorem elabE_unelab_lit {k : Scalar} {s' : SExpr} (hu : Unelab Γ' (.lit k) s') :
    elabE false Γ' s' = .ok (.lit (rereadKind k), (scalarTy (rereadKind k)).r) := by
  cases hu with
  | lit => exact elabE_lit _
  | litNeg _ h => exact elabE_neg_lit h

/-! ## the identity conversion -/

theorem find_self_r (T : Ty) : find ⟨T, .rvalue⟩ ⟨T, .rvalue⟩ = .ok (some ⟨⟨T, .rvalue⟩, false, none, none, none⟩) := by
  simp [find, dimensionCast, primaryCast, modifierCast, sharedModifierCast]

theorem applyConv_trivial (s : ETy) (e : IExpr) : applyConv ⟨s, false, none, none, none⟩ e = .ok e := by
  simp [applyConv]

theorem convert_self_r (T : Ty) (e : IExpr) : convert e ⟨T, .rvalue⟩ ⟨T, .rvalue⟩ = .ok (some (e, ⟨T, .rvalue⟩)) := by
  have h := find_self_r T
  simp only [convert, h, applyConv_trivial, targetType_ok h]

theorem r_of_rvalue {D : ETy} (h : D.vt = .rvalue) : D.ty.r = D := by
  obtain ⟨t, v⟩ := D; simp at h; subst h; rfl

/-- `IntLiteral → int`: the re-read of an `Int32` constant is re-tagged to `Int32` again -/
theorem convert_intLit_int32 :
    convert (.lit .intLiteral) (scalarTy .intLiteral).r (scalarTy .int32).r = .ok (some (.lit .int32, (scalarTy .int32).r)) := by
  rfl

/-! ## a converted operand, exported and elaborated again -/

/-- `Back τa D a' a'' a° τ°`: the operand `a' : τa` was converted to `D`, giving `a''`; the exported `a''` elaborates
    to `a° : τ°`, which is one of
    * `same`  — the operand as it was before the conversion (no node was inserted, or the inserted cast has a literal
      target type and is not emitted),
    * `exact` — the converted operand itself, which now has exactly the requested type,
    * `relit` — an untyped integer literal where the first generation had re-tagged an untyped literal to `Int32`. -/
inductive Back (τa D : ETy) (a' a'' : IExpr) : IExpr → ETy → Prop where
  | same : Back τa D a' a'' a' τa
  | exact : D.vt = .rvalue → Back τa D a' a'' a'' D
  | relit : a'' = .lit .int32 → D = (scalarTy .int32).r →
      (τa = (scalarTy .intLiteral).r ∨ τa = (scalarTy .floatLiteral).r) →
      Back τa D a' a'' (.lit .intLiteral) (scalarTy .intLiteral).r

/-- in every case the same conversion is requested again and produces the first-generation operand -/
theorem back_convert {a' a'' a0 : IExpr} {τa D τ0 : ETy} {c : Conversion}
    (hf : find τa D = .ok (some c)) (ha : applyConv c a' = .ok a'') (hb : Back τa D a' a'' a0 τ0) :
    convert a0 τ0 D = .ok (some (a'', D)) := by
  cases hb with
  | same => simp only [convert, hf, ha, targetType_ok hf]
  | exact hr =>
    obtain ⟨T, v⟩ := D
    simp at hr; subst hr
    exact convert_self_r T a''
  | relit h1 h2 _ => subst h1 h2; exact convert_intLit_int32

theorem back_find {a' a'' a0 : IExpr} {τa D τ0 : ETy} {c : Conversion}
    (hf : find τa D = .ok (some c)) (ha : applyConv c a' = .ok a'') (hb : Back τa D a' a'' a0 τ0) :
    ∃ c0, find τ0 D = .ok (some c0) ∧ applyConv c0 a0 = .ok a'' := by
  have h := back_convert hf ha hb
  unfold convert at h
  split at h
  · simp at h
  · simp at h
  · rename_i c0 hf0
    split at h
    · simp at h
    · rename_i e0 ha0
      rw [targetType_ok hf0] at h
      simp at h
      exact ⟨c0, hf0, by rw [ha0, h]⟩

/-- **Key lemma.**  `a' : τa` re-elaborates to itself (`ih`); it was converted to `D` by `find` / `apply`, giving
    `a''`.  Then every exported form of `a''` elaborates, and to one of the three `Back` cases.  `hout`: towards an
    lvalue (`out` / `inout` parameter) the conversion must not have inserted a `Cast`. -/
theorem reconv {a' a'' : IExpr} {τa D : ETy} {c : Conversion}
    (hty : HasType Γ a' τa)
    (ih : ∀ s', Unelab Γ' a' s' → elabE false Γ' s' = .ok (a', τa))
    (hf : find τa D = .ok (some c)) (ha : applyConv c a' = .ok a'')
    (hout : D.vt = .rvalue ∨ isCast a'' = false) :
    ∀ s', Unelab Γ' a'' s' → ∃ a0 τ0, elabE false Γ' s' = .ok (a0, τ0) ∧ Back τa D a' a'' a0 τ0 := by
  intro s' hu
  have ht := targetType_ok hf
  -- an emitted or dropped `Cast(D.ty, a')`
  have hcast : a'' = .cast D.ty a' → ∃ a0 τ0, elabE false Γ' s' = .ok (a0, τ0) ∧ Back τa D a' a'' a0 τ0 := by
    intro he
    subst he
    have hr : D.vt = .rvalue := by
      rcases hout with h | h
      · exact h
      · simp [isCast] at h
    cases hu with
    | castDrop _ hu' => exact ⟨a', τa, ih _ hu', .same⟩
    | cast _ hu' =>
      refine ⟨.cast D.ty a', D, ?_, .exact hr⟩
      simp only [elabE, ih _ hu', selfCheck]
      rw [r_of_rvalue hr]
      rfl
  unfold applyConv at ha
  split at ha
  · simp at ha; subst ha
    exact ⟨a', τa, ih _ hu, .same⟩
  · rw [ht] at ha
    simp only at ha
    split at ha
    · simp at ha; exact hcast ha.symm
    · rename_i hg
      have hd0 : D.ty.mod = {} := by
        by_cases h0 : D.ty.mod = {}
        · exact h0
        · exfalso; apply hg; simp [h0]; decide
      -- a re-tagged literal: the destination is the unmodified scalar type `k`, an rvalue
      have hretag : ∀ (k0 k k' : Scalar), a' = .lit k0 → (k0 = .intLiteral ∨ k0 = .floatLiteral) →
          D.ty.layer = .scalar k → k' = k → a'' = .lit k' →
          ∃ a0 τ0, elabE false Γ' s' = .ok (a0, τ0) ∧ Back τa D a' a'' a0 τ0 := by
        intro k0 k k' h1 h0 hk hkk h2
        subst h1 h2 hkk
        have hτa : τa = (scalarTy k0).r := lit_type hty
        have hDr : D.vt = .rvalue := by
          obtain ⟨hv, _⟩ := find_inv hf
          cases hd : D.vt with
          | rvalue => rfl
          | lvalue => exfalso; apply hv; rw [hτa]; exact ⟨rfl, hd⟩
        have hD : D = (scalarTy k').r := by
          apply ety_ext
          · simpa [scalarTy, Ty.r] using hDr
          · simpa [scalarTy, Ty.r] using hk
          · simpa [scalarTy, Ty.r] using hd0
        have hel := elabE_unelab_lit hu
        by_cases h32 : k' = .int32
        · subst h32
          rw [rereadKind_int32] at hel
          refine ⟨_, _, hel, .relit rfl hD ?_⟩
          rcases h0 with h0 | h0 <;> subst h0
          · exact Or.inl hτa
          · exact Or.inr hτa
        · rw [rereadKind_of_ne h32] at hel
          rw [← hD] at hel
          exact ⟨_, _, hel, .exact hDr⟩
      split at ha
      · rename_i k hk
        split at ha
        · rename_i k' hk'
          simp at ha
          exact hretag .intLiteral k k' rfl (Or.inl rfl) hk ((retag_same k k').1 hk') ha.symm
        · simp at ha; exact hcast ha.symm
      · rename_i k hk
        split at ha
        · rename_i k' hk'
          simp at ha
          exact hretag .floatLiteral k k' rfl (Or.inr rfl) hk ((retag_same k k').2 hk') ha.symm
        · simp at ha; exact hcast ha.symm
      · simp at ha; exact hcast ha.symm

end RsslVerif.Lemmas.FixpointElab

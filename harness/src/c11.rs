//! C11: conditional compilation. Drives the real `rssl_preprocess::preprocess` on generated directive
//! sequences / `#if` conditions and judges the result with an independent reference C-preprocessor
//! conditional evaluator (the property's own oracle; it shares nothing with the Lean model).
//!
//! requests (see lean/RsslVerif/Driver/C11.lean for the same grammar):
//!   C11.seq  \t <symbols>            0 1 d n e E l f t D  (+ implicit probe line `probe M`)
//!   C11.run  \t <dir>;<dir>;...      i:<cond> d:<name> n:<name> e:<cond> l f t:<toks> D:<name>:<body>
//!                                    U:<name> P:once|warning|unknown I:<toks> I! X N
//!   C11.cond \t <n=body,...> \t <cond tokens>
//! tokens are separated by one space; `<~` / `>~` = angle bracket glued to the next token.
//! observe : `ok line|line|...` (non-empty output lines, token texts joined by one space) or
//!           `err <PreprocessError variant>`; C11.cond: `1` | `0` | `err <variant>`
use crate::util::*;
use std::collections::BTreeMap;

#[path = "c11raw.rs"]
mod raw;
#[path = "c11gen.rs"]
mod rawgen;

// ------------------------------------------------------------------------------------------------
// requests
// ------------------------------------------------------------------------------------------------

#[derive(Clone, Debug)]
enum Dir {
    If(String),
    Ifdef(bool, String),
    Elif(String),
    Else,
    Endif,
    Text(String),
    Define(String, String),
    Undef(String),
    Pragma(String),
    Include(Option<String>),
    Unknown,
    /// `#3`: a directive that does not start with a name
    NonName,
}

fn parse_dir(s: &str) -> Option<Dir> {
    let p: Vec<&str> = s.split(':').collect();
    Some(match p.as_slice() {
        ["i", c] => Dir::If(c.to_string()),
        ["d", n] => Dir::Ifdef(false, n.to_string()),
        ["n", n] => Dir::Ifdef(true, n.to_string()),
        ["e", c] => Dir::Elif(c.to_string()),
        ["l"] => Dir::Else,
        ["f"] => Dir::Endif,
        ["t", t] => Dir::Text(t.to_string()),
        ["D", n, b] => Dir::Define(n.to_string(), b.to_string()),
        ["U", n] => Dir::Undef(n.to_string()),
        ["P", k] if ["once", "warning", "unknown"].contains(k) => Dir::Pragma(k.to_string()),
        ["I", t] => Dir::Include(Some(t.to_string())),
        ["I!"] => Dir::Include(None),
        ["X"] => Dir::Unknown,
        ["N"] => Dir::NonName,
        _ => return None,
    })
}

fn show_dir(d: &Dir) -> String {
    match d {
        Dir::If(c) => format!("i:{}", c),
        Dir::Ifdef(false, n) => format!("d:{}", n),
        Dir::Ifdef(true, n) => format!("n:{}", n),
        Dir::Elif(c) => format!("e:{}", c),
        Dir::Else => "l".into(),
        Dir::Endif => "f".into(),
        Dir::Text(t) => format!("t:{}", t),
        Dir::Define(n, b) => format!("D:{}:{}", n, b),
        Dir::Undef(n) => format!("U:{}", n),
        Dir::Pragma(k) => format!("P:{}", k),
        Dir::Include(Some(t)) => format!("I:{}", t),
        Dir::Include(None) => "I!".into(),
        Dir::Unknown => "X".into(),
        Dir::NonName => "N".into(),
    }
}

fn sym_dirs(syms: &str) -> Option<Vec<Dir>> {
    let mut v = Vec::new();
    for (i, c) in syms.chars().enumerate() {
        v.push(match c {
            '0' => Dir::If("0".into()),
            '1' => Dir::If("1".into()),
            'd' => Dir::Ifdef(false, "M".into()),
            'n' => Dir::Ifdef(true, "M".into()),
            'e' => Dir::Elif("0".into()),
            'E' => Dir::Elif("1".into()),
            'l' => Dir::Else,
            'f' => Dir::Endif,
            't' => Dir::Text(format!("t{} M", i)),
            'D' => Dir::Define("M".into(), "1".into()),
            _ => return None,
        });
    }
    v.push(Dir::Text("probe M".into()));
    Some(v)
}

/// request tokens -> source text (`<~`/`>~` glue to the next token).
/// style 0: one space between tokens; 1: runs of spaces and tabs; 2: comments between tokens;
/// 3: as 0 (the line-level differences of style 3 are applied by `build_files`)
fn render_styled(tokens: &str, style: u8) -> String {
    let mut s = String::new();
    let mut glue = true;
    let mut n = 0;
    for t in tokens.split(' ').filter(|t| !t.is_empty()) {
        if !glue {
            n += 1;
            match style {
                1 => s.push_str(if n % 2 == 0 { "  " } else { " \t " }),
                2 => s.push_str(if n % 2 == 0 { " /* c */ " } else { "/**/ " }),
                _ => s.push(' '),
            }
        }
        if t == "<~" || t == ">~" {
            s.push_str(&t[..1]);
            glue = true;
        } else {
            s.push_str(t);
            glue = false;
        }
    }
    s
}

fn render(tokens: &str) -> String {
    render_styled(tokens, 0)
}

/// the main file and the include files of a directive list.
/// style 1: extra blanks after `#` and the command name; style 2: comments inside and after directives;
/// style 3: indented `#`, `# command`, CRLF line ends, blank lines between lines
fn build_files(dirs: &[Dir], style: u8) -> Vec<(String, String)> {
    let mut main = String::new();
    let mut files = Vec::new();
    let hash = match style {
        1 => "#  ",
        2 => "#/**/",
        3 => "  \t# ",
        _ => "#",
    };
    let gap = match style {
        1 => " \t ",
        2 => " /* c */ ",
        _ => " ",
    };
    let eol = match style {
        2 => " // trailing comment\n",
        3 => "\r\n\r\n",
        _ => "\n",
    };
    let rd = |t: &str| render_styled(t, style);
    for (i, d) in dirs.iter().enumerate() {
        match d {
            Dir::If(c) => main.push_str(&format!("{}if{}{}{}", hash, gap, rd(c), eol)),
            Dir::Ifdef(false, n) => main.push_str(&format!("{}ifdef{}{}{}", hash, gap, n, eol)),
            Dir::Ifdef(true, n) => main.push_str(&format!("{}ifndef{}{}{}", hash, gap, n, eol)),
            Dir::Elif(c) => main.push_str(&format!("{}elif{}{}{}", hash, gap, rd(c), eol)),
            Dir::Else => main.push_str(&format!("{}else{}", hash, eol)),
            Dir::Endif => main.push_str(&format!("{}endif{}", hash, eol)),
            Dir::Text(t) => main.push_str(&format!("{}{}", rd(t), eol)),
            Dir::Define(n, b) => main.push_str(&format!("{}define{}{}{}{}{}", hash, gap, n, gap, rd(b), eol)),
            Dir::Undef(n) => main.push_str(&format!("{}undef{}{}{}", hash, gap, n, eol)),
            Dir::Pragma(k) => main.push_str(&format!(
                "{}pragma{}{}{}",
                hash,
                gap,
                match k.as_str() {
                    "once" => "once",
                    "warning" => "warning(disable : 4000)",
                    _ => "bogus_pragma",
                },
                eol
            )),
            Dir::Include(Some(t)) => {
                let name = format!("inc{}.h", i);
                files.push((name.clone(), format!("{}\n", rd(t))));
                main.push_str(&format!("#include \"{}\"\n", name));
            }
            Dir::Include(None) => main.push_str("#include \"missing.h\"\n"),
            Dir::Unknown => main.push_str(&format!("{}frobnicate{}1{}", hash, gap, eol)),
            Dir::NonName => main.push_str(&format!("{}3{}", hash, eol)),
        }
    }
    files.insert(0, ("main.rssl".to_string(), main));
    files
}

// ------------------------------------------------------------------------------------------------
// the real code
// ------------------------------------------------------------------------------------------------

enum Observed {
    Ok(Vec<String>),
    Err(String),
    Panic(String),
}

fn run_real(files: &[(String, String)]) -> Observed {
    run_real_defs(files, &[])
}

fn run_real_defs(files: &[(String, String)], defs: &[(String, String)]) -> Observed {
    // (symbolic streams) a hand-over to the parser that is not the selected text is reported like a panic: `judge`
    // turns it into a FAIL whatever the expectation is
    let (o, flat) = run_real_full(files, defs);
    if flat.iter().any(|t| t == PREPARE_DIFFERS) {
        Observed::Panic("prepare_tokens hands the parser something else than the selected text".into())
    } else {
        o
    }
}

/// observation + the flat list of token spellings that reached the output
fn run_real_full(files: &[(String, String)], defs: &[(String, String)]) -> (Observed, Vec<String>) {
    run_real_entry(files, defs, false)
}

/// marker pushed into the flat spelling list when `prepare_tokens` (the step between the preprocessor and the
/// parser) hands on anything else than the non-blank tokens of the output, in order, closed by `Eof`
const PREPARE_DIFFERS: &str = "@prepare_tokens-differs";

/// `fragment`: go through the second public entry point `preprocess_fragment(text, name, ..)` (one file, no
/// caller-supplied defines; the function supplies its own).  In both modes the result is also handed to
/// `prepare_tokens`, and what comes out of it - that is what "reaches the parser" - must be exactly the
/// non-blank tokens of the preprocessor's output.
fn run_real_entry(files: &[(String, String)], defs: &[(String, String)], fragment: bool) -> (Observed, Vec<String>) {
    let mut flat: Vec<String> = Vec::new();
    let flat_ref = &mut flat;
    let r = guard(move || {
        let mut sm = rssl_text::SourceManager::new();
        let mut inc = MemFiles(files.to_vec());
        let d: Vec<(&str, &str)> = defs.iter().map(|(a, b)| (a.as_str(), b.as_str())).collect();
        let res = if fragment {
            rssl_preprocess::preprocess_fragment(&files[0].1, rssl_text::FileName(files[0].0.clone()), &mut sm)
        } else {
            rssl_preprocess::preprocess("main.rssl", &mut sm, &mut inc, &d)
        };
        match res {
            Ok(tokens) => {
                let mut lines: Vec<String> = Vec::new();
                let mut cur: Vec<String> = Vec::new();
                let mut kept: Vec<&rssl_text::tokens::Token> = Vec::new();
                for t in &tokens {
                    if t.0 == rssl_text::tokens::Token::Endline {
                        if !cur.is_empty() {
                            lines.push(cur.join(" "));
                            cur.clear();
                        }
                    } else if !t.0.is_whitespace() {
                        let sp = rssl_preprocess::unlex(std::slice::from_ref(t), &sm);
                        flat_ref.push(sp.clone());
                        cur.push(sp);
                        kept.push(&t.0);
                    }
                }
                if !cur.is_empty() {
                    lines.push(cur.join(" "));
                }
                let prepared = rssl_preprocess::prepare_tokens(&tokens);
                let same = prepared.len() == kept.len() + 1
                    && prepared.last().map(|t| t.0 == rssl_text::tokens::Token::Eof).unwrap_or(false)
                    && prepared.iter().zip(kept.iter()).all(|(a, b)| a.0 == **b);
                if !same {
                    flat_ref.push(PREPARE_DIFFERS.to_string());
                }
                Observed::Ok(lines)
            }
            Err(e) => {
                let d = format!("{:?}", e);
                let v: String = d.chars().take_while(|c| c.is_alphanumeric()).collect();
                Observed::Err(v)
            }
        }
    });
    let o = match r {
        Ok(o) => o,
        Err(p) => Observed::Panic(p),
    };
    (o, flat)
}

fn pct(s: &str) -> String {
    let mut o = String::new();
    for c in s.chars() {
        match c {
            '%' => o.push_str("%25"),
            ' ' => o.push_str("%20"),
            '\t' => o.push_str("%09"),
            '\n' => o.push_str("%0A"),
            '\r' => o.push_str("%0D"),
            c => o.push(c),
        }
    }
    o
}

/// the token stream the real lexer produces for one text, in the model's spelling; `X` = the lexer fails
/// here.  With `directives` the `inside_include` lexing mode is switched as `preprocess_included_file` does.
fn model_tokens(text: &str, trailing_endline: bool, directives: bool) -> String {
    use rssl_text::tokens::{FollowedBy, Token};
    let r = guard(|| {
        let mut sm = rssl_text::SourceManager::new();
        let (fid, loc) = sm.add_fragment(text);
        let contents = sm.get_contents(fid).to_string();
        let ts = rssl_preprocess::verif::TokenStream::new(&contents, loc);
        let mut ts = if trailing_endline { ts } else { ts.suppress_trailing_endline() };
        let mut out: Vec<String> = Vec::new();
        // 0 start of line, 1 command start, 2 command contents, 3 normal contents
        let mut state = 0u8;
        let mut inside_include = false;
        while !ts.end_of_stream() {
            let tok = match ts.next(inside_include && directives) {
                Ok(t) => t,
                Err(_) => {
                    out.push("X".into());
                    break;
                }
            };
            let sp = rssl_preprocess::unlex(std::slice::from_ref(&tok), &sm);
            let ws = tok.0.is_whitespace();
            match (&tok.0, state) {
                (Token::Endline, _) => {
                    state = 0;
                    inside_include = false;
                }
                (Token::Hash, 0) => state = 1,
                (t, 1) if !ws => {
                    state = 2;
                    if let Token::Id(id) = t {
                        if id.0 == "include" {
                            inside_include = true;
                        }
                    }
                }
                (_, 0) => {
                    if !ws {
                        state = 3;
                    }
                }
                _ => {}
            }
            out.push(match &tok.0 {
                Token::Id(id) => format!("i{}", id.0),
                Token::LiteralInt(_) | Token::LiteralIntUnsigned32(_) => format!("n{}", sp),
                Token::LeftParen => "(".into(),
                Token::RightParen => ")".into(),
                Token::Comma => ",".into(),
                Token::Endline => "E".into(),
                Token::Whitespace | Token::Comment | Token::PhysicalEndline => "w".into(),
                Token::HashHash => "##".into(),
                Token::LeftAngleBracket(FollowedBy::Token) => "p<~".into(),
                Token::LeftAngleBracket(FollowedBy::Whitespace) => "p<".into(),
                Token::RightAngleBracket(FollowedBy::Token) => "p>~".into(),
                Token::RightAngleBracket(FollowedBy::Whitespace) => "p>".into(),
                _ => format!("p{}", pct(&sp)),
            });
        }
        out.join(" ")
    });
    r.unwrap_or_else(|_| "X".into())
}

/// does a divergence class in a skipped group explain this error variant?  (`lexer-error` and
/// `junk-after-else-endif` are known findings; `non-identifier-directive` is repaired (fix ed75afa) and is kept
/// only so that a return of the defect is reported under its old key)
fn explained_by_hint(hints: &std::collections::BTreeSet<&'static str>, v: &str) -> Option<&'static str> {
    if v == "LexerError" && hints.contains("unlexable-in-skipped") {
        Some("skipped-group lexer-error")
    } else if v == "UnknownCommand" && hints.contains("nonident-directive-in-skipped") {
        Some("skipped-group non-identifier-directive")
    } else if (v == "InvalidElse" || v == "InvalidEndIf") && hints.contains("junk-after-else-endif-in-skipped") {
        Some("skipped-group junk-after-else-endif")
    } else {
        None
    }
}

fn judge_raw(rr: &raw::RefResult, obs: &Observed, flat: &[String]) -> String {
    match (&rr.expected, obs) {
        (_, Observed::Panic(p)) => format!("FAIL:panic {}", p),
        (raw::Expected::Skip(why), _) => format!("SKIP:{}", why),
        (raw::Expected::Accept(_), Observed::Ok(_)) if flat.iter().any(|t| t == PREPARE_DIFFERS) => {
            "FAIL:prepare_tokens hands the parser something else than the selected text".into()
        }
        (raw::Expected::Accept(toks), Observed::Ok(_)) => {
            let want = raw::normalise(toks);
            let got = raw::normalise(flat);
            if want == got {
                "ok".into()
            } else {
                format!("FAIL:selection differs, C rules give {}", toks.join(" "))
            }
        }
        (raw::Expected::Accept(_), Observed::Err(v)) => match explained_by_hint(&rr.hints, v) {
            Some(class) => format!("FAIL:{} rejected ({})", class, v),
            None => format!("FAIL:well-formed input rejected with {}", v),
        },
        (raw::Expected::Reject(kind, _), Observed::Ok(_)) => format!("FAIL:{} accepted", kind),
        (raw::Expected::Reject(kind, want), Observed::Err(v)) => {
            // a still-known divergence in a skipped group may pre-empt the required variant; the repaired class
            // (non-identifier directives, fix ed75afa) excuses nothing any more
            let excused = matches!(explained_by_hint(&rr.hints, v), Some(c) if c != "skipped-group non-identifier-directive");
            if want.is_empty() || want == v || excused {
                "ok".into()
            } else {
                format!("FAIL:{} reported as {}", kind, v)
            }
        }
    }
}

fn show_observed(o: &Observed) -> String {
    match o {
        Observed::Ok(lines) => format!("ok {}", lines.join("|")),
        Observed::Err(v) => format!("err {}", v),
        Observed::Panic(p) => format!("panic {}", p),
    }
}

// ------------------------------------------------------------------------------------------------
// the oracle: a reference C preprocessor for conditionals (ISO C 6.10.1, restricted to the
// operators of the property, values in u64)
// ------------------------------------------------------------------------------------------------

#[derive(Clone, Debug, PartialEq)]
enum RTok {
    Num(u64),
    Id(String),
    Op(&'static str),
}

/// lex the *source text* of a condition / macro body / text line; None = not in the supported language
fn ref_lex(text: &str) -> Option<Vec<RTok>> {
    let b: Vec<char> = text.chars().collect();
    let mut i = 0;
    let mut out = Vec::new();
    while i < b.len() {
        let c = b[i];
        if c == ' ' || c == '\t' {
            i += 1;
            continue;
        }
        if c.is_ascii_digit() {
            let mut j = i;
            while j < b.len() && b[j].is_ascii_digit() {
                j += 1;
            }
            let digits: String = b[i..j].iter().collect();
            let v: u64 = digits.parse().ok()?;
            if j < b.len() && b[j] == 'u' {
                j += 1;
            }
            if j < b.len() && (b[j].is_alphanumeric() || b[j] == '_') {
                return None;
            }
            out.push(RTok::Num(v));
            i = j;
            continue;
        }
        if c.is_ascii_alphabetic() || c == '_' {
            let mut j = i;
            while j < b.len() && (b[j].is_ascii_alphanumeric() || b[j] == '_') {
                j += 1;
            }
            out.push(RTok::Id(b[i..j].iter().collect()));
            i = j;
            continue;
        }
        let two: String = b[i..(i + 2).min(b.len())].iter().collect();
        let ops2 = ["||", "&&", "==", "!=", "<=", ">="];
        if let Some(o) = ops2.iter().find(|o| **o == two) {
            out.push(RTok::Op(o));
            i += 2;
            continue;
        }
        let ops1 = ["<", ">", "!", "(", ")"];
        let one = c.to_string();
        if let Some(o) = ops1.iter().find(|o| **o == one) {
            out.push(RTok::Op(o));
            i += 1;
            continue;
        }
        return None;
    }
    Some(out)
}

type RMacros = BTreeMap<String, Vec<RTok>>;

/// macro substitution inside a condition: `defined X` / `defined(X)` first, then object-like macros.
/// None = ill-formed (`defined` without a name) or outside the oracle's language (body mentions a name)
fn ref_subst(m: &RMacros, toks: &[RTok], in_condition: bool) -> Option<Vec<RTok>> {
    let mut out = Vec::new();
    let mut i = 0;
    while i < toks.len() {
        match &toks[i] {
            RTok::Id(x) if in_condition && x == "defined" => {
                if let Some(RTok::Id(y)) = toks.get(i + 1) {
                    out.push(RTok::Num(m.contains_key(y) as u64));
                    i += 2;
                } else if let (Some(RTok::Op("(")), Some(RTok::Id(y)), Some(RTok::Op(")"))) =
                    (toks.get(i + 1), toks.get(i + 2), toks.get(i + 3))
                {
                    out.push(RTok::Num(m.contains_key(y) as u64));
                    i += 4;
                } else {
                    return None;
                }
            }
            RTok::Id(x) => {
                if let Some(body) = m.get(x) {
                    if body.iter().any(|t| matches!(t, RTok::Id(_))) {
                        return None;
                    }
                    out.extend(body.iter().cloned());
                } else {
                    out.push(toks[i].clone());
                }
                i += 1;
            }
            t => {
                out.push(t.clone());
                i += 1;
            }
        }
    }
    Some(out)
}

/// recursive descent with the C grammar: logical-OR > logical-AND > equality > relational > unary > primary
struct RefParser<'a> {
    t: &'a [RTok],
    i: usize,
}

impl<'a> RefParser<'a> {
    fn peek_op(&self) -> Option<&'static str> {
        match self.t.get(self.i) {
            Some(RTok::Op(o)) => Some(o),
            _ => None,
        }
    }
    fn lor(&mut self) -> Option<u64> {
        let mut v = self.land()?;
        while self.peek_op() == Some("||") {
            self.i += 1;
            let r = self.land()?;
            v = (v != 0 || r != 0) as u64;
        }
        Some(v)
    }
    fn land(&mut self) -> Option<u64> {
        let mut v = self.equality()?;
        while self.peek_op() == Some("&&") {
            self.i += 1;
            let r = self.equality()?;
            v = (v != 0 && r != 0) as u64;
        }
        Some(v)
    }
    fn equality(&mut self) -> Option<u64> {
        let mut v = self.relational()?;
        while let Some(o) = self.peek_op() {
            if o != "==" && o != "!=" {
                break;
            }
            self.i += 1;
            let r = self.relational()?;
            v = if o == "==" { (v == r) as u64 } else { (v != r) as u64 };
        }
        Some(v)
    }
    fn relational(&mut self) -> Option<u64> {
        let mut v = self.unary()?;
        while let Some(o) = self.peek_op() {
            if !["<", ">", "<=", ">="].contains(&o) {
                break;
            }
            self.i += 1;
            let r = self.unary()?;
            v = match o {
                "<" => (v < r) as u64,
                ">" => (v > r) as u64,
                "<=" => (v <= r) as u64,
                _ => (v >= r) as u64,
            };
        }
        Some(v)
    }
    fn unary(&mut self) -> Option<u64> {
        if self.peek_op() == Some("!") {
            self.i += 1;
            let v = self.unary()?;
            return Some((v == 0) as u64);
        }
        match self.t.get(self.i)? {
            RTok::Num(v) => {
                self.i += 1;
                Some(*v)
            }
            RTok::Id(x) => {
                self.i += 1;
                // `true`/`false` are keywords of the language being preprocessed; any other name is 0
                Some((x == "true") as u64)
            }
            RTok::Op("(") => {
                self.i += 1;
                let v = self.lor()?;
                if self.peek_op() == Some(")") {
                    self.i += 1;
                    Some(v)
                } else {
                    None
                }
            }
            _ => None,
        }
    }
}

/// value of a condition in a macro table; None = not a well-formed condition of the supported language
fn ref_condition(m: &RMacros, text: &str) -> Option<bool> {
    let toks = ref_lex(text)?;
    let toks = ref_subst(m, &toks, true)?;
    let mut p = RefParser { t: &toks, i: 0 };
    let v = p.lor()?;
    if p.i == toks.len() { Some(v != 0) } else { None }
}

fn ref_show(toks: &[RTok]) -> String {
    toks.iter()
        .map(|t| match t {
            RTok::Num(v) => v.to_string(),
            RTok::Id(s) => s.clone(),
            RTok::Op(o) => o.to_string(),
        })
        .collect::<Vec<_>>()
        .join("")
}

enum Expected {
    Accept(Vec<String>),
    /// (kind, required error variant or "" for any)
    Reject(&'static str, &'static str),
    Skip(String),
}

struct Frame {
    parent_active: bool,
    taken: bool,
    else_seen: bool,
    active: bool,
}

/// reference processing of a directive list; output lines are rendered without spaces
fn reference(dirs: &[Dir]) -> Expected {
    let mut m: RMacros = BTreeMap::new();
    let mut stack: Vec<Frame> = Vec::new();
    let mut out: Vec<String> = Vec::new();
    let mut ill_formed_somewhere = false;
    let mut verdict: Option<Expected> = None;
    for d in dirs {
        let active = stack.last().map(|f| f.active).unwrap_or(true);
        // every condition is checked for well-formedness where it stands (the property is about
        // well-formed conditions only), but its value is used only where C evaluates it
        if let Dir::If(c) | Dir::Elif(c) = d {
            if ref_condition(&m, &render(c)).is_none() {
                ill_formed_somewhere = true;
            }
        }
        if verdict.is_some() {
            continue;
        }
        match d {
            Dir::If(c) => {
                let v = if active { ref_condition(&m, &render(c)) } else { Some(false) };
                match v {
                    None => verdict = Some(Expected::Skip("ill-formed condition".into())),
                    Some(b) => stack.push(Frame { parent_active: active, taken: b, else_seen: false, active: active && b }),
                }
            }
            Dir::Ifdef(neg, n) => {
                let b = m.contains_key(n) != *neg;
                stack.push(Frame { parent_active: active, taken: b, else_seen: false, active: active && b });
            }
            Dir::Elif(c) => match stack.last_mut() {
                None => verdict = Some(Expected::Reject("unmatched-elif", "ElseNotMatched")),
                Some(f) if f.else_seen => verdict = Some(Expected::Reject("elif-after-else", "")),
                Some(f) => {
                    if f.parent_active && !f.taken {
                        match ref_condition(&m, &render(c)) {
                            None => verdict = Some(Expected::Skip("ill-formed condition".into())),
                            Some(b) => {
                                f.active = b;
                                f.taken = b;
                            }
                        }
                    } else {
                        f.active = false;
                    }
                }
            },
            Dir::Else => match stack.last_mut() {
                None => verdict = Some(Expected::Reject("unmatched-else", "ElseNotMatched")),
                Some(f) if f.else_seen => verdict = Some(Expected::Reject("else-after-else", "")),
                Some(f) => {
                    f.else_seen = true;
                    f.active = f.parent_active && !f.taken;
                    f.taken = true;
                }
            },
            Dir::Endif => {
                if stack.pop().is_none() {
                    verdict = Some(Expected::Reject("unmatched-endif", "EndIfNotMatched"));
                }
            }
            _ if !active => {}
            Dir::Text(t) | Dir::Include(Some(t)) => match ref_lex(&render(t)).and_then(|ts| ref_subst(&m, &ts, false)) {
                Some(ts) => {
                    if !ts.is_empty() {
                        out.push(ref_show(&ts));
                    }
                }
                None => verdict = Some(Expected::Skip("text outside the oracle's language".into())),
            },
            Dir::Define(n, b) => match ref_lex(&render(b)) {
                Some(ts) => {
                    m.insert(n.clone(), ts);
                }
                None => verdict = Some(Expected::Skip("macro body outside the oracle's language".into())),
            },
            Dir::Undef(n) => {
                m.remove(n);
            }
            Dir::Pragma(k) => {
                if k == "unknown" {
                    verdict = Some(Expected::Reject("unknown-pragma", "UnknownPragma"));
                }
            }
            Dir::Include(None) => verdict = Some(Expected::Reject("missing-include", "FailedToFindFile")),
            Dir::Unknown => verdict = Some(Expected::Reject("unknown-directive", "UnknownCommand")),
            // `# non-directive` in a processed group: undefined behaviour in C (6.10 p9); in a skipped group it
            // is not looked at (the `_ if !active` arm above)
            Dir::NonName => verdict = Some(Expected::Skip("non-directive in a selected group".into())),
        }
    }
    if ill_formed_somewhere {
        return Expected::Skip("ill-formed condition".into());
    }
    if let Some(v) = verdict {
        return v;
    }
    if !stack.is_empty() {
        return Expected::Reject("unterminated", "ConditionChainNotFinished");
    }
    Expected::Accept(out)
}

fn judge(exp: &Expected, obs: &Observed) -> String {
    let strip = |s: &String| s.replace(' ', "");
    match (exp, obs) {
        (_, Observed::Panic(p)) => format!("FAIL:panic {}", p),
        (Expected::Skip(why), _) => format!("SKIP:{}", why),
        (Expected::Accept(lines), Observed::Ok(got)) => {
            let got: Vec<String> = got.iter().map(strip).collect();
            if *lines == got {
                "ok".into()
            } else {
                format!("FAIL:selection differs, C rules give {}", lines.join("|"))
            }
        }
        (Expected::Accept(_), Observed::Err(v)) => format!("FAIL:well-formed input rejected with {}", v),
        (Expected::Reject(kind, _), Observed::Ok(_)) => format!("FAIL:{} accepted", kind),
        (Expected::Reject(kind, want), Observed::Err(v)) => {
            if want.is_empty() || want == v {
                "ok".into()
            } else {
                format!("FAIL:{} reported as {}", kind, v)
            }
        }
    }
}

// ------------------------------------------------------------------------------------------------
// C11.cond
// ------------------------------------------------------------------------------------------------

fn parse_defs(s: &str) -> Option<Vec<(String, String)>> {
    if s.is_empty() {
        return Some(Vec::new());
    }
    s.split(',')
        .map(|d| {
            let p: Vec<&str> = d.splitn(2, '=').collect();
            if p.len() == 2 { Some((p[0].to_string(), p[1].to_string())) } else { None }
        })
        .collect()
}

fn cond_dirs(defs: &[(String, String)], cond: &str) -> Vec<Dir> {
    let mut v: Vec<Dir> = defs.iter().map(|(n, b)| Dir::Define(n.clone(), b.clone())).collect();
    v.push(Dir::If(cond.to_string()));
    v.push(Dir::Text("T".into()));
    v.push(Dir::Else);
    v.push(Dir::Text("F".into()));
    v.push(Dir::Endif);
    v
}

// ------------------------------------------------------------------------------------------------
// running one request
// ------------------------------------------------------------------------------------------------

#[derive(Default)]
struct Stats {
    outcome: Hist,
    oracle: Hist,
    kinds: Hist,
    depth: Hist,
    lines_kept: Hist,
    cond_value: Hist,
    cond_ops: Hist,
    cond_depth: Hist,
    ops: Hist,
    styles: Hist,
    raw_verdict: Hist,
}

fn max_depth(dirs: &[Dir]) -> usize {
    let (mut d, mut mx) = (0usize, 0usize);
    for x in dirs {
        match x {
            Dir::If(_) | Dir::Ifdef(..) => {
                d += 1;
                mx = mx.max(d);
            }
            Dir::Endif => d = d.saturating_sub(1),
            _ => {}
        }
    }
    mx
}

fn do_request(line: &str, out: &mut Out, st: &mut Stats) {
    let f: Vec<&str> = line.split('\t').collect();
    match f.as_slice() {
        ["C11.seq", syms] | ["C11.seq", syms, _] => {
            let Some(dirs) = sym_dirs(syms) else {
                out.case(line, "bad-request", "SKIP:bad request");
                return;
            };
            run_dirs(line, &dirs, style_of(f.get(2)), out, st);
        }
        ["C11.run", dl] | ["C11.run", dl, _] => {
            let dirs: Option<Vec<Dir>> =
                if dl.is_empty() { Some(Vec::new()) } else { dl.split(';').map(parse_dir).collect() };
            let Some(dirs) = dirs else {
                out.case(line, "bad-request", "SKIP:bad request");
                return;
            };
            run_dirs(line, &dirs, style_of(f.get(2)), out, st);
        }
        ["C11.cond", defs, cond] | ["C11.cond", defs, cond, _] => {
            let Some(defs) = parse_defs(defs) else {
                out.case(line, "bad-request", "SKIP:bad request");
                return;
            };
            st.ops.add("cond");
            let dirs = cond_dirs(&defs, cond);
            let style = style_of(f.get(3));
            st.styles.add(&format!("{}", style));
            let obs = run_real(&build_files(&dirs, style));
            let observation = match &obs {
                Observed::Ok(l) if l.len() == 1 && l[0] == "T" => "1".to_string(),
                Observed::Ok(l) if l.len() == 1 && l[0] == "F" => "0".to_string(),
                o => show_observed(o),
            };
            let mut m: RMacros = BTreeMap::new();
            let mut lang = true;
            for (n, b) in &defs {
                match ref_lex(&render(b)) {
                    Some(ts) => {
                        m.insert(n.clone(), ts);
                    }
                    None => lang = false,
                }
            }
            let expected = if lang { ref_condition(&m, &render(cond)) } else { None };
            let oracle = match (&expected, &obs) {
                (_, Observed::Panic(p)) => format!("FAIL:panic {}", p),
                (None, _) => "SKIP:ill-formed condition".to_string(),
                (Some(b), _) => {
                    let want = if *b { "1" } else { "0" };
                    if observation == want {
                        "ok".to_string()
                    } else {
                        format!("FAIL:condition value differs, reference evaluation gives {}", want)
                    }
                }
            };
            st.cond_value.add(&observation.chars().take(3).collect::<String>());
            st.oracle.add(oracle.split(':').next().unwrap_or(""));
            out.case(line, &observation, &oracle);
        }
        ["C11.raw", defs, rest @ ..] if !rest.is_empty() => raw_request(line, Some(defs), rest, out, st),
        // one text through `preprocess_fragment` (the entry point of the parser's test support and of every
        // caller that has a string rather than files): same rules, one define supplied by the function itself
        ["C11.frag", rest @ ..] if !rest.is_empty() => raw_request(line, None, rest, out, st),
        _ => out.case(line, "bad-request", "SKIP:bad request"),
    }
}

/// the define `preprocess_fragment` is documented to supply ("We mirror the semantics of HLSL 2021 in main output -
/// so set the define in test fragments as well"): the oracle preprocesses the fragment as a file with this define
const FRAGMENT_DEFINES: &[(&str, &str)] = &[("__HLSL_VERSION", "2021")];

/// `C11.raw` (`defs_field` = the API defines, files `main.rssl` + `name=text`) and `C11.frag` (`defs_field` = None,
/// one text, entry point `preprocess_fragment`)
fn raw_request(line: &str, defs_field: Option<&str>, rest: &[&str], out: &mut Out, st: &mut Stats) {
    let fragment = defs_field.is_none();
    let defs = defs_field.unwrap_or("");
        // fields from `@toks` on are derived (the lexer's token streams, for the model): recomputed here
        let rest: &[&str] = match rest.iter().position(|x| *x == "@toks") {
            Some(k) => &rest[..k],
            None => rest,
        };
        if rest.is_empty() {
            out.case(line, "bad-request", "SKIP:bad request");
            return;
        }
        let Some(defs) = parse_defs(defs) else {
            out.case(line, "bad-request", "SKIP:bad request");
            return;
        };
        // the value of an API define may carry an escaped line break (fix 3c81ed5: rejected as InvalidDefine)
        let defs: Vec<(String, String)> = defs.into_iter().map(|(n, v)| (n, unescape(&v))).collect();
        let mut files = vec![("main.rssl".to_string(), unescape(rest[0]))];
        for f in &rest[1..] {
            let p: Vec<&str> = f.splitn(2, '=').collect();
            if p.len() == 2 {
                files.push((p[0].to_string(), unescape(p[1])));
            }
        }
        if fragment && files.len() != 1 {
            // the handler of `preprocess_fragment` knows the fragment only
            out.case(line, "bad-request", "SKIP:bad request");
            return;
        }
        st.ops.add(if fragment { "frag" } else { "raw" });
        let (obs, flat) = run_real_entry(&files, &defs, fragment);
        let oracle_defs: Vec<(String, String)> = if fragment {
            FRAGMENT_DEFINES.iter().map(|(n, v)| (n.to_string(), v.to_string())).collect()
        } else {
            defs.clone()
        };
        let rr = raw::Ref::new(&files).run(&oracle_defs);
        for s in &rr.stats {
            st.kinds.add(s);
        }
        for h in &rr.hints {
            st.kinds.add(&format!("skipped-has:{}", h));
        }
        let oracle = judge_raw(&rr, &obs, &flat);
        match &obs {
            Observed::Ok(l) => {
                st.outcome.add("ok");
                st.lines_kept.add(&format!("{}", l.len().min(9)));
            }
            Observed::Err(v) => st.outcome.add(v),
            Observed::Panic(_) => st.outcome.add("panic"),
        }
        st.oracle.add(&match &rr.expected {
            raw::Expected::Accept(_) => "raw-accept".to_string(),
            raw::Expected::Reject(k, _) => format!("raw-reject:{}", k),
            raw::Expected::Skip(w) => format!("raw-skip:{}", w.split(':').next().unwrap_or("")),
        });
        st.raw_verdict.add(oracle.split(' ').next().unwrap_or("").split('(').next().unwrap_or(""));
        // a fragment request carries no defines: the model has to know what `preprocess_fragment` supplies
        let mut echo: Vec<String> =
            if fragment { vec!["C11.frag".to_string()] } else { vec!["C11.raw".to_string(), defs_field.unwrap_or("").to_string()] };
        echo.extend(rest.iter().map(|x| x.to_string()));
        echo.push("@toks".into());
        for (n, v) in &defs {
            echo.push(format!("D {}", model_tokens(&format!("{} {}", n, v), false, false)));
        }
        for (n, t) in &files {
            echo.push(format!("F {} {}", n, model_tokens(t, true, true)));
        }
        out.case(&echo.join("\t"), &show_observed(&obs), &oracle);
}

fn unescape(s: &str) -> String {
    let mut o = String::new();
    let mut it = s.chars();
    while let Some(c) = it.next() {
        if c == '\\' {
            match it.next() {
                Some('n') => o.push('\n'),
                Some('r') => o.push('\r'),
                Some('t') => o.push('\t'),
                Some('\\') => o.push('\\'),
                Some(x) => {
                    o.push('\\');
                    o.push(x)
                }
                None => o.push('\\'),
            }
        } else {
            o.push(c);
        }
    }
    o
}

fn style_of(f: Option<&&str>) -> u8 {
    f.and_then(|s| s.parse::<u8>().ok()).map(|v| v % 4).unwrap_or(0)
}

fn run_dirs(line: &str, dirs: &[Dir], style: u8, out: &mut Out, st: &mut Stats) {
    st.ops.add(if line.starts_with("C11.seq") { "seq" } else { "run" });
    st.styles.add(&format!("{}", style));
    let obs = run_real(&build_files(dirs, style));
    let exp = reference(dirs);
    let oracle = judge(&exp, &obs);
    match &obs {
        Observed::Ok(l) => {
            st.outcome.add("ok");
            st.lines_kept.add(&format!("{}", l.len().min(9)));
        }
        Observed::Err(v) => st.outcome.add(v),
        Observed::Panic(_) => st.outcome.add("panic"),
    }
    st.depth.add(&format!("{}", max_depth(dirs).min(9)));
    st.oracle.add(&match &exp {
        Expected::Accept(_) => "accept".to_string(),
        Expected::Reject(k, _) => format!("reject:{}", k),
        Expected::Skip(_) => "skip".to_string(),
    });
    out.case(line, &show_observed(&obs), &oracle);
}

// ------------------------------------------------------------------------------------------------
// generators
// ------------------------------------------------------------------------------------------------

const ALPHABET: &[char] = &['0', '1', 'd', 'n', 'e', 'E', 'l', 'f', 't', 'D'];

fn exhaustive(max_len: usize, shard: (u64, u64), out: &mut Out, st: &mut Stats) {
    let mut buf = String::new();
    let mut index: u64 = 0;
    for len in 0..=max_len {
        let total = 10usize.pow(len as u32);
        for mut k in 0..total {
            index += 1;
            if index % shard.1 != shard.0 {
                continue;
            }
            buf.clear();
            for _ in 0..len {
                buf.push(ALPHABET[k % 10]);
                k /= 10;
            }
            let line = format!("C11.seq\t{}", buf);
            do_request(&line, out, st);
        }
    }
}

const VALUES: &[&str] = &[
    "0", "1", "2", "5", "7", "4294967295", "4294967296", "9223372036854775808", "18446744073709551615", "1u", "0u",
];
const NAMES: &[&str] = &["A", "B", "C"];
const BODIES: &[&str] = &[
    "0", "1", "2", "5", "4294967296", "18446744073709551615", "( 1 || 0 )", "1 == 2", "! 0", "", "0 || 1", "2 > 1",
];

#[derive(Clone)]
enum E {
    Lit(String),
    Name(String),
    Defined(String, u8),
    Not(Box<E>),
    Bin(usize, Box<E>, Box<E>),
    Paren(Box<E>),
}

/// operators with their C binding level (1 = loosest)
const OPS: &[(&str, u32)] = &[("||", 1), ("&&", 2), ("==", 3), ("!=", 3), ("<", 4), ("<=", 4), (">", 4), (">=", 4)];

fn gen_expr(r: &mut Rng, depth: u32) -> E {
    if depth == 0 || r.chance(1, 5) {
        return match r.below(10) {
            0..=4 => E::Lit(r.pick(VALUES).to_string()),
            5..=6 => E::Name(if r.chance(1, 4) { "U".to_string() } else { r.pick(NAMES).to_string() }),
            7 => E::Lit(if r.chance(1, 2) { "true".into() } else { "false".into() }),
            _ => E::Defined(if r.chance(1, 3) { "U".to_string() } else { r.pick(NAMES).to_string() }, r.below(3) as u8),
        };
    }
    match r.below(10) {
        0 => E::Not(Box::new(gen_expr(r, depth - 1))),
        1 => E::Paren(Box::new(gen_expr(r, depth - 1))),
        _ => E::Bin(r.below(OPS.len() as u64) as usize, Box::new(gen_expr(r, depth - 1)), Box::new(gen_expr(r, depth - 1))),
    }
}

/// print with the fewest parentheses the C grammar needs (left-associative levels)
fn print_expr(e: &E, min_level: u32, r: &mut Rng, toks: &mut Vec<String>, ops: &mut Hist) {
    match e {
        E::Lit(v) => toks.push(v.clone()),
        E::Name(n) => toks.push(n.clone()),
        E::Defined(n, form) => {
            toks.push("defined".into());
            if *form == 0 {
                toks.push(n.clone());
            } else {
                toks.push("(".into());
                toks.push(n.clone());
                toks.push(")".into());
            }
        }
        E::Not(x) => {
            ops.add("!");
            toks.push("!".into());
            print_expr(x, 5, r, toks, ops);
        }
        E::Paren(x) => {
            toks.push("(".into());
            print_expr(x, 1, r, toks, ops);
            toks.push(")".into());
        }
        E::Bin(o, a, b) => {
            let (sp, lvl) = OPS[*o];
            ops.add(sp);
            let wrap = lvl < min_level;
            if wrap {
                toks.push("(".into());
            }
            print_expr(a, lvl, r, toks, ops);
            match sp {
                "<=" => {
                    toks.push("<~".into());
                    toks.push("=".into());
                }
                ">=" => {
                    toks.push(">~".into());
                    toks.push("=".into());
                }
                "<" | ">" => toks.push(if r.chance(1, 3) { format!("{}~", sp) } else { sp.to_string() }),
                _ => toks.push(sp.to_string()),
            }
            print_expr(b, lvl + 1, r, toks, ops);
            if wrap {
                toks.push(")".into());
            }
        }
    }
}

fn expr_depth(e: &E) -> u32 {
    match e {
        E::Not(x) | E::Paren(x) => 1 + expr_depth(x),
        E::Bin(_, a, b) => 1 + expr_depth(a).max(expr_depth(b)),
        _ => 0,
    }
}

fn gen_cond_tokens(r: &mut Rng, depth: u32, st: &mut Stats) -> String {
    let e = gen_expr(r, depth);
    st.cond_depth.add(&format!("{}", expr_depth(&e)));
    let mut toks = Vec::new();
    print_expr(&e, 1, r, &mut toks, &mut st.cond_ops);
    // a small malformed stream: drop / duplicate / replace one token
    if r.chance(1, 12) && !toks.is_empty() {
        let i = r.below(toks.len() as u64) as usize;
        match r.below(3) {
            0 => {
                toks.remove(i);
            }
            1 => {
                let t = toks[i].clone();
                toks.insert(i, t);
            }
            _ => toks[i] = r.pick(&["+", "=", "(", ")", "||", "1l", "!"]).to_string(),
        }
        st.kinds.add("cond-mutated");
    }
    toks.join(" ")
}

fn gen_defs(r: &mut Rng) -> Vec<(String, String)> {
    let mut v = Vec::new();
    for n in NAMES {
        if r.chance(2, 3) {
            let body = if r.chance(2, 3) { r.pick(&BODIES[..6]).to_string() } else { r.pick(BODIES).to_string() };
            v.push((n.to_string(), body));
        }
    }
    v
}

fn random_conds(r: &mut Rng, n: u64, out: &mut Out, st: &mut Stats) {
    for _ in 0..n {
        let defs = gen_defs(r);
        let depth = 1 + r.below(5) as u32;
        let cond = gen_cond_tokens(r, depth, st);
        let d: Vec<String> = defs.iter().map(|(n, b)| format!("{}={}", n, b)).collect();
        let style = if r.chance(1, 2) { 0 } else { 1 + r.below(3) };
        do_request(&format!("C11.cond\t{}\t{}\t{}", d.join(","), cond, style), out, st);
    }
}

fn random_runs(r: &mut Rng, n: u64, out: &mut Out, st: &mut Stats) {
    for _ in 0..n {
        let len = 1 + r.below(24) as usize;
        let mut dirs: Vec<Dir> = Vec::new();
        let mut depth = 0usize;
        let well_nested = r.chance(4, 5);
        for i in 0..len {
            let remaining = len - i;
            // nesting bias: open often, close when lines run out
            let k = if well_nested && depth >= remaining { 100 } else { r.below(100) };
            let cond = |r: &mut Rng, st: &mut Stats| {
                if r.chance(1, 2) { r.pick(&["0", "1"]).to_string() } else { gen_cond_tokens(r, 2, st) }
            };
            let name = |r: &mut Rng| if r.chance(1, 5) { "U".to_string() } else { r.pick(NAMES).to_string() };
            let d = match k {
                0..=13 => {
                    depth += 1;
                    Dir::If(cond(r, st))
                }
                14..=19 => {
                    depth += 1;
                    Dir::Ifdef(r.chance(1, 2), name(r))
                }
                20..=29 if depth > 0 || !well_nested => Dir::Elif(cond(r, st)),
                30..=37 if depth > 0 || !well_nested => Dir::Else,
                38..=49 if depth > 0 || !well_nested => {
                    depth = depth.saturating_sub(1);
                    Dir::Endif
                }
                100 => {
                    depth -= 1;
                    Dir::Endif
                }
                50..=64 => Dir::Define(name(r), if r.chance(3, 4) { r.pick(&BODIES[..6]).to_string() } else { r.pick(BODIES).to_string() }),
                65..=69 => Dir::Undef(name(r)),
                70..=72 => Dir::Pragma(r.pick(&["once", "warning", "unknown"]).to_string()),
                73..=75 => {
                    if r.chance(2, 3) { Dir::Include(Some(format!("inc{} A B", i))) } else { Dir::Include(None) }
                }
                76..=77 => Dir::Unknown,
                78..=79 => Dir::NonName,
                _ => Dir::Text(format!("t{} A B C", i)),
            };
            dirs.push(d);
        }
        if well_nested {
            for _ in 0..depth {
                dirs.push(Dir::Endif);
            }
        }
        dirs.push(Dir::Text("probe A B C U".into()));
        st.kinds.add(if well_nested { "run-nested" } else { "run-wild" });
        let l: Vec<String> = dirs.iter().map(show_dir).collect();
        let style = if r.chance(1, 2) { 0 } else { 1 + r.below(3) };
        do_request(&format!("C11.run\t{}\t{}", l.join(";"), style), out, st);
    }
}

fn random_raw(r: &mut Rng, n: u64, n_cond: u64, n_deep: u64, n_reinc: u64, out: &mut Out, st: &mut Stats) {
    let mut kinds = Hist::default();
    // programs of which nothing is selected (empty output), through both entry points
    for i in 0..(n / 20) {
        let case = rawgen::G::new(r, &mut kinds).empty_case();
        if i % 3 == 0 && case.files.len() == 1 {
            do_request(&rawgen::request_of_frag(&case), out, st);
        } else {
            do_request(&rawgen::request_of(&case), out, st);
        }
    }
    // the second entry point: `preprocess_fragment`
    for _ in 0..(n / 8) {
        let case = rawgen::G::new(r, &mut kinds).frag_case();
        do_request(&rawgen::request_of_frag(&case), out, st);
    }
    for _ in 0..n_reinc {
        let case = rawgen::G::new(r, &mut kinds).reinclude_case();
        do_request(&rawgen::request_of(&case), out, st);
    }
    for i in 0..(n + n_cond + n_deep) {
        let case = {
            let mut g = rawgen::G::new(r, &mut kinds);
            if i < n {
                g.case()
            } else if i < n + n_cond {
                g.cond_case()
            } else {
                let depth = 20 + g.r.below(400) as usize;
                g.deep_case(depth)
            }
        };
        do_request(&rawgen::request_of(&case), out, st);
    }
    for (k, v) in kinds.0 {
        *st.kinds.0.entry(format!("raw:{}", k)).or_insert(0) += v;
    }
}

pub fn run(args: &Args, out: &mut Out) {
    let mut st = Stats::default();
    if let Some(lines) = args.request_lines() {
        for l in lines {
            do_request(&l, out, &mut st);
        }
        return;
    }
    let mut shard: (u64, u64) = (0, 1);
    let mut max_len = if args.thorough() { 7 } else { 6 };
    let mut n_cond = if args.thorough() { 400_000 } else { 60_000 };
    let mut n_run = if args.thorough() { 200_000 } else { 30_000 };
    let mut n_raw = if args.thorough() { 300_000 } else { 40_000 };
    let mut i = 0;
    while i < args.extra.len() {
        match args.extra[i].as_str() {
            "--max-len" => {
                max_len = args.extra[i + 1].parse().unwrap_or(max_len);
                i += 2;
            }
            "--conds" => {
                n_cond = args.extra[i + 1].parse().unwrap_or(n_cond);
                i += 2;
            }
            "--raws" => {
                n_raw = args.extra[i + 1].parse().unwrap_or(n_raw);
                i += 2;
            }
            "--runs" => {
                n_run = args.extra[i + 1].parse().unwrap_or(n_run);
                i += 2;
            }
            "--shard" => {
                // i/n : this process handles every n-th input starting at i
                let p: Vec<u64> = args.extra[i + 1].split('/').filter_map(|x| x.parse().ok()).collect();
                if p.len() == 2 && p[1] > 0 && p[0] < p[1] {
                    shard = (p[0], p[1]);
                }
                i += 2;
            }
            _ => i += 1,
        }
    }
    if let Some(n) = args.n {
        n_cond = n;
        n_run = n;
        n_raw = n;
    }
    let mut r = Rng::new(args.seed.wrapping_add(shard.0.wrapping_mul(0x1000_0000_01B3)));
    let share = |n: u64| n / shard.1 + if shard.0 < n % shard.1 { 1 } else { 0 };
    exhaustive(max_len, shard, out, &mut st);
    random_conds(&mut r.fork(), share(n_cond), out, &mut st);
    random_runs(&mut r.fork(), share(n_run), out, &mut st);
    random_raw(&mut r.fork(), share(n_raw), share(n_raw / 2), share(n_raw / 400), share(n_raw / 4), out, &mut st);
    out.stat(&format!(
        "{{\"exhaustive_max_len\":{},\"ops\":{},\"outcome\":{},\"oracle\":{},\"max_nesting\":{},\"lines_kept\":{},\"kinds\":{},\"cond_value\":{},\"cond_operators\":{},\"cond_depth\":{},\"whitespace_style\":{},\"raw_verdict\":{}}}",
        max_len,
        st.ops.json(),
        st.outcome.json(),
        st.oracle.json(),
        st.depth.json(),
        st.lines_kept.json(),
        st.kinds.json(),
        st.cond_value.json(),
        st.cond_ops.json(),
        st.cond_depth.json(),
        st.styles.json(),
        st.raw_verdict.json()
    ));
}

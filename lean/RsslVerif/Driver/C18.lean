import RsslVerif.Model.Targets
import RsslVerif.Model.SimplifyCbuffers
import RsslVerif.Model.HlslModule
import RsslVerif.Model.CompileSteps
import RsslVerif.Driver.C17
import RsslVerif.Driver.Util
/-! Line-protocol front end of the C18 models (define list, compact macro model, reflected bindings, stage reports). -/
namespace RsslVerif.Driver.C18
open RsslVerif.Gen.SlotTables RsslVerif.Gen.CompileTables RsslVerif.Gen.TargetTables
open RsslVerif.Model.MacroLite RsslVerif.Model.Targets RsslVerif.Driver

def parseTarget (s : String) : Option (Target × Bool) :=
  if s == "dx" then some (.HlslForDirectX, false)
  else if s == "vk" then some (.HlslForVulkan, false)
  else if s == "vkba" then some (.HlslForVulkan, true)
  else if s == "msl" then some (.Msl, false)
  else if s == "mtlb" then some (.MetalBytecode, false)
  else none

def targetNames : List String := ["dx", "vk", "vkba", "msl"]

/-! ### tokens and the condition evaluator of the driver (mirrors condition_parser.rs on the generated subset) -/

def isIdStart (c : Char) : Bool := c.isAlpha || c == '_'

def parseTok (w : String) : Tok :=
  match w.toNat? with
  | some n => .lit n
  | none => if (w.toList.head?.map isIdStart).getD false then .id w else .punct w

def parseToks (s : String) : List Tok :=
  ((s.splitOn " ").filter (· != "")).map parseTok

def showTok : Tok → String
  | .id s => s
  | .lit n => toString n
  | .punct s => s

inductive BinOp where | or | and | eq | ne | lt | le | gt | ge

def BinOp.apply : BinOp → Nat → Nat → Nat
  | .or, a, b => if a != 0 || b != 0 then 1 else 0
  | .and, a, b => if a != 0 && b != 0 then 1 else 0
  | .eq, a, b => if a == b then 1 else 0
  | .ne, a, b => if a != b then 1 else 0
  | .lt, a, b => if a < b then 1 else 0
  | .le, a, b => if a ≤ b then 1 else 0
  | .gt, a, b => if a > b then 1 else 0
  | .ge, a, b => if a ≥ b then 1 else 0

/-- operator of a precedence level at the head of the stream (levels: 0 `||`, 1 `&&`, 2 `== !=`, 3 `< <= > >=`) -/
def opAt (lvl : Nat) : List Tok → Option (BinOp × List Tok)
  | .punct "||" :: r => if lvl == 0 then some (.or, r) else none
  | .punct "&&" :: r => if lvl == 1 then some (.and, r) else none
  | .punct "==" :: r => if lvl == 2 then some (.eq, r) else none
  | .punct "!=" :: r => if lvl == 2 then some (.ne, r) else none
  | .punct "<=" :: r => if lvl == 3 then some (.le, r) else none
  | .punct ">=" :: r => if lvl == 3 then some (.ge, r) else none
  | .punct "<" :: r => if lvl == 3 then some (.lt, r) else none
  | .punct ">" :: r => if lvl == 3 then some (.gt, r) else none
  | _ => none

mutual
def parseLvl : Nat → Nat → List Tok → Option (Nat × List Tok)
  | 0, _, _ => none
  | f + 1, lvl, ts =>
    if lvl < 4 then
      match parseLvl f (lvl + 1) ts with
      | none => none
      | some (v, rest) => binLoop f lvl v rest
    else if lvl == 4 then
      match ts with
      | .punct "!" :: rest => (parseLvl f 4 rest).map fun (v, r) => ((if v == 0 then 1 else 0), r)
      | _ => parseLvl f 5 ts
    else
      match ts with
      | .lit n :: rest => some (n, rest)
      | .id _ :: rest => some (0, rest)
      | .punct "(" :: rest =>
        match parseLvl f 0 rest with
        | some (v, .punct ")" :: r) => some (v, r)
        | _ => none
      | _ => none
def binLoop : Nat → Nat → Nat → List Tok → Option (Nat × List Tok)
  | 0, _, _, _ => none
  | f + 1, lvl, left, ts =>
    match opAt lvl ts with
    | none => some (left, ts)
    | some (op, rest) =>
      match parseLvl f (lvl + 1) rest with
      | none => none
      | some (r, rest') => binLoop f lvl (op.apply left r) rest'
end

def evalCond (ts : List Tok) : Option Bool :=
  match parseLvl (8 * (ts.length + 2)) 0 ts with
  | some (v, []) => some (v != 0)
  | _ => none

/-! ### C18.pp -/

def parseUser (s : String) : Table :=
  ((s.splitOn ",").filter (· != "")).filterMap fun d =>
    match d.splitOn "=" with
    | [n, v] => some ⟨n, parseToks v⟩
    | _ => none

def parseLine (l : String) : Option Line :=
  match (l.splitOn " ").filter (· != "") with
  | "T" :: r => some (.text (r.map parseTok))
  | "D" :: n :: r => some (.define n (r.map parseTok))
  | ["U", n] => some (.undef n)
  | ["IFDEF", n] => some (.ifdef false n)
  | ["IFNDEF", n] => some (.ifdef true n)
  | "IF" :: r => some (.if_ (r.map parseTok))
  | "ELIF" :: r => some (.elif (r.map parseTok))
  | ["ELSE"] => some .else_
  | ["ENDIF"] => some .endif
  | _ => none

def showErr : PErr → String
  | .elseNotMatched => "ElseNotMatched"
  | .endifNotMatched => "EndIfNotMatched"
  | .notFinished => "ConditionChainNotFinished"
  | .badCondition => "BadCondition"
  | .elseAfterElse => "ElseAfterElse"
  | .elifAfterElse => "ElifAfterElse"

def hasDup : List String → Bool
  | [] => false
  | a :: r => r.contains a || hasDup r

def handlePp (tgt user program : String) : String :=
  match parseTarget tgt, sequenceOpt ((program.splitOn " ;; ").map parseLine) with
  | some (t, _), some lines =>
    let ms := initialTable t (parseUser user)
    if hasDup (ms.map (·.name)) || ms.any (·.name == "defined") then "unsupported-duplicate-define" else
    match run evalCond ms lines with
    | .ok ts => "ok:" ++ " ".intercalate (ts.map showTok)
    | .error e => "err:" ++ showErr e
  | _, _ => "bad-request"

/-! ### C18.cross -/

def parseArr (s : String) : Option Arr :=
  if s == "-" then some .single else if s == "*" then some .unsized else s.toNat?.map .sized

def parseDecl (s : String) : Option Decl :=
  match s.splitOn ":" with
  | [n, k, len, ss] =>
    match parseArr len with
    | none => none
    | some arr =>
      if k == "cbuffer" then some ⟨n, .cbuffer⟩
      else (ObjKind.ofName? k).map fun ok => ⟨n, .object ok arr (ss == "1")⟩
  | _ => none

def parseDecls (s : String) : Option (List Decl) :=
  if s.isEmpty then some [] else sequenceOpt ((s.splitOn ";").map parseDecl)

def parseStageName (s : String) : Option Stage :=
  [Stage.Vertex, .Task, .Mesh, .Pixel, .Compute].find? (fun st => st.name == s)

def parseThreads (s : String) : Option (Nat × Nat × Nat) :=
  match (s.splitOn "x").map String.toNat? with
  | [some a, some b, some c] => some (a, b, c)
  | _ => none

def parseStageDef (s : String) : Option StageDef :=
  match s.splitOn "=" with
  | [st, rest] =>
    match parseStageName st, rest.splitOn "@" with
    | some stage, [f] => some ⟨stage, f, none⟩
    | some stage, [f, th] => (parseThreads th).map fun t => ⟨stage, f, some t⟩
    | _, _ => none
  | _ => none

def parsePipe (s : String) : Option (String × List StageDef) :=
  match s.splitOn ":" with
  | [n, st] => (sequenceOpt ((st.splitOn ",").map parseStageDef)).map (n, ·)
  | _ => none

def parsePipes (s : String) : Option (List (String × List StageDef)) :=
  if s.isEmpty then some [] else sequenceOpt ((s.splitOn ";").map parsePipe)

def showThreads : Option (Nat × Nat × Nat) → String
  | none => "-"
  | some (a, b, c) => s!"{a},{b},{c}"

def showBinding (b : Binding) : String :=
  b.name ++ ":" ++ b.kind.name ++ ":" ++ (match b.count with | some n => toString n | none => "*") ++
    (if b.ss then ":ss" else "")

def sortStrings (l : List String) : List String := (l.toArray.qsort (· < ·)).toList

def showTarget (name : String) (t : Target) (sba : Bool) (verdict : String) (ds : List Decl)
    (pipes : List (String × List StageDef)) : String :=
  if verdict != "ok" then name ++ "{" ++ verdict ++ "}" else
  let ps := pipes.map fun (n, st) =>
    n ++ "[" ++ ",".intercalate ((stageReports hlslRename t st).map fun s =>
      s.stage.name ++ ":" ++ s.entry ++ ":" ++ showThreads s.threads) ++ "]"
  match bindingsFor codeNameMaps t sba ds with
  | .error _ => name ++ "{model:unsupported-object-kind}"
  | .ok bs => name ++ "{" ++ ";".intercalate ps ++ "|" ++ ",".intercalate (sortStrings (bs.map showBinding)) ++ "}"

def parseVerdicts (s : String) : List (String × String) :=
  (s.splitOn ",").filterMap fun x =>
    match x.splitOn "=" with
    | [a, b] => some (a, b)
    | _ => none

open RsslVerif.Model.CompileSteps in
/-- The verdict of the fifth configuration (MetalBytecode), *predicted* by running `Model.CompileSteps.compile` - the
    interpreter of the step lists extracted from src/compile.rs - in a world that behaves like the observed Msl run: the
    front end rejects iff Msl's verdict is a front-end one, the module has `npipes` pipelines, Metal's exporter refuses
    pipeline `mslbad`, and the tool chain is present or not as the harness found it on the host. -/
def predictMtlb (mslClass : String) (npipes : Nat) (mslbad : Option Nat) (toolPresent : Bool) : String :=
  let w : World Unit Unit Unit Nat Unit :=
    { ev := fun _ => some true, render := fun _ => "front", prepare := fun _ => (),
      parse := fun _ => if mslClass == "front" then .error "front" else .ok (),
      typeCheck := fun _ => .ok (), layoutCheck := fun _ => .ok (),
      pipelines := fun _ => List.range npipes,
      exportHlsl := fun _ _ _ _ => .ok (),
      exportMsl := fun _ _ p => if some p == mslbad then .error "back" else .ok (),
      toolchain := if toolPresent then some (fun s => some s) else none }
  match compile w ⟨.MetalBytecode, false, false, ⟨[], []⟩⟩ with
  | .ok _ => "ok"
  | .error (.text s) => if s == "back" then "back" else "front"
  | .error .metalCompilerNotFound => "tool"
  | .error .metalCompilerFailed => "toolfail"
  | .error .invalidArgs => "front"
  | .error .stuck => "model:stuck"

def handleCross (decls pipes verdicts : String) : String :=
  match parseDecls decls, parsePipes pipes with
  | some ds, some ps =>
    let vs := parseVerdicts verdicts
    let four := targetNames.map fun n =>
      match parseTarget n with
      | some (t, sba) => showTarget n t sba ((vs.lookup n).getD "?") ds ps
      | none => "?"
    -- requests of the four-target form (no `tool=` field) are answered as before
    match vs.lookup "tool" with
    | none => " ".intercalate four
    | some tool =>
      let mslClass := (vs.lookup "msl").getD "?"
      let bad : Option (Option Nat) :=
        if mslClass == "back" then ((vs.lookup "mslbad").bind String.toNat?).map some
        else if mslClass == "ok" || mslClass == "front" then some none else none
      match bad with
      | none => "unsupported: the Msl run neither accepts nor rejects (panic, or the refused pipeline is unknown)"
      | some mslbad =>
        -- the request lists the pipelines only when some target accepted the file: an accepted file has at least one,
        -- and a file whose pipeline `k` Metal refused has at least `k + 1`
        let n := match mslbad with
          | some k => max ps.length (k + 1)
          | none => if mslClass == "ok" && ps.length == 0 then 1 else ps.length
        let cls := predictMtlb mslClass n mslbad (tool == "present")
        " ".intercalate (four ++ [showTarget "mtlb" .MetalBytecode false cls ds ps])
  | _, _ => "bad-request"

/-- `C18.mode <seed> <variant> <mode> <decls> <pipes> <verdicts>`: the four reports of one output of `compile()` asked for
    one named pipeline (`name:<P>`; `pipes` holds that pipeline) or for no pipeline (`none`; `pipes` is empty: no stage is
    reported).  The bindings come from `bindingsInMode` for the exporter facts extracted from the two `generate_module`s. -/
def showTargetInMode (name : String) (t : Target) (sba : Bool) (m : Mode) (verdict : String) (ds : List Decl)
    (pipes : List (String × List StageDef)) : String :=
  if verdict != "ok" then name ++ "{" ++ verdict ++ "}" else
  let ps := pipes.map fun (n, st) =>
    n ++ "[" ++ ",".intercalate ((stageReportsInMode hlslRename t m st).map fun s =>
      s.stage.name ++ ":" ++ s.entry ++ ":" ++ showThreads s.threads) ++ "]"
  match bindingsInMode codeReportsWithoutPipeline codeNameMaps t sba m ds with
  | .error _ => name ++ "{model:unsupported-object-kind}"
  | .ok bs => name ++ "{" ++ ";".intercalate ps ++ "|" ++ ",".intercalate (sortStrings (bs.map showBinding)) ++ "}"

def handleMode (mode decls pipes verdicts : String) : String :=
  let m? : Option Mode := if mode == "none" then some .none else if mode.startsWith "name:" then some .named else none
  match m?, parseDecls decls, parsePipes pipes with
  | some m, some ds, some ps =>
    if m == .none && !ps.isEmpty then "bad-request" else
    let vs := parseVerdicts verdicts
    " ".intercalate (targetNames.map fun n =>
      match parseTarget n with
      | some (t, sba) => showTargetInMode n t sba m ((vs.lookup n).getD "?") ds ps
      | none => "?")
  | _, _, _ => "bad-request"

/-! ### C18.simplify: the program encoding of harness/src/c17/wgen.rs, resource items only -/

open RsslVerif.Model.SimplifyCbuffers in
/-- `R <name> <kind> <len|-> <group|-> <flags|-> ..` -> the root definition it declares -/
def parseRoot (item : String) : Option (Option Root) :=
  match (item.splitOn " ").filter (· ≠ "") with
  | "R" :: name :: kind :: len :: _ :: flags :: _ =>
    if kind == "cbuffer" then
      let n := if len == "-" then some 1 else len.toNat?
      n.map fun n => some (.cbuffer name ((List.range n).map fun i => name ++ "_v" ++ toString i))
    else
      let k := if kind == "TrapBuffer" then "StructuredBuffer" else kind
      let arr : Option Arr := if len == "-" then some .single else if len == "0" then some .unsized else len.toNat?.map .sized
      match ObjKind.ofName? k, arr with
      | some ok, some a => some (some (.global name (.object ok a (flags.toList.contains 's'))))
      | _, _ => none
  | _ => some none

open RsslVerif.Model.SimplifyCbuffers in
def showRoot' : Root' → Option String
  | .struct n ms => some ("struct:" ++ n ++ ":" ++ toString ms.length)
  | .global n g fromCb =>
    let kind := match g with
      | .object .ConstantBuffer _ _ => "ConstantBuffer"
      | .object _ _ _ => "obj"
      | .plain _ => "plain"
    some ("global:" ++ n ++ ":" ++ kind ++ (if fromCb then ":slot" else ""))
  | .other => none

open RsslVerif.Model.SimplifyCbuffers in
def handleSimplify (prog : String) : String :=
  if prog.isEmpty then "" else
  match sequenceOpt ((prog.splitOn " | ").map parseRoot) with
  | none => "unsupported"
  | some roots => ";".intercalate ((simplify (roots.filterMap id)).filterMap showRoot')

/-! ### C18.annot: how many annotations of each kind the DirectX / Vulkan export of every pipeline of a wide program has -/

open RsslVerif.Model.HlslModule RsslVerif.Model.PipelineTyper in
/-- the parameters of a generated entry-point shape that carry a user semantic, and what a mesh entry declares
    per-primitive (harness/src/c17/wgen.rs `render_func`) -/
def shapeFields (shape : String) : List Field × List String :=
  let c := (shape.take 1).toString
  if c == "r" then ([⟨"i_pos", none⟩, ⟨"i_material", some "MATERIAL"⟩], [])
  else if c == "q" then ([], ["MATERIAL"])
  else ([], [])

open RsslVerif.Model.HlslModule RsslVerif.Model.SimplifyCbuffers in
def globalOfRoot (p : Params) : Root → Option (GlobalDef Unit)
  | .cbuffer n _ => some ⟨n, none, .single, some ()⟩
  | .global n (.object k arr ss) => some ⟨n, some k, arr, if hasSlot p (.object k arr ss) then some () else none⟩
  | .global n (.plain arr) => some ⟨n, none, arr, none⟩
  | .other => none

open RsslVerif.Model.HlslModule RsslVerif.Model.PipelineTyper in
def annotCounts (forSpirv : Bool) (p : Params) (roots : List (RsslVerif.Model.HlslModule.Root Unit Unit))
    (stages : List (Stage × Nat)) : String :=
  let m : RsslVerif.Model.HlslModule.Module Unit Unit := { roots := roots, pipeline := some stages }
  match genModule (ε := Unit) forSpirv p (fun _ => "T") (fun _ _ => .ok ()) m with
  | .error _ => "?"
  | .ok ts => let (a, b, c, d) := counts ts; s!"{a},{b},{c},{d}"

open RsslVerif.Model.HlslModule RsslVerif.Model.PipelineTyper in
def handleAnnot (on prog : String) : String :=
  let isOn := on == "on"
  match C17.parseProgram isOn prog, sequenceOpt ((prog.splitOn " | ").map parseRoot) with
  | some (items, none), some rroots =>
    if C17.hasGarbage isOn prog || C17.hasRedefinition items then "unsupported" else
    match typeCheck items with
    | .error _ => "front"
    | .ok st =>
      if st.pipes.isEmpty then "none" else
      let structs : List (RsslVerif.Model.HlslModule.Root Unit Unit) :=
        [.struct ⟨"CbS", [⟨"v", none⟩]⟩, .struct ⟨"MeshVertex", [⟨"position", none⟩]⟩,
         .struct ⟨"TaskPayload", [⟨"start_location", none⟩]⟩, .struct ⟨"MeshPrim", [⟨"material", some "MATERIAL"⟩]⟩,
         .struct ⟨"LayoutTrap", [⟨"a", none⟩, ⟨"b", none⟩, ⟨"c", none⟩]⟩]
      -- every function item is one generated root definition (a declaration and its definition are two)
      let funcs : List (RsslVerif.Model.HlslModule.Root Unit Unit) := items.filterMap fun it =>
        match it with
        | .func f =>
          if f.isTemplate then none else
          let (ps, prims) := shapeFields f.shape
          some (.func ⟨(st.reg.zipIdx.find? (fun q => sameFn f q.1)).map (·.2) |>.getD 0, ps, prims, ()⟩)
        | .pipe _ => none
      let rootsFor (p : Params) : List (RsslVerif.Model.HlslModule.Root Unit Unit) :=
        structs ++ ((rroots.filterMap id).filterMap (globalOfRoot p)).map .global ++ funcs
      String.join (st.pipes.map fun pl =>
        let stages := pl.stages.map fun s => (s.stage, s.entry)
        pl.name ++ "{dx:" ++ annotCounts false (paramsFor .HlslForDirectX false) (rootsFor (paramsFor .HlslForDirectX false)) stages ++
          ";vk:" ++ annotCounts true (paramsFor .HlslForVulkan false) (rootsFor (paramsFor .HlslForVulkan false)) stages ++ "}")
  | some (_, some _), _ => "front"
  | _, _ => "unsupported"

def handle (op : String) (args : List String) : String :=
  match op, args with
  | "C18.simplify", [prog] => handleSimplify prog
  | "C18.annot", [on, prog, backend] =>
    let r := handleAnnot on prog
    if backend == "backend=err" && r != "front" && r != "unsupported" then "back" else r
  | "C18.defines", [tgt] =>
    match parseTarget tgt with
    | some (t, _) => ";".intercalate ((targetDefines t).map fun d => d.1 ++ "=" ++ d.2)
    | none => "bad-request"
  | "C18.cross", [_seed, _variant, decls, pipes, verdicts] => handleCross decls pipes verdicts
  | "C18.mode", [_seed, _variant, mode, decls, pipes, verdicts] => handleMode mode decls pipes verdicts
  | "C18.pp", [tgt, user, program] => handlePp tgt user program
  | _, _ => "unsupported-op"

end RsslVerif.Driver.C18

import RsslVerif.Lemmas.GenMslSim
/-!
# C02, semantic half — the Metal exporter preserves the meaning of the scalar subset

Theorems about `Model.GenMsl` (the expression / statement / function half of `msl/src/generator.rs`).
-/
namespace RsslVerif.Thm.C02Sem
open RsslVerif.Gen.HlslGenTables RsslVerif.Gen.MslGenTables RsslVerif.Model RsslVerif.Model.GenMsl RsslVerif.Spec.Sem RsslVerif.Lemmas.GenMsl
open RsslVerif.Model.Ir (Ty Var Const Dir)

/-- the textual shape of every arm of `generate_expression` / `generate_intrinsic_op` / `generate_statement` /
`generate_scope_block` / `generate_for_init` / `generate_variable_definition` / `generate_user_call` /
`generate_function_inner` / `generate_function_and_trampoline` / `generate_function_out_trampoline_body` that
`Model.GenMsl` mirrors is the one in the source (facts re-extracted on every run; an edit of any of these functions makes
the corresponding fact `false` and this theorem stops checking). -/
theorem msl_exporter_shape_as_modelled :
    mslUnaryFormAsModelled = true ∧ mslBinaryFormAsModelled = true ∧ invokeSimpleAsModelled = true ∧
    invocationArgsInOrder = true ∧ mslSequenceAsModelled = true ∧ mslCastAsModelled = true ∧ mslTernaryInOrder = true ∧
    mslVariableIsLeafName = true ∧ mslGlobalIsName = true ∧ mslCallDispatch = true ∧ mslLiteralArm = true ∧
    mslUserCallAsModelled = true ∧ mslScopeBlockAsModelled = true ∧ mslStatementArmsAsModelled = true ∧
    mslVariableDefinitionAsModelled = true ∧ mslForInitAsModelled = true ∧ outParamsAreThreadReferences = true ∧
    trampolineBodyAsModelled = true ∧ targetThenTrampoline = true ∧ functionBodyAsModelled = true ∧
    tagParameterAsModelled = true ∧ metalLibPrefix = "metal" ∧ trampolineResultName = "out" ∧ trampolineLocalPrefix = "__" := by
  decide

/-- `generate_intrinsic_op`'s table for Metal (re-extracted on every run): every typed operator is mapped to the syntax
operator whose C meaning is the RSSL meaning of the typed operator; `%` alone looks at its operand type and becomes
`metal::fmod` for floating-point operands; the helper / mesh forms have no meaning in the scalar subset. -/
theorem msl_op_table_is_identity :
    (∀ o u, mslOpForm o = .unary u → astUnSem u = irOpSem o) ∧
    (∀ o b, mslOpForm o = .binary b → astBinSem b = irOpSem o) ∧
    (∀ o n s b, mslOpForm o = .floatCall n s b → o = .Modulus ∧ n = "fmod" ∧ astBinSem b = irOpSem o ∧
        s = ["Float16", "Float32", "Float64", "FloatLiteral"]) ∧
    (∀ o, (mslOpForm o = .special ∨ mslOpForm o = .meshMethod ∨ mslOpForm o = .meshHelper) → irOpSem o = .unsupported) := by
  refine ⟨?_, ?_, ?_, ?_⟩
  · intro o u h; cases o <;> simp [mslOpForm] at h <;> subst h <;> rfl
  · intro o b h; cases o <;> simp [mslOpForm] at h <;> subst h <;> rfl
  · intro o n s b h; cases o <;> simp [mslOpForm] at h
    obtain ⟨rfl, rfl, rfl⟩ := h
    exact ⟨rfl, rfl, rfl, rfl⟩
  · intro o h; cases o <;> simp [mslOpForm] at h <;> rfl

/-- the Metal literal function has the same arms, in the same order, as the HLSL one (`Gen.HlslGenTables.literalArms`):
what C01 proves about the tree of a constant holds for the Metal tree as well -/
theorem msl_literal_arms_same_as_hlsl : mslLiteralArms = literalArms := Lemmas.GenMsl.literal_arms_eq

theorem msl_genLiteral_eq (c : Ir.Const) : GenMsl.genLiteral c = GenHlsl.genLiteral c := Lemmas.GenMsl.genLiteral_eq c

/-! ## meaning preservation: expressions

`Msl.eval` is the C++/Metal reading of the emitted syntax (`Spec.SemMsl`): Metal's literal types, integer promotion and
usual arithmetic conversions, Metal's shift rule, by-value and by-reference (`thread T&`) parameters.  `Ir.eval` is the
typed semantics of C01, unchanged.  Hypotheses: the type checker accepted the expression (`Ir.typeOf`); the side
conditions `Ir.okM` (`Spec.SemMslWT`: where the Metal reading is *known* to coincide — each excluded form is either one of
the two known findings or needs run-time types of variables); the emitted names denote the IR's entities in the frame at
hand, for the variables in scope there (`AgreeM`); the callable functions of the two worlds are linked by `Worlds`:
a Metal call with variables for the out/inout parameters and references to the needed statics behaves as copy-in /
copy-out around the typed function (discharged for whole programs by `gen_sem_program`). -/

/-- **expressions**: the emitted expression has a static type `ta` under C++ rules and — converted to the IR's type `t`,
which is what every context the exporter places it in does — evaluates to exactly the IR's value and store, from every
store, for every interpretation of the primitives.  All expression forms of the model: typed constants, locals,
statics (reference parameters in Metal), unary / binary / assignment / increment operators incl. `%` on floats
(`metal::fmod`), `?:`, `Sequence`, casts, calls of user functions with in/out/inout arguments and appended statics. -/
theorem gen_sem_expr {W : World} {M : Msl.MWorld} {env : Ast.Env} {cx : Ctx} {vis : Var → Bool} {rsv : Nat → List Var}
    (hag : AgreeM cx vis env) (hw : Worlds cx rsv W M) (e : Ir.Expr) (a : HlslAst.Expr) (t : Ty)
    (hg : genExpr cx e = .ok a) (ht : Ir.typeOf W.sig cx.vty e = some t) (hok : Ir.okM (side cx W vis rsv) e = true) :
    ∃ ta, Msl.typeOf M.msig env a = some ta ∧ ∀ σ, Msl.convR M.P ta t (Msl.eval M env a σ) = Ir.eval W e σ :=
  ⟨mTy e t, (sim_exprM hag hw e a t hg ht hok).1, fun σ => (sim_exprM hag hw e a t hg ht hok).conv ht σ⟩

/-- …and without any conversion unless the expression is the bare constant `Int32(i32::MIN)` (printed `-2147483648`, a
`long` in Metal): same static type, same result. -/
theorem gen_sem_expr_plain {W : World} {M : Msl.MWorld} {env : Ast.Env} {cx : Ctx} {vis : Var → Bool} {rsv : Nat → List Var}
    (hag : AgreeM cx vis env) (hw : Worlds cx rsv W M) (e : Ir.Expr) (a : HlslAst.Expr) (t : Ty)
    (hg : genExpr cx e = .ok a) (ht : Ir.typeOf W.sig cx.vty e = some t) (hok : Ir.okM (side cx W vis rsv) e = true)
    (hn : Ir.isMin e = false) :
    Msl.typeOf M.msig env a = some t ∧ ∀ σ, Msl.eval M env a σ = Ir.eval W e σ :=
  (sim_exprM hag hw e a t hg ht hok).plain hn

/-- the argument list of a call — user arguments followed by the callee's statics — evaluates, left to right, to the
values of the `in` arguments, the *locations* of the out/inout arguments and of the statics, with the store the typed
evaluation of the user arguments leaves. -/
theorem gen_sem_args {W : World} {M : Msl.MWorld} {env : Ast.Env} {cx : Ctx} {vis : Var → Bool} {rsv : Nat → List Var}
    (hag : AgreeM cx vis env) (hw : Worlds cx rsv W M) (es : Ir.Exprs) (as : HlslAst.Exprs) (ps : List (Dir × Ty)) (gs : List Nat)
    (hg : genArgs cx es = .ok as) (hargs : Ir.argsOK W.sig cx.vty es ps = true)
    (hok : Ir.okMArgs (side cx W vis rsv) es = true) (hvis : gs.all (fun g => vis (.glob g)) = true) :
    ∀ σ, Msl.evalArgs M env (appendArgs as (globalArgs cx gs)) (mParams ps ++ globParams cx gs) σ =
      match Ir.evalArgs W es ps σ with
      | none => none
      | some (l, σ1) => some (l.map toMArg ++ globMArgs gs, σ1) :=
  sim_argsM hag hw es as ps _ _ _ hg hargs hok (globalArgs_eval hag gs hvis)


end RsslVerif.Thm.C02Sem

import RsslVerif.Model.Include
/-!
Lemmas about the directive loop: it is a fold (so it splits at every line), more include fuel never changes a result,
the `#pragma once` set only grows.
-/
namespace RsslVerif.Lemmas.Include
open RsslVerif.Model.Macro RsslVerif.Model.Include

abbrev Inc := String → State → Except Err State

theorem foldLines_append (inc : Inc) (cur : String) (s : State × List PTok) (a b : List Line) :
    foldLines inc cur s (a ++ b) =
      match foldLines inc cur s a with
      | .error e => .error e
      | .ok s' => foldLines inc cur s' b := by
  induction a generalizing s with
  | nil => rfl
  | cons l ls ih =>
    simp only [List.cons_append, foldLines]
    cases stepLine inc cur s l with
    | error e => rfl
    | ok s' => exact ih s'

/-- `inc'` succeeds wherever `inc` does, with the same result -/
def Extends (inc inc' : Inc) : Prop := ∀ n st r, inc n st = .ok r → inc' n st = .ok r

theorem stepLine_mono {inc inc' : Inc} (h : Extends inc inc') (cur : String) (s : State × List PTok)
    (l : Line) (r : State × List PTok) (hr : stepLine inc cur s l = .ok r) :
    stepLine inc' cur s l = .ok r := by
  obtain ⟨st, active⟩ := s
  cases l with
  | incl name =>
    simp only [stepLine] at hr ⊢
    cases hf : flush st active with
    | error e => simp [hf] at hr
    | ok st1 =>
      simp only [hf] at hr ⊢
      cases hi : inc name st1 with
      | error e => simp [hi] at hr
      | ok st2 =>
        simp only [hi] at hr
        simp only [h name st1 st2 hi]
        exact hr
  | _ => simpa [stepLine] using hr

theorem foldLines_mono {inc inc' : Inc} (h : Extends inc inc') (cur : String) (s : State × List PTok)
    (ls : List Line) (r : State × List PTok) (hr : foldLines inc cur s ls = .ok r) :
    foldLines inc' cur s ls = .ok r := by
  induction ls generalizing s with
  | nil => exact hr
  | cons l ls ih =>
    simp only [foldLines] at hr ⊢
    cases hs : stepLine inc cur s l with
    | error e => simp [hs] at hr
    | ok s' =>
      simp only [hs] at hr
      rw [stepLine_mono h cur s l s' hs]
      exact ih s' hr

theorem runFile_mono {inc inc' : Inc} (h : Extends inc inc') (cur : String) (st : State)
    (ls : List Line) (r : State) (hr : runFile inc cur st ls = .ok r) :
    runFile inc' cur st ls = .ok r := by
  unfold runFile at hr ⊢
  cases hf : foldLines inc cur (st, fileStart ls) ls with
  | error e => simp [hf] at hr
  | ok s' =>
    simp only [hf] at hr
    rw [foldLines_mono h cur _ ls s' hf]
    exact hr

/-- more fuel never changes a successful result -/
theorem includeFile_fuel_mono (h : Handler) (fuel : Nat) :
    Extends (includeFile h fuel) (includeFile h (fuel + 1)) := by
  induction fuel with
  | zero => intro n st r hr; simp [includeFile] at hr
  | succ k ih =>
    intro n st r hr
    simp only [includeFile] at hr ⊢
    cases hn : h n with
    | none => simp [hn] at hr
    | some fd =>
      obtain ⟨real, lines⟩ := fd
      simp only [hn] at hr ⊢
      split at hr
      · rename_i ho
        simp only [ho, if_true]
        exact runFile_mono ih real st [] r hr
      · rename_i ho
        simp only [ho]
        exact runFile_mono ih real st lines r hr

theorem includeFile_fuel_le (h : Handler) {f g : Nat} (hle : f ≤ g) :
    Extends (includeFile h f) (includeFile h g) := by
  induction hle with
  | refl => intro _ _ _ hr; exact hr
  | step _ ih => intro n st r hr; exact includeFile_fuel_mono h _ n st r (ih n st r hr)

/-- a lone line end has nothing to expand -/
theorem applyMacros_eol (ms : List Macro) : applyMacros ms [eol] = .ok [eol] := by
  unfold applyMacros
  rw [applyLoop]
  simp [findSingle, scanFrom, eol, SearchPos.start]

/-- the id of the current file matters only to a top-level `#pragma once` -/
theorem foldLines_cur_irrelevant (inc : Inc) (cur cur' : String) (s : State × List PTok) (ls : List Line)
    (hno : Line.pragmaOnce ∉ ls) : foldLines inc cur s ls = foldLines inc cur' s ls := by
  induction ls generalizing s with
  | nil => rfl
  | cons l ls ih =>
    have hl : l ≠ .pragmaOnce := fun h => hno (by simp [h])
    have hls : Line.pragmaOnce ∉ ls := fun h => hno (by simp [h])
    have hstep : stepLine inc cur s l = stepLine inc cur' s l := by
      obtain ⟨st, active⟩ := s
      cases l <;> first | rfl | exact absurd rfl hl
    simp only [foldLines, hstep]
    cases stepLine inc cur' s l with
    | error e => rfl
    | ok s' => exact ih s' hls

/-! ## the `#pragma once` set only grows -/

def OnceGrows (inc : Inc) : Prop := ∀ n st r, inc n st = .ok r → ∀ x ∈ st.once, x ∈ r.once

theorem flush_once {st st' : State} {a : List PTok} (h : flush st a = .ok st') : st'.once = st.once := by
  unfold flush at h
  split at h
  · cases h
  · cases h; rfl

theorem flush_macros {st st' : State} {a : List PTok} (h : flush st a = .ok st') :
    st'.macros = st.macros := by
  unfold flush at h
  split at h
  · cases h
  · cases h; rfl

theorem stepLine_once {inc : Inc} (hi : OnceGrows inc) (cur : String) (s r : State × List PTok) (l : Line)
    (h : stepLine inc cur s l = .ok r) : ∀ x ∈ s.1.once, x ∈ r.1.once := by
  obtain ⟨st, active⟩ := s
  intro x hx
  cases l with
  | text t => simp only [stepLine] at h; cases h; exact hx
  | define cmd =>
    simp only [stepLine] at h
    cases hf : flush st active with
    | error e => simp [hf] at h
    | ok st1 =>
      simp only [hf] at h
      cases hd : doDefine st1.macros cmd with
      | error e => simp [hd] at h
      | ok ms => simp only [hd] at h; cases h; simpa [flush_once hf] using hx
  | undef cmd =>
    simp only [stepLine] at h
    cases hf : flush st active with
    | error e => simp [hf] at h
    | ok st1 =>
      simp only [hf] at h
      cases hd : doUndef st1.macros cmd with
      | error e => simp [hd] at h
      | ok ms => simp only [hd] at h; cases h; simpa [flush_once hf] using hx
  | pragmaWarning =>
    simp only [stepLine] at h
    cases hf : flush st active with
    | error e => simp [hf] at h
    | ok st1 => simp only [hf] at h; cases h; simpa [flush_once hf] using hx
  | pragmaOnce =>
    simp only [stepLine] at h
    cases hf : flush st active with
    | error e => simp [hf] at h
    | ok st1 =>
      simp only [hf] at h; cases h
      simp only [List.mem_cons, flush_once hf]
      exact Or.inr hx
  | incl name =>
    simp only [stepLine] at h
    cases hf : flush st active with
    | error e => simp [hf] at h
    | ok st1 =>
      simp only [hf] at h
      cases hn : inc name st1 with
      | error e => simp [hn] at h
      | ok st2 =>
        simp only [hn] at h; cases h
        exact hi name st1 st2 hn x (by simpa [flush_once hf] using hx)
  | rejected e =>
    simp only [stepLine] at h
    cases hf : flush st active <;> simp [hf] at h
  | null =>
    simp only [stepLine] at h
    cases hf : flush st active with
    | error e => simp [hf] at h
    | ok st1 => simp only [hf] at h; cases h; simpa [flush_once hf] using hx

theorem foldLines_once {inc : Inc} (hi : OnceGrows inc) (cur : String) (s r : State × List PTok)
    (ls : List Line) (h : foldLines inc cur s ls = .ok r) : ∀ x ∈ s.1.once, x ∈ r.1.once := by
  induction ls generalizing s with
  | nil => simp only [foldLines] at h; cases h; exact fun _ hx => hx
  | cons l ls ih =>
    simp only [foldLines] at h
    cases hs : stepLine inc cur s l with
    | error e => simp [hs] at h
    | ok s' =>
      simp only [hs] at h
      intro x hx
      exact ih s' h x (stepLine_once hi cur s s' l hs x hx)

theorem runFile_once {inc : Inc} (hi : OnceGrows inc) (cur : String) (st r : State) (ls : List Line)
    (h : runFile inc cur st ls = .ok r) : ∀ x ∈ st.once, x ∈ r.once := by
  unfold runFile at h
  cases hf : foldLines inc cur (st, fileStart ls) ls with
  | error e => simp [hf] at h
  | ok s' =>
    obtain ⟨st1, a⟩ := s'
    simp only [hf] at h
    intro x hx
    have := foldLines_once hi cur _ _ ls hf x hx
    simpa [flush_once h] using this

theorem includeFile_onceGrows (h : Handler) (fuel : Nat) : OnceGrows (includeFile h fuel) := by
  induction fuel with
  | zero => intro n st r hr; simp [includeFile] at hr
  | succ k ih =>
    intro n st r hr
    simp only [includeFile] at hr
    cases hn : h n with
    | none => simp [hn] at hr
    | some fd =>
      obtain ⟨real, lines⟩ := fd
      simp only [hn] at hr
      split at hr
      · exact runFile_once ih real st r [] hr
      · exact runFile_once ih real st r lines hr

/-- a top-level `#pragma once` line puts the current file into the set -/
theorem foldLines_marks {inc : Inc} (hi : OnceGrows inc) (cur : String) (s r : State × List PTok)
    (ls : List Line) (hmem : Line.pragmaOnce ∈ ls) (h : foldLines inc cur s ls = .ok r) :
    cur ∈ r.1.once := by
  induction ls generalizing s with
  | nil => cases hmem
  | cons l ls ih =>
    simp only [foldLines] at h
    cases hs : stepLine inc cur s l with
    | error e => simp [hs] at h
    | ok s' =>
      simp only [hs] at h
      rcases List.mem_cons.mp hmem with rfl | hm
      · -- this line marks; the rest keeps it
        have : cur ∈ s'.1.once := by
          obtain ⟨st, active⟩ := s
          simp only [stepLine] at hs
          cases hf : flush st active with
          | error e => simp [hf] at hs
          | ok st1 => simp only [hf] at hs; cases hs; simp
        exact foldLines_once hi cur s' r ls h cur this
      · exact ih s' hm h

end RsslVerif.Lemmas.Include

import RsslVerif.Lemmas.MslDup
import RsslVerif.Spec.Sem
/-!
# C02 — no operand is evaluated more often in the emitted Metal than in the source

The Metal exporter builds a syntax tree; `ast::Expression` / `ir::Expression` are not `Copy`, so an operand can reach the
output twice only through an explicit copy, through running a generator twice on it, or through text building.
`Gen.MslDupSites` lists every such place of the back end on every run; `dup_sites_guarded` checks the list against the
reviewed classification below: exactly ONE site repeats a generated operand — the struct half of the `Cast` arm,
`(S)value ↦ S { v, v, … }` — and the side-effect test in front of it (re-extracted as a table) is *sound*: every
constructor it accepts is strict and without effect, and it looks into EVERY expression-typed field of it.

`repeatable_operand_is_pure` is the reason that is enough: for every meaning of calls, operators, `?:` and sequences
(`Spec.MslDup.Interp`) an operand accepted by a sound test leaves the store unchanged, so writing it `n` times yields `n`
copies of the one value and the store of one evaluation (`struct_cast_meaning_kept`, also for the "one element: anything"
branch).  `repeatable_operand_is_pure_ir` states the same on C01's typed scalar IR (`Ir.eval`, every `World` = every
`Prim`).  `index_blind_test_repeats_effect` is the other direction: the test of seeded mutant C02-3 (array subscript
accepted by looking at the array only) is not sound and repeats an effect.
-/
namespace RsslVerif.Thm.C02Dup
open RsslVerif.Gen.MslDupSites RsslVerif.Model.MslDup RsslVerif.Spec.MslDup RsslVerif.Lemmas.MslDup

/-- what an explicit copy in the back end copies -/
inductive CopyClass where
  /-- types, declarators, names, parameter lists, layouts, configuration, whole modules (a pass works on its own copy) -/
  | notExpr
  /-- an expression the back end made itself (identifier of a threaded global, member path of a constant-buffer member,
  argument of a generated helper): no operand of the program inside -/
  | synth
  /-- an IR operand copied into the node that REPLACES the one it was taken from (`*expr = …`), or into a reordered
  argument list that is generated instead of the original: still written once -/
  | moveOnce
  /-- the initialiser of a static / groupshared global, once per entry-point wrapper (each kernel initialises its own) -/
  | perEntry
  /-- a generated operand written several times -/
  | repeated
  deriving DecidableEq, Repr

/-- reviewed list (file, function, copied expression, occurrences) — an unreviewed copy, or another number of
occurrences of a reviewed one, makes `dup_sites_guarded` stop checking -/
def reviewed : List (CopySite × CopyClass) := [
  (⟨"ir/src/simplify_cbuffers.rs", "replace_cbuffer_in_expression", "replacements.member_to_expression[&id].clone()", 1⟩, .synth),
  (⟨"ir/src/simplify_cbuffers.rs", "simplify_cbuffers", "member.name.node.clone()", 1⟩, .notExpr),
  (⟨"msl/src/generator.rs", "analyse_globals", "declarator.clone()", 1⟩, .notExpr),
  (⟨"msl/src/generator.rs", "analyse_globals", "param_type.clone()", 1⟩, .notExpr),
  (⟨"msl/src/generator.rs", "append_arguments_for_globals", "argument.clone()", 1⟩, .synth),
  (⟨"msl/src/generator.rs", "build_mesh_output_type", "context.mesh_layout.clone()", 1⟩, .notExpr),
  (⟨"msl/src/generator.rs", "generate_byte_buffer_store", "packed.clone()", 1⟩, .notExpr),
  (⟨"msl/src/generator.rs", "generate_expression", "def.constexpr_value.clone()", 1⟩, .notExpr),
  (⟨"msl/src/generator.rs", "generate_expression", "inner.clone()", 1⟩, .repeated),
  (⟨"msl/src/generator.rs", "generate_expression", "ty.layout.1.to_vec()", 1⟩, .notExpr),
  (⟨"msl/src/generator.rs", "generate_function_inner", "context.function_required_globals.get(&id).unwrap().clone()", 1⟩, .notExpr),
  (⟨"msl/src/generator.rs", "generate_function_inner", "param.clone()", 1⟩, .notExpr),
  (⟨"msl/src/generator.rs", "generate_function_inner", "ty.clone()", 1⟩, .notExpr),
  (⟨"msl/src/generator.rs", "generate_function_out_trampoline_body", "return_type.clone()", 1⟩, .notExpr),
  (⟨"msl/src/generator.rs", "generate_intrinsic_function", "exprs[0].clone()", 1⟩, .moveOnce),
  (⟨"msl/src/generator.rs", "generate_intrinsic_function", "exprs[1].clone()", 1⟩, .moveOnce),
  (⟨"msl/src/generator.rs", "generate_intrinsic_function", "exprs[2].clone()", 1⟩, .moveOnce),
  (⟨"msl/src/generator.rs", "generate_intrinsic_function", "intrinsic.clone()", 1⟩, .notExpr),
  (⟨"msl/src/generator.rs", "generate_type_or_constant", "&c.clone()", 1⟩, .notExpr),
  (⟨"msl/src/generator/intrinsic_helpers.rs", "build_get_dimensions", "mip_args.clone()", 2⟩, .synth),
  (⟨"msl/src/generator/intrinsic_helpers.rs", "build_intersection_params", "params_ty.clone()", 1⟩, .notExpr),
  (⟨"msl/src/generator/pipeline.rs", "generate_pipeline", "all_used_globals.extend_from_slice(", 1⟩, .notExpr),
  (⟨"msl/src/generator/pipeline.rs", "generate_pipeline", "base_declarator.clone()", 2⟩, .notExpr),
  (⟨"msl/src/generator/pipeline.rs", "generate_pipeline", "base_type.clone()", 2⟩, .notExpr),
  (⟨"msl/src/generator/pipeline.rs", "generate_pipeline", "context.function_required_globals.get(&stage.entry_point).unwrap().clone()", 1⟩, .notExpr),
  (⟨"msl/src/generator/pipeline.rs", "generate_pipeline", "declarator.clone()", 1⟩, .notExpr),
  (⟨"msl/src/generator/pipeline.rs", "generate_pipeline", "def.stages.clone()", 1⟩, .notExpr),
  (⟨"msl/src/generator/pipeline.rs", "generate_pipeline", "entry_params.clone()", 1⟩, .notExpr),
  (⟨"msl/src/generator/pipeline.rs", "generate_pipeline", "entry_params.extend_from_slice(", 1⟩, .notExpr),
  (⟨"msl/src/generator/pipeline.rs", "generate_pipeline", "init.clone()", 2⟩, .perEntry),
  (⟨"msl/src/generator/pipeline.rs", "generate_pipeline", "name.clone()", 1⟩, .notExpr),
  (⟨"msl/src/generator/pipeline.rs", "generate_pipeline", "param.clone()", 1⟩, .notExpr),
  (⟨"msl/src/generator/pipeline.rs", "generate_pipeline", "ty.clone()", 2⟩, .notExpr),
  (⟨"msl/src/generator/pipeline.rs", "record_interpolator_location", "member.name.clone()", 1⟩, .notExpr),
  (⟨"msl/src/generator/pipeline.rs", "record_interpolator_location", "semantic.clone()", 2⟩, .notExpr),
  (⟨"msl/src/lib.rs", "export_to_msl", "module.clone()", 1⟩, .notExpr),
  (⟨"msl/src/lib.rs", "verif_generate_ast", "module.clone()", 1⟩, .notExpr),
  (⟨"msl/src/rewrite_mesh_output.rs", "process_expression", "(**index).clone()", 3⟩, .moveOnce),
  (⟨"msl/src/rewrite_mesh_output.rs", "process_expression", "value.clone()", 3⟩, .moveOnce),
  (⟨"msl/src/rewrite_mesh_output.rs", "process_mesh_entry", "impl_mut.params.iter().cloned()", 1⟩, .notExpr),
  (⟨"msl/src/rewrite_mesh_output.rs", "process_mesh_entry", "impl_ref.scope_block.clone()", 1⟩, .moveOnce),
  (⟨"msl/src/rewrite_mesh_output.rs", "process_mesh_entry", "module.function_registry.get_function_implementation(entry_point).as_ref().unwrap().clone()", 1⟩, .notExpr),
  (⟨"msl/src/rewrite_mesh_output.rs", "process_mesh_entry", "sig_mut.param_types.iter().cloned()", 1⟩, .notExpr),
  (⟨"msl/src/simplify_resource_subscript.rs", "find_function_for_intrinsic", "object_functions.iter().cloned()", 1⟩, .notExpr),
  (⟨"msl/src/simplify_resource_subscript.rs", "process_expression", "*index.clone()", 1⟩, .moveOnce),
  (⟨"msl/src/simplify_resource_subscript.rs", "process_expression", "*object.clone()", 1⟩, .moveOnce),
  (⟨"msl/src/simplify_resource_subscript.rs", "process_expression", "args[1].clone()", 1⟩, .moveOnce),
  (⟨"msl/src/simplify_resource_subscript.rs", "process_expression", "lhs_index.clone()", 1⟩, .moveOnce),
  (⟨"msl/src/simplify_resource_subscript.rs", "process_expression", "lhs_object.clone()", 1⟩, .moveOnce),
  (⟨"msl/src/simplify_resource_subscript.rs", "simplify_resource_subscript", "module.clone()", 1⟩, .notExpr)
]

def reviewOf (s : CopySite) : Option CopyClass := (reviewed.find? (fun p => p.1 == s)).map (·.2)

/-- the struct-cast site -/
def structCastSite : CopySite := ⟨"msl/src/generator.rs", "generate_expression", "inner.clone()", 1⟩

/-- **Every place where the Metal back end can write an operand twice is guarded.**  (1) every explicit copy in the back
end's files is reviewed; (2) the only copy that repeats a generated operand is the one of the struct cast; (3) no arm
runs one generator call twice and `generate_expression` builds no text; (4) the struct cast writes the operand
`get_member_count` times (arrays multiply, structs add up, anything else counts one), or refuses with a diagnostic;
(5) the side-effect test in front of it is sound (`Spec.MslDup.Sound`: accepted constructors are strict and without
effect and ALL their expression-typed fields are tested) and everything else is accepted only for one element.  The test
of seeded mutant C02-3 fails (5): `ArraySubscript` has expression fields `[0, 1]`, the test recursed into `[0]`. -/
theorem dup_sites_guarded :
    copySites.all (fun s => (reviewOf s).isSome) = true ∧
    copySites.all (fun s => reviewOf s != some .repeated || s == structCastSite) = true ∧
    repeatedGeneratorCalls = [] ∧ textBuildingInGenerateExpression = 0 ∧
    structCastRepeatsInnerPerElement = true ∧ structCastRefusalIsDiagnostic = true ∧ memberCountAsModelled = true ∧
    Sound structCastGuard = true := by
  decide +kernel

/-- the side-effect test never accepts a constructor that is not one of `ir::Expression`'s, and the shapes it matches
have the constructor's number of fields -/
theorem guard_rows_are_ir_constructors :
    structCastGuard.all (fun r => irExpressionCtors.any (fun k => k.name == r.ctor && k.arity == r.arity)) = true := by
  decide +kernel

section generic
variable {Val Store : Type}

/-- **An operand the test accepts can be repeated.**  For every sound table `rows`, every meaning of the effectful
constructors `I`, every well-formed operand `e`: if the test accepts `e` and `e` evaluates to `v` with store `σ'` then
`σ' = σ` (no effect), evaluating it again gives the same result, and `n` evaluations in a row give `n` copies of `v` and
the same store. -/
theorem repeatable_operand_is_pure_of_sound (I : Interp Val Store) {rows : List GuardRow} (hs : Sound rows = true)
    (e : DExpr) (hw : wf e = true) (hg : testExpr rows e = true) (σ : Store) (v : Val) (σ' : Store)
    (he : eval I e σ = some (v, σ')) :
    σ' = σ ∧ eval I e σ' = some (v, σ') ∧ ∀ n, evalRepeat I e n σ = some (List.replicate n v, σ') := by
  have hp := guard_keeps_store I hs e hw hg
  have h := hp σ v σ' he
  subst h
  exact ⟨rfl, he, fun n => repeat_of_keeps_store I e hp n σ' v σ' he⟩

/-- … in particular for the test of the current source -/
theorem repeatable_operand_is_pure (I : Interp Val Store) (e : DExpr) (hw : wf e = true)
    (hg : testExpr structCastGuard e = true) (σ : Store) (v : Val) (σ' : Store) (he : eval I e σ = some (v, σ')) :
    σ' = σ ∧ eval I e σ' = some (v, σ') ∧ ∀ n, evalRepeat I e n σ = some (List.replicate n v, σ') :=
  repeatable_operand_is_pure_of_sound I dup_sites_guarded.2.2.2.2.2.2.2 e hw hg σ v σ' he

/-- **The struct cast keeps the meaning of its operand.**  Whenever the modelled arm emits `S { e, …, e }` (`n` copies)
for an operand that evaluates to `v` with final store `σ'`, the `n` initialiser clauses evaluate, left to right, to `n`
times `v` with the same final store `σ'` — through the side-effect test (any `n`, also `n = 0`: the operand is not
evaluated at all and had no effect) or because `n = 1`. -/
theorem struct_cast_meaning_kept (I : Interp Val Store) (ty : CTy) (e : DExpr) (hw : wf e = true) (n : Nat)
    (hc : structCastNow ty e = .repeated n) (σ : Store) (v : Val) (σ' : Store) (he : eval I e σ = some (v, σ')) :
    evalRepeat I e n σ = some (List.replicate n v, σ') := by
  unfold structCastNow structCast at hc
  cases hm : memberCount ty with
  | error m => rw [hm] at hc; simp at hc
  | ok k =>
    rw [hm] at hc
    simp only at hc
    split at hc
    · rename_i hcond
      have hk : k = n := by simpa using hc
      subst hk
      rw [Bool.or_eq_true] at hcond
      cases hcond with
      | inl hg => exact (repeatable_operand_is_pure I e hw hg σ v σ' he).2.2 k
      | inr h1 =>
        rw [Bool.and_eq_true] at h1
        have : k = 1 := by simpa using h1.2
        subst this
        simp [evalRepeat, he]
    · simp at hc

/-- the arm never repeats an operand it would have to refuse: `unsupportedCast` exactly when the test rejects and the
struct has another number of elements than one -/
theorem struct_cast_refuses_iff (ty : CTy) (e : DExpr) (n : Nat) (hm : memberCount ty = .ok n) :
    structCastNow ty e = .unsupportedCast ↔ (testExpr structCastGuard e = false ∧ n ≠ 1) := by
  have hflag : structCastAcceptsAnythingForOneElement = true := by decide
  unfold structCastNow structCast
  rw [hm, hflag]
  cases hg : testExpr structCastGuard e <;> by_cases h1 : n = 1 <;> simp [h1]

end generic

-- ---------------------------------------------------------------------------------------------- on C01's typed IR
open RsslVerif.Model RsslVerif.Spec.Sem

mutual
/-- the typed scalar IR of C01 as a tree of `ir::Expression` constructors -/
def toD : Ir.Expr → DExpr
  | .lit _ => .node "Literal" (.payload 0 .nil)
  | .var id => .node "Variable" (.payload id .nil)
  | .global id => .node "Global" (.payload id .nil)
  | .op _ args => .node "IntrinsicOp" (.payload 0 (.many (toDs args) .nil))
  | .tern c t f => .node "TernaryConditional" (.one (toD c) (.one (toD t) (.one (toD f) .nil)))
  | .seq es => .node "Sequence" (.many (toDs es) .nil)
  | .cast _ e => .node "Cast" (.payload 0 (.one (toD e) .nil))
  | .call f args => .node "Call" (.payload f (.payload 0 (.many (toDs args) .nil)))
  | .intr _ _ _ args => .node "Call" (.payload 0 (.payload 0 (.many (toDs args) .nil)))
def toDs : Ir.Exprs → DExprs
  | .nil => .nil
  | .cons e r => .cons (toD e) (toDs r)
end

mutual
/-- the embedding lands in well-formed trees -/
theorem wf_toD : ∀ e : Ir.Expr, wf (toD e) = true
  | .lit _ => by simp [toD, wf, wfFields, ctorOf, irExpressionCtors, DFields.length]
  | .var _ => by simp [toD, wf, wfFields, ctorOf, irExpressionCtors, DFields.length]
  | .global _ => by simp [toD, wf, wfFields, ctorOf, irExpressionCtors, DFields.length]
  | .op _ args => by simp [toD, wf, wfFields, ctorOf, irExpressionCtors, DFields.length, wfs_toDs args]
  | .tern c t f => by simp [toD, wf, wfFields, ctorOf, irExpressionCtors, DFields.length, wf_toD c, wf_toD t, wf_toD f]
  | .seq es => by simp [toD, wf, wfFields, ctorOf, irExpressionCtors, DFields.length, wfs_toDs es]
  | .cast _ e => by simp [toD, wf, wfFields, ctorOf, irExpressionCtors, DFields.length, wf_toD e]
  | .call _ args => by simp [toD, wf, wfFields, ctorOf, irExpressionCtors, DFields.length, wfs_toDs args]
  | .intr _ _ _ args => by simp [toD, wf, wfFields, ctorOf, irExpressionCtors, DFields.length, wfs_toDs args]
theorem wfs_toDs : ∀ es : Ir.Exprs, wfList (toDs es) = true
  | .nil => by simp [toDs, wfList]
  | .cons e r => by simp [toDs, wfList, wf_toD e, wfs_toDs r]
end

/-- a sound test rejects a constructor that is not strict and pure -/
theorem sound_rejects {rows : List GuardRow} (hs : Sound rows = true) (c : String) (fs : DFields)
    (hc : strictPure.contains c = false) : testExpr rows (.node c fs) = false := by
  unfold testExpr
  cases hf : findRow rows c with
  | none => rfl
  | some r =>
    have := (sound_row hs hf).1
    rw [hc] at this
    exact absurd this (by simp)

/-- **`repeatable_operand_is_pure` on the typed IR of C01** (`Spec.Sem.Ir.eval`): for every world `W` — every
interpretation `Prim` of the float / conversion / division primitives, every meaning of the callable functions — and every
sound test: an accepted operand evaluates without changing the store. -/
theorem repeatable_operand_is_pure_ir_of_sound (W : World) {rows : List GuardRow} (hs : Sound rows = true) :
    ∀ (e : Ir.Expr), testExpr rows (toD e) = true → ∀ σ v σ', Ir.eval W e σ = some (v, σ') → σ' = σ
  | .lit c, _, σ, v, σ', he => by
    unfold Ir.eval at he
    simp only [Option.some.injEq, Prod.mk.injEq] at he
    exact he.2.symm
  | .var id, _, σ, v, σ', he => by
    unfold Ir.eval at he
    simp only [Option.some.injEq, Prod.mk.injEq] at he
    exact he.2.symm
  | .global id, _, σ, v, σ', he => by
    unfold Ir.eval at he
    simp only [Option.some.injEq, Prod.mk.injEq] at he
    exact he.2.symm
  | .cast ty e, hg, σ, v, σ', he => by
    unfold toD testExpr at hg
    cases hf : findRow rows "Cast" with
    | none => rw [hf] at hg; exact absurd hg (by simp)
    | some r =>
      rw [hf] at hg
      obtain ⟨_, k, hk, _, hrec⟩ := sound_row hs hf
      have hk' : k = ⟨"Cast", 2, [1]⟩ := by
        have : ctorOf "Cast" = some ⟨"Cast", 2, [1]⟩ := by decide
        rw [this] at hk
        exact (Option.some.inj hk).symm
      have h1 : r.recursed.contains 1 = true := hrec 1 (by rw [hk']; decide)
      have hm : 1 ∈ r.recursed := by simpa using h1
      have hge : testExpr rows (toD e) = true := by
        have h2 := hg
        simp [testFields, hm] at h2
        exact h2.2
      unfold Ir.eval castR at he
      cases h : Ir.eval W e σ with
      | none => rw [h] at he; exact absurd he (by simp)
      | some p =>
        obtain ⟨w, σ1⟩ := p
        have ih := repeatable_operand_is_pure_ir_of_sound W hs e hge σ w σ1 h
        rw [h] at he
        simp only at he
        cases hcv : castVal W.P ty w with
        | none => rw [hcv] at he; exact absurd he (by simp)
        | some w' =>
          rw [hcv] at he
          simp only [Option.some.injEq, Prod.mk.injEq] at he
          rw [← he.2, ih]
  | .op o args, hg, _, _, _, _ => by
    rw [toD, sound_rejects hs "IntrinsicOp" _ (by decide)] at hg
    exact absurd hg (by simp)
  | .tern c t f, hg, _, _, _, _ => by
    rw [toD, sound_rejects hs "TernaryConditional" _ (by decide)] at hg
    exact absurd hg (by simp)
  | .seq es, hg, _, _, _, _ => by
    rw [toD, sound_rejects hs "Sequence" _ (by decide)] at hg
    exact absurd hg (by simp)
  | .call f args, hg, _, _, _, _ => by
    rw [toD, sound_rejects hs "Call" _ (by decide)] at hg
    exact absurd hg (by simp)
  | .intr i a b args, hg, _, _, _, _ => by
    rw [toD, sound_rejects hs "Call" _ (by decide)] at hg
    exact absurd hg (by simp)

/-- … for the test of the current source: a repeated operand of a struct cast evaluates twice as it evaluates once — same
value, same store — for every `Prim` -/
theorem repeatable_operand_is_pure_ir (W : World) (e : Ir.Expr) (hg : testExpr structCastGuard (toD e) = true)
    (σ : Store) (v : Val) (σ' : Store) (he : Ir.eval W e σ = some (v, σ')) :
    σ' = σ ∧ Ir.eval W e σ' = some (v, σ') := by
  have h := repeatable_operand_is_pure_ir_of_sound W dup_sites_guarded.2.2.2.2.2.2.2 e hg σ v σ' he
  subst h
  exact ⟨rfl, he⟩

-- ---------------------------------------------------------------------------------------------- non-vacuity, witnesses
/-- the hypotheses are satisfiable: a static, a literal and a parameter are accepted and well formed; an array element
(even with a constant index), an arithmetic expression, `i++` are not -/
example : testExpr structCastGuard (toD (.global 3)) = true ∧ wf (toD (.global 3)) = true ∧
    testExpr structCastGuard (.node "Literal" (.payload 0 .nil)) = true ∧
    testExpr structCastGuard (.node "MemberVariable" (.payload 1 (.payload 0 .nil))) = true ∧
    testExpr structCastGuard (.node "ArraySubscript" (.one (.node "Variable" (.payload 1 .nil))
      (.one (.node "Literal" (.payload 2 .nil)) .nil))) = false ∧
    testExpr structCastGuard (toD (.op .PostfixIncrement (.cons (.var 0) .nil))) = false := by
  decide

/-- `struct S { int a; int b; int c[2]; }` counts four, `struct { I a; I b[2]; int c; }` with `I = { p; q }` seven, a struct
of one vector one; `(S)x` is written four times, `(S)(i++)` is refused for four elements and written once for one -/
example :
    memberCount (.struct [.leaf, .leaf, .arr .leaf (some 2)]) = .ok 4 ∧
    memberCount (.struct [.struct [.leaf, .leaf], .arr (.struct [.leaf, .leaf]) (some 2), .leaf]) = .ok 7 ∧
    structCastNow (.struct [.leaf, .leaf, .arr .leaf (some 2)]) (toD (.var 0)) = .repeated 4 ∧
    structCastNow (.struct [.leaf, .leaf, .arr .leaf (some 2)]) (toD (.op .PostfixIncrement (.cons (.var 0) .nil))) = .unsupportedCast ∧
    structCastNow (.struct [.leaf]) (toD (.op .PostfixIncrement (.cons (.var 0) .nil))) = .repeated 1 := by
  refine ⟨by simp [memberCount, memberCountList], by simp [memberCount, memberCountList], ?_, ?_, ?_⟩ <;>
    simp [structCastNow, structCast, memberCount, memberCountList] <;> decide

/-- the side-effect test of seeded mutant C02-3 (`is_repeatable`: member, swizzle and subscript of a repeatable object —
the INDEX of the subscript is not looked at) -/
def indexBlindTest : List GuardRow :=
  [⟨"Literal", 1, []⟩, ⟨"Variable", 1, []⟩, ⟨"MemberVariable", 2, []⟩, ⟨"Global", 1, []⟩, ⟨"ConstantVariable", 1, []⟩,
   ⟨"EnumValue", 1, []⟩, ⟨"StructMember", 3, [0]⟩, ⟨"Swizzle", 2, [0]⟩, ⟨"ArraySubscript", 2, [0]⟩]

/-- a store = one counter; `IntrinsicOp` = `i++` (value: the counter, then the counter grows); a subscript returns its index -/
def counterInterp : Interp Nat Nat where
  step := fun c _ vs σ => match c, vs with
    | "ArraySubscript", [_, i] => some i
    | "Variable", _ => some σ
    | _, _ => some 0
  other := fun _ _ σ => some (σ, σ + 1)

/-- `arr[i++]` -/
def arrAtIncrement : DExpr :=
  .node "ArraySubscript" (.one (.node "Variable" (.payload 1 .nil)) (.one (.node "IntrinsicOp" (.payload 0 (.many (.cons (.node "Variable" (.payload 2 .nil)) .nil) .nil))) .nil))

/-- the current test refuses `arr[i++]` -/
example : testExpr structCastGuard arrAtIncrement = false := by decide

/-- **What the mutant falsifies**: its test is not sound, it accepts the well-formed operand `arr[i++]`, and the two
clauses `S { arr[i++], arr[i++] }` give the values 0, 1 and leave the counter at 2, while the operand evaluated once
gives 0 and leaves 1.  (So `Sound` cannot be dropped from `repeatable_operand_is_pure_of_sound`.) -/
theorem index_blind_test_repeats_effect :
    Sound indexBlindTest = false ∧ wf arrAtIncrement = true ∧ testExpr indexBlindTest arrAtIncrement = true ∧
    eval counterInterp arrAtIncrement 0 = some (0, 1) ∧
    evalRepeat counterInterp arrAtIncrement 2 0 = some ([0, 1], 2) := by
  decide +kernel

end RsslVerif.Thm.C02Dup

import RsslVerif.Model.Overload
import RsslVerif.Driver.Util
/-! Line-protocol front end of the C16 model (`C16.resolve`, `C16.conv`); formats are described in
`harness/src/c16.rs`. -/
namespace RsslVerif.Driver.C16
open RsslVerif.Gen.RankTable RsslVerif.Model.Conv RsslVerif.Model.Overload RsslVerif.Driver

def modLetters : List (Char × (Modifier → Modifier)) :=
  [('c', fun m => { m with isConst := true }), ('v', fun m => { m with volatile := true }),
   ('r', fun m => { m with rest := m.rest ||| 1 }), ('k', fun m => { m with rest := m.rest ||| 2 }),
   ('u', fun m => { m with rest := m.rest ||| 4 }), ('n', fun m => { m with rest := m.rest ||| 8 })]

def parseMods (s : String) : Option Modifier :=
  if s == "-" then some {} else
  s.toList.foldl (fun acc c => acc.bind fun m => (modLetters.lookup c).map (· m)) (some {})

def showMods (m : Modifier) : String :=
  let s := (if m.isConst then "c" else "") ++ (if m.volatile then "v" else "") ++
    (if m.rest &&& 1 != 0 then "r" else "") ++ (if m.rest &&& 2 != 0 then "k" else "") ++
    (if m.rest &&& 4 != 0 then "u" else "") ++ (if m.rest &&& 8 != 0 then "n" else "")
  if s.isEmpty then "-" else s

def parseLayer (s : String) : Option Layer :=
  match s.splitOn "." with
  | ["s", sc] => (Scalar.ofName? sc).map .scalar
  | ["v", sc, n] => do pure (.vector (← Scalar.ofName? sc) (← n.toNat?))
  | ["m", sc, x, y] => do pure (.matrix (← Scalar.ofName? sc) (← x.toNat?) (← y.toNat?))
  | ["e", i] => i.toNat?.map .enum
  | ["o", i] => i.toNat?.map .other
  | _ => none

def showLayer : Layer → String
  | .scalar s => "s." ++ s.name
  | .vector s n => "v." ++ s.name ++ "." ++ toString n
  | .matrix s x y => "m." ++ s.name ++ "." ++ toString x ++ "." ++ toString y
  | .enum i => "e." ++ toString i
  | .other i => "o." ++ toString i

def parseETy (s : String) : Option ETy :=
  match s.splitOn "/" with
  | [vt, m, l] => do
    let vt ← match vt with | "L" => some VT.lvalue | "R" => some VT.rvalue | _ => none
    pure ⟨⟨← parseMods m, ← parseLayer l⟩, vt⟩
  | _ => none

def showETy (e : ETy) : String :=
  (match e.vt with | .lvalue => "L" | .rvalue => "R") ++ "/" ++ showMods e.ty.mod ++ "/" ++ showLayer e.ty.layer

def parseParam (s : String) : Option Param :=
  match s.splitOn "/" with
  | [io, m, l] => do
    let io ← match io with
      | "in" => some InputModifier.in | "out" => some .out | "inout" => some .inOut | _ => none
    pure ⟨⟨← parseMods m, ← parseLayer l⟩, io⟩
  | _ => none

def parseCand (s : String) : Option Cand :=
  match s.splitOn ":" with
  | [id, nd, ps] => do
    let ps ← sequenceOpt ((if ps.isEmpty then [] else ps.splitOn ",").map parseParam)
    pure ⟨← id.toNat?, ps, ← nd.toNat?⟩
  | _ => none

def showOutcome : Outcome → String
  | .selected id => "sel " ++ toString id
  | .ambiguous ids => "amb " ++ ",".intercalate (ids.map toString)
  | .unmatched => "none"
  | .panic => "panic"

def convCell (src dst : ETy) : String :=
  match find src dst with
  | .error _ => "panic"
  | .ok none => "err"
  | .ok (some c) =>
    (match getRank c with
     | .error _ => "panic/panic"
     | .ok r => r.num.name ++ "/" ++ r.vec.name) ++ ">" ++
    (match targetType c with
     | .error _ => "panic"
     | .ok t => showETy t)

/-- the optional 4th field (`D`: every candidate is also defined, in reverse order) does not change the
    candidate set, so the model ignores it -/
def handleResolve (cs az : String) : String :=
  match sequenceOpt ((if cs.isEmpty then [] else cs.splitOn ";").map parseCand),
        sequenceOpt ((if az.isEmpty then [] else az.splitOn ",").map parseETy) with
  | some cands, some a =>
    -- the literal transcription answers; `resolve` (what the theorems are about) must agree (Thm.C16.resolveLazy_eq_resolve)
    let o := resolveLazy cands a
    if o == resolve cands a then showOutcome o.normalize else "model-internal-mismatch"

  | _, _ => "bad-request"

def handle (op : String) (args : List String) : String :=
  match op, args with
  | "C16.resolve", [cs, az, _] => handleResolve cs az
  | "C16.resolve", [cs, az] => handleResolve cs az
  | "C16.conv", [src, dsts] =>
    match parseETy src, sequenceOpt ((dsts.splitOn " ").map parseETy) with
    | some s, some ds => " ".intercalate (ds.map (convCell s))
    | _, _ => "bad-request"
  | _, _ => "unsupported-op"

end RsslVerif.Driver.C16

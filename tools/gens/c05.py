"""Gen.MetaTables: what the reflection metadata builders and the annotation printers read, re-extracted from
hlsl/src/ast_generate.rs, msl/src/generator/pipeline.rs, ir/src/export.rs, ast/src/ast_globals.rs,
formatter/src/formatter.rs, src/compile.rs, hlsl/src/names.rs, msl/src/names.rs."""
import re


def register(gen, T):
    @gen("MetaTables")
    def meta_tables():
        from rustsrc import (ExtractError, fn_body, impl_fn_body, first_match, match_arms, enum_variants,
                             lean_str, normws)
        hlsl = T.src("hlsl/src/ast_generate.rs")
        msl = T.src("msl/src/generator/pipeline.rs")
        export = T.src("ir/src/export.rs")
        ir_types = T.src("ir/src/ir_types.rs")
        ast_globals = T.src("ast/src/ast_globals.rs")
        formatter = T.src("formatter/src/formatter.rs")
        compile_rs = T.src("src/compile.rs")
        ir_module = T.src("ir/src/ir_module.rs")
        msl_names = T.src("msl/src/names.rs")
        hlsl_names = T.src("hlsl/src/names.rs")

        kinds = [v for v, _ in enum_variants(ir_types, "ObjectType")]
        descs = [v for v, _ in enum_variants(export, "DescriptorType")]
        out = ["import RsslVerif.Gen.SlotTables\nimport RsslVerif.Gen.CompileTables\n",
               T.header("MetaTables", ["hlsl/src/ast_generate.rs", "msl/src/generator/pipeline.rs", "ir/src/export.rs",
                                       "ast/src/ast_globals.rs", "formatter/src/formatter.rs", "src/compile.rs",
                                       "ir/src/ir_module.rs", "hlsl/src/names.rs", "msl/src/names.rs",
                                       "ir/src/intrinsic_data.rs", "typer/src/typer/pipelines.rs", "typer/src/typer/globals.rs",
                                       "ir/src/simplify_cbuffers.rs", "msl/src/generator.rs", "typer/src/typer/functions.rs"]),
               "open RsslVerif.Gen.SlotTables RsslVerif.Gen.CompileTables\n\n"]
        out.append("/-- `DescriptorType` (ir/src/export.rs) -/\ninductive DescT where\n" + "".join(f"  | {d}\n" for d in descs) +
                   "  deriving DecidableEq, Repr, Inhabited\n\n")
        out.append("def DescT.name : DescT → String\n" + "".join(f"  | .{d} => {lean_str(d)}\n" for d in descs) + "\n")

        def strip_block(r):
            r = r.strip()
            while r.startswith("{") and r.endswith("}"):
                r = r[1:-1].strip()
            return r.rstrip(";").strip()

        def desc_table(body, which, prefix):
            """the `let descriptor_type = match type_layer {..}` table of an analyse_bindings"""
            m = re.search(r'let\s+descriptor_type\s*=\s*', body)
            if not m:
                raise ExtractError(f"{which}: descriptor_type binding not found")
            scrut, arms_text, _ = first_match(body, None, m.end() - 1)
            if scrut != "type_layer":
                raise ExtractError(f"{which}: descriptor_type scrutinee {scrut!r}")
            table, other_obj, non_obj = {}, None, None
            for pats, guard, result in match_arms(arms_text):
                if guard is not None:
                    raise ExtractError(f"{which}: guard in descriptor_type match")
                result = strip_block(result)
                dm = re.fullmatch(r'DescriptorType::([A-Za-z0-9]+)', result)
                for p in pats:
                    km = re.fullmatch(r'ir::TypeLayer::Object\(\s*ir::ObjectType::([A-Za-z0-9]+)(\(_\))?\s*\)', p)
                    if km:
                        if not dm or dm.group(1) not in descs:
                            raise ExtractError(f"{which}: arm {p!r} => {result!r}")
                        if km.group(1) not in kinds:
                            raise ExtractError(f"{which}: unknown ObjectType::{km.group(1)}")
                        table.setdefault(km.group(1), dm.group(1))
                    elif p == "ir::TypeLayer::Object(_)":
                        if result != "return Err(GenerateError::UnsupportedObjectType)":
                            raise ExtractError(f"{which}: other-object arm is {result!r}")
                        other_obj = "none"
                    elif p == "_":
                        if not dm:
                            raise ExtractError(f"{which}: default arm is {result!r}")
                        non_obj = dm.group(1)
                    else:
                        raise ExtractError(f"{which}: pattern {p!r} unsupported")
            if other_obj is None or non_obj is None:
                raise ExtractError(f"{which}: missing catch-all arms")
            s = [f"/-- `{which}`: peeled object kind ↦ descriptor type; `none` = Err(UnsupportedObjectType) -/\n",
                 f"def {prefix}DescType : ObjKind → Option DescT\n"]
            for k in kinds:
                s.append(f"  | .{k} => " + (f"some .{table[k]}" if k in table else "none") + "\n")
            s.append(f"\n/-- `{which}`: descriptor type of a global whose peeled type is not an object -/\n"
                     f"def {prefix}NonObjectDescType : DescT := .{non_obj}\n\n")
            return "".join(s)

        hb = fn_body(hlsl, "analyse_bindings")
        mb = fn_body(msl, "analyse_bindings")
        out.append(desc_table(hb, "hlsl analyse_bindings", "hlsl"))
        out.append(desc_table(mb, "msl analyse_bindings", "msl"))

        # facts about the DescriptorBinding literals (normalised source text)
        def binding_literals(body, which):
            lits = []
            for m in re.finditer(r'DescriptorBinding\s*\{', body):
                i = m.end() - 1
                from rustsrc import matching
                j = matching(body, i)
                fields = {}
                from rustsrc import split_top
                for part in split_top(body[i + 1:j], ','):
                    part = part.strip()
                    if not part:
                        continue
                    if ':' in part:
                        k, v = part.split(':', 1)
                        fields[k.strip()] = normws(v)
                    else:
                        fields[part] = part   # field init shorthand
                lits.append(fields)
            if not lits:
                raise ExtractError(f"{which}: no DescriptorBinding literal")
            return lits

        hl = binding_literals(hb, "hlsl")
        ml = binding_literals(mb, "msl")
        if len(hl) != 2 or len(ml) != 1:
            raise ExtractError(f"DescriptorBinding literals: hlsl {len(hl)}, msl {len(ml)}")
        want_fields = {"name", "api_binding", "descriptor_type", "descriptor_count", "is_bindless", "is_used", "static_sampler"}
        for l in hl + ml:
            if set(l) != want_fields:
                raise ExtractError(f"DescriptorBinding fields {sorted(l)}")
        cb, gl = hl[0], hl[1]
        nhb, nmb = normws(hb), normws(mb)

        def b(x):
            return "true" if x else "false"

        out.append("/-- how each field of the HLSL cbuffer entry / global entry / MSL global entry is filled -/\n"
                   "structure EntryFacts where\n  locationIsApiSlotLocation : Bool\n  groupIsApiSlotSet : Bool\n"
                   "  onlyWhenApiSlotIsSome : Bool\n  isUsedLiteralTrue : Bool\n  bindlessFromDecl : Bool\n"
                   "  bindlessLiteralFalse : Bool\n  staticSamplerFromDecl : Bool\n  staticSamplerNone : Bool\n"
                   "  countLiteralOne : Bool\n  countIsArrayLenOrOne : Bool\n  deriving DecidableEq, Repr\n\n")

        def facts(name, lit, nbody, slot_var, guard_rx, register_rx):
            count_var = lit["descriptor_count"] == "descriptor_count"
            count_rule = bool(re.search(
                r'let \(unmodified_id, descriptor_count\) = if let ir::TypeLayer::Array\(inner, len\) = [a-z_\.]*module\.type_registry\.get_type_layer\(unmodified_id\) '
                r'\{ let unmodified_id = [a-z_\.]*module\.type_registry\.remove_modifier\(inner\); let len = len\.map\(\|v\| v as u32\); \(unmodified_id, len\) \} '
                r'else \{ \(unmodified_id, Some\(1\)\) \};', nbody))
            vals = {
                "locationIsApiSlotLocation": lit["api_binding"] == f"{slot_var}.location",
                "groupIsApiSlotSet": bool(re.search(register_rx, nbody)),
                "onlyWhenApiSlotIsSome": bool(re.search(guard_rx, nbody)),
                "isUsedLiteralTrue": lit["is_used"] == "true",
                "bindlessFromDecl": lit["is_bindless"] == "decl.is_bindless",
                "bindlessLiteralFalse": lit["is_bindless"] == "false",
                "staticSamplerFromDecl": lit["static_sampler"] == "decl.static_sampler.clone().map(Box::new)",
                "staticSamplerNone": lit["static_sampler"] == "None",
                "countLiteralOne": lit["descriptor_count"] == "Some(1)",
                "countIsArrayLenOrOne": count_var and count_rule,
            }
            return (f"def {name} : EntryFacts := {{ " + ", ".join(f"{k} := {b(v)}" for k, v in vals.items()) + " }\n")

        out.append(facts("hlslCbufferEntry", cb, nhb, "api_slot", r'if let Some\(api_slot\) = cb\.api_binding \{',
                         r'context\.register_binding\(api_slot\.set, binding\)'))
        out.append(facts("hlslGlobalEntry", gl, nhb, "api_slot", r'if let Some\(api_slot\) = decl\.api_slot \{',
                         r'context\.register_binding\(api_slot\.set, binding\)'))
        out.append(facts("mslGlobalEntry", ml[0], nmb, "api_slot", r'if let Some\(api_slot\) = decl\.api_slot \{',
                         r'layout\.register_binding\(api_slot\.set, binding, \*id\)'))
        out.append(f"def hlslCbufferDescType : Option DescT := "
                   + (f"some .{cb['descriptor_type'].split('::')[1]}" if cb['descriptor_type'].startswith('DescriptorType::') else "none") + "\n")
        rej = re.search(r'ir::RootDefinition::ConstantBuffer\(_\) => \{ return Err\(GenerateError::ConstantBuffersNotSimplified\); \}', nmb)
        out.append(f"def mslRejectsCbufferRoot : Bool := {b(rej)}\n")
        out.append(f"def hlslNameIsGeneratedName : Bool := {b(gl['name'] == 'context.get_global_name(*id)?.to_string()' and cb['name'] == 'context.get_constant_buffer_name(*id)?.to_string()')}\n")
        out.append(f"def mslNameIsGeneratedName : Bool := {b(ml[0]['name'] == 'context.get_global_name(*id)?.to_string()')}\n")
        big = re.search(r'if let Some\(api_slot\) = decl\.api_slot \{ let binding = DescriptorBinding \{.*?\}; '
                        r'if api_slot\.set as usize >= ARGUMENT_BUFFER_NAMES\.len\(\) \{ return Err\(GenerateError::UnsupportedBindGroupIndex\(api_slot\.set\)\); \} '
                        r'layout\.register_binding\(api_slot\.set, binding, \*id\); \}', nmb)
        out.append(f"/-- msl analyse_bindings refuses a bind group that has no argument buffer struct name -/\n"
                   f"def mslRejectsGroupWithoutArgumentBuffer : Bool := {b(big)}\n\n")

        # usage analysis (ir/src/usage_analysis.rs): what every symbol requires directly, and the closure loop
        usage = T.src("ir/src/usage_analysis.rs")
        cl = normws(fn_body(usage, "calculate_local"))
        rc = normws(fn_body(usage, "recurse"))
        cf = normws(fn_body(usage, "calculate_for_function"))
        ufacts = {
            "functionsRequireBodyAndDefaults": (cf, r'if let Some\(def\) = def \{ for param in &def\.params \{ if let Some\(default_expr\) = &param\.default_expr \{ gather_usage_for_expression\(default_expr, &mut usage\); \} \} gather_usage_for_scope_block\(&def\.scope_block, &mut usage\); \}'),
            "globalsRequireTheirInitializer": (cl, r'let mut usage = LocalUsageAnalysis::default\(\); gather_usage_for_init_opt\(&module\.global_registry\[i\]\.init, &mut usage\); let valid_insert = result \.insert\(UsageSymbol::GlobalVariable\(id\), usage\)'),
            "cbuffersRequireNothing": (cl, r'let usage = LocalUsageAnalysis::default\(\); let valid_insert = result \.insert\(UsageSymbol::ConstantBuffer\(id\), usage\)'),
            "closureLoopShape": (rc, r'let keys = self\.0\.keys\(\)\.cloned\(\)\.collect::<Vec<_>>\(\); loop \{ let mut modified = false; for key in &keys \{ '
                                     r'let current_set = self\.0\.get\(key\)\.unwrap\(\); let mut new_set = current_set\.required\.clone\(\); '
                                     r'for other in &current_set\.required \{ new_set\.extend\(&self\.0\.get\(other\)\.unwrap\(\)\.required\); \} '
                                     r'if new_set\.len\(\) > current_set\.required\.len\(\) \{ let stored_analysis = self\.0\.get_mut\(key\)\.unwrap\(\); '
                                     r'stored_analysis\.required = new_set; modified = true; \} \} if !modified \{ break; \} \} self$'),
        }
        out.append("/-- syntactic facts about GlobalUsageAnalysis (regexes over the normalised source) -/\nstructure UsageFacts where\n"
                   + "".join(f"  {k} : Bool\n" for k in ufacts) + "  deriving DecidableEq, Repr\n\n")
        out.append("def usageFacts : UsageFacts := { " +
                   ", ".join(f"{k} := {b(re.search(rx, text))}" for k, (text, rx) in ufacts.items()) + " }\n\n")

        # generate_pipeline (msl): used marking, sort, id / buffer attributes
        gp = normws(fn_body(msl, "generate_pipeline"))
        gp_facts = {
            "usedIsMembershipInStageGlobals": r'argument\.metadata\.is_used = all_used_globals\.contains\(&ImplicitFunctionParameter::Global\(argument\.id\)\);',
            "stageGlobalsAreRequiredGlobalsOfEntries": r'if let Some\(def\) = def \{ for stage in &def\.stages \{ let stage_used_globals = context \.function_required_globals \.get\(&stage\.entry_point\) \.unwrap\(\); all_used_globals\.extend_from_slice\(stage_used_globals\); \} \}',
            "membersSortedByIndex": r'argument_buffer\.0\.sort_by\(\|lhs, rhs\| \{ let index_lhs = match lhs\.metadata\.api_binding \{ ApiLocation::Index\(i\) => i, ApiLocation::InlineConstant\(_\) => panic!\(\), \}; let index_rhs = match rhs\.metadata\.api_binding \{ ApiLocation::Index\(i\) => i, ApiLocation::InlineConstant\(_\) => panic!\(\), \}; std::cmp::Ord::cmp\(&index_lhs, &index_rhs\) \}\);',
            "idAttributeIsIndex": r'name: Vec::from\(\[Located::none\(String::from\("id"\)\)\]\), arguments: Vec::from\(\[Located::none\(ast::Expression::Literal\( ast::Literal::IntUntyped\(index as u64\), \)\)\]\)',
            "bufferAttributeIsGroup": r'ast::ScopedIdentifier::trivial\(&format!\("set\{\}", i\)\), Vec::from\(\[ast::Attribute \{ name: Vec::from\(\[Located::none\(String::from\("buffer"\)\)\]\), arguments: Vec::from\(\[Located::none\(ast::Expression::Literal\( ast::Literal::IntUntyped\(i as u64\), \)\)\]\)',
            "structNameByGroup": r'let struct_name = ARGUMENT_BUFFER_NAMES\[i\];',
            "finishKeepsOrder": r'let desc = binding_layout\.finish\(\); Ok\(\(defs, desc\)\)',
            # since fix "an entry point that uses a global without a binding slot is an error on Metal": every extern global a
            # stage entry point requires (static samplers are remapped to Static) is passed as `set<i>.<name>`; one that is in
            # no argument buffer is refused
            "unboundGlobalRefused": r'ImplicitFunctionParameter::Global\(ref gid\) => \{ let var = &context\.module\.global_registry\[gid\.0 as usize\]; '
                                    r'let remapped_class = match var\.storage_class \{ ir::GlobalStorage::Extern if var\.static_sampler\.is_some\(\) => \{ ir::GlobalStorage::Static \} v => v, \}; '
                                    r'match remapped_class \{ ir::GlobalStorage::Extern => \{ match context\.global_variable_modes\.get\(gid\)\.unwrap\(\) \{ GlobalMode::Parameter \{ \.\. \} => \{ '
                                    r'let set_index = match global_to_set_index\.get\(gid\) \{ Some\(set_index\) => set_index, None => return Err\(GenerateError::UnboundGlobal\), \};',
            "setIndexMapFromArgumentBuffers": r'let mut global_to_set_index = HashMap::new\(\); for \(i, argument_buffer\) in &mut binding_layout\.0\.iter\(\)\.enumerate\(\) \{ for argument in &argument_buffer\.0 \{ global_to_set_index\.insert\(argument\.id, i\); \} \}',
            "stageArgumentsFromRequiredGlobals": r'let parameters_for_globals = context \.function_required_globals \.get\(&stage\.entry_point\) \.unwrap\(\) \.clone\(\); for param in parameters_for_globals \{ match param \{',
        }
        out.append("/-- syntactic facts about msl generate_pipeline (regexes over the normalised source) -/\nstructure MslPipelineFacts where\n"
                   + "".join(f"  {k} : Bool\n" for k in gp_facts) + "  deriving DecidableEq, Repr\n\n")
        out.append("def mslPipelineFacts : MslPipelineFacts := { " +
                   ", ".join(f"{k} := {b(re.search(rx, gp))}" for k, rx in gp_facts.items()) + " }\n\n")
        names = re.search(r'ARGUMENT_BUFFER_NAMES: &\[&str\] = &\[([^\]]*)\]', normws(msl))
        if not names:
            raise ExtractError("ARGUMENT_BUFFER_NAMES not found")
        consts = [c.strip() for c in names.group(1).split(',') if c.strip()]
        vals = []
        for c in consts:
            cm = re.search(r'pub const ' + re.escape(c) + r': &str = "([^"]*)";', msl_names)
            if not cm:
                raise ExtractError(f"msl names: {c} not found")
            vals.append(cm.group(1))
        out.append("/-- struct name of the argument buffer of group i; a group beyond the table makes the generator panic -/\n"
                   "def argumentBufferNames : List String := " + T.lean_list(lean_str(v) for v in vals) + "\n\n")

        # name of the generated entry function per stage (msl generate_pipeline) -- compile.rs has its own copy
        gp_raw = fn_body(msl, "generate_pipeline")
        m = re.search(r'let\s+entry_point_name\s*=\s*', gp_raw)
        if not m:
            raise ExtractError("msl generate_pipeline: entry_point_name not found")
        scrut, arms_text, _ = first_match(gp_raw, None, m.end() - 1)
        if scrut != "stage.stage":
            raise ExtractError(f"entry_point_name scrutinee {scrut!r}")
        emitted = {}
        for pats, guard, result in match_arms(arms_text):
            cm = re.search(r'pub const ' + re.escape(result) + r': &str = "([^"]*)";', msl_names)
            if guard is not None or not cm:
                raise ExtractError(f"entry_point_name arm {pats} => {result!r}")
            for p in pats:
                pm = re.fullmatch(r'ir::ShaderStage::([A-Za-z]+)', p)
                if not pm:
                    raise ExtractError(f"entry_point_name pattern {p!r}")
                emitted[pm.group(1)] = cm.group(1)
        if set(emitted) != {"Vertex", "Task", "Mesh", "Pixel", "Compute"}:
            raise ExtractError(f"entry_point_name covers {sorted(emitted)}")
        out.append("/-- name of the entry function msl generate_pipeline emits for a stage -/\ndef mslEmittedEntryName : Stage → String\n"
                   + "".join(f"  | .{k} => {lean_str(v)}\n" for k, v in sorted(emitted.items())) + "\n")

        # register letters (ast RegisterType Display) and the formatter's register syntax
        disp = impl_fn_body(ast_globals, r'std::fmt::Display\s+for\s+RegisterType', "fmt")
        _, arms_text, _ = first_match(disp, r'^self$')
        letters = {}
        for pats, guard, result in match_arms(arms_text):
            wm = re.fullmatch(r'write!\(f, "([a-z])"\)', result)
            for p in pats:
                pm = re.fullmatch(r'RegisterType::([TUSB])', p)
                if not pm or not wm:
                    raise ExtractError(f"RegisterType Display arm {p!r} => {result!r}")
                letters[pm.group(1)] = wm.group(1)
        if set(letters) != set("TUSB"):
            raise ExtractError(f"RegisterType Display covers {sorted(letters)}")
        out.append("def regLetter : RegT → Char\n" + "".join(f"  | .{k} => '{v}'\n" for k, v in sorted(letters.items())) + "\n")
        fr = normws(fn_body(formatter, "format_register_annotation"))
        reg_shape = re.search(
            r'if let Some\(slot\) = &slot \{ output\.push_str\("( : register\()"\); if let Some\(register_slot\) = &slot\.slot \{ '
            r'write!\(output, "\{\}\{\}", register_slot\.slot_type, register_slot\.index\)\.unwrap\(\) \} '
            r'if slot\.slot\.is_some\(\) && slot\.space\.is_some\(\) \{ output\.push_str\("(, )"\); \} '
            r'if let Some\(space\) = slot\.space \{ write!\(output, "(space)\{space\}"\)\.unwrap\(\); \} output\.push\(\'(\))\'\); \}', fr)
        if not reg_shape:
            raise ExtractError("format_register_annotation no longer has the modelled shape")
        out.append(f"def regOpen : String := {lean_str(reg_shape.group(1))}\ndef regSep : String := {lean_str(reg_shape.group(2))}\n"
                   f"def regSpace : String := {lean_str(reg_shape.group(3))}\ndef regClose : String := {lean_str(reg_shape.group(4))}\n\n")
        fa = normws(fn_body(formatter, "format_attribute"))
        attr_shape = all(re.search(rx, fa) for rx in [
            r"output\.push\('\['\); if attr\.two_square_brackets \{ output\.push\('\['\); \}",
            r'for name in main \{ output\.push_str\(name\); output\.push_str\("::"\); \} output\.push_str\(last\);',
            # since fix "parenthesise comma expressions in default arguments and other lists" the arguments are printed at
            # comma-list precedence (17): only a comma expression gets parentheses
            r"output\.push\('\('\); for expr in main \{ format_subexpression\(expr, 17, OperatorSide::CommaList, output, context\)\?; output\.push_str\(\", \"\); \} format_subexpression\(last, 17, OperatorSide::CommaList, output, context\)\?; output\.push\('\)'\);",
            r"if attr\.two_square_brackets \{ output\.push\('\]'\); \} output\.push\('\]'\);"])
        out.append(f"/-- format_attribute prints `[[a::b(x, y)]]` -/\ndef attributeShapeAsModelled : Bool := {b(attr_shape)}\n\n")
        # the arguments of the binding attributes are `Literal::IntUntyped(u64)` (facts vkBindingNameAndArgs, inlineMemberIsVkOffset,
        # idAttributeIsIndex, bufferAttributeIsGroup): precedence 0 < 17, so format_subexpression prints the bare literal
        fs = normws(fn_body(formatter, "format_subexpression"))
        gp_prec = normws(fn_body(formatter, "get_expression_precedence"))
        catch_all = "ast::Expression::Literal(_) | ast::Expression::Identifier(_) => 0,"
        head = gp_prec[:gp_prec.find(catch_all)] if catch_all in gp_prec else None
        bare_literal = (bool(re.search(r'let prec = get_expression_precedence\(expr\)\?; let requires_paren = match prec\.cmp\(&outer_precedence\) \{ '
                                       r'std::cmp::Ordering::Greater => true, std::cmp::Ordering::Less => false,', fs))
                        and bool(re.search(r"if requires_paren \{ output\.push\('\('\) \} match expr \{ ast::Expression::Literal\(lit\) => format_literal\(lit, output, context\)\?,", fs))
                        # the arms before the catch-all `Literal(_) => 0` (negative signed / float literals) do not name IntUntyped
                        and head is not None and head.startswith("let prec = match expr {") and "IntUntyped" not in head
                        and "Literal(_)" not in head and "_ =>" not in head)
        out.append(f"/-- an untyped integer literal as attribute argument is printed without parentheses (precedence 0 below the\n"
                   f"    comma-list precedence 17 of format_subexpression) -/\ndef attributeArgumentLiteralsBare : Bool := {b(bare_literal)}\n\n")

        # generate_register_annotation / generate_vk_binding_annotation / inline constant buffers (hlsl)
        gr = normws(fn_body(hlsl, "generate_register_annotation"))
        gv = normws(fn_body(hlsl, "generate_vk_binding_annotation"))
        gi = normws(fn_body(hlsl, "generate_inline_constant_buffers"))
        gg = normws(fn_body(hlsl, "generate_global_variable"))
        gc = normws(fn_body(hlsl, "generate_constant_buffer"))
        am = normws(fn_body(ir_module, "assign_api_bindings"))
        hfacts = {
            "registerUsesSlotTypeAndIndex": (gr, r'Ok\(Some\(ast::Register \{ slot: Some\(ast::RegisterSlot \{ slot_type, index \}\), space: if slot\.set != 0 \{ Some\(slot\.set\) \} else \{ None \}, \}\)\)'),
            "registerPanicsWithoutSlotType": (gr, r'None => panic!\("HLSL generator requires register types in api binding metadata"\)'),
            "registerPanicsOnInline": (gr, r'ApiLocation::InlineConstant\(_\) => \{ panic!\('),
            "vkBindingNameAndArgs": (gv, r'Located::none\("vk"\.to_string\(\)\), Located::none\("binding"\.to_string\(\)\), \]\);.*let arguments = if slot\.set != 0 \{ Vec::from\(\[index, set_index\]\) \} else \{ Vec::from\(\[index\]\) \};'),
            "vkBindingAssertsNoSlotType": (gv, r'assert_eq!\(slot\.slot_type, None\);'),
            "vkBindingPanicsOnInline": (gv, r'ApiLocation::InlineConstant\(_\) => \{ panic!\('),
            "globalVkOnlyExtern": (gg, r'let is_extern = decl\.storage_class == ir::GlobalStorage::Extern; if is_extern && context\.module\.flags\.requires_vk_binding \{ append_vk_binding_annotation\(&decl\.api_slot, &mut attributes\)\?; \}'),
            "globalRegisterOnlyExternNonVk": (gg, r'let slot = if is_extern && !context\.module\.flags\.requires_vk_binding \{ generate_register_annotation\(&decl\.api_slot\)\? \} else \{ None \};'),
            "globalInlineInitFromDescriptor": (gg, r'let global_name = ast::ScopedIdentifier::trivial\(&format!\("g_inlineDescriptor\{set\}"\)\);'),
            "cbufferVkIfRequired": (gc, r'let binding_attribute = if context\.module\.flags\.requires_vk_binding \{ generate_vk_binding_annotation\(&decl\.api_binding\)\? \} else \{ None \};'),
            "cbufferRegisterIfNotVk": (gc, r'let register = if !context\.module\.flags\.requires_vk_binding \{ generate_register_annotation\(&decl\.api_binding\)\? \} else \{ None \};'),
            "requiresVkBindingRule": (am, r'self\.flags\.requires_vk_binding = !params\.require_slot_type \|\| params\.support_buffer_address;'),
            "inlineGlobalBecomesStatic": (am, r'assert_eq!\(decl\.storage_class, GlobalStorage::Extern\); decl\.storage_class = GlobalStorage::Static;'),
            "inlineMembersFromGroupBindings": (gi, r'for binding in &bind_group\.bindings \{ if let ApiLocation::InlineConstant\(offset\) = binding\.api_binding \{ assert!\(offset \+ 8 <= buffer\.size_in_bytes\);'),
            "inlineMemberIsVkOffset": (gi, r'ty: ast::Type::trivial\("uint64_t"\),.*Located::none\("vk"\.to_string\(\)\), Located::none\("offset"\.to_string\(\)\), \]\), arguments: Vec::from\(\[Located::none\(ast::Expression::Literal\( ast::Literal::IntUntyped\(offset as u64\), \)\)\]\)'),
            "inlineSizeAsserted": (gi, r'assert_eq!\(buffer\.size_in_bytes, found_size\);'),
            "inlineStructAndGlobalNames": (gi, r'let struct_name = format!\("InlineDescriptor\{\}", buffer\.set\);.*ast::ScopedIdentifier::trivial\(&format!\("g_inlineDescriptor\{\}", buffer\.set\)\)'),
            "inlineGlobalVkBindingAtApiLocation": (gi, r'generate_vk_binding_annotation\(&Some\(ir::ApiBinding \{ set: buffer\.set, location: ApiLocation::Index\(buffer\.api_location\), slot_type: None, \}\)\)\?'),
            "inlineMetadataCopied": (gi, r'bind_group\.inline_constants = Some\(InlineConstantBuffer \{ api_location: buffer\.api_location, size_in_bytes: buffer\.size_in_bytes, \}\);'),
        }
        out.append("/-- syntactic facts about the HLSL annotation generators (regexes over the normalised source) -/\nstructure HlslAnnotFacts where\n"
                   + "".join(f"  {k} : Bool\n" for k in hfacts) + "  deriving DecidableEq, Repr\n\n")
        out.append("def hlslAnnotFacts : HlslAnnotFacts := { " +
                   ", ".join(f"{k} := {b(re.search(rx, text))}" for k, (text, rx) in hfacts.items()) + " }\n\n")

        # build_pipeline: stage records
        bp = normws(fn_body(compile_rs, "build_pipeline"))
        n_tgs = len(re.findall(r'thread_group_size: stage\.thread_group_size,', bp))
        n_stage = len(re.findall(r'stages\.push\(CompiledPipelineStage \{ stage: stage\.stage,', bp))
        out.append(f"/-- both arms of build_pipeline copy stage kind and thread group size from the pipeline definition -/\n"
                   f"def stagesCopyKindAndThreadGroupSize : Bool := {b(n_tgs == 2 and n_stage == 2)}\n")
        n_meta = len(re.findall(r'metadata: exported_source\.pipeline_description,', bp))
        out.append(f"def metadataIsExportersDescription : Bool := {b(n_meta == 2)}\n\n")

        def reserved(text, which):
            m = re.search(r'pub const RESERVED_NAMES: &\[&str\] = &\[', text)
            if not m:
                raise ExtractError(f"{which}: RESERVED_NAMES not found")
            from rustsrc import matching
            i = m.end() - 1
            j = matching(text, i)
            names = re.findall(r'"([^"\\]*)"', text[i:j])
            if not names:
                raise ExtractError(f"{which}: RESERVED_NAMES empty")
            return names

        # free intrinsic functions: they live in the function registry next to the user's functions, so `add_stage`
        # (which looks an entry point up by name among *all* functions) sees them too
        intr = T.src("ir/src/intrinsic_data.rs")
        im = re.search(r'const INTRINSICS: &\[IntrinsicDefinition\] = &\[', intr)
        if not im:
            raise ExtractError("intrinsic_data.rs: INTRINSICS not found")
        from rustsrc import matching
        ii = im.end() - 1
        ij = matching(intr, ii)
        inames = []
        for mm in re.finditer(r'f!\s*\{\s*[A-Za-z0-9_<>]+\s+([A-Za-z_][A-Za-z0-9_]*)\s*\(', intr[ii:ij]):
            if mm.group(1) not in inames:
                inames.append(mm.group(1))
        if len(inames) < 50:
            raise ExtractError(f"intrinsic_data.rs: only {len(inames)} intrinsic function names found")
        reg_all = bool(re.search(r'for id in context\.module\.function_registry\.iter\(\) \{ let name = context\.module\.function_registry\.get_function_name\(id\); '
                                 r'if name == entry_name \{ if func_id\.is_some\(\) \{ return Err\(TyperError::PipelineEntryPointFunctionUnknown\(location\)\); \} func_id = Some\(id\); \} \}',
                                 normws(fn_body(T.src("typer/src/typer/pipelines.rs"), "add_stage"))))
        out.append("/-- names of the free intrinsic functions (ir/src/intrinsic_data.rs INTRINSICS) -/\n"
                   "def intrinsicFunctionNames : List String := " + T.lean_list(lean_str(n) for n in inames) + "\n\n")
        out.append(f"/-- add_stage finds the entry function by name among all functions of the registry and refuses a second match -/\n"
                   f"def entryLookupIsByNameAmongAllFunctions : Bool := {b(reg_all)}\n\n")
        # ---- the pipeline front end (typer/src/typer/pipelines.rs) and the places names come from
        pp = normws(fn_body(T.src("typer/src/typer/pipelines.rs"), "parse_pipeline"))
        ast_ = normws(fn_body(T.src("typer/src/typer/pipelines.rs"), "add_stage"))
        gl = normws(T.src("typer/src/typer/globals.rs"))
        hl_all = normws(hlsl)
        simp_cb = normws(T.src("ir/src/simplify_cbuffers.rs"))
        hl_fn = normws(T.src("hlsl/src/ast_generate.rs"))
        msl_gen = normws(T.src("msl/src/generator.rs"))

        def order(text, *needles):
            pos = [text.find(n) for n in needles]
            return all(p >= 0 for p in pos) and pos == sorted(pos)

        stage_arms = all(re.search(r'"%sShader" => add_stage\( &property\.value, ir::ShaderStage::%s, context, &mut pipeline, \)\?,' % (k, k), pp)
                         for k in ["Vertex", "Pixel", "Compute", "Task", "Mesh"])
        ffacts = {
            "stagePropertiesBecomeStagesInSourceOrder": stage_arms and bool(re.search(r'for property in &def\.properties \{ match property\.property\.as_str\(\) \{ "VertexShader"', pp)),
            "checksInModelledOrder": order(pp, "PipelineAlreadyDefined", "PipelinePropertyDuplicate", '"VertexShader" =>', "PipelineNoEntryPoint",
                                           "PipelineInvalidStageCombination", "PipelinePropertyRequiresGraphicsPipeline"),
            "computeStandsAlone": bool(re.search(r'let is_compute = pipeline\.stages\[0\]\.stage == ir::ShaderStage::Compute; if is_compute \{ if pipeline\.stages\.len\(\) != 1 \{ return Err\(TyperError::PipelineInvalidStageCombination\( pipeline\.name\.location, \)\); \} \} else \{ for stage in &pipeline\.stages \{ if stage\.stage == ir::ShaderStage::Compute \{ return Err\(TyperError::PipelineInvalidStageCombination\(', pp)),
            "fourGraphicsOnlyPropertyGroups": len(re.findall(r'if is_compute \{ return Err\(TyperError::PipelinePropertyRequiresGraphicsPipeline\(', pp)) == 4
                                              and not re.search(r'"BlendState" => \{ if is_compute', pp),
            "graphicsStateOnlyForNonCompute": bool(re.search(r'if !is_compute \{ pipeline\.graphics_pipeline_state = Some\(gpo\); \}', pp)),
            "defaultBindGroupProperty": bool(re.search(r'"DefaultBindGroup" => \{ let value = extract_uint32\(&property\.value, context\)\?; pipeline\.default_bind_group_index = value; \}', pp))
                                        and bool(re.search(r'default_bind_group_index: 0,', pp)),
            "entryMustHaveBodyAndBeNoTemplate": bool(re.search(r'let is_template = !context \.module \.function_registry \.get_function_signature\(func_id\) \.template_params \.is_empty\(\); if is_template \{ return Err\(TyperError::PipelineEntryPointFunctionUnknown\(location\)\); \}', ast_))
                                                and bool(re.search(r'\.get_function_implementation\(func_id\) \{ Some\(function_impl\) => function_impl, None => return Err\(TyperError::PipelineEntryPointFunctionUnknown\(location\)\), \};', ast_)),
            "lastNumThreadsAttributeWins": bool(re.search(r'for attribute in &function_impl\.attributes\.clone\(\) \{ if let ir::FunctionAttribute::NumThreads\(x, y, z\) = attribute \{', ast_))
                                           and bool(re.search(r'thread_group_size = Some\(\(x, y, z\)\); \} \} def\.stages\.push\(ir::PipelineStage \{ stage, entry_point: func_id, thread_group_size, \}\);', ast_))
                                           and "break" not in ast_,
            # since fix "a function attribute can be given only once": the second attribute of a kind is refused
            "functionAttributeKindGivenOnce": bool(re.search(
                r'let mut ir_attributes = Vec::<ir::FunctionAttribute>::new\(\); for ast_attribute in ast_attributes \{ let ir_attribute = parse_function_attribute\(ast_attribute, context\)\?; '
                r'if ir_attributes \.iter\(\) \.any\(\|prev\| std::mem::discriminant\(prev\) == std::mem::discriminant\(&ir_attribute\)\) \{ let name = ast_attribute\.name\.last\(\)\.unwrap\(\); '
                r'return Err\(TyperError::FunctionAttributeDuplicate\( name\.node\.clone\(\), name\.location, \)\); \} ir_attributes\.push\(ir_attribute\); \} Ok\(ir_attributes\)$',
                normws(fn_body(T.src("typer/src/typer/functions.rs"), "parse_function_attributes")))),
            "staticSamplerWithIndexRefused": bool(re.search(r'if gv_ir\.static_sampler\.is_some\(\) && gv_ir\.lang_slot\.index\.is_some\(\) \{ return Err\(TyperError::StaticSamplerUnexpectedBindingIndex\(', gl)),
            "vkBindingAlwaysSetsTheIndex": len(re.findall(r'result\.binding_index_override = Some\(binding_index\);', gl)) == 2,
            "hlslCbufferNameIsSourceName": bool(re.search(r'fn get_constant_buffer_name\(&self, id: ir::ConstantBufferId\) -> Result<&str, GenerateError> \{ match self\.module\.cbuffer_registry\.get\(id\.0 as usize\) \{ Some\(cd\) => Ok\(cd\.name\.as_str\(\)\),', hl_fn)),
            "hlslGlobalAndFunctionNamesFromNameMap": bool(re.search(r'Ok\(self\.name_map\.get_name_leaf\(NameSymbol::GlobalVariable\(id\)\)\)', hl_fn))
                                                     and bool(re.search(r'fn get_function_name\(&self, id: ir::FunctionId\) -> Result<&str, GenerateError> \{ Ok\(self\.name_map\.get_name_leaf\(NameSymbol::Function\(id\)\)\) \}', hl_fn)),
            "mslCbufferBecomesGlobalAndTypeStruct": bool(re.search(r'name: Located::none\(format!\("\{\}Type", cbuffer\.name\.node\)\), namespace: cbuffer\.namespace,', simp_cb))
                                                    and bool(re.search(r'module\.global_registry\.push\(GlobalVariable \{ name: cbuffer\.name, namespace: cbuffer\.namespace,', simp_cb)),
            "hlslPrintsEveryNumThreadsAttribute": bool(re.search(r'ir::FunctionAttribute::NumThreads\(x, y, z\) => \{ let x = generate_expression\(x, context\)\?; let y = generate_expression\(y, context\)\?; let z = generate_expression\(z, context\)\?; ast::Attribute \{ name: Vec::from\(\[Located::none\("numthreads"\.to_string\(\)\)\]\), arguments: Vec::from\(\[Located::none\(x\), Located::none\(y\), Located::none\(z\)\]\),', hl_fn)),
            "mslPrintsTheProductPerAttributeOnTheEntry": bool(re.search(r'ir::FunctionAttribute::NumThreads\(x, y, z\) => \{ if entry_point \{ .*?ast::BinOp::Multiply, Box::new\(Located::none\(ast::Expression::BinaryOperation\( ast::BinOp::Multiply, Box::new\(Located::none\(x\)\), Box::new\(Located::none\(y\)\), \)\)\), Box::new\(Located::none\(z\)\), \); Some\(ast::Attribute \{ name: Vec::from\(\[Located::none\( "max_total_threads_per_threadgroup"\.to_string\(\), \)\]\),', msl_gen))
                                                         and bool(re.search(r'for attribute in &context \.module \.function_registry \.get_function_implementation\(stage\.entry_point\) \.as_ref\(\) \.unwrap\(\) \.attributes \{ if let Some\(attr\) = super::generate_function_attribute\(attribute, true, context\)\? \{ attributes\.push\(attr\); \} \}', gp)),
            "nameMapsBuiltFromReservedNames": bool(re.search(r'NameMap::build\(module, RESERVED_NAMES, true\)', hl_fn)) and bool(re.search(r'NameMap::build\(module, RESERVED_NAMES, false\)', msl_gen)),
        }
        out.append("/-- syntactic facts about parse_pipeline / add_stage and about where reported names come from -/\nstructure FrontFacts where\n"
                   + "".join(f"  {k} : Bool\n" for k in ffacts) + "  deriving DecidableEq, Repr\n\n")
        out.append("def frontFacts : FrontFacts := { " + ", ".join(f"{k} := {b(v)}" for k, v in ffacts.items()) + " }\n\n")
        out.append("def hlslReserved : List String := " + T.lean_list(lean_str(n) for n in reserved(hlsl_names, "hlsl")) + "\n\n")
        out.append("def mslReserved : List String := " + T.lean_list(lean_str(n) for n in reserved(msl_names, "msl")) + "\n")
        out.append(T.footer("MetaTables"))
        return "".join(out)

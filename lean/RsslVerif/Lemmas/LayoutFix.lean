import RsslVerif.Lemmas.Layout
/-!
# C19: a candidate minimal fix of `layout_checker.rs`, modelled and proved sound at full strength

`getFix` is `get` with one more statement at the end of the `Struct` arm
(`layout.size = layout.size.next_multiple_of(layout.align)`, the op `.roundSizeToAlign` of the
translator's vocabulary).  `matchFix` is the recursive comparison the fixed `check_layout` has to make:
member offsets (computed with the two cursors) and array strides are compared at every level.
`fix_sound` is the property's statement without any side condition on the type.
Nothing here is linked into `rsslmodel`; it documents and checks the proposed repair (notes/C19.md).
-/
namespace RsslVerif.Lemmas.LayoutFix
open RsslVerif.Gen.LayoutTables RsslVerif.Model.Layout RsslVerif.Spec.Layout RsslVerif.Lemmas.Layout

mutual
def getFix (m : Mode) : Ty → Except Err Layout
  | .scalar s => scalarLayout s
  | .vec s n =>
    match scalarLayout s with
    | .error e => .error e
    | .ok l => runLay (vectorOps m) ⟨l, n, l, 0⟩
  | .arr t n =>
    match getFix m t with
    | .error e => .error e
    | .ok l => runLay (arrayOps m) ⟨l, 0, l, n⟩
  | .struct ms =>
    match getMembersFix m ms ⟨structInit.1, structInit.2⟩ with
    | .error e => .error e
    | .ok l =>
      -- the added statement
      match nextMultipleOf l.size l.align with
      | .error e => .error e
      | .ok z => .ok ⟨z, l.align⟩
  | .enum u => scalarLayout u
  | .other l => otherLayout l
def getMembersFix (m : Mode) : Tys → Layout → Except Err Layout
  | .nil, acc => .ok acc
  | .cons t ts, acc =>
    match getFix m t with
    | .error e => .error e
    | .ok ml =>
      match runLay (structMemberOps m) ⟨acc, 0, ml, 0⟩ with
      | .error e => .error e
      | .ok acc' => getMembersFix m ts acc'
end

mutual
/-- do all fields below `t` sit at the same relative offsets under both rules? -/
def matchFix : Ty → Except Err Bool
  | .struct ms => matchMembersFix ms 0 0
  | .arr t n =>
    if n = 0 then .ok true else
    match getFix .hlsl t with
    | .error e => .error e
    | .ok lh =>
      match getFix .metal t with
      | .error e => .error e
      | .ok lm => if n ≤ 1 ∨ lh.size = lm.size then matchFix t else .ok false
  | _ => .ok true
def matchMembersFix : Tys → Nat → Nat → Except Err Bool
  | .nil, _, _ => .ok true
  | .cons t ts, ch, cm =>
    match getFix .hlsl t with
    | .error e => .error e
    | .ok lh =>
      match getFix .metal t with
      | .error e => .error e
      | .ok lm =>
        match nextMultipleOf ch lh.align with
        | .error e => .error e
        | .ok oh =>
          match nextMultipleOf cm lm.align with
          | .error e => .error e
          | .ok om =>
            if oh ≠ om then .ok false else
            match matchFix t with
            | .error e => .error e
            | .ok false => .ok false
            | .ok true =>
              match addU32 oh lh.size with
              | .error e => .error e
              | .ok ch' =>
                match addU32 om lm.size with
                | .error e => .error e
                | .ok cm' => matchMembersFix ts ch' cm'
end

/-- the fixed loop body of `check_layout`: `true` = consistent -/
def checkFix (t : Ty) : Except Err Bool :=
  match getFix .hlsl t with
  | .error e => .error e
  | .ok lh =>
    match getFix .metal t with
    | .error e => .error e
    | .ok lm => if lh.size ≠ lm.size then .ok false else matchFix t

theorem addU32_ok {a b c : Nat} (h : addU32 a b = .ok c) : c = a + b := by
  unfold addU32 at h; split at h
  · cases h; rfl
  · cases h

mutual
/-- with the added statement `get_type_layout` returns the reference size and alignment of *every* type
    of the grid -/
theorem getFix_spec (m : Mode) : ∀ (t : Ty) (l : Layout), wf t = true → getFix m t = .ok l →
    l.size = size m t ∧ l.align = align m t
  | .scalar s, l, hw, h => by
    simp only [wf] at hw
    have := get_scalar m s hw
    simp only [Model.Layout.get] at this
    simp only [getFix] at h
    rw [this] at h; cases h; exact ⟨rfl, rfl⟩
  | .vec s n, l, hw, h => by
    simp only [wf, Bool.and_eq_true, decide_eq_true_eq] at hw
    have e : getFix m (.vec s n) = Model.Layout.get m (.vec s n) := rfl
    rw [e, get_vec m s n hw.1 hw.2] at h; cases h; exact ⟨rfl, rfl⟩
  | .enum u, l, hw, h => by
    simp only [wf] at hw
    have := get_enum m u hw
    simp only [Model.Layout.get] at this
    simp only [getFix] at h
    rw [this] at h; cases h; exact ⟨rfl, rfl⟩
  | .other _, _, hw, _ => by simp [wf] at hw
  | .arr t n, l, hw, h => by
    simp only [wf, Bool.and_eq_true, decide_eq_true_eq] at hw
    simp only [getFix] at h
    split at h
    · cases h
    · rename_i l' hl'
      obtain ⟨hs, ha⟩ := getFix_spec m t l' hw.2 hl'
      rw [array_ops_pinned] at h
      split at h
      · split at h
        · rename_i z hz
          cases h
          have := mulU32_ok hz
          refine ⟨?_, ha⟩
          simp only [size]
          rw [roundUp_of_mod_zero (align_pos m t hw.2) (size_mod_align m t hw.2), this, hs, Nat.mul_comm]
        · cases h
      · cases h
  | .struct ms, l, hw, h => by
    simp only [wf, Bool.and_eq_true] at hw
    simp only [getFix] at h
    split at h
    · cases h
    · rename_i l' hl'
      obtain ⟨hs, ha⟩ := getMembersFix_spec m ms ⟨structInit.1, structInit.2⟩ l' hw.2 (by decide) hl'
      have ha' : l'.align = alignMax m ms := by
        rw [ha]
        have := alignMax_pos m ms
        show max 1 (alignMax m ms) = alignMax m ms
        omega
      split at h
      · cases h
      · rename_i z hz
        cases h
        have := nextMultipleOf_ok (by rw [ha']; exact alignMax_pos m ms) hz
        simp only [size, align]
        rw [this, hs, ha']
        exact ⟨rfl, rfl⟩
theorem getMembersFix_spec (m : Mode) : ∀ (ts : Tys) (acc l : Layout), wfAll ts = true →
    1 ≤ acc.align → getMembersFix m ts acc = .ok l →
    l.size = endOf m ts acc.size ∧ l.align = max acc.align (alignMax m ts)
  | .nil, acc, l, _, hacc, h => by
    simp only [getMembersFix] at h; cases h
    refine ⟨by simp [endOf], ?_⟩
    simp only [alignMax]; omega
  | .cons t ts, acc, l, hw, hacc, h => by
    simp only [wfAll, Bool.and_eq_true] at hw
    simp only [getMembersFix] at h
    split at h
    · cases h
    · rename_i ml hml
      obtain ⟨hs, ha⟩ := getFix_spec m t ml hw.1 hml
      rw [member_ops_pinned] at h
      split at h
      · cases h
      · rename_i acc' hacc'
        have hpos : 0 < ml.align := by rw [ha]; exact align_pos m t hw.1
        obtain ⟨e1, e2⟩ := memberStep_ok hpos hacc'
        obtain ⟨r1, r2⟩ := getMembersFix_spec m ts acc' l hw.2 (by rw [e2]; omega) h
        simp only [endOf, alignMax]
        rw [r1, r2, e1, e2, ha, hs]
        exact ⟨rfl, by omega⟩
end

mutual
theorem matchFix_sound : ∀ t : Ty, wf t = true → matchFix t = .ok true → agreeIn t = true
  | .scalar _, _, _ => rfl
  | .vec _ _, _, _ => rfl
  | .enum _, _, _ => rfl
  | .other _, _, _ => rfl
  | .struct ms, hw, h => by
    simp only [wf, Bool.and_eq_true] at hw
    simp only [matchFix] at h
    obtain ⟨o, g⟩ := matchMembersFix_sound ms 0 0 hw.2 h
    simp only [agreeIn, Bool.and_eq_true, beq_iff_eq]
    exact ⟨o, g⟩
  | .arr t n, hw, h => by
    simp only [wf, Bool.and_eq_true, decide_eq_true_eq] at hw
    simp only [matchFix] at h
    simp only [agreeIn, Bool.or_eq_true, Bool.and_eq_true, beq_iff_eq, decide_eq_true_eq]
    split at h
    · rename_i h0; exact Or.inl h0
    · split at h
      · cases h
      · rename_i lh hlh
        split at h
        · cases h
        · rename_i lm hlm
          obtain ⟨sh, _⟩ := getFix_spec .hlsl t lh hw.2 hlh
          obtain ⟨sm, _⟩ := getFix_spec .metal t lm hw.2 hlm
          split at h
          · rename_i hc
            refine Or.inr ⟨?_, matchFix_sound t hw.2 h⟩
            rcases hc with hc | hc
            · exact Or.inl hc
            · right
              simp only [stride]
              rw [roundUp_of_mod_zero (align_pos _ t hw.2) (size_mod_align _ t hw.2),
                roundUp_of_mod_zero (align_pos _ t hw.2) (size_mod_align _ t hw.2), ← sh, ← sm, hc]
          · cases h
theorem matchMembersFix_sound : ∀ (ts : Tys) (ch cm : Nat), wfAll ts = true →
    matchMembersFix ts ch cm = .ok true →
    offsets .hlsl ts ch = offsets .metal ts cm ∧ agreeInAll ts = true
  | .nil, _, _, _, _ => ⟨rfl, rfl⟩
  | .cons t ts, ch, cm, hw, h => by
    simp only [wfAll, Bool.and_eq_true] at hw
    simp only [matchMembersFix] at h
    split at h
    · cases h
    · rename_i lh hlh
      split at h
      · cases h
      · rename_i lm hlm
        obtain ⟨sh, ah⟩ := getFix_spec .hlsl t lh hw.1 hlh
        obtain ⟨sm, am⟩ := getFix_spec .metal t lm hw.1 hlm
        split at h
        · cases h
        · rename_i oh hoh
          split at h
          · cases h
          · rename_i om hom
            have eh := nextMultipleOf_ok (by rw [ah]; exact align_pos _ t hw.1) hoh
            have em := nextMultipleOf_ok (by rw [am]; exact align_pos _ t hw.1) hom
            split at h
            · cases h
            · rename_i hne
              have heq : oh = om := Decidable.of_not_not hne
              split at h
              · cases h
              · cases h
              · rename_i hmt
                split at h
                · cases h
                · rename_i ch' hch'
                  split at h
                  · cases h
                  · rename_i cm' hcm'
                    have c1 := addU32_ok hch'
                    have c2 := addU32_ok hcm'
                    obtain ⟨o, g⟩ := matchMembersFix_sound ts ch' cm' hw.2 h
                    simp only [offsets, agreeInAll, Bool.and_eq_true]
                    rw [← ah, ← am, ← eh, ← em, ← sh, ← sm, ← c1, ← c2, o, heq]
                    exact ⟨rfl, matchFix_sound t hw.1 hmt, g⟩
end

/-- **`check_sound` at full strength for the fixed checker**: accepted ⇒ same total size and same offset
    for every field, recursively — for every type of the grid, no side condition -/
theorem fix_sound (t : Ty) (hw : wf t = true) (h : checkFix t = .ok true) : Agree t := by
  unfold checkFix at h
  split at h
  · cases h
  · rename_i lh hlh
    split at h
    · cases h
    · rename_i lm hlm
      obtain ⟨sh, _⟩ := getFix_spec .hlsl t lh hw hlh
      obtain ⟨sm, _⟩ := getFix_spec .metal t lm hw hlm
      split at h
      · cases h
      · rename_i hne
        have : lh.size = lm.size := Decidable.of_not_not hne
        exact ⟨by rw [← sh, ← sm, this], matchFix_sound t hw h⟩

/-- the fixed checker rejects the three witnesses the pinned one accepts -/
example : checkFix (.struct (Tys.ofList [.struct (Tys.ofList [.vec .Float32 2, .scalar .Float32]), .scalar .Float32]))
    = .ok false := rfl
example : checkFix (.struct (Tys.ofList [.scalar .Float16, .vec .Float16 2, .scalar .Float32])) = .ok false := rfl
example : checkFix (.struct (Tys.ofList [.vec .Float16 3, .scalar .Float32, .scalar .Float32])) = .ok true := rfl

end RsslVerif.Lemmas.LayoutFix

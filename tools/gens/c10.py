"""Gen.LexTables: the literal tables of preprocess/src/lexer.rs and text/src/tokens.rs.

  * `Simple`      : every payload-free variant of `enum Token`
  * `Reason`      : the variants of `LexerErrorReason`
  * `keywords`    : the string arms of `any_word` that map to a payload-free token; `reservedWords`
  * `Sub` + `tokenChoice` : the `choose(&[..])` list of `token_intermediate` with the nested list of
                    `token_no_whitespace_symbols` flattened in place (it must be the last entry), every
                    `symbol_single(b'c', Token::X)` and every `symbol_op_or_op_equals(b'c', A, B, C)` instance
  * `intTypeTable`, `floatTypeTable` : the suffix arms of `int_type` / `float_type`
"""
import re


def register(gen, T):
    from rustsrc import ExtractError, fn_body, enum_variants, first_match, match_arms, split_top, normws, matching

    def byte_lit(s):
        s = s.strip()
        m = re.fullmatch(r"b'(\\.|[^\\])'", s)
        if not m:
            raise ExtractError(f"not a byte literal: {s!r}")
        c = m.group(1)
        esc = {"\\n": 10, "\\r": 13, "\\t": 9, "\\\\": 92, "\\'": 39, "\\0": 0, '\\"': 34}
        if c in esc:
            return esc[c]
        if len(c) != 1:
            raise ExtractError(f"unsupported escape {s!r}")
        return ord(c)

    @gen("LexTables")
    def lex_tables():
        lexer = T.src("preprocess/src/lexer.rs")
        tokens = T.src("text/src/tokens.rs")
        out = [T.header("LexTables", ["preprocess/src/lexer.rs", "text/src/tokens.rs"])]

        # ---- Token variants
        variants = enum_variants(tokens, "Token")
        simple = [v for v, rest in variants if rest == ""]
        payload = {v: rest for v, rest in variants if rest != ""}
        expected_payload = {"Id": "(Identifier)", "LiteralInt": "(u64)", "LiteralIntUnsigned32": "(u64)",
                            "LiteralIntUnsigned64": "(u64)", "LiteralIntSigned64": "(i64)", "LiteralFloat": "(f64)",
                            "LiteralFloat16": "(f32)", "LiteralFloat32": "(f32)", "LiteralFloat64": "(f64)",
                            "LiteralString": "(String)", "LeftAngleBracket": "(FollowedBy)",
                            "RightAngleBracket": "(FollowedBy)", "ReservedWord": "(String)", "HeaderName": "(String)",
                            "MacroArg": "(u32)"}
        if {k: normws(v) for k, v in payload.items()} != expected_payload:
            raise ExtractError(f"Token payload variants changed: {sorted(payload.items())}")
        out.append("/-- payload-free variants of `enum Token` -/\ninductive Simple where\n" +
                   "".join(f"  | {v}\n" for v in simple) + "  deriving DecidableEq, Repr, Inhabited\n\n")
        out.append("def Simple.name : Simple → String\n" + "".join(f"  | .{v} => \"{v}\"\n" for v in simple) + "\n")
        # is_whitespace
        isw = fn_body(tokens, "is_whitespace")
        ws = re.findall(r'Token::([A-Za-z0-9_]+)', isw)
        if "matches!" not in isw or not ws or any(w not in simple for w in ws):
            raise ExtractError("is_whitespace: matches! list not found")
        out.append("/-- `Token::is_whitespace` -/\ndef Simple.isWhitespace (s : Simple) : Bool := " +
                   T.lean_list("." + w for w in ws) + ".contains s\n\n")

        # ---- LexerErrorReason
        reasons = [v for v, rest in enum_variants(lexer, "LexerErrorReason")]
        out.append("inductive Reason where\n" + "".join(f"  | {v}\n" for v in reasons) +
                   "  deriving DecidableEq, Repr, Inhabited\n\n")
        out.append("def Reason.name : Reason → String\n" + "".join(f"  | .{v} => \"{v}\"\n" for v in reasons) + "\n")

        # ---- any_word
        body = fn_body(lexer, "any_word")
        scrut, arms_text, _ = first_match(body, r'id\.0\.as_str\(\)')
        kws, reserved, saw_default = [], [], False
        for pats, guard, result in match_arms(arms_text):
            if guard is not None:
                raise ExtractError("any_word: guard unsupported")
            if pats == ['_']:
                if result != "Token::Id(id)":
                    raise ExtractError(f"any_word default arm is {result!r}")
                saw_default = True
                continue
            words = []
            for p in pats:
                m = re.fullmatch(r'"([A-Za-z_][A-Za-z0-9_]*)"', p)
                if not m:
                    raise ExtractError(f"any_word pattern {p!r} unsupported")
                words.append(m.group(1))
            if result == "Token::ReservedWord(id.0)":
                reserved += words
            else:
                m = re.fullmatch(r'Token::([A-Za-z0-9_]+)', result)
                if not m or m.group(1) not in simple:
                    raise ExtractError(f"any_word result {result!r} unsupported")
                kws += [(w, m.group(1)) for w in words]
        if not saw_default:
            raise ExtractError("any_word: no default arm")
        allw = [w for w, _ in kws] + reserved
        if len(set(allw)) != len(allw):
            raise ExtractError("any_word: duplicate word (first-match order would matter)")
        out.append("/-- string arms of `any_word` mapping to a payload-free token -/\n"
                   "def keywords : List (String × Simple) := [\n" +
                   ",\n".join(f"  (\"{w}\", .{t})" for w, t in kws) + "]\n\n")
        out.append("/-- arms of `any_word` mapping to `Token::ReservedWord` -/\n"
                   "def reservedWords : List String := " + T.lean_list(f'"{w}"' for w in reserved) + "\n\n")

        # ---- symbol tables
        opfns = {}
        for m in re.finditer(r"fn\s+(symbol_\w+)\s*\(\s*input\s*:[^)]*\)[^{]*\{\s*symbol_op_or_op_equals\(\s*(b'(?:\\.|[^\\])')\s*,"
                             r"\s*Token::(\w+)\s*,\s*Token::(\w+)\s*,\s*Token::(\w+)\s*,?\s*\)\s*\(input\)\s*\}", lexer):
            opfns[m.group(1)] = (byte_lit(m.group(2)), m.group(3), m.group(4), m.group(5))
        # the combinator itself: `c =` first, then `c c`, then `c`; Eof disables an alternative
        comb = normws(fn_body(lexer, "symbol_op_or_op_equals"))
        order = [comb.find("[c, b'=', ..] if *c == op_char && op_equals_token != Token::Eof"),
                 comb.find("[c1, c2, ..] if *c1 == op_char && *c2 == op_char && op_op_token != Token::Eof"),
                 comb.find("[c, ..] if *c == op_char => Ok((&input[1..], op_token.clone()))")]
        if -1 in order or order != sorted(order):
            raise ExtractError("symbol_op_or_op_equals: arm order/guards changed")
        if "Ok((&input[2..], op_equals_token.clone()))" not in comb or "Ok((&input[2..], op_op_token.clone()))" not in comb:
            raise ExtractError("symbol_op_or_op_equals: consumed lengths changed")

        def choose_list(fname):
            b = fn_body(lexer, fname)
            m = re.search(r'choose\(\s*&\[', b)
            if not m:
                raise ExtractError(f"{fname}: choose list not found")
            i = m.end() - 1
            j = matching(b, i)
            items = [normws(x) for x in split_top(b[i + 1:j], ',') if x.strip()]
            return [x[1:].strip() if x.startswith('&') else x for x in items]

        def sub_of(item):
            m = re.fullmatch(r"symbol_single\(\s*(b'(?:\\.|[^\\])')\s*,\s*Token::(\w+)\s*\)", item)
            if m:
                if m.group(2) not in simple:
                    raise ExtractError(f"symbol_single token {m.group(2)}")
                return f".single {byte_lit(m.group(1))} .{m.group(2)}"
            if item in opfns:
                c, a, b_, cc = opfns[item]
                for t in (a, b_, cc):
                    if t not in simple:
                        raise ExtractError(f"{item}: token {t}")
                if a == "Eof":
                    raise ExtractError(f"{item}: plain token is Eof")
                opt = lambda t: "none" if t == "Eof" else f"(some .{t})"
                return f".opOrEq {c} .{a} {opt(b_)} {opt(cc)}"
            fixed = {"whitespace_simple": ".whitespaceSimple", "whitespace_endline": ".whitespaceEndline",
                     "line_comment": ".lineComment", "block_comment": ".blockComment",
                     "literal_string": ".literalString", "leftanglebracket": ".leftAngle",
                     "rightanglebracket": ".rightAngle"}
            if item in fixed:
                return fixed[item]
            raise ExtractError(f"choose entry {item!r} unsupported")

        outer = choose_list("token_intermediate")
        inner = choose_list("token_no_whitespace_symbols")
        if not outer or outer[-1] != "token_no_whitespace_symbols" or "token_no_whitespace_symbols" in outer[:-1]:
            raise ExtractError("token_intermediate: token_no_whitespace_symbols is not the last choice")
        subs = [sub_of(x) for x in outer[:-1]] + [sub_of(x) for x in inner]
        out.append("/-- one entry of the `choose` list of `token_intermediate` -/\ninductive Sub where\n"
                   "  | whitespaceSimple | whitespaceEndline | lineComment | blockComment | literalString\n"
                   "  | leftAngle | rightAngle\n"
                   "  | single (c : Nat) (t : Simple)\n"
                   "  | opOrEq (c : Nat) (op : Simple) (opEquals : Option Simple) (opOp : Option Simple)\n"
                   "  deriving DecidableEq, Repr, Inhabited\n\n")
        out.append("/-- the sub-lexers tried in order by `token_intermediate` (nested symbol list flattened) -/\n"
                   "def tokenChoice : List Sub := [\n" + ",\n".join("  " + s for s in subs) + "]\n\n")

        # ---- int_type
        body = fn_body(lexer, "int_type")
        scrut, arms_text, _ = first_match(body, r'^input$')
        kinds = [v for v, _ in enum_variants(lexer, "IntType")]
        if kinds != ["Unsigned32", "Unsigned64", "Signed64"]:
            raise ExtractError(f"IntType variants {kinds}")
        out.append("inductive IntType where | Unsigned32 | Unsigned64 | Signed64\n  deriving DecidableEq, Repr, Inhabited\n\n")
        rows = []
        arms = match_arms(arms_text)
        for pats, guard, result in arms[:-1]:
            if guard is not None or len(pats) != 1:
                raise ExtractError("int_type: arm shape")
            p = pats[0]
            if not (p.startswith('[') and p.endswith(']')):
                raise ExtractError(f"int_type pattern {p!r}")
            elems = [e.strip() for e in split_top(p[1:-1], ',')]
            if elems[-1] != "rest @ ..":
                raise ExtractError(f"int_type pattern {p!r} does not end in rest @ ..")
            alts = [[byte_lit(a) for a in split_top(e, '|')] for e in elems[:-1]]
            m = re.fullmatch(r'Ok\(\(rest, IntType::(\w+)\)\)', result)
            if not m or m.group(1) not in kinds:
                raise ExtractError(f"int_type result {result!r}")
            rows.append((alts, m.group(1)))
        if arms[-1][0] != ['_'] or arms[-1][2] != "wrong_chars(input)":
            raise ExtractError("int_type: default arm")
        out.append("/-- arms of `int_type`: per position the accepted bytes, in match order -/\n"
                   "def intTypeTable : List (List (List Nat) × IntType) := [\n" +
                   ",\n".join("  (" + T.lean_list(T.lean_list(str(b) for b in alt) for alt in alts) + f", .{k})"
                              for alts, k in rows) + "]\n\n")

        # ---- float_type
        body = fn_body(lexer, "float_type")
        scrut, arms_text, _ = first_match(body, r'^input\.first\(\)$')
        fkinds = [v for v, _ in enum_variants(lexer, "FloatType")]
        if fkinds != ["Half", "Float", "Double"]:
            raise ExtractError(f"FloatType variants {fkinds}")
        out.append("inductive FloatType where | Half | Float | Double\n  deriving DecidableEq, Repr, Inhabited\n\n")
        rows = []
        arms = match_arms(arms_text)
        for pats, guard, result in arms[:-1]:
            m = re.fullmatch(r'FloatType::(\w+)', result)
            if guard is not None or not m:
                raise ExtractError(f"float_type arm {result!r}")
            bs = []
            for p in pats:
                pm = re.fullmatch(r"Some\((b'(?:\\.|[^\\])')\)", p)
                if not pm:
                    raise ExtractError(f"float_type pattern {p!r}")
                bs.append(byte_lit(pm.group(1)))
            rows.append((bs, m.group(1)))
        if arms[-1][0] != ['_'] or "wrong_chars(input)" not in arms[-1][2]:
            raise ExtractError("float_type: default arm")
        if "Ok((&input[1..], n))" not in normws(body):
            raise ExtractError("float_type: consumed length changed")
        out.append("/-- arms of `float_type`: accepted first byte -> type -/\n"
                   "def floatTypeTable : List (List Nat × FloatType) := [\n" +
                   ",\n".join("  (" + T.lean_list(str(b) for b in bs) + f", .{k})" for bs, k in rows) + "]\n")
        # ---- calculate_float64_from_parts: the statement shape the model relies on
        m = re.search(r'fn\s+calculate_float64_from_parts\s*\(([^)]*)\)\s*->\s*([A-Za-z0-9_]+)', lexer)
        if not m:
            raise ExtractError("calculate_float64_from_parts: signature not found")
        sig = normws(m.group(1)).rstrip(',') + " -> " + m.group(2)
        body = fn_body(lexer, "calculate_float64_from_parts")

        def statements(b):
            """top-level statements of a block: `;`-terminated ones, brace blocks (for/if/while/loop/match, with
            else chains), and the tail expression"""
            res, i, n, start = [], 0, len(b), 0
            while i < n:
                while start < n and b[start] in ' \t\r\n':
                    start += 1
                i = max(i, start)
                if i >= n:
                    break
                c = b[i]
                if c in '([':
                    i = matching(b, i) + 1
                    continue
                if c == '"' or c == "'":
                    from rustsrc import skip_literal
                    k = skip_literal(b, i)
                    if k is not None:
                        i = k
                        continue
                if c == '{':
                    j = matching(b, i)
                    head = b[start:i].strip()
                    i = j + 1
                    if re.match(r'(for|if|while|loop|match|unsafe)\b', head) or head == '':
                        # an `else` continues the same statement
                        rest = b[i:].lstrip()
                        if rest.startswith('else'):
                            continue
                        res.append(normws(b[start:i]))
                        start = i
                    continue
                if c == ';':
                    res.append(normws(b[start:i]))
                    i += 1
                    start = i
                    continue
                i += 1
            tail = normws(b[start:])
            if tail:
                res.append("TAIL " + tail)
            return res

        push_digits = lambda v: (r"for digit in &%s \{ text\.push\(char::from\(b'0' \+ \*digit as u8\)\); \}" % v)
        shapes = [
            ("newText", r"let mut text = String::with_capacity\(.*\)"),
            ("pushLeftDigits", push_digits("left")),
            ("zeroIfLeftEmpty", r"if left\.is_empty\(\) \{ text\.push\('0'\); \}"),
            ("pushDot", r"text\.push\('\.'\)"),
            ("pushRightDigits", push_digits("right")),
            ("zeroIfRightEmpty", r"if right\.is_empty\(\) \{ text\.push\('0'\); \}"),
            ("pushE", r"text\.push\('e'\)"),
            ("pushExponent", r"text\.push_str\(&exponent\.to_string\(\)\)"),
            ("returnParseF64", r'TAIL text \.?\s*parse::<f64>\(\) ?\.expect\(".*"\)'),
        ]
        steps = []
        for st in statements(body):
            st2 = st.replace("text.parse", "text .parse") if st.startswith("TAIL") else st
            tag = None
            for name, pat in shapes:
                if re.fullmatch(pat, st2):
                    tag = name
                    break
            steps.append(tag if tag else "other:" + st[:60].replace('"', "'").replace('\\', '/'))
        returns = len(re.findall(r'\breturn\b', body))
        muldiv = len(re.findall(r'\S (\*|/) \S', normws(body)))
        casts = len(re.findall(r'\bas f(64|32)\b|\bf(64|32)::|\.pow[if]\(|mul_add', body))
        calls = len(re.findall(r'\bcalculate_float64_from_parts\s*\(', lexer)) - 1
        callarg = re.search(r'let value64 = calculate_float64_from_parts\(left, right, exp\);', lexer) is not None
        out.append("\n/-- `calculate_float64_from_parts`: signature, the top-level statements of its body in order (anything the\n"
                   "translator does not recognise is `other:<text>`), the number of `return`s, of binary `*` `/`, of float casts /\n"
                   "float functions in the body, the number of call sites and whether the one in `literal_float` passes\n"
                   "`(left, right, exp)` -/\n")
        out.append("def floatPartsSignature : String := " + T.lean_str(sig) + "\n")
        out.append("def floatPartsSteps : List String := " + T.lean_list(T.lean_str(x) for x in steps) + "\n")
        out.append(f"def floatPartsReturns : Nat := {returns}\n")
        out.append(f"def floatPartsMulDiv : Nat := {muldiv}\n")
        out.append(f"def floatPartsFloatOps : Nat := {casts}\n")
        out.append(f"def floatPartsCallSites : Nat := {calls}\n")
        out.append(f"def floatPartsCalledWithParts : Bool := {'true' if callarg else 'false'}\n")
        # ---- token_intermediate: the dispatch on the first byte and the numeric arm (float first, integer exactly on
        #      OtherTokenBytes) — the shape `tokenStep` of Model/Lexer.lean and `token_numeric_dispatch` are written against
        tbody = fn_body(lexer, "token_intermediate")
        _, tarms_text, _ = first_match(tbody, r'^input\.first\(\)$')
        tarms = match_arms(tarms_text)
        dispatch = []
        for pats, guard, result in tarms:
            dispatch.append(" | ".join(normws(p) for p in pats) + (" if " + normws(guard) if guard else ""))
        def arm_steps(result, shapes):
            r = result.strip()
            inner = r[1:-1] if r.startswith('{') and matching(r, 0) == len(r) - 1 else r
            res = []
            for st in statements(inner):
                tag = None
                for name, pat in shapes:
                    if re.fullmatch(pat, st):
                        tag = name
                        break
                res.append(tag if tag else "other:" + st[:70].replace('"', "'").replace('\\', '/'))
            return res
        numeric_shapes = [("floatElseIntOnOtherTokenBytes",
                           r"(TAIL )?match literal_float\(input\) \{ Ok\(ok\) => Ok\(ok\), "
                           r"Err\(LexErrorContext\(rest, LexerErrorReason::OtherTokenBytes\)\) => \{ "
                           r"debug_assert_eq!\(input\.len\(\), rest\.len\(\)\); literal_int\(input\) \},? err => err,? \}")]
        numeric_steps = arm_steps(tarms[0][2], numeric_shapes) if tarms else []
        word_steps = arm_steps(tarms[1][2], [("anyWord", r"TAIL any_word\(input\)")]) if len(tarms) > 1 else []
        none_steps = arm_steps(tarms[-1][2], [("endOfStream", r"TAIL end_of_stream\(\)")]) if tarms else []
        out.append("\n/-- `token_intermediate`: the patterns of `match input.first()` in order, and the top-level statements of the\n"
                   "digit arm, the word arm and the `None` arm (anything not recognised is `other:<text>`): a numeral goes to\n"
                   "`literal_float` first and to `literal_int` exactly when that answers `OtherTokenBytes`, with nothing in front -/\n")
        out.append("def dispatchPatterns : List String := " + T.lean_list(T.lean_str(x) for x in dispatch) + "\n")
        out.append("def numericArmSteps : List String := " + T.lean_list(T.lean_str(x) for x in numeric_steps) + "\n")
        out.append("def wordArmSteps : List String := " + T.lean_list(T.lean_str(x) for x in word_steps) + "\n")
        out.append("def noneArmSteps : List String := " + T.lean_list(T.lean_str(x) for x in none_steps) + "\n")
        out.append(T.footer("LexTables"))
        return "".join(out)

    @gen("LitFormatTables")
    def lit_format_tables():
        """`format_literal` of formatter.rs (arms in order: pattern, guard, action), the four `write_infinity_*`
        helpers, and the `generate_literal` arms of the HLSL and the MSL generator (ir::Constant -> ast::Literal)."""
        fm = T.src("formatter/src/formatter.rs")
        out = [T.header("LitFormatTables", ["formatter/src/formatter.rs", "hlsl/src/ast_generate.rs",
                                            "msl/src/generator.rs", "typer/src/typer/expressions.rs"])]
        body = fn_body(fm, "format_literal")
        scrut, arms_text, _ = first_match(body, r'^literal$')
        arms = []
        for pats, guard, result in match_arms(arms_text):
            if len(pats) != 1:
                raise ExtractError(f"format_literal: or-pattern {pats!r}")
            r = result
            if r.startswith("{") and r.endswith("}"):
                r = normws(r[1:-1])
            r = r.rstrip(";").strip()
            arms.append((pats[0], normws(guard) if guard else "", r))
        out.append("/-- the arms of `format_literal` in order: (pattern, guard, action) -/\n")
        out.append("def formatLiteralArms : List (String × String × String) := " +
                   T.lean_list("(%s, %s, %s)" % (T.lean_str(a), T.lean_str(b), T.lean_str(c)) for a, b, c in arms) + "\n\n")
        infs = []
        for name in ["write_infinity_untyped", "write_infinity_f16", "write_infinity_f32", "write_infinity_f64"]:
            b = normws(fn_body(fm, name))
            m = re.fullmatch(r'output\.push_str\(if context\.target == Target::Msl \{ (.*?) \} else \{ "(.*?)" \}\);?', b)
            if not m:
                raise ExtractError(f"{name}: unexpected body {b!r}")
            infs.append((name, m.group(1), m.group(2)))
        # the guard of the arms that print a single with the digits of the same value as a double (fix 265a080)
        m = re.search(r'fn\s+f32_digits_round_twice\s*\(([^)]*)\)\s*->\s*([A-Za-z0-9_]+)', fm)
        if m:
            rt_sig = normws(m.group(1)).rstrip(',') + " -> " + m.group(2)
            rt_body = normws(fn_body(fm, "f32_digits_round_twice"))
        else:
            rt_sig, rt_body = "absent", "absent"
        rt_uses = len(re.findall(r'\bf32_digits_round_twice\s*\(', fm)) - (1 if m else 0)
        out.append("/-- `f32_digits_round_twice` (the guard of the arms of `format_literal` that print a single with the digits of\n"
                   "the same value as a double): signature, body, and the number of uses in formatter.rs -/\n")
        out.append("def f32DigitsRoundTwice : String × String × Nat := (%s, %s, %d)\n\n" % (T.lean_str(rt_sig), T.lean_str(rt_body), rt_uses))
        out.append("/-- `write_infinity_*`: (function, the Metal branch, the HLSL text) -/\n")
        out.append("def writeInfinity : List (String × String × String) := " +
                   T.lean_list("(%s, %s, %s)" % (T.lean_str(a), T.lean_str(b), T.lean_str(c)) for a, b, c in infs) + "\n\n")

        def gen_lit(rel, label):
            src = T.src(rel)
            b = fn_body(src, "generate_literal")
            scrut, arms_text, _ = first_match(b, r'^\*literal$')
            rows = []
            for pats, guard, result in match_arms(arms_text):
                if len(pats) != 1:
                    raise ExtractError(f"{label} generate_literal: or-pattern {pats!r}")
                if pats[0].startswith("ir::Constant::Enum"):
                    rows.append((pats[0], "", "enum"))
                    continue
                r = result
                if r.startswith("{"):
                    r = normws(r[1:-1]).rstrip(";").strip()
                rows.append((pats[0], normws(guard) if guard else "", r))
            return rows
        for rel, label, nm in [("hlsl/src/ast_generate.rs", "hlsl", "generateLiteralHlsl"),
                               ("msl/src/generator.rs", "msl", "generateLiteralMsl")]:
            rows = gen_lit(rel, label)
            out.append(f"/-- the arms of `generate_literal` of the {label} generator: (pattern, guard, result) -/\n")
            out.append(f"def {nm} : List (String × String × String) := " +
                       T.lean_list("(%s, %s, %s)" % (T.lean_str(a), T.lean_str(b), T.lean_str(c)) for a, b, c in rows) + "\n\n")
        ty = T.src("typer/src/typer/expressions.rs")
        b = fn_body(ty, "parse_literal")
        scrut, arms_text, _ = first_match(b, r'^ast$')
        rows = []
        for pats, guard, result in match_arms(arms_text):
            r = result
            if r.startswith("{"):
                r = normws(r[1:-1]).rstrip(";").strip()
            rows.append((" | ".join(pats), normws(guard) if guard else "", r))
        out.append("/-- the arms of the typer's `parse_literal`: (pattern, guard, result) -/\n")
        out.append("def parseLiteralArms : List (String × String × String) := " +
                   T.lean_list("(%s, %s, %s)" % (T.lean_str(a), T.lean_str(b), T.lean_str(c)) for a, b, c in rows) + "\n")
        # the typer folds an untyped literal into the scalar type its context names (`ImplicitConversion::apply`, casting.rs):
        # (literal kind, condition of the `if let`, target type pattern, result) for every arm of the two matches
        cast = T.src("typer/src/casting.rs")
        fold = []
        for lk in ("IntLiteral", "FloatLiteral"):
            hits = [m for m in re.finditer(r'if let Expression::Literal\(Constant::%s\(v\)\) = expr' % lk, cast)]
            if len(hits) != 1:
                raise ExtractError("casting.rs: expected exactly one `if let Expression::Literal(Constant::%s(v)) = expr`, found %d" % (lk, len(hits)))
            brace = cast.index("{", hits[0].end())
            cond = normws(cast[hits[0].end():brace])
            scrut, arms_text, _ = first_match(cast, r'get_type_layer\(target_type_unmodified\)', hits[0].end())
            for pats, guard, result in match_arms(arms_text):
                r = result
                if r.startswith("{"):
                    r = normws(r[1:-1]).rstrip(";").strip()
                fold.append((lk, cond + ((" if " + normws(guard)) if guard else ""), " | ".join(pats), normws(r)))
        out.append("\n/-- casting.rs: an untyped literal converted to a scalar type is folded into a typed literal: "
                   "(literal kind, condition, target type, result) -/\n")
        out.append("def literalFoldArms : List (String × String × String × String) := " +
                   T.lean_list("(%s, %s, %s, %s)" % tuple(T.lean_str(x) for x in row) for row in fold) + "\n")
        out.append(T.footer("LitFormatTables"))
        return "".join(out)

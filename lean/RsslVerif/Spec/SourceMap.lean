import RsslVerif.Model.SourceMap
/-!
# What a positioned diagnostic is (reference rendering, independent of the source manager)

A diagnostic shown to the user is a function of six things only: the file name, the line, the column,
the severity, the message and the text of the source line.  `message_render_shift` (Thm/C14) states that
`write_message` computes exactly this function and that inserting lines changes the `line` argument only.
-/
namespace RsslVerif.Spec.SourceMap
open RsslVerif.Gen.SourceMapTables RsslVerif.Model.SourceMap

/-- `file:line:col: severity: message` / source line / caret under the column -/
def renderLocated (name : String) (line col : Nat) (sev : Severity) (msg srcLine : Bytes) : Bytes :=
  strBytes name ++ strBytes ":" ++ natBytes line ++ strBytes ":" ++ natBytes col ++
    strBytes ": " ++ strBytes sev.text ++ strBytes ": " ++ msg ++ [nl] ++
    srcLine ++ [nl] ++
    List.replicate (col - 1) ' '.toUInt8 ++ strBytes "^" ++ [nl]

/-- the line of `s` that contains offset `q`: from after the previous line break to before the next one -/
def lineAround (s : Bytes) (q : Nat) : Bytes :=
  ((s.take q).reverse.takeWhile (fun c => c != 10)).reverse ++ (s.drop q).takeWhile (fun c => c != 10)

end RsslVerif.Spec.SourceMap

import RsslVerif.Lemmas.ConstEvalNoPanic
import RsslVerif.Gen.EvalSites
/-!
# C13 — compile-time constant evaluation matches run-time semantics

Theorems about `Model.ConstEval.eval` — the model of `evaluate_constexpr` / `evaluate_operator` /
`evaluate_cast` (typer/src/evaluator.rs) whose per-arm arithmetic is read from `Gen.EvalTable`, regenerated
from the Rust source on every run — against `Spec.HlslConst.eval`, the value HLSL defines.

All statements quantify over *every* expression tree (no depth bound) and every operand value.
`wfE e` ("well-formed") only says that the constants occurring in `e` fit their Rust types, enum constants
are not nested, and operator nodes have the number of operands their arm of `evaluate_operator` reads.
-/
namespace RsslVerif.Thm.C13
open RsslVerif.Gen.EvalTable RsslVerif.Model.ConstEval RsslVerif.Lemmas.ConstEval
open RsslVerif.Spec.HlslConst (fitsLit litArith)

/-- **Agreement.**  Whenever the evaluator returns a value for a well-formed expression, it is the value the
    specification defines (exact for literals, 32-bit two's complement for `int`/`uint`, shift counts
    masked to five bits, C comparisons/logic, HLSL conversions), and the value is again in range.
    Proved by mutual induction over expressions and operand lists. -/
theorem consteval_agrees (e : Expr) (hwf : wfE e = true) (v : Constant) (h : eval e = .ok v) :
    RsslVerif.Spec.HlslConst.eval e = some v ∧ wf v = true :=
  eval_agrees e hwf v h

/-- non-vacuity: a depth-3 tree mixing a cast, wrap-around and a masked shift evaluates to a value -/
example : eval (.op .LeftShift (.cons (.op .Subtract (.cons (.lit (.uint32 0)) (.cons (.lit (.uint32 1)) .nil)))
            (.cons (.cast (.scalar .UInt32) (.lit (.intLit 33))) .nil))) = .ok (.uint32 4294967294) := by decide

example : wfE (.op .LeftShift (.cons (.op .Subtract (.cons (.lit (.uint32 0)) (.cons (.lit (.uint32 1)) .nil)))
            (.cons (.cast (.scalar .UInt32) (.lit (.intLit 33))) .nil))) = true := by decide

/-- **No panic.**  Evaluation of a well-formed expression whose operator nodes have admissible operand kinds
    (`kindsOk`: enum operands are not mixed with operands of another type, `~` is applied to an integer —
    what the type checker guarantees) never hits a `panic!`, `assert!`, `unreachable!`, slice index or
    arithmetic overflow check of the modelled functions: not on overflow, not on out-of-range shifts, not on
    `INT_MIN / -1`.  The proof uses the generated table only through `tableSafe_ok` / `castTableSafe_ok`. -/
theorem consteval_no_panic (e : Expr) (hwf : wfE e = true) (hk : kindsOk e = true) (msg : String) :
    eval e ≠ .error (.panic msg) :=
  eval_noPanic e hwf hk msg

/-- tie to the source: every arm of the regenerated operator and cast tables that non-enum operands can
    reach computes with `wrapping_*`, `checked_*`→`Err`, zero-guarded or overflow-free operations -/
theorem tables_panic_free : tableSafe = true ∧ castTableSafe = true := ⟨tableSafe_ok, castTableSafe_ok⟩

/-- non-vacuity: `INT_MIN / -1`, `0u - 1u`, `1 << 32` and `-INT_MIN` satisfy the hypotheses ... -/
example : wfE (.op .Divide (.cons (.lit (.int32 (-2147483648))) (.cons (.lit (.int32 (-1))) .nil))) = true
    ∧ kindsOk (.op .Divide (.cons (.lit (.int32 (-2147483648))) (.cons (.lit (.int32 (-1))) .nil))) = true
    ∧ eval (.op .Divide (.cons (.lit (.int32 (-2147483648))) (.cons (.lit (.int32 (-1))) .nil)))
        = .ok (.int32 (-2147483648)) := by decide

/-- ... and the operand-kind hypothesis is needed: `~true` reaches the `panic!` of the `BitwiseNot` arm -/
example : eval (.op .BitwiseNot (.cons (.lit (.bool true)) .nil)) = .error (.panic "unexpected type in BitwiseNot") := by
  decide

/-- Division or modulus by a zero constant is reported as *not constant*: whatever the dividend (any
    kind, any value), `evaluate_operator` returns `Err(())` — no value and no panic. -/
theorem div_mod_zero_not_constant (o : Op) (ho : o = .Divide ∨ o = .Modulus) (a b : Constant)
    (hz : b = .intLit 0 ∨ b = .int32 0 ∨ b = .uint32 0) :
    applyOp o [a, b] = .error .notConst := by
  rcases ho with rfl | rfl <;> rcases hz with rfl | rfl | rfl <;> cases a <;> simp [c13]

/-- ... and so is every expression `x / z`, `x % z` whose right operand evaluates to an integer zero (also
    a zero of an enum type): it never evaluates to a value. -/
theorem div_mod_zero_not_constant_expr (o : Op) (ho : o = .Divide ∨ o = .Modulus) (ea eb : Expr) (b : Constant)
    (hb : eval eb = .ok b)
    (hz : S.strip b = .intLit 0 ∨ S.strip b = .int32 0 ∨ S.strip b = .uint32 0) (r : Constant) :
    eval (.op o (.cons ea (.cons eb .nil))) ≠ .ok r := by
  intro h
  simp only [eval] at h
  cases ha : evalArgs (.cons ea (.cons eb .nil)) ⟨[], none⟩ with
  | error err => simp [ha] at h
  | ok acc =>
    simp only [ha] at h
    obtain ⟨hvals, hlen⟩ := evalArgs_prefix _ _ _ ha
    cases hea : eval ea with
    | error err => simp [prefixVals, hea, argsLen] at hlen
    | ok a =>
      simp [prefixVals, hea, hb] at hvals
      unfold finishOp at h
      simp [hvals, div_mod_zero_not_constant o ho (S.strip a) (S.strip b) hz] at h

/-- **Literal arithmetic is exact or not constant, never wrong**: if `+ - * / % << >>` on two untyped
    literals returns a value, that value is the exact mathematical result (quotient truncated toward zero,
    remainder with the sign of the dividend, `x·2^n`, `⌊x / 2^n⌋`) and it fits the literal representation. -/
theorem literal_exact (o : Op)
    (ho : o = .Add ∨ o = .Subtract ∨ o = .Multiply ∨ o = .Divide ∨ o = .Modulus ∨ o = .LeftShift ∨ o = .RightShift)
    (x y : Int) (hx : fitsLit x = true) (hy : fitsLit y = true) (r : Constant)
    (h : applyOp o [.intLit x, .intLit y] = .ok r) :
    ∃ z, litArith o x y = some z ∧ r = .intLit z ∧ fitsLit z = true := by
  have hx' : plain (.intLit x) = true := by simpa [c13] using hx
  have hy' : plain (.intLit y) = true := by simpa [c13] using hy
  have hn : arityOk o 2 = true := by rcases ho with rfl | rfl | rfl | rfl | rfl | rfl | rfl <;> decide
  have hb := (binop_agrees o hn hx' hy' h).1
  rcases ho with rfl | rfl | rfl | rfl | rfl | rfl | rfl <;>
    simp only [S.binop, S.relOf] at hb <;>
    (cases hl : litArith _ x y with
     | none => simp [hl, S.bitArith] at hb
     | some z =>
       simp only [hl, RsslVerif.Spec.HlslConst.lit?] at hb
       by_cases hf : fitsLit z = true
       · simp [hf] at hb; exact ⟨z, rfl, hb.symm, hf⟩
       · simp [hf] at hb)

/-- unary minus on a literal: exact or not constant -/
theorem literal_neg_exact (x : Int) (hx : fitsLit x = true) (r : Constant)
    (h : applyOp .Minus [.intLit x] = .ok r) : r = .intLit (-x) ∧ fitsLit (-x) = true := by
  have hx' : plain (.intLit x) = true := by simpa [c13] using hx
  have hb := (unop_agrees .Minus (by decide) hx' h).1
  simp [S.unop, RsslVerif.Spec.HlslConst.lit?] at hb
  exact ⟨hb.2.symm, hb.1⟩

/-- non-vacuity of `literal_exact`: `2^63 * 2^63` is evaluated exactly; `2^64 * 2^64` is refused -/
example : applyOp .Multiply [.intLit (2 ^ 63), .intLit (2 ^ 63)] = .ok (.intLit (2 ^ 126)) := by decide
example : applyOp .Multiply [.intLit (2 ^ 64), .intLit (2 ^ 64)] = .error .notConst := by decide

/-! ## the positions that demand a constant -/

/-- The reviewed inventory of every call of `evaluate_constexpr` outside `evaluator.rs`
    (file, function, expression argument, module argument, origin of the expression, reassigned before the call).
    Each call passes the IR the type checker built for the source expression and the module being built:

    * `parse_declarator` — array sizes (harness position `array`)
    * `parse_rootdefinition_enum` — enum values; the one site that rewrites the expression first: an enum-typed
      initialiser receives the implicit conversion to its underlying type (`enum`, `enumnext`)
    * `parse_expr_unaryop` — folding of a unary operator on a literal; the expression is the `IntrinsicOp` node just
      built (covered by every `C13.eval` case that came through the type checker)
    * `parse_assert_eval` (twice) — both operands of `assert_eval` (`assert`)
    * `parse_rootdefinition_globalvariable`, `parse_vardef` — initialisers of `const` globals / locals (`constint`,
      `constuint`, `localconst`)
    * `parse_expr_as_u32` — `[[rssl::bind_group(n)]]` (`bindgroup`)
    * `add_stage` — `numthreads` arguments (`numthreads`); `extract_uint32`, `extract_float` — pipeline
      properties (`pipelineprop`; float properties are not exercised)
    * `parse_statement` — case labels (`case`); `parse_statement_attribute` — `[unroll(n)]` (`unroll`)
    * `parse_and_evaluate_constant_expression` — template value arguments and their defaults (`template`) -/
def reviewedSites : List (String × String × String × String × String × Bool) := [
  ("typer/src/typer/declarations.rs", "parse_declarator", "&expr_ir", "&mut context.module", "parse_expr", false),
  ("typer/src/typer/enums.rs", "parse_rootdefinition_enum", "&expr_ir.0", "&mut context.module", "parse_expr", true),
  ("typer/src/typer/expressions.rs", "parse_expr_unaryop", "&expr_with_op", "&mut context.module", "ir::Expression::IntrinsicOp", false),
  ("typer/src/typer/expressions.rs", "parse_assert_eval", "&left_expr_ir", "&mut context.module", "parse_expr_internal", false),
  ("typer/src/typer/expressions.rs", "parse_assert_eval", "&right_expr_ir", "&mut context.module", "parse_expr_internal", false),
  ("typer/src/typer/globals.rs", "parse_rootdefinition_globalvariable", "expr", "&mut context.module", "initializer-expression", false),
  ("typer/src/typer/globals.rs", "parse_expr_as_u32", "&expr_ir", "&mut context.module", "parse_expr", false),
  ("typer/src/typer/pipelines.rs", "add_stage", "expr", "&mut context.module", "closure-parameter", false),
  ("typer/src/typer/pipelines.rs", "extract_uint32", "&value_expr.0", "&mut context.module", "parse_expr", false),
  ("typer/src/typer/pipelines.rs", "extract_float", "&value_expr.0", "&mut context.module", "parse_expr", false),
  ("typer/src/typer/statements.rs", "parse_statement", "&value_expr.0", "&mut context.module", "parse_expr", false),
  ("typer/src/typer/statements.rs", "parse_statement_attribute", "&expr", "&mut context.module", "parse_expr", false),
  ("typer/src/typer/statements.rs", "parse_vardef", "expr", "&mut context.module", "initializer-expression", false),
  ("typer/src/typer/types.rs", "parse_and_evaluate_constant_expression", "&ir_expr.0", "&mut context.module", "parse_expr", false)]

/-- **Positions use the evaluator unchanged** (tie to the source, not a model of the type checker): the calls
    of `evaluate_constexpr` found in the workspace are exactly the reviewed ones; every one hands over a type
    checker result (`parse_expr*`, an initialiser expression, the folded operator node) together with
    `context.module`, and only the enum-value site rewrites the expression before the call. A new call site, a
    site that starts to pre-process its expression, or a removed site makes this obligation fail until reviewed.
    What each site does with the *result* (`to_uint64`, range checks, storing it) is checked by the
    correspondence run (`C13.pos`), not here. -/
theorem positions_use_eval :
    (RsslVerif.Gen.EvalSites.evalSites.all fun s => reviewedSites.contains s) = true ∧
    (reviewedSites.all fun s => RsslVerif.Gen.EvalSites.evalSites.contains s) = true ∧
    (RsslVerif.Gen.EvalSites.evalSites.all fun s => s.2.2.2.1 == "&mut context.module") = true ∧
    (RsslVerif.Gen.EvalSites.evalSites.filter fun s => s.2.2.2.2.2).map (fun s => s.2.1)
      = ["parse_rootdefinition_enum"] := by
  decide

end RsslVerif.Thm.C13

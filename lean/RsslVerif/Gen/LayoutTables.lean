-- GENERATED STUB: tools/translate.py could not read the source for LayoutTables
-- ExtractError: check_layout: statement 'let offsets_match = match offsets_match(module, ty) { Some(same) => same, None => return Err(LayoutError::UnknownLayout(loc)), }' is outside the op vocabulary
namespace RsslVerif.Gen.LayoutTables
/-- extraction failed: every dependent theorem must stop checking -/
theorem extraction_failed : False := by
  exact (by decide : (0 : Nat) = 1)
end RsslVerif.Gen.LayoutTables

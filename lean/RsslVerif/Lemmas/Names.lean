import RsslVerif.Model.Names
import Std.Data.String.ToNat
/-!
Lemmas about the model of `NameMap::build`: candidate injectivity, the candidate loops (result is fresh,
fuel suffices), and the per-scope invariants behind `injective_per_scope` / `never_reserved`.
-/
namespace RsslVerif.Lemmas.Names
open RsslVerif.Model.Names

/-! ## candidates -/

theorem cand_inj {n : String} {i j : Nat} (h : cand n i = cand n j) : i = j := by
  unfold cand at h
  have h2 := (String.append_right_inj (n ++ "_")).mp h
  simp only [Nat.toString_eq_repr] at h2
  exact Nat.repr_injective h2

/-! ## the scope loop -/

theorem firstFree_not_mem {used : List String} {n : String} :
    ∀ (fuel k : Nat) {c : String}, firstFree used n fuel k = .ok c → c ∉ used := by
  intro fuel
  induction fuel with
  | zero => intro k c h; simp [firstFree] at h
  | succ f ih =>
    intro k c h
    unfold firstFree at h
    split at h
    · exact ih (k + 1) h
    · rename_i hc
      cases h
      simpa using hc

theorem firstFree_is_cand {used : List String} {n : String} :
    ∀ (fuel k : Nat) {c : String}, firstFree used n fuel k = .ok c →
      ∃ j, k ≤ j ∧ c = cand n j ∧ ∀ i, k ≤ i → i < j → cand n i ∈ used := by
  intro fuel
  induction fuel with
  | zero => intro k c h; simp [firstFree] at h
  | succ f ih =>
    intro k c h
    unfold firstFree at h
    split at h
    · rename_i hc
      obtain ⟨j, hj, hcj, hall⟩ := ih (k + 1) h
      refine ⟨j, by omega, hcj, ?_⟩
      intro i hki hij
      by_cases hik : i = k
      · subst hik; simpa using hc
      · exact hall i (by omega) hij
    · cases h
      exact ⟨k, Nat.le_refl k, rfl, fun i h1 h2 => absurd h2 (by omega)⟩

/-- pigeonhole, in the form needed: if `cand n k … cand n (k+m-1)` are all in `used` (and the candidates are
pairwise different) then `m ≤ used.length` -/
theorem run_le_length (n : String) :
    ∀ (m : Nat) (used : List String) (k : Nat), (∀ i, k ≤ i → i < k + m → cand n i ∈ used) → m ≤ used.length := by
  intro m
  induction m with
  | zero => intros; omega
  | succ m ih =>
    intro used k h
    have hk : cand n k ∈ used := h k (Nat.le_refl k) (by omega)
    have h' : ∀ i, k + 1 ≤ i → i < (k + 1) + m → cand n i ∈ used.erase (cand n k) := by
      intro i h1 h2
      have hi : cand n i ∈ used := h i (by omega) (by omega)
      have hne : cand n i ≠ cand n k := fun e => by have := cand_inj e; omega
      exact (List.mem_erase_of_ne hne).mpr hi
    have := ih (used.erase (cand n k)) (k + 1) h'
    rw [List.length_erase_of_mem hk] at this
    have hpos : 0 < used.length := List.length_pos_of_mem hk
    omega

/-- the Rust `loop` terminates: with fuel `used.length + 1` the model never reports `"fuel"`;
fuel sufficiency, stated on the start state the model uses -/
theorem firstFree_total (used : List String) (n : String) :
    ∃ c, firstFree used n (used.length + 1) 0 = .ok c := by
  -- generalised: from counter k with `fuel`, if the first `k` candidates are all used and k + fuel = length + 1
  have gen : ∀ (fuel k : Nat), k + fuel = used.length + 1 → (∀ i, i < k → cand n i ∈ used) →
      ∃ c, firstFree used n fuel k = .ok c := by
    intro fuel
    induction fuel with
    | zero =>
      intro k hk hall
      have := run_le_length n k used 0 (fun i _ h2 => hall i (by omega))
      omega
    | succ f ih =>
      intro k hk hall
      unfold firstFree
      split
      · rename_i hc
        apply ih (k + 1) (by omega)
        intro i hi
        by_cases hik : i = k
        · subst hik; simpa using hc
        · exact hall i (by omega)
      · exact ⟨_, rfl⟩
  exact gen (used.length + 1) 0 (by omega) (fun i hi => absurd hi (by omega))

/-! ## the `kept_names` loop -/

theorem claim_used_sub : ∀ (gs : List (String × List Sym)) (used : List String) (u : String),
    u ∈ used → u ∈ (claimKept used gs).1 := by
  intro gs
  induction gs with
  | nil => intro used u h; simpa [claimKept] using h
  | cons g r ih =>
    intro used u h
    unfold claimKept
    split
    · exact ih _ u (List.mem_cons_of_mem _ h)
    · exact ih _ u h

/-- every kept name is in `used_names` after the loop, was not in it before, and is the key of a one-symbol group -/
theorem claim_kept : ∀ (gs : List (String × List Sym)) (used : List String) (k : String),
    k ∈ (claimKept used gs).2 →
      k ∈ (claimKept used gs).1 ∧ k ∉ used ∧ ∃ g, g ∈ gs ∧ g.1 = k ∧ g.2.length = 1 := by
  intro gs
  induction gs with
  | nil => intro used k h; simp [claimKept] at h
  | cons g r ih =>
    intro used k h
    unfold claimKept at h ⊢
    split at h
    · rename_i hc
      rw [if_pos hc]
      have hc' : g.2.length = 1 ∧ g.1 ∉ used := by simpa using hc
      simp only at h ⊢
      rcases List.mem_cons.mp h with e | h'
      · subst e
        refine ⟨claim_used_sub r _ _ (List.mem_cons_self ..), hc'.2, g, List.mem_cons_self .., rfl, hc'.1⟩
      · obtain ⟨h1, h2, g', hg', e1, e2⟩ := ih _ k h'
        exact ⟨h1, fun hu => h2 (List.mem_cons_of_mem _ hu), g', List.mem_cons_of_mem _ hg', e1, e2⟩
    · rename_i hc
      rw [if_neg hc]
      obtain ⟨h1, h2, g', hg', e1, e2⟩ := ih _ k h
      exact ⟨h1, h2, g', List.mem_cons_of_mem _ hg', e1, e2⟩

/-- `used_names` after the loop = before ∪ kept -/
theorem claim_used_char : ∀ (gs : List (String × List Sym)) (used : List String) (u : String),
    u ∈ (claimKept used gs).1 → u ∈ used ∨ u ∈ (claimKept used gs).2 := by
  intro gs
  induction gs with
  | nil => intro used u h; left; simpa [claimKept] using h
  | cons g r ih =>
    intro used u h
    unfold claimKept at h ⊢
    split at h
    · rename_i hc
      rw [if_pos hc]
      simp only at h ⊢
      rcases ih _ u h with h1 | h1
      · rcases List.mem_cons.mp h1 with e | h2
        · right; rw [e]; exact List.mem_cons_self ..
        · left; exact h2
      · right; exact List.mem_cons_of_mem _ h1
    · rename_i hc
      rw [if_neg hc]
      exact ih _ u h

/-- a one-symbol group whose name is not in `used_names` at the start is kept (whatever comes before it) -/
theorem claim_keeps : ∀ (gs : List (String × List Sym)) (used : List String) (g : String × List Sym),
    g ∈ gs → g.2.length = 1 → g.1 ∈ (claimKept used gs).2 ∨ g.1 ∈ used := by
  intro gs
  induction gs with
  | nil => intro used g h; simp at h
  | cons h r ih =>
    intro used g hg hl
    unfold claimKept
    split
    · rename_i hc
      simp only
      rcases List.mem_cons.mp hg with e | hg'
      · left; rw [e]; exact List.mem_cons_self ..
      · rcases ih (h.1 :: used) g hg' hl with h1 | h1
        · left; exact List.mem_cons_of_mem _ h1
        · rcases List.mem_cons.mp h1 with e | h2
          · left; rw [e]; exact List.mem_cons_self ..
          · right; exact h2
    · rename_i hc
      rcases List.mem_cons.mp hg with e | hg'
      · subst e
        right
        simp only [Bool.and_eq_true, beq_iff_eq, Bool.not_eq_eq_eq_not, Bool.not_true, not_and,
          Bool.not_eq_false] at hc
        simpa using hc hl
      · exact ih used g hg' hl

/-! ## per-scope invariants of the second loop -/

/-- invariant of the second loop of a scope.  `used0` is `used_names` after the `kept_names` loop, `kept` the kept
names, `done` the keys of the groups already visited: `used_names` only grows, every assigned name is in it, an
assigned name is either the kept name of a visited group or was not in `used0`, and the assigned names are
pairwise different. -/
structure Inv (used0 kept done : List String) (st : St) : Prop where
  used0_sub : ∀ u, u ∈ used0 → u ∈ st.used
  out_used : ∀ p, p ∈ st.out → p.2 ∈ st.used
  out_class : ∀ p, p ∈ st.out → (p.2 ∈ done ∧ p.2 ∈ kept) ∨ p.2 ∉ used0
  out_distinct : st.out.Pairwise (fun a b => a.2 ≠ b.2)

theorem inv_init (used0 kept : List String) : Inv used0 kept [] ⟨used0, [], []⟩ :=
  ⟨fun _ h => h, by simp, by simp, by simp⟩

theorem Inv.mono_done {used0 kept done : List String} {st : St} (h : Inv used0 kept done st) (n : String) :
    Inv used0 kept (n :: done) st :=
  ⟨h.used0_sub, h.out_used,
    fun p hp => (h.out_class p hp).imp (fun ⟨a, b⟩ => ⟨List.mem_cons_of_mem _ a, b⟩) id, h.out_distinct⟩

/-- a generated name -/
theorem assignSym_gen_inv {used0 kept done : List String} {name : String} {st st' : St} {s : Sym}
    (hinv : Inv used0 kept done st) (h : assignSym name false st s = .ok st') : Inv used0 kept done st' := by
  unfold assignSym at h
  simp only [Bool.false_eq_true, if_false] at h
  split at h
  · rename_i c hff
    cases h
    have hfree : c ∉ st.used := firstFree_not_mem _ _ hff
    refine ⟨?_, ?_, ?_, ?_⟩
    · intro u hu; exact List.mem_cons_of_mem _ (hinv.used0_sub u hu)
    · intro p hp
      rcases List.mem_append.mp hp with hp | hp
      · exact List.mem_cons_of_mem _ (hinv.out_used p hp)
      · simp at hp; subst hp; simp
    · intro p hp
      rcases List.mem_append.mp hp with hp | hp
      · exact hinv.out_class p hp
      · simp at hp; subst hp
        right; exact fun hu => hfree (hinv.used0_sub _ hu)
    · rw [List.pairwise_append]
      refine ⟨hinv.out_distinct, by simp, ?_⟩
      intro a ha b hb
      simp at hb; subst hb
      intro e
      have e' : a.2 = c := e
      exact hfree (e' ▸ hinv.out_used a ha)
  · cases h

theorem assignSyms_gen_inv {used0 kept done : List String} {name : String} :
    ∀ (syms : List Sym) {st st' : St}, Inv used0 kept done st → assignSyms name false st syms = .ok st' →
      Inv used0 kept done st' := by
  intro syms
  induction syms with
  | nil => intro st st' hinv h; simp [assignSyms] at h; subst h; exact hinv
  | cons s r ih =>
    intro st st' hinv h
    unfold assignSyms at h
    split at h
    · rename_i st1 h1
      exact ih (assignSym_gen_inv hinv h1) h
    · cases h

/-- one group of the second loop.  A kept key must belong to a one-symbol group (true when keys are distinct). -/
theorem assignGroup_inv {used0 kept done : List String} {st st' : St} {g : String × List Sym}
    (hkept_sub : ∀ k, k ∈ kept → k ∈ used0)
    (hinv : Inv used0 kept done st) (hnew : g.1 ∉ done) (hone : g.1 ∈ kept → ∃ s, g.2 = [s])
    (h : assignGroup kept st g = .ok st') : Inv used0 kept (g.1 :: done) st' := by
  unfold assignGroup at h
  by_cases hk : g.1 ∈ kept
  · obtain ⟨s, hs⟩ := hone hk
    have hc : kept.contains g.1 = true := by simpa using hk
    rw [hc, hs] at h
    simp only [assignSyms, assignSym, if_true] at h
    cases h
    refine ⟨hinv.used0_sub, ?_, ?_, ?_⟩
    · intro p hp
      rcases List.mem_append.mp hp with hp | hp
      · exact hinv.out_used p hp
      · simp at hp; subst hp; exact hinv.used0_sub _ (hkept_sub _ hk)
    · intro p hp
      rcases List.mem_append.mp hp with hp | hp
      · exact (hinv.out_class p hp).imp (fun ⟨a, b⟩ => ⟨List.mem_cons_of_mem _ a, b⟩) id
      · simp at hp; subst hp; left; exact ⟨List.mem_cons_self .., hk⟩
    · rw [List.pairwise_append]
      refine ⟨hinv.out_distinct, by simp, ?_⟩
      intro a ha b hb
      simp at hb; subst hb
      intro e
      have e' : a.2 = g.1 := e
      rcases hinv.out_class a ha with ⟨hd, _⟩ | hn
      · exact hnew (e' ▸ hd)
      · exact hn (e' ▸ hkept_sub _ hk)
  · have hc : kept.contains g.1 = false := by simpa using hk
    rw [hc] at h
    exact (assignSyms_gen_inv g.2 hinv h).mono_done g.1

theorem assignGroups_inv {used0 kept : List String} (hkept_sub : ∀ k, k ∈ kept → k ∈ used0) :
    ∀ (gs : List (String × List Sym)) {done : List String} {st st' : St}, Inv used0 kept done st →
      (gs.map (·.1)).Pairwise (· ≠ ·) → (∀ g, g ∈ gs → g.1 ∉ done) →
      (∀ g, g ∈ gs → g.1 ∈ kept → ∃ s, g.2 = [s]) →
      assignGroups kept st gs = .ok st' → ∃ done', Inv used0 kept done' st' := by
  intro gs
  induction gs with
  | nil => intro done st st' hinv _ _ _ h; simp [assignGroups] at h; subst h; exact ⟨done, hinv⟩
  | cons g r ih =>
    intro done st st' hinv hpw hnd hone h
    unfold assignGroups at h
    simp only [List.map_cons, List.pairwise_cons] at hpw
    split at h
    · rename_i st1 h1
      have hinv1 := assignGroup_inv hkept_sub hinv (hnd g (List.mem_cons_self ..)) (hone g (List.mem_cons_self ..)) h1
      apply ih hinv1 hpw.2 _ (fun g' hg' => hone g' (List.mem_cons_of_mem _ hg')) h
      intro g' hg' hmem
      rcases List.mem_cons.mp hmem with e | hm
      · exact hpw.1 g'.1 (List.mem_map.mpr ⟨g', hg', rfl⟩) e.symm
      · exact hnd g' (List.mem_cons_of_mem _ hg') hm
    · cases h

/-- in a list with pairwise different keys an element is determined by its key -/
theorem eq_of_fst_eq {α β : Type} : ∀ {l : List (α × β)}, (l.map (·.1)).Pairwise (· ≠ ·) →
    ∀ p ∈ l, ∀ q ∈ l, p.1 = q.1 → p = q := by
  intro l
  induction l with
  | nil => intro _ p hp; simp at hp
  | cons a r ih =>
    intro hpw p hp q hq e
    simp only [List.map_cons, List.pairwise_cons] at hpw
    rcases List.mem_cons.mp hp with ep | hp' <;> rcases List.mem_cons.mp hq with eq | hq'
    · rw [ep, eq]
    · rw [ep] at e; exact absurd e (hpw.1 q.1 (List.mem_map.mpr ⟨q, hq', rfl⟩))
    · rw [eq] at e; exact absurd e.symm (hpw.1 p.1 (List.mem_map.mpr ⟨p, hp', rfl⟩))
    · exact ih hpw.2 p hp' q hq' e

/-- what holds of the state a scope ends in -/
structure ScopeOk (reserved : List String) (st : St) : Prop where
  out_fresh : ∀ p, p ∈ st.out → p.2 ∉ reserved
  out_distinct : st.out.Pairwise (fun a b => a.2 ≠ b.2)

/-- **both loops of a scope** (keys pairwise different, as the keys of a map are): no assigned name is reserved and
the assigned names are pairwise different -/
theorem scopeRun_ok {reserved : List String} {gs : List (String × List Sym)} {st : St}
    (hpw : (gs.map (·.1)).Pairwise (· ≠ ·)) (h : scopeRun reserved gs = .ok st) : ScopeOk reserved st := by
  unfold scopeRun at h
  simp only at h
  have hks : ∀ k, k ∈ (claimKept reserved gs).2 → k ∈ (claimKept reserved gs).1 :=
    fun k hk => (claim_kept gs reserved k hk).1
  have hone : ∀ g, g ∈ gs → g.1 ∈ (claimKept reserved gs).2 → ∃ s, g.2 = [s] := by
    intro g hg hk
    obtain ⟨_, _, g', hg', e1, e2⟩ := claim_kept gs reserved g.1 hk
    have : g' = g := eq_of_fst_eq hpw g' hg' g hg e1
    subst this
    match hg2 : g'.2, e2 with
    | [s], _ => exact ⟨s, rfl⟩
    | [], e2 => simp at e2
    | _ :: _ :: _, e2 => simp at e2
  obtain ⟨done', hinv⟩ := assignGroups_inv hks gs (inv_init _ _) hpw (fun _ _ hm => by simp at hm) hone h
  refine ⟨?_, hinv.out_distinct⟩
  intro p hp hr
  rcases hinv.out_class p hp with ⟨_, hk⟩ | hn
  · exact (claim_kept gs reserved p.2 hk).2.1 hr
  · exact hn (claim_used_sub gs reserved _ hr)

/-! ## local pass -/

theorem firstFreeLocal_not_mem {al ua : List String} {n : String} :
    ∀ (fuel k : Nat) {c : String}, firstFreeLocal al ua n fuel k = .ok c → c ∉ ua ∧ c ∉ al := by
  intro fuel
  induction fuel with
  | zero => intro k c h; simp [firstFreeLocal] at h
  | succ f ih =>
    intro k c h
    unfold firstFreeLocal at h
    split at h
    · rename_i hc
      cases h
      simp only [Bool.and_eq_true, Bool.not_eq_eq_eq_not, Bool.not_true] at hc
      exact ⟨by simpa using hc.2, by simpa using hc.1⟩
    · exact ih (k + 1) h

/-- every name the local pass picks is outside the set it started from (⊇ reserved) -/
theorem assignLocals_not_mem {al : List String} :
    ∀ (ls : List String) {ua out : List String}, assignLocals al ua ls = .ok out →
      ∀ x, x ∈ out → x ∉ ua := by
  intro ls
  induction ls with
  | nil => intro ua out h x hx; simp [assignLocals] at h; subst h; simp at hx
  | cons n r ih =>
    intro ua out h x hx
    unfold assignLocals at h
    split at h
    · split at h
      · cases h
      · rename_i c hc
        split at h
        · cases h
        · rename_i rest hrest
          cases h
          rcases List.mem_cons.mp hx with hx | hx
          · subst hx; exact (firstFreeLocal_not_mem _ _ hc).1
          · intro hmem
            exact ih hrest x hx (List.mem_cons_of_mem _ hmem)
    · rename_i hn
      split at h
      · cases h
      · rename_i rest hrest
        cases h
        rcases List.mem_cons.mp hx with hx | hx
        · subst hx; simpa using hn
        · exact ih hrest x hx

/-! ## the sorted key vector -/

theorem mem_insertSorted {n x : String} : ∀ {l : List String}, x ∈ insertSorted n l ↔ x = n ∨ x ∈ l := by
  intro l
  induction l with
  | nil => simp [insertSorted]
  | cons m r ih =>
    unfold insertSorted
    split
    · simp
    · simp only [List.mem_cons, ih]
      constructor
      · rintro (h | h | h)
        · exact Or.inr (Or.inl h)
        · exact Or.inl h
        · exact Or.inr (Or.inr h)
      · rintro (h | h | h)
        · exact Or.inr (Or.inl h)
        · exact Or.inl h
        · exact Or.inr (Or.inr h)

theorem mem_sortedNames {x : String} : ∀ {xs : List String}, x ∈ sortedNames xs ↔ x ∈ xs := by
  intro xs
  induction xs with
  | nil => simp [sortedNames]
  | cons a r ih =>
    have hunf : sortedNames (a :: r) =
        if (sortedNames r).contains a then sortedNames r else insertSorted a (sortedNames r) := rfl
    rw [hunf]
    split
    · rename_i hc
      have ha : a ∈ sortedNames r := by simpa using hc
      simp only [List.mem_cons, ih]
      constructor
      · exact Or.inr
      · rintro (h | h)
        · subst h; exact ih.mp ha
        · exact h
    · simp only [mem_insertSorted, ih, List.mem_cons]

/-! ## verbatim: a group of one symbol whose name is not reserved keeps it -/

theorem assignSym_out_mono {name : String} {keep : Bool} {st st' : St} {s : Sym}
    (h : assignSym name keep st s = .ok st') : ∀ p, p ∈ st.out → p ∈ st'.out := by
  unfold assignSym at h
  split at h
  · cases h; intro p hp; exact List.mem_append_left _ hp
  · split at h
    · cases h; intro p hp; exact List.mem_append_left _ hp
    · cases h

theorem assignSyms_out_mono {name : String} {keep : Bool} :
    ∀ (syms : List Sym) {st st' : St}, assignSyms name keep st syms = .ok st' → ∀ p, p ∈ st.out → p ∈ st'.out := by
  intro syms
  induction syms with
  | nil => intro st st' h p hp; simp [assignSyms] at h; subst h; exact hp
  | cons s r ih =>
    intro st st' h p hp
    unfold assignSyms at h
    split at h
    · rename_i st1 h1
      exact ih h p (assignSym_out_mono h1 p hp)
    · cases h

theorem assignGroups_out_mono {kept : List String} :
    ∀ (gs : List (String × List Sym)) {st st' : St}, assignGroups kept st gs = .ok st' →
      ∀ p, p ∈ st.out → p ∈ st'.out := by
  intro gs
  induction gs with
  | nil => intro st st' h p hp; simp [assignGroups] at h; subst h; exact hp
  | cons g r ih =>
    intro st st' h p hp
    unfold assignGroups at h
    split at h
    · rename_i st1 h1
      exact ih h p (assignSyms_out_mono _ h1 p hp)
    · cases h

/-- the symbols of a kept group all receive the group's name -/
theorem assignSyms_keep {name : String} :
    ∀ (syms : List Sym) {st st' : St}, assignSyms name true st syms = .ok st' →
      ∀ s, s ∈ syms → (s, name) ∈ st'.out := by
  intro syms
  induction syms with
  | nil => intro st st' _ s hs; simp at hs
  | cons a r ih =>
    intro st st' h s hs
    unfold assignSyms at h
    split at h
    · rename_i st1 h1
      rcases List.mem_cons.mp hs with e | hs'
      · subst e
        apply assignSyms_out_mono r h
        unfold assignSym at h1
        simp only [if_true] at h1
        cases h1
        simp
      · exact ih h s hs'
    · cases h

theorem assignGroups_keep {kept : List String} :
    ∀ (gs : List (String × List Sym)) {st st' : St}, assignGroups kept st gs = .ok st' →
      ∀ g, g ∈ gs → g.1 ∈ kept → ∀ s, s ∈ g.2 → (s, g.1) ∈ st'.out := by
  intro gs
  induction gs with
  | nil => intro st st' _ g hg; simp at hg
  | cons a r ih =>
    intro st st' h g hg hk s hs
    unfold assignGroups at h
    split at h
    · rename_i st1 h1
      rcases List.mem_cons.mp hg with e | hg'
      · subst e
        apply assignGroups_out_mono r h
        unfold assignGroup at h1
        have hc : kept.contains g.1 = true := by simpa using hk
        rw [hc] at h1
        exact assignSyms_keep g.2 h1 s hs
      · exact ih h g hg' hk s hs
    · cases h

/-- **per-scope verbatim** (no side condition about generated names any more): a group of exactly one symbol
whose name is not reserved gives that symbol its name -/
theorem scopeRun_keep {reserved : List String} {gs : List (String × List Sym)} {st : St}
    (h : scopeRun reserved gs = .ok st) {n : String} {sym : Sym} (hg : (n, [sym]) ∈ gs) (hres : n ∉ reserved) :
    (sym, n) ∈ st.out := by
  unfold scopeRun at h
  simp only at h
  rcases claim_keeps gs reserved (n, [sym]) hg rfl with hk | hr
  · exact assignGroups_keep gs h (n, [sym]) hg hk sym (List.mem_singleton.mpr rfl)
  · exact absurd hr hres

/-! ## which symbols receive names -/

theorem assignSyms_out_syms {name : String} {keep : Bool} :
    ∀ (syms : List Sym) {st st' : St}, assignSyms name keep st syms = .ok st' →
      ∀ p, p ∈ st'.out → p ∈ st.out ∨ p.1 ∈ syms := by
  intro syms
  induction syms with
  | nil => intro st st' h p hp; simp [assignSyms] at h; subst h; exact Or.inl hp
  | cons a r ih =>
    intro st st' h p hp
    unfold assignSyms at h
    split at h
    · rename_i st1 h1
      rcases ih h p hp with h2 | h2
      · unfold assignSym at h1
        split at h1
        · cases h1
          rcases List.mem_append.mp h2 with h3 | h3
          · exact Or.inl h3
          · simp at h3; subst h3; exact Or.inr (List.mem_cons_self ..)
        · split at h1
          · cases h1
            rcases List.mem_append.mp h2 with h3 | h3
            · exact Or.inl h3
            · simp at h3; subst h3; exact Or.inr (List.mem_cons_self ..)
          · cases h1
      · exact Or.inr (List.mem_cons_of_mem _ h2)
    · cases h

theorem assignGroups_out_syms {kept : List String} :
    ∀ (gs : List (String × List Sym)) {st st' : St}, assignGroups kept st gs = .ok st' →
      ∀ p, p ∈ st'.out → p ∈ st.out ∨ ∃ g, g ∈ gs ∧ p.1 ∈ g.2 := by
  intro gs
  induction gs with
  | nil => intro st st' h p hp; simp [assignGroups] at h; subst h; exact Or.inl hp
  | cons a r ih =>
    intro st st' h p hp
    unfold assignGroups at h
    split at h
    · rename_i st1 h1
      rcases ih h p hp with h2 | ⟨g, hg, hpg⟩
      · rcases assignSyms_out_syms a.2 h1 p h2 with h3 | h3
        · exact Or.inl h3
        · exact Or.inr ⟨a, List.mem_cons_self .., h3⟩
      · exact Or.inr ⟨g, List.mem_cons_of_mem _ hg, hpg⟩
    · cases h

/-- the groups of a scope: keys are exactly the names that occur, the symbols are the filter -/
theorem mem_groupsOf {syms : List (String × Sym)} {g : String × List Sym} :
    g ∈ groupsOf syms ↔ (∃ p, p ∈ syms ∧ p.1 = g.1) ∧ g.2 = (syms.filter (fun p => p.1 == g.1)).map (·.2) := by
  unfold groupsOf groupsOfKeys
  simp only [List.mem_map, mem_sortedNames]
  constructor
  · rintro ⟨a, ⟨p, hp, rfl⟩, rfl⟩
    exact ⟨⟨p, hp, rfl⟩, rfl⟩
  · rintro ⟨⟨p, hp, hpe⟩, h2⟩
    refine ⟨g.1, ⟨p, hp, hpe⟩, ?_⟩
    cases g
    simp_all

/-- every symbol named by a scope is one of the scope's symbols -/
theorem scopeRun_out_syms {reserved : List String} {syms : List (String × Sym)} {st : St}
    (h : scopeRun reserved (groupsOf syms) = .ok st) : ∀ p, p ∈ st.out → ∃ q, q ∈ syms ∧ q.2 = p.1 := by
  intro p hp
  unfold scopeRun at h
  simp only at h
  rcases assignGroups_out_syms _ h p hp with h1 | ⟨g, hg, hpg⟩
  · simp at h1
  · rw [(mem_groupsOf.mp hg).2] at hpg
    obtain ⟨q, hq, e⟩ := List.mem_map.mp hpg
    exact ⟨q, (List.mem_filter.mp hq).1, e⟩

end RsslVerif.Lemmas.Names

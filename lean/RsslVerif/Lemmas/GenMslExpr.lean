import RsslVerif.Lemmas.GenMslBase
import RsslVerif.Lemmas.GenSemExpr
/-! Metal exporter, expressions: the emitted expression simulates the typed expression (`SimM`), by induction. -/
namespace RsslVerif.Lemmas.GenMsl
open RsslVerif.Gen.HlslGenTables RsslVerif.Gen.MslGenTables RsslVerif.Model RsslVerif.Model.GenMsl RsslVerif.Spec.Sem
open RsslVerif.Model.Ir (Ty Var Const Dir)
open RsslVerif.Model.GenHlsl (GenErr)
open RsslVerif.Lemmas.GenSem (findArm_bool findArm_uint findArm_f32 findArm_int32_neg findArm_int32_nonneg)
set_option linter.unusedSimpArgs false

theorem wrap64_min : Msl.wrap64 (-2147483648) = -2147483648 := by decide

/-- `generate_literal` for the typed constants: same value; static type the constant's type, except `Int32(i32::MIN)`,
whose magnitude 2147483648 does not fit `int`: the literal is a `long` and so is its negation -/
theorem sim_litM (W : World) (M : Msl.MWorld) (env : Ast.Env) (S : Ir.Side) (c : Const) (a : HlslAst.Expr)
    (hc : Ir.okM S (.lit c) = true)
    (hg : GenMsl.genLiteral c = .ok a) : SimM W M env (.lit c) a c.ty := by
  rw [genLiteral_eq] at hg
  cases c with
  | intLit v => simp [Ir.okM] at hc
  | floatLit v => simp [Ir.okM] at hc
  | bool b =>
    simp [GenHlsl.genLiteral, Const.kind, GenHlsl.Const.intValue, findArm_bool, GenHlsl.mkLit, Except.map] at hg
    subst hg
    simp [SimM, Msl.typeOf, Msl.litTy, mTy, Ir.isMin, Const.ty, Msl.eval, Ir.eval, Msl.litVal, Ir.constVal, mVal]
  | float32 x =>
    simp [GenHlsl.genLiteral, Const.kind, GenHlsl.Const.intValue, findArm_f32, GenHlsl.mkLit, Except.map] at hg
    subst hg
    simp [SimM, Msl.typeOf, Msl.litTy, mTy, Ir.isMin, Const.ty, Msl.eval, Ir.eval, Msl.litVal, Ir.constVal, mVal]
  | uint32 v =>
    simp [GenHlsl.genLiteral, Const.kind, GenHlsl.Const.intValue, findArm_uint, GenHlsl.mkLit, Except.map] at hg
    subst hg
    have : v.toNat < 4294967296 := v.isLt
    simp [SimM, Msl.typeOf, Msl.litTy, mTy, Ir.isMin, Const.ty, Msl.eval, Ir.eval, Msl.litVal, Ir.constVal, mVal, this]
  | int32 v =>
    by_cases h1 : v.toInt < 0
    · simp [GenHlsl.genLiteral, Const.kind, GenHlsl.Const.intValue, findArm_int32_neg _ h1, GenHlsl.negMagnitude] at hg
      subst hg
      by_cases hm : v = BitVec.intMin 32
      · subst hm
        have e1 : (-(BitVec.intMin 32).toInt).toNat = 2147483648 := by decide
        simp [SimM, Msl.typeOf, Msl.litTy, mTy, Ir.isMin, Const.ty, Msl.eval, Ir.eval, Msl.litVal, Ir.constVal, mVal,
          astUnSem, Msl.convR, Msl.convert, Msl.unopM, Msl.promote, e1, wrap64_min]
      · have hlt := mag_lt v hm
        have hmin : (v == BitVec.intMin 32) = false := by simpa using hm
        simp [SimM, Msl.typeOf, Msl.litTy, mTy, Ir.isMin, Const.ty, Msl.eval, Ir.eval, Msl.litVal, Ir.constVal, mVal,
          astUnSem, Msl.convR, Msl.convert, Msl.unopM, Msl.promote, hlt, hmin, unop, neg_ofNat_of_neg v h1]
    · simp [GenHlsl.genLiteral, Const.kind, GenHlsl.Const.intValue, findArm_int32_nonneg _ h1, GenHlsl.mkLit, Except.map] at hg
      subst hg
      have hlt := toNat_lt_of_nonneg v h1
      have hmin : (v == BitVec.intMin 32) = false := by
        have : v ≠ BitVec.intMin 32 := by
          intro h; subst h; exact h1 (by decide)
        simpa using this
      simp [SimM, Msl.typeOf, Msl.litTy, mTy, Ir.isMin, Const.ty, Msl.eval, Ir.eval, Msl.litVal, Ir.constVal, mVal, hlt, hmin]

theorem op_unaryM {o : IntrinsicOp} {u : UnaryOp} (h : mslOpForm o = .unary u) : astUnSem u = irOpSem o := by
  cases o <;> simp [mslOpForm] at h <;> subst h <;> rfl
theorem op_binaryM {o : IntrinsicOp} {b : BinOp} (h : mslOpForm o = .binary b) : astBinSem b = irOpSem o := by
  cases o <;> simp [mslOpForm] at h <;> subst h <;> rfl
theorem op_floatCallM {o : IntrinsicOp} {n : String} {s : List String} {b : BinOp} (h : mslOpForm o = .floatCall n s b) :
    irOpSem o = .bin .mod ∧ astBinSem b = .bin .mod ∧ metalLib n = Msl.fmodName ∧
    s = ["Float16", "Float32", "Float64", "FloatLiteral"] := by
  cases o <;> simp [mslOpForm] at h
  obtain ⟨rfl, rfl, rfl⟩ := h
  exact ⟨rfl, rfl, by decide, rfl⟩

theorem isShift_eq (m : MBin) : Msl.isShift m = Ir.isShiftM m := by cases m <;> rfl

theorem typeName_tyOfName {ty : Ty} {n : String} (h : GenMsl.typeName ty = .ok n) : Ast.tyOfName n = some ty := by
  cases ty <;> simp [GenMsl.typeName, GenHlsl.scalarKey, mslScalarTypeName] at h <;> first | contradiction | (subst h; rfl)

theorem lval_genM {cx : Ctx} {vis : Var → Bool} {env : Ast.Env} (hag : AgreeM cx vis env) {S : Ir.Side} (hS : S.vis = vis)
    {x : Ir.Expr} {x' : HlslAst.Expr} {v : Var}
    (hl : Ir.lvalOf x = some v) (hg : genExpr cx x = .ok x') (hok : Ir.okM S x = true) : Msl.lvalOf env x' = some v := by
  cases x with
  | var id =>
    simp [Ir.lvalOf] at hl; subst hl
    simp [genExpr] at hg; subst hg
    simp only [Ir.okM, hS] at hok
    simpa [Msl.lvalOf, Ctx.name] using hag.res (.loc id) hok
  | global id =>
    simp [Ir.lvalOf] at hl; subst hl
    simp [genExpr] at hg; subst hg
    simp only [Ir.okM, hS] at hok
    simpa [Msl.lvalOf, Ctx.name] using hag.res (.glob id) hok
  | _ => simp [Ir.lvalOf] at hl

theorem lval_tyM {sig : Sig} {vty : Var → Ty} {e : Ir.Expr} {t : Ty} {v : Var}
    (ht : Ir.typeOf sig vty e = some t) (hl : Ir.lvalOf e = some v) : vty v = t ∧ Ir.isMin e = false := by
  cases e <;> simp [Ir.lvalOf] at hl <;> subst hl <;> simp [Ir.typeOf] at ht <;> simp [ht, Ir.isMin]

theorem arith_facts {t : Ty} (h : Ir.arithTy (some t) = true) :
    Msl.promote t = t ∧ Msl.common t t = some t ∧ t ≠ .lit ∧ t ≠ .bool := by
  cases t <;> simp [Ir.arithTy] at h <;> simp [Msl.promote, Msl.common]

theorem int_facts {t : Ty} (h : Ir.intTy (some t) = true) :
    Msl.promote t = t ∧ Msl.isInteger t = true ∧ t ≠ .lit := by
  cases t <;> simp [Ir.intTy] at h <;> simp [Msl.promote, Msl.isInteger]

theorem sim_unM {W : World} {M : Msl.MWorld} {env : Ast.Env} {cx : Ctx} {vis : Var → Bool} (hag : AgreeM cx vis env)
    (hp : M.P = W.P) {S : Ir.Side} (hS : S.vis = vis) (hSs : S.sig = W.sig) (hSv : S.vty = cx.vty)
    {o : IntrinsicOp} {u : UnaryOp} {x : Ir.Expr} {x' : HlslAst.Expr} {tx t : Ty}
    (hu : mslOpForm o = .unary u) (hgx : genExpr cx x = .ok x')
    (hx : SimM W M env x x' tx) (htx : Ir.typeOf W.sig cx.vty x = some tx)
    (ht : Ir.typeOf W.sig cx.vty (.op o (.cons x .nil)) = some t)
    (hok : Ir.okM S (.op o (.cons x .nil)) = true) :
    SimM W M env (.op o (.cons x .nil)) (.un u x') t := by
  have hs := op_unaryM hu
  simp only [Ir.okM, Bool.and_eq_true, Bool.not_eq_true', hSs, hSv, htx] at hok
  obtain ⟨⟨hokx, hmin⟩, hcond⟩ := hok
  obtain ⟨hty, hev⟩ := hx.plain hmin
  simp only [Ir.typeOf, htx] at ht
  cases hsem : irOpSem o with
  | un m =>
    rw [hsem] at ht hs hcond
    by_cases hm : m = .lnot
    · subst hm
      have : tx = .bool ∧ t = .bool := by cases tx <;> simp at ht <;> simp [ht]
      obtain ⟨rfl, rfl⟩ := this
      constructor
      · simp [Msl.typeOf, hs, hty, mTy, Ir.isMin]
      · intro σ
        simp only [Msl.eval, hs, hty, Ir.eval, hsem, if_true]
        rw [hev σ]
        cases hr : Ir.eval W x σ with
        | none => simp [Msl.convR]
        | some r =>
          obtain ⟨v, σ1⟩ := r
          simp only [Msl.convR, Msl.convert, if_pos rfl, hp]
          cases hu2 : unop W.P .lnot v <;> simp [hu2, mVal, Ir.isMin]
    · have hcond' : Ir.arithTy (some tx) = true := by cases m <;> simp_all
      obtain ⟨hpr, _, hnl, hnb⟩ := arith_facts hcond'
      have htt : t = tx := by cases m <;> cases tx <;> simp_all
      subst htt
      constructor
      · cases m <;> simp_all [Msl.typeOf, mTy, Ir.isMin]
      · intro σ
        simp only [Msl.eval, hs, hty, Ir.eval, hsem, hm, if_false, hpr]
        rw [hev σ]
        cases hr : Ir.eval W x σ with
        | none => simp [Msl.convR]
        | some r =>
          obtain ⟨v, σ1⟩ := r
          simp only [Msl.convR, Msl.convert, if_pos rfl, Msl.unopM, hnl, if_false, hp]
          cases hu2 : unop W.P m v <;> simp [hu2, mVal, Ir.isMin]
  | incdec pre inc =>
    rw [hsem] at ht hs
    simp at ht
    obtain ⟨hlv, rfl⟩ := ht
    obtain ⟨xv, hxv⟩ := Option.isSome_iff_exists.mp hlv
    have hl' := lval_genM hag hS hxv hgx hokx
    constructor
    · simp [Msl.typeOf, hs, hty, mTy, Ir.isMin]
    · intro σ
      simp only [Msl.eval, hs, hl', Ir.eval, hsem, hxv, hp]
      cases hs2 : step W.P inc (σ xv) <;> simp [hs2, mVal, Ir.isMin]
  | _ => rw [hsem] at ht; simp at ht

theorem bool_not_min {sig : Sig} {vty : Var → Ty} {e : Ir.Expr}
    (ht : Ir.typeOf sig vty e = some .bool) : Ir.isMin e = false := by
  cases h : Ir.isMin e <;> simp
  have := isMin_ty ht h
  simp at this

theorem sim_binM {W : World} {M : Msl.MWorld} {env : Ast.Env} {cx : Ctx} {vis : Var → Bool} (hag : AgreeM cx vis env)
    (hp : M.P = W.P) {S : Ir.Side} (hS : S.vis = vis) (hSs : S.sig = W.sig) (hSv : S.vty = cx.vty)
    {o : IntrinsicOp} {b : BinOp} {x y : Ir.Expr} {x' y' : HlslAst.Expr} {tx ty t : Ty}
    (hs : astBinSem b = irOpSem o) (hgx : genExpr cx x = .ok x')
    (hx : SimM W M env x x' tx) (htx : Ir.typeOf W.sig cx.vty x = some tx)
    (hy : SimM W M env y y' ty) (hty : Ir.typeOf W.sig cx.vty y = some ty)
    (ht : Ir.typeOf W.sig cx.vty (.op o (.cons x (.cons y .nil))) = some t)
    (hok : Ir.okM S (.op o (.cons x (.cons y .nil))) = true)
    (hrem : (irOpSem o = .bin .mod ∨ irOpSem o = .compound .mod) → tx ≠ .float) :
    SimM W M env (.op o (.cons x (.cons y .nil))) (.bin b x' y') t := by
  simp only [Ir.okM, Bool.and_eq_true, Bool.not_eq_true', Bool.or_eq_true, decide_eq_true_eq, hSs, hSv, htx] at hok
  obtain ⟨⟨⟨⟨hokx, hoky⟩, hminx⟩, hminy⟩, hcond⟩ := hok
  simp only [Ir.typeOf, htx, hty] at ht
  have hvty := hag.vty
  obtain ⟨tyx, evx⟩ := hx.plain hminx
  cases hsem : irOpSem o with
  | bin m =>
    have hnr : ¬(m = MBin.mod ∧ tx = Ty.float) := fun h => hrem (.inl (by rw [hsem, h.1])) h.2
    rw [hsem] at ht hs hcond hminy
    simp at ht hminy
    obtain ⟨rfl, ht⟩ := ht
    obtain ⟨tyy, evy⟩ := hy.plain hminy
    by_cases hsh : Ir.isShiftM m = true
    · simp only [hsh, if_true] at hcond
      obtain ⟨hpr, hint, hnl⟩ := int_facts hcond
      have hncmp : m.isCmp = false := by cases m <;> simp [Ir.isShiftM] at hsh <;> rfl
      simp [hncmp] at ht; subst ht
      constructor
      · simp [Msl.typeOf, hs, tyx, tyy, isShift_eq, hsh, hpr, hint, mTy, Ir.isMin]
      · intro σ
        simp only [Msl.eval, hs, tyx, tyy, isShift_eq, hsh, if_true, hpr, Ir.eval, hsem, evx]
        cases h1 : Ir.eval W x σ with
        | none => simp [Msl.convR]
        | some r =>
          obtain ⟨va, σ1⟩ := r
          simp only [Msl.convR, Msl.convert, if_pos rfl, evy]
          cases h2 : Ir.eval W y σ1 with
          | none => simp [h2]
          | some r2 =>
            obtain ⟨vb, σ2⟩ := r2
            simp only [Msl.shiftM, hnl, ne_eq, not_false_eq_true, and_self, if_true, hp]
            cases h3 : binop W.P m va vb <;> simp [h2, h3, mVal, Ir.isMin]
    · have hsh' : Ir.isShiftM m = false := by simpa using hsh
      simp only [hsh', Bool.false_eq_true, if_false] at hcond
      obtain ⟨hpr, hcm, hnl, hnb⟩ := arith_facts hcond
      constructor
      · simp only [Msl.typeOf, hs, tyx, tyy, isShift_eq, hsh', Bool.false_eq_true, if_false, hcm, hnr]
        cases hm : m.isCmp <;> simp [hm] at ht ⊢ <;> simp [ht, mTy, Ir.isMin]
      · intro σ
        simp only [Msl.eval, hs, tyx, tyy, isShift_eq, hsh', Bool.false_eq_true, if_false, hcm, Ir.eval, hsem, evx]
        cases h1 : Ir.eval W x σ with
        | none => simp [Msl.convR]
        | some r =>
          obtain ⟨va, σ1⟩ := r
          simp only [Msl.convR, Msl.convert, if_pos rfl, evy]
          cases h2 : Ir.eval W y σ1 with
          | none => simp [h2]
          | some r2 =>
            obtain ⟨vb, σ2⟩ := r2
            simp only [Msl.binopM, hnl, if_false, hp, hnr]
            cases h3 : binop W.P m va vb <;> simp [h2, h3, mVal, Ir.isMin]
  | land =>
    rw [hsem] at ht hs hminy
    have hbb : tx = .bool ∧ ty = .bool ∧ t = .bool := by
      cases tx <;> cases ty <;> simp at ht <;> simp [ht]
    obtain ⟨rfl, rfl, rfl⟩ := hbb
    obtain ⟨tyy, evy⟩ := hy.plain (bool_not_min hty)
    constructor
    · simp [Msl.typeOf, hs, tyx, tyy, mTy, Ir.isMin]
    · intro σ
      simp only [Msl.eval, hs, tyx, tyy, Ir.eval, hsem, evx, evy]
      cases h1 : Ir.eval W x σ with
      | none => simp [Msl.convR]
      | some r =>
        obtain ⟨va, σ1⟩ := r
        cases va <;> simp [Msl.convR, Msl.convert, mVal, Ir.isMin]
        rename_i bv
        cases bv <;> simp
        cases h2 : Ir.eval W y σ1 with
        | none => simp
        | some r2 =>
          obtain ⟨vb, σ2⟩ := r2
          cases vb <;> simp
  | lor =>
    rw [hsem] at ht hs hminy
    have hbb : tx = .bool ∧ ty = .bool ∧ t = .bool := by
      cases tx <;> cases ty <;> simp at ht <;> simp [ht]
    obtain ⟨rfl, rfl, rfl⟩ := hbb
    obtain ⟨tyy, evy⟩ := hy.plain (bool_not_min hty)
    constructor
    · simp [Msl.typeOf, hs, tyx, tyy, mTy, Ir.isMin]
    · intro σ
      simp only [Msl.eval, hs, tyx, tyy, Ir.eval, hsem, evx, evy]
      cases h1 : Ir.eval W x σ with
      | none => simp [Msl.convR]
      | some r =>
        obtain ⟨va, σ1⟩ := r
        cases va <;> simp [Msl.convR, Msl.convert, mVal, Ir.isMin]
        rename_i bv
        cases bv <;> simp
        cases h2 : Ir.eval W y σ1 with
        | none => simp
        | some r2 =>
          obtain ⟨vb, σ2⟩ := r2
          cases vb <;> simp
  | assign =>
    rw [hsem] at ht hs
    simp at ht
    obtain ⟨⟨rfl, hlv⟩, rfl⟩ := ht
    obtain ⟨xv, hxv⟩ := Option.isSome_iff_exists.mp hlv
    have hl' := lval_genM hag hS hxv hgx hokx
    obtain ⟨hvx, _⟩ := lval_tyM htx hxv
    constructor
    · simp [Msl.typeOf, hs, tyx, hy.1, mTy, Ir.isMin]
    · intro σ
      simp only [Msl.eval, hs, hl', hy.1, Ir.eval, hsem, hxv, hvty, hvx, hy.conv hty]
      cases h1 : Ir.eval W y σ <;> simp [mVal, Ir.isMin]
  | compound m =>
    have hnr : ¬(m = MBin.mod ∧ tx = Ty.float) := fun h => hrem (.inr (by rw [hsem, h.1])) h.2
    rw [hsem] at ht hs hcond hminy
    simp at ht hminy
    obtain ⟨⟨rfl, hlv, hncmp⟩, rfl⟩ := ht
    obtain ⟨tyy, evy⟩ := hy.plain hminy
    obtain ⟨xv, hxv⟩ := Option.isSome_iff_exists.mp hlv
    have hl' := lval_genM hag hS hxv hgx hokx
    obtain ⟨hvx, _⟩ := lval_tyM htx hxv
    by_cases hsh : Ir.isShiftM m = true
    · simp only [hsh, if_true] at hcond
      obtain ⟨hpr, hint, hnl⟩ := int_facts hcond
      have hnm : m ≠ MBin.mod := by cases m <;> simp [Ir.isShiftM] at hsh <;> simp
      constructor
      · simp [Msl.typeOf, hs, tyx, tyy, mTy, Ir.isMin, hnm]
      · intro σ
        simp only [Msl.eval, hs, hl', tyy, isShift_eq, hsh, if_true, hpr, Ir.eval, hsem, hxv, hvty, hvx, evy]
        cases h1 : Ir.eval W y σ with
        | none => simp [Msl.convR]
        | some r =>
          obtain ⟨vb, σ1⟩ := r
          simp only [Msl.convR, Msl.convert, if_pos rfl, Msl.shiftM, hnl, ne_eq, not_false_eq_true, and_self, if_true, hp]
          cases h3 : binop W.P m (σ1 xv) vb <;> simp [h3, mVal, Ir.isMin]
    · have hsh' : Ir.isShiftM m = false := by simpa using hsh
      simp only [hsh', Bool.false_eq_true, if_false] at hcond
      obtain ⟨hpr, hcm, hnl, hnb⟩ := arith_facts hcond
      constructor
      · simp [Msl.typeOf, hs, tyx, tyy, mTy, Ir.isMin, hcm, hnr]
      · intro σ
        simp only [Msl.eval, hs, hl', tyy, isShift_eq, hsh', Bool.false_eq_true, if_false, hcm, Ir.eval, hsem, hxv, hvty, hvx, evy]
        cases h1 : Ir.eval W y σ with
        | none => simp [Msl.convR]
        | some r =>
          obtain ⟨vb, σ1⟩ := r
          simp only [Msl.convR, Msl.convert, if_pos rfl, Msl.binopM, hnl, if_false, hp, hnr]
          cases h3 : binop W.P m (σ1 xv) vb <;> simp [h3, mVal, Ir.isMin]
  | _ => rw [hsem] at ht; simp at ht

theorem sim_castM {W : World} {M : Msl.MWorld} {env : Ast.Env} {cx : Ctx} (hp : M.P = W.P)
    {S : Ir.Side} (hSs : S.sig = W.sig) (hSv : S.vty = cx.vty)
    {ty : Ty} {x : Ir.Expr} {x' a : HlslAst.Expr} {tx t : Ty}
    (hgx : genExpr cx x = .ok x') (hg : genExpr cx (.cast ty x) = .ok a)
    (hx : SimM W M env x x' tx) (htx : Ir.typeOf W.sig cx.vty x = some tx)
    (ht : Ir.typeOf W.sig cx.vty (.cast ty x) = some t)
    (hok : Ir.okM S (.cast ty x) = true) :
    SimM W M env (.cast ty x) a t := by
  simp only [Ir.okM, Bool.and_eq_true, hSs, hSv, htx] at hok
  obtain ⟨⟨_, hsc⟩, hnl⟩ := hok
  have hnl' : tx ≠ .lit := by simpa using hnl
  simp only [Ir.typeOf, htx] at ht
  have hlt : ¬ (ty = .lit ∨ ty = .flit) := by cases ty <;> simp [Ir.scalarTy] at hsc <;> simp
  simp [hlt] at ht
  subst ht
  simp only [genExpr, hgx, hlt, if_false] at hg
  cases hn : GenMsl.typeName ty with
  | error e => simp [hn] at hg
  | ok n =>
    simp [hn] at hg
    subst hg
    have htn := typeName_tyOfName hn
    constructor
    · simp [Msl.typeOf, hx.1, htn, mTy, Ir.isMin]
    · intro σ
      simp only [Msl.eval, htn, hx.1, Ir.eval]
      rw [hx.castR hp ty hsc hnl' σ]
      cases Spec.Sem.castR W.P ty (Ir.eval W x σ) <;> simp [mVal, Ir.isMin]

theorem sim_ternM {W : World} {M : Msl.MWorld} {env : Ast.Env} {cx : Ctx}
    {c f g : Ir.Expr} {c' f' g' : HlslAst.Expr} {tc tf tg t : Ty}
    (hc : SimM W M env c c' tc) (htc : Ir.typeOf W.sig cx.vty c = some tc)
    (hf : SimM W M env f f' tf) (htf : Ir.typeOf W.sig cx.vty f = some tf)
    (hg : SimM W M env g g' tg) (htg : Ir.typeOf W.sig cx.vty g = some tg)
    (ht : Ir.typeOf W.sig cx.vty (.tern c f g) = some t)
    (hmf : Ir.isMin f = false) (hmg : Ir.isMin g = false) :
    SimM W M env (.tern c f g) (.tern c' f' g') t := by
  simp only [Ir.typeOf, htc, htf, htg] at ht
  have hb : tc = .bool ∧ tf = t ∧ tg = t := by
    cases tc <;> simp at ht
    obtain ⟨h1, h2⟩ := ht
    subst h1; subst h2; simp
  obtain ⟨rfl, rfl, rfl⟩ := hb
  obtain ⟨tyc, evc⟩ := hc.plain (bool_not_min htc)
  obtain ⟨tyf, evf⟩ := hf.plain hmf
  obtain ⟨tyg, evg⟩ := hg.plain hmg
  constructor
  · simp [Msl.typeOf, tyc, tyf, tyg, Msl.ternCommon, mTy, Ir.isMin]
  · intro σ
    simp only [Msl.eval, tyc, tyf, tyg, Msl.ternCommon, if_pos rfl, Ir.eval, evc]
    cases h1 : Ir.eval W c σ with
    | none => simp [Msl.convR]
    | some r =>
      obtain ⟨v, σ1⟩ := r
      cases v with
      | b bv =>
        cases bv
        · simp only [Msl.convR, Msl.convert, if_pos rfl, evg]
          cases hgv : Ir.eval W g σ1 <;> simp [hgv, mVal, Ir.isMin]
        · simp only [Msl.convR, Msl.convert, if_pos rfl, evf]
          cases hfv : Ir.eval W f σ1 <;> simp [hfv, mVal, Ir.isMin]
      | _ => simp [Msl.convR, Msl.convert]

/-- what the induction proves about a `Sequence` -/
def SimSeqM (W : World) (M : Msl.MWorld) (env : Ast.Env) (es : Ir.Exprs) (a : HlslAst.Expr) (t : Ty) : Prop :=
  Msl.typeOf M.msig env a = some t ∧ ∀ σ, Msl.eval M env a σ = Ir.evalSeq W es σ

theorem genSeq_cons2 (cx : Ctx) (e e2 : Ir.Expr) (r : Ir.Exprs) :
    genSeq cx (.cons e (.cons e2 r)) =
      (match genSeq cx (.cons e2 r) with
        | .error err => .error err
        | .ok tail =>
          match genExpr cx e with
          | .error err => .error err
          | .ok a => .ok (.bin .Sequence a tail)) := by
  rw [genSeq] <;> rfl

theorem okMSeq_cons2 (S : Ir.Side) (e e2 : Ir.Expr) (r : Ir.Exprs) :
    Ir.okMSeq S (.cons e (.cons e2 r)) = (Ir.okM S e && Ir.okMSeq S (.cons e2 r)) := by
  rw [Ir.okMSeq]

mutual
theorem exprTy_ok {W : World} {cx : Ctx} (hret : ∀ f rt ps, W.sig f = some (rt, ps) → cx.retTy f = some rt) :
    ∀ (e : Ir.Expr) (t : Ty), Ir.typeOf W.sig cx.vty e = some t → exprTy cx e = some t
  | .lit c, t, h => by simpa [Ir.typeOf, exprTy] using h
  | .var id, t, h => by simpa [Ir.typeOf, exprTy] using h
  | .global id, t, h => by simpa [Ir.typeOf, exprTy] using h
  | .cast ty x, t, h => by
    simp only [Ir.typeOf] at h
    cases hx : Ir.typeOf W.sig cx.vty x with
    | none => simp [hx] at h
    | some tx =>
      simp only [hx] at h
      split at h
      · simp at h
      · simpa [exprTy] using h
  | .tern c f g, t, h => by
    simp only [Ir.typeOf] at h
    cases hc : Ir.typeOf W.sig cx.vty c with
    | none => simp [hc] at h
    | some tc =>
      cases hf : Ir.typeOf W.sig cx.vty f with
      | none => simp [hc, hf] at h
      | some tf =>
        cases hg : Ir.typeOf W.sig cx.vty g with
        | none => simp [hc, hf, hg] at h
        | some tg =>
          simp only [hc, hf, hg] at h
          cases tc <;> simp at h
          obtain ⟨h1, h2⟩ := h
          subst h2
          simpa [exprTy] using exprTy_ok hret f tf hf
  | .seq es, t, h => by
    simp only [Ir.typeOf] at h
    simpa [exprTy] using exprTyLast_ok hret es t h
  | .call f args, t, h => by
    simp only [Ir.typeOf] at h
    cases hs : W.sig f with
    | none => simp [hs] at h
    | some s =>
      obtain ⟨rt, ps⟩ := s
      simp [hs] at h
      obtain ⟨_, rfl⟩ := h
      simpa [exprTy] using hret f rt ps hs
  | .intr i T ret args, t, h => by
    cases args with
    | nil => simp [Ir.typeOf] at h
    | cons e0 r0 =>
      simp only [Ir.typeOf] at h
      split at h
      · simpa [exprTy] using h
      · simp at h
  | .op o .nil, t, h => by simp [Ir.typeOf] at h
  | .op o (.cons a .nil), t, h => by
    simp only [Ir.typeOf] at h
    cases ha : Ir.typeOf W.sig cx.vty a with
    | none => simp only [ha] at h; split at h <;> simp_all
    | some ta =>
      have := exprTy_ok hret a ta ha
      simp only [exprTy, this, Option.map]
      simp only [ha] at h
      cases o <;> simp [irOpSem] at h <;> (try cases ta <;> simp at h) <;> simp_all [opRetTy]
  | .op o (.cons a (.cons b .nil)), t, h => by
    simp only [Ir.typeOf] at h
    cases ha : Ir.typeOf W.sig cx.vty a with
    | none => simp only [ha] at h; split at h <;> simp_all
    | some ta =>
      cases hb : Ir.typeOf W.sig cx.vty b with
      | none => simp only [ha, hb] at h; split at h <;> simp_all
      | some tb =>
        have := exprTy_ok hret a ta ha
        simp only [exprTy, this, Option.map]
        simp only [ha, hb] at h
        cases o <;> simp [irOpSem, MBin.isCmp] at h <;> (try cases ta <;> cases tb <;> simp at h) <;> simp_all [opRetTy]
  | .op o (.cons a (.cons b (.cons c r))), t, h => by simp [Ir.typeOf] at h
theorem exprTyLast_ok {W : World} {cx : Ctx} (hret : ∀ f rt ps, W.sig f = some (rt, ps) → cx.retTy f = some rt) :
    ∀ (es : Ir.Exprs) (t : Ty), Ir.typeOfSeq W.sig cx.vty es = some t → exprTyLast cx es = some t
  | .nil, t, h => by simp [Ir.typeOfSeq] at h
  | .cons e .nil, t, h => by
    simp only [Ir.typeOfSeq] at h
    cases he : Ir.typeOf W.sig cx.vty e with
    | none => simp [he] at h
    | some te =>
      simp [he] at h; subst h
      simpa [exprTyLast] using exprTy_ok hret e te he
  | .cons e (.cons e2 r), t, h => by
    rw [RsslVerif.Lemmas.GenSem.typeOfSeq_cons2] at h
    cases he : Ir.typeOf W.sig cx.vty e with
    | none => simp [he] at h
    | some te =>
      simp only [he] at h
      have := exprTyLast_ok hret (.cons e2 r) t h
      rw [exprTyLast]; exact this
end

/-! ### expressions without side effects leave the store alone -/
mutual
theorem pure_eval (W : World) : ∀ (e : Ir.Expr) (σ : Store) (v : Val) (σ' : Store),
    Ir.pureExpr e = true → Ir.eval W e σ = some (v, σ') → σ' = σ
  | .lit c, σ, v, σ', _, h => by simp [Ir.eval] at h; exact h.2.symm
  | .var id, σ, v, σ', _, h => by simp [Ir.eval] at h; exact h.2.symm
  | .global id, σ, v, σ', _, h => by simp [Ir.eval] at h; exact h.2.symm
  | .cast ty x, σ, v, σ', hp, h => by
    simp only [Ir.pureExpr] at hp
    simp only [Ir.eval, Spec.Sem.castR] at h
    cases hx : Ir.eval W x σ with
    | none => simp [hx] at h
    | some r =>
      obtain ⟨vx, σx⟩ := r
      have := pure_eval W x σ vx σx hp hx
      simp only [hx] at h
      cases hc : castVal W.P ty vx <;> simp [hc] at h
      rw [← h.2]; exact this
  | .tern c f g, σ, v, σ', hp, h => by
    simp only [Ir.pureExpr, Bool.and_eq_true] at hp
    simp only [Ir.eval] at h
    cases hc : Ir.eval W c σ with
    | none => simp [hc] at h
    | some r =>
      obtain ⟨vc, σc⟩ := r
      have e1 := pure_eval W c σ vc σc hp.1.1 hc
      subst e1
      simp only [hc] at h
      cases vc with
      | b bv =>
        cases bv
        · exact pure_eval W g _ v σ' hp.2 h
        · exact pure_eval W f _ v σ' hp.1.2 h
      | _ => simp at h
  | .seq es, σ, v, σ', hp, h => by
    simp only [Ir.pureExpr] at hp
    simp only [Ir.eval] at h
    exact pure_evalSeq W es σ v σ' hp h
  | .call f args, σ, v, σ', hp, h => by simp [Ir.pureExpr] at hp
  | .intr i T ret args, σ, v, σ', hp, h => by
    simp only [Ir.pureExpr] at hp
    simp only [Ir.eval] at h
    cases ha : Ir.evalAll W args σ with
    | none => simp [ha] at h
    | some r =>
      obtain ⟨vals, σ1⟩ := r
      have := pure_evalAll W args σ vals σ1 hp ha
      simp only [ha] at h
      cases hi : W.P.intr i T vals <;> simp [hi] at h
      rw [← h.2]; exact this
  | .op o .nil, σ, v, σ', hp, h => by simp [Ir.eval] at h
  | .op o (.cons a .nil), σ, v, σ', hp, h => by
    simp only [Ir.pureExpr, Ir.pureExprs, Bool.and_eq_true, Bool.and_true] at hp
    simp only [Ir.eval] at h
    cases hsem : irOpSem o with
    | un m =>
      simp only [hsem] at h
      cases ha : Ir.eval W a σ with
      | none => simp [ha] at h
      | some r =>
        obtain ⟨va, σa⟩ := r
        have := pure_eval W a σ va σa hp.2 ha
        simp only [ha] at h
        cases hu : unop W.P m va <;> simp [hu] at h
        rw [← h.2]; exact this
    | _ => simp [hsem] at hp <;> simp [hsem] at h
  | .op o (.cons a (.cons b .nil)), σ, v, σ', hp, h => by
    simp only [Ir.pureExpr, Ir.pureExprs, Bool.and_eq_true, Bool.and_true] at hp
    simp only [Ir.eval] at h
    cases hsem : irOpSem o with
    | bin m =>
      simp only [hsem] at h
      cases ha : Ir.eval W a σ with
      | none => simp [ha] at h
      | some r =>
        obtain ⟨va, σa⟩ := r
        have e1 := pure_eval W a σ va σa hp.2.1 ha
        subst e1
        simp only [ha] at h
        cases hb : Ir.eval W b σa with
        | none => simp [hb] at h
        | some r2 =>
          obtain ⟨vb, σb⟩ := r2
          have e2 := pure_eval W b σa vb σb hp.2.2 hb
          simp only [hb] at h
          cases hu : binop W.P m va vb <;> simp [hu] at h
          rw [← h.2]; exact e2
    | land =>
      simp only [hsem] at h
      cases ha : Ir.eval W a σ with
      | none => simp [ha] at h
      | some r =>
        obtain ⟨va, σa⟩ := r
        have e1 := pure_eval W a σ va σa hp.2.1 ha
        subst e1
        simp only [ha] at h
        cases va with
        | b bv =>
          cases bv
          · simp at h; exact h.2.symm
          · simp only [] at h
            cases hb : Ir.eval W b σa with
            | none => simp [hb] at h
            | some r2 =>
              obtain ⟨vb, σb⟩ := r2
              have e2 := pure_eval W b σa vb σb hp.2.2 hb
              simp only [hb] at h
              cases vb <;> simp at h
              rw [← h.2]; exact e2
        | _ => simp at h
    | lor =>
      simp only [hsem] at h
      cases ha : Ir.eval W a σ with
      | none => simp [ha] at h
      | some r =>
        obtain ⟨va, σa⟩ := r
        have e1 := pure_eval W a σ va σa hp.2.1 ha
        subst e1
        simp only [ha] at h
        cases va with
        | b bv =>
          cases bv
          · simp only [] at h
            cases hb : Ir.eval W b σa with
            | none => simp [hb] at h
            | some r2 =>
              obtain ⟨vb, σb⟩ := r2
              have e2 := pure_eval W b σa vb σb hp.2.2 hb
              simp only [hb] at h
              cases vb <;> simp at h
              rw [← h.2]; exact e2
          · simp at h; exact h.2.symm
        | _ => simp at h
    | _ => simp [hsem] at hp <;> simp [hsem] at h
  | .op o (.cons a (.cons b (.cons c r))), σ, v, σ', hp, h => by simp [Ir.eval] at h
theorem pure_evalSeq (W : World) : ∀ (es : Ir.Exprs) (σ : Store) (v : Val) (σ' : Store),
    Ir.pureExprs es = true → Ir.evalSeq W es σ = some (v, σ') → σ' = σ
  | .nil, σ, v, σ', _, h => by simp [Ir.evalSeq] at h
  | .cons e .nil, σ, v, σ', hp, h => by
    simp only [Ir.pureExprs, Bool.and_eq_true] at hp
    simp only [Ir.evalSeq] at h
    exact pure_eval W e σ v σ' hp.1 h
  | .cons e (.cons e2 r), σ, v, σ', hp, h => by
    rw [Ir.pureExprs] at hp
    simp only [Bool.and_eq_true] at hp
    rw [RsslVerif.Lemmas.GenSem.evalSeq_cons2] at h
    cases he : Ir.eval W e σ with
    | none => simp [he] at h
    | some r1 =>
      obtain ⟨v1, σ1⟩ := r1
      have e1 := pure_eval W e σ v1 σ1 hp.1 he
      subst e1
      simp only [he] at h
      exact pure_evalSeq W (.cons e2 r) σ1 v σ' hp.2 h
theorem pure_evalAll (W : World) : ∀ (es : Ir.Exprs) (σ : Store) (l : List Val) (σ' : Store),
    Ir.pureExprs es = true → Ir.evalAll W es σ = some (l, σ') → σ' = σ
  | .nil, σ, l, σ', _, h => by simp [Ir.evalAll] at h; exact h.2.symm
  | .cons e r, σ, l, σ', hp, h => by
    simp only [Ir.pureExprs, Bool.and_eq_true] at hp
    simp only [Ir.evalAll] at h
    cases he : Ir.eval W e σ with
    | none => simp [he] at h
    | some r1 =>
      obtain ⟨v1, σ1⟩ := r1
      have e1 := pure_eval W e σ v1 σ1 hp.1 he
      subst e1
      simp only [he] at h
      cases hr : Ir.evalAll W r σ1 with
      | none => simp [hr] at h
      | some r2 =>
        obtain ⟨l2, σ2⟩ := r2
        have e2 := pure_evalAll W r σ1 l2 σ2 hp.2 hr
        simp [hr] at h
        rw [← h.2]; exact e2
end

end RsslVerif.Lemmas.GenMsl

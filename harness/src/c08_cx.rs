// Constant-expression generator: typed constant expressions (every scalar type, enum values, literals of every
// kind, all operators, casts, extreme operands) placed wherever the front end evaluates a constant: `assert_eval`,
// array dimensions, enum values, `case` labels, attribute arguments, non-type template arguments, pipeline and
// sampler state values.  typer/src/evaluator.rs works with wrapping / checked arithmetic arm by arm; an arm that
// is missing or unchecked is a panic on some operand-type combination, which is what this stream looks for.
// (included into c08_gen.rs)

pub struct CxProgram {
    pub text: String,
    pub cats: std::collections::BTreeSet<&'static str>,
}

const CX_PRELUDE: &str = "enum E0 { E0_A, E0_B = 2, E0_C };\nenum E1 { E1_X = 5 };\nstatic const int ci = 5;\nstatic const int cn = -7;\nstatic const uint cu = 4u;\nstatic const bool cb = true;\nstatic const float cf = 1.5f;\n\
static const half ch = (half)0.5;\nstatic const int cmax = 2147483647;\nstatic const int cmin = -2147483647 - 1;\nstatic const uint cumax = 4294967295u;\ntemplate<int N> int tn() { return N; }\ntemplate<uint N> uint tu() { return N; }\n\
RWStructuredBuffer<uint> g_o;\n";

#[derive(Clone, Copy, PartialEq)]
enum CxTy {
    Int,
    Uint,
    Bool,
    Float,
    Lit,
    Enum,
}

struct Cx<'a> {
    rng: &'a mut Rng,
    cats: std::collections::BTreeSet<&'static str>,
}

impl<'a> Cx<'a> {
    fn leaf(&mut self, ty: CxTy) -> String {
        match ty {
            CxTy::Int => self.rng.pick(&["ci", "cn", "cmax", "cmin", "(int)7", "(int)0", "(int)-1", "(int)cu", "(int)true", "(int)1.5f", "(int)E0_B", "(int)31", "(int)32", "(int)2147483647", "(int)-2147483648", "(int)cumax"]).to_string(),
            CxTy::Uint => self.rng.pick(&["cu", "cumax", "1u", "0u", "31u", "32u", "33u", "4294967295u", "0x80000000u", "(uint)3", "(uint)-1", "(uint)cn", "(uint)true", "(uint)2.5f", "sizeof(int)", "sizeof(float4)", "(uint)E0_C", "sizeof(E0)", "sizeof(bool)", "sizeof(half)", "sizeof(double)", "sizeof(float3x3)"]).to_string(),
            CxTy::Bool => self.rng.pick(&["true", "false", "cb", "(bool)1", "(bool)0", "(bool)cf", "(bool)cu", "!cb"]).to_string(),
            CxTy::Float => self.rng.pick(&["cf", "1.0f", "0.0f", "-0.0f", "1.0", "0.5", "1e38f", "1e-45f", "3.402823466e+38f", "(float)1", "(float)cu", "(float)cb", "(half)1.0", "ch", "1.0h", "(double)1.0", "1.0L", "1e999", "1.#INF", "(float)ci"]).to_string(),
            CxTy::Lit => self.rng.pick(&["0", "1", "2", "5", "31", "32", "63", "64", "100", "2147483647", "2147483648", "4294967295", "4294967296", "9223372036854775807", "18446744073709551615", "0x7fffffff", "017"]).to_string(),
            CxTy::Enum => self.rng.pick(&["E0_A", "E0_B", "E0_C", "E1_X", "(E0)1", "(E0)ci", "(E1)E0_B", "(E0)true"]).to_string(),
        }
    }

    fn any_ty(&mut self) -> CxTy {
        *self.rng.pick(&[CxTy::Int, CxTy::Int, CxTy::Int, CxTy::Uint, CxTy::Uint, CxTy::Uint, CxTy::Bool, CxTy::Bool, CxTy::Float, CxTy::Lit, CxTy::Lit, CxTy::Lit, CxTy::Enum])
    }

    fn expr(&mut self, ty: CxTy, depth: u32) -> String {
        if depth == 0 || self.rng.chance(1, 4) {
            return self.leaf(ty);
        }
        let d = depth - 1;
        // operands mostly of the same type; sometimes any type (implicit conversions, enum operands, mixed signs)
        let mut opnd = |s: &mut Self| -> String {
            let t = if s.rng.chance(1, 9) { s.any_ty() } else { ty };
            let e = s.expr(t, d);
            if e.chars().all(|c| c.is_alphanumeric() || c == '_' || c == '.') { e } else { format!("({})", e) }
        };
        match self.rng.below(48) {
            0..=15 => {
                self.cats.insert("cx-binary-arithmetic");
                let op = *self.rng.pick(&["+", "-", "*", "/", "%"]);
                let (a, b) = (opnd(self), opnd(self));
                format!("{} {} {}", a, op, b)
            }
            16..=23 => {
                self.cats.insert("cx-shift-bitwise");
                let op = *self.rng.pick(&["<<", ">>", "&", "|", "^"]);
                let (a, b) = (opnd(self), opnd(self));
                format!("{} {} {}", a, op, b)
            }
            24..=29 => {
                self.cats.insert("cx-comparison-logical");
                let op = *self.rng.pick(&["<", "<=", ">", ">=", "==", "!=", "&&", "||"]);
                // operands of one (any) type: the result is a bool whatever is compared
                let t = self.any_ty();
                let mut side = |s: &mut Self| {
                    let e = s.expr(t, d.min(1));
                    if e.chars().all(|c| c.is_alphanumeric() || c == '_' || c == '.') { e } else { format!("({})", e) }
                };
                let (a, b) = (side(self), side(self));
                format!("{} {} {}", a, op, b)
            }
            30..=35 => {
                self.cats.insert("cx-unary");
                let op = *self.rng.pick(&["-", "+", "!", "~", "-", "~"]);
                format!("{}{}", op, opnd(self))
            }
            36 => {
                self.cats.insert("cx-ternary");
                let c = self.expr(CxTy::Bool, d);
                let (a, b) = (opnd(self), opnd(self));
                format!("({}) ? {} : {}", c, a, b)
            }
            37..=42 => {
                self.cats.insert("cx-cast");
                let t = *self.rng.pick(&["int", "uint", "bool", "float", "half", "double", "E0", "E1", "const int", "int1", "uint2"]);
                format!("({}){}", t, opnd(self))
            }
            43..=46 => {
                self.cats.insert("cx-extreme-operands");
                self.rng.pick(&["cmin / -1", "cmin % -1", "cmin / (int)-1", "ci / 0", "ci % 0", "cu / 0u", "cu % 0u", "1 / 0", "1 % 0", "1 << 64", "1 << 63", "1 << -1", "ci << 32", "ci << 33", "ci >> 32",
                    "ci << -1", "cu << 32u", "cu >> 33u", "cmax + 1", "cmin - 1", "cmax * 2", "-cmin", "cumax + 1u", "0u - 1u", "cumax * cumax", "9223372036854775807 + 1", "18446744073709551615 + 1", "-9223372036854775807 - 2",
                    "9223372036854775807 * 2", "(int)4294967296", "(uint)4294967296", "(int)1e20f", "(uint)-1.0f", "(int)1.#INF", "~E0_A", "-E0_B", "+E0_C", "!E0_A", "E0_B + E0_C", "E0_B << 40", "~cf", "~true", "-true", "cf % 0.0f", "cf / 0.0f",
                    "1.0 % 0.0", "cb + cb", "cb << cb", "sizeof(int) - 5u", "cmin >> 31", "cmin >> 32", "(cmin) * -1"]).to_string()
            }
            _ => {
                self.cats.insert("cx-increment-on-constant");
                let op = *self.rng.pick(&["++", "--"]);
                if self.rng.chance(1, 2) { format!("{}{}", op, self.leaf(ty)) } else { format!("{}{}", self.leaf(ty), op) }
            }
        }
    }

    fn top(&mut self) -> String {
        let ty = self.any_ty();
        let d = 1 + self.rng.below(4) as u32;
        self.expr(ty, d)
    }

    /// an expression that is a small non-negative integer most of the time (array sizes, thread counts)
    fn small(&mut self) -> String {
        match self.rng.below(8) {
            0..=4 => format!("({} & 7) + 1", self.expr(CxTy::Int, 2)),
            5 => format!("({} & 7u) + 1u", self.expr(CxTy::Uint, 2)),
            6 => self.top(),
            _ => self.rng.pick(&["0", "-1", "cn", "4294967296", "cumax", "1.5f", "true", "E0_B", "ci / 0", "1 << 31", "1 << 40", "cmax", "65536 * 65536"]).to_string(),
        }
    }
}

pub fn gen_cx(rng: &mut Rng) -> CxProgram {
    let mut g = Cx { rng, cats: Default::default() };
    let mut out = String::from(CX_PRELUDE);
    let mut body = String::new();
    let n = 1 + g.rng.below(4);
    for k in 0..n {
        match g.rng.below(20) {
            0..=8 => {
                g.cats.insert("context-assert-eval");
                let e = g.top();
                let expect = match g.rng.below(12) {
                    0..=9 => e.clone(),
                    10 => g.top(),
                    _ => g.rng.pick(&["0", "1", "true", "1u", "(int)0", "1.0f", "E0_A"]).to_string(),
                };
                let t = match g.rng.below(24) {
                    0 => "<int>",
                    1 => "<uint>",
                    2 => *g.rng.pick(&["<bool>", "<float>", "<E0>", "<half>", "<1>", "<int, int>"]),
                    _ => "",
                };
                body.push_str(&format!("    assert_eval{}({}, {});\n", t, e, expect));
            }
            9..=10 => {
                g.cats.insert("context-array-dimension");
                let e = g.small();
                if g.rng.chance(1, 2) {
                    body.push_str(&format!("    float a{}[{}];\n", k, e));
                } else {
                    out.push_str(&format!("static float ga{}[{}];\n", k, e));
                }
            }
            11 => {
                g.cats.insert("context-enum-value");
                let (a, b) = (g.top(), g.top());
                out.push_str(&format!("enum EV{} {{ EV{}_A = {}, EV{}_B, EV{}_C = {} }};\n", k, k, a, k, k, b));
            }
            12..=13 => {
                g.cats.insert("context-case-label");
                let (a, b) = (g.top(), g.top());
                body.push_str(&format!("    switch (ci) {{ case {}: break; case {}: break; default: break; }}\n", a, b));
            }
            14 => {
                g.cats.insert("context-template-argument");
                let e = g.top();
                body.push_str(&format!("    g_o[0] = (uint)tn<{}>() + tu<{}>();\n", e, g.small()));
            }
            15 => {
                g.cats.insert("context-unroll-count");
                body.push_str(&format!("    [unroll({})] for (int i{} = 0; i{} < 2; i{}++) {{ }}\n", g.small(), k, k, k));
            }
            16 => {
                g.cats.insert("context-static-const-initialiser");
                let ty = *g.rng.pick(&["int", "uint", "bool", "float", "E0", "half"]);
                let e = g.top();
                out.push_str(&format!("static const {} sc{} = {};\nstatic float gb{}[((uint)sc{} & 3u) + 1u];\n", ty, k, e, k, k));
            }
            17 => {
                g.cats.insert("context-sizeof-array");
                body.push_str(&format!("    assert_eval(sizeof(float[{}]), {});\n", g.small(), g.top()));
            }
            18 => {
                g.cats.insert("context-sampler-state");
                out.push_str(&format!("const SamplerState ss{} = StaticSampler {{ MaxAnisotropy = {}; MinLOD = {}; }};\n", k, g.small(), g.expr(CxTy::Float, 2)));
            }
            _ => {
                g.cats.insert("context-default-argument");
                out.push_str(&format!("int da{}(int x = {}) {{ return x; }}\n", k, g.top()));
            }
        }
    }
    let (tx, ty_) = if g.rng.chance(1, 3) {
        g.cats.insert("context-numthreads");
        (g.small(), g.small())
    } else {
        ("1".to_string(), "1".to_string())
    };
    out.push_str(&format!("[numthreads({}, {}, 1)]\nvoid CSMAIN() {{\n{}}}\n", tx, ty_, body));
    if g.rng.chance(1, 3) {
        g.cats.insert("context-pipeline-state");
        out.push_str(&format!("Pipeline Main {{ ComputeShader = CSMAIN; DefaultBindGroup = {}; }}\n", g.small()));
    } else {
        out.push_str("Pipeline Main { ComputeShader = CSMAIN; }\n");
    }
    CxProgram { text: out, cats: g.cats }
}

import RsslVerif.Driver.Loop
import RsslVerif.Driver.C01Vec
/-! `rsslmodel_c01`: the C01 model behind the line protocol (one executable per property, so that a
    table that can no longer be extracted for one property cannot break another property's check).
    `Driver.C01Vec.handle` answers the vector-layer requests (`C01.vex`) and passes everything else to `Driver.C01.handle`. -/
def main : IO Unit := RsslVerif.Driver.runDriver RsslVerif.Driver.C01Vec.handle

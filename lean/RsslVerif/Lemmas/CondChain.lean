import RsslVerif.Model.CondChain
import RsslVerif.Lemmas.CondExpr
/-!
# Lemmas for C11, part 1: the stack automaton refines tree-shaped selection

`flatten` writes a `Spec.CPre` tree as the list of lines the model consumes.  The mutual induction
`Item.refines / Items.refines / Chain.refines` shows that running the automaton over the lines of a
sub-tree, from any stack, has exactly the effect the reference semantics prescribes, where the top of the
stack encodes "has a group of this if-section been taken" (`CS.taken`) and the rest of the stack encodes
"is the if-section processed" (`active`).
-/
namespace RsslVerif.Lemmas.CondChain
open RsslVerif.Gen.CondTables RsslVerif.Model.CondExpr RsslVerif.Model.CondChain
open RsslVerif.Spec.CPre RsslVerif.Lemmas.CondExpr

deriving instance DecidableEq for Except

/-! ### the generated tables, cell by cell -/

theorem switch_table :
    (∀ b, CS.switch .Enabled b = .DisabledOuter) ∧
    (CS.switch .DisabledInner true = .Enabled) ∧ (CS.switch .DisabledInner false = .DisabledInner) ∧
    (∀ b, CS.switch .DisabledOuter b = .DisabledOuter) := by decide

@[simp] theorem switch_en (b : Bool) : CS.switch .Enabled b = .DisabledOuter := by cases b <;> rfl
@[simp] theorem switch_di_t : CS.switch .DisabledInner true = .Enabled := rfl
@[simp] theorem switch_di_f : CS.switch .DisabledInner false = .DisabledInner := rfl
@[simp] theorem switch_do (b : Bool) : CS.switch .DisabledOuter b = .DisabledOuter := by cases b <;> rfl
@[simp] theorem pushState_t : pushState true = .Enabled := rfl
@[simp] theorem pushState_f : pushState false = .DisabledInner := rfl
@[simp] theorem activeState_eq : activeState = .Enabled := rfl
@[simp] theorem elseSwitchArg_eq : elseSwitchArg = true := rfl
@[simp] theorem switchEmptyErr_eq : switchEmptyErr = .ElseNotMatched := rfl
@[simp] theorem popEmptyErr_eq : popEmptyErr = .EndIfNotMatched := rfl
@[simp] theorem unfinishedErr_eq : unfinishedErr = .ConditionChainNotFinished := rfl
@[simp] theorem fileUnfinishedErr_eq : fileUnfinishedErr = .ConditionChainNotFinished := rfl
@[simp] theorem elseIsElse_eq : elseIsElse = true := rfl
@[simp] theorem elifIsElse_eq : elifIsElse = false := rfl
@[simp] theorem nonNameGate_eq : nonNameGate = .skipNoEffect := rfl
@[simp] theorem afterElseErr_t : afterElseErr true = .ElseAfterElse := rfl
@[simp] theorem afterElseErr_f : afterElseErr false = .ElifAfterElse := rfl
@[simp] theorem newBlock_eq (c : CS) : newBlock c = ⟨c, false⟩ := rfl

/-- `Block.switch`, cell by cell: an error exactly when the `#else` branch has started -/
@[simp] theorem block_switch_seen (c : CS) (a e : Bool) : Block.switch ⟨c, true⟩ a e = .error (afterElseErr e) := rfl
@[simp] theorem block_switch_fresh (c : CS) (a e : Bool) : Block.switch ⟨c, false⟩ a e = .ok ⟨c.switch a, e⟩ := rfl

@[simp] theorem gate_if : gate "if" = .skipPushes .DisabledInner := by decide
@[simp] theorem gate_ifdef : gate "ifdef" = .skipPushes .DisabledInner := by decide
@[simp] theorem gate_ifndef : gate "ifndef" = .skipPushes .DisabledInner := by decide
@[simp] theorem gate_elif : gate "elif" = .notGated := by decide
@[simp] theorem gate_else : gate "else" = .notGated := by decide
@[simp] theorem gate_endif : gate "endif" = .notGated := by decide
@[simp] theorem gate_define : gate "define" = .skipNoEffect := by decide
@[simp] theorem gate_undef : gate "undef" = .skipNoEffect := by decide
@[simp] theorem gate_pragma : gate "pragma" = .skipNoEffect := by decide
@[simp] theorem gate_include : gate "include" = .skipNoEffect := by decide
@[simp] theorem gate_other : gate "frobnicate" = .skipNoEffect := by decide

@[simp] theorem en_beq_en : (CS.Enabled == CS.Enabled) = true := by decide
@[simp] theorem di_beq_en : (CS.DisabledInner == CS.Enabled) = false := by decide
@[simp] theorem do_beq_en : (CS.DisabledOuter == CS.Enabled) = false := by decide

theorem active_cons (b : Block) (r : List Block) : active (b :: r) = ((b.state == .Enabled) && active r) := by
  simp [active]

@[simp] theorem active_nil : active [] = true := rfl

/-! ### one line -/

/-- a line met while some level is not active -/
theorem step_inactive (cv) (ch : List Block) (m : Macros) (out : List (List CTok)) (h : active ch = false)
    (d : Dir) :
    step cv ⟨ch, m, out⟩ d = match d with
      | .ifc _ | .ifdef _ _ => .ok ⟨⟨.DisabledInner, false⟩ :: ch, m, out⟩
      | .elif c => exec cv ⟨ch, m, out⟩ (.elif c)
      | .els => exec cv ⟨ch, m, out⟩ .els
      | .endif => exec cv ⟨ch, m, out⟩ .endif
      | _ => .ok ⟨ch, m, out⟩ := by
  cases d with
  | ifdef neg n => cases neg <;> simp [step, Dir.command, Cmd.gate, h]
  | _ => simp [step, Dir.command, Cmd.gate, h]

/-- a line met while every level is active -/
theorem step_active (cv) (ch : List Block) (m : Macros) (out : List (List CTok)) (h : active ch = true)
    (d : Dir) :
    step cv ⟨ch, m, out⟩ d = exec cv ⟨ch, m, out⟩ d := by
  simp [step, h]

theorem run_append (cv) (s : St) (a b : List Dir) :
    run cv s (a ++ b) = match run cv s a with
      | .ok s' => run cv s' b
      | .error e => .error e := by
  induction a generalizing s with
  | nil => simp [run]
  | cons d ds ih =>
    simp only [List.cons_append, run]
    cases step cv s d with
    | ok s' => simp [ih]
    | error e => simp

/-! ### trees as line lists -/

def plainDir : Plain → Dir
  | .text t => .text t
  | .define n b => .define n b
  | .undef n => .undef n
  | .pragma .once => .pragma .once
  | .pragma .warning => .pragma .warning
  | .pragma .unknown => .pragma .unknown
  | .incl f => .incl f
  | .unknown => .unknown
  | .nonName => .nonName

def headDir : Head → Dir
  | .ifc c => .ifc c
  | .ifdef n => .ifdef false n
  | .ifndef n => .ifdef true n

mutual
def flattenItem : Item → List Dir
  | .plain p => [plainDir p]
  | .cond h body rest => headDir h :: (flattenItems body ++ flattenChain rest)
def flattenItems : Items → List Dir
  | .nil => []
  | .cons i is => flattenItem i ++ flattenItems is
def flattenChain : Chain → List Dir
  | .endif => [.endif]
  | .els body => .els :: (flattenItems body ++ [.endif])
  | .elif c body rest => .elif c :: (flattenItems body ++ flattenChain rest)
end

/-- a condition has a value in every macro table satisfying `Inv` -/
def TotalOn (Inv : Macros → Prop) (cv : Macros → List CTok → Except CondErr Bool) (c : List CTok) : Prop :=
  ∀ m, Inv m → ∃ b, cv m c = .ok b

/-- a condition has a value in every macro table -/
def Total (cv : Macros → List CTok → Except CondErr Bool) (c : List CTok) : Prop :=
  TotalOn (fun _ => True) cv c

/-! "Well-formed conditions", relative to an invariant `Inv` of the macro table: every `#define/#undef`
    of the tree preserves `Inv`, and every `#elif` condition of the tree has a value in every macro table
    satisfying `Inv`.  (The code evaluates `#elif` conditions even in groups C never looks at — see
    `Thm.C11.dead_elif_is_evaluated` — so *all* `#elif` conditions are constrained, not only the ones C
    evaluates; `#if` conditions are not constrained at all.) -/
mutual
def ItemWF (Inv : Macros → Prop) (cv : Macros → List CTok → Except CondErr Bool) : Item → Prop
  | .plain (.define n b) => ∀ m, Inv m → Inv (Macros.define m n b)
  | .plain (.undef n) => ∀ m, Inv m → Inv (Macros.undef m n)
  | .plain _ => True
  | .cond _ body rest => ItemsWF Inv cv body ∧ ChainWF Inv cv rest
def ItemsWF (Inv : Macros → Prop) (cv : Macros → List CTok → Except CondErr Bool) : Items → Prop
  | .nil => True
  | .cons i is => ItemWF Inv cv i ∧ ItemsWF Inv cv is
def ChainWF (Inv : Macros → Prop) (cv : Macros → List CTok → Except CondErr Bool) : Chain → Prop
  | .endif => True
  | .els body => ItemsWF Inv cv body
  | .elif c body rest => TotalOn Inv cv c ∧ ItemsWF Inv cv body ∧ ChainWF Inv cv rest
end

/-- rejection reasons of the reference as `PreprocessError` variants -/
def toErr : Reject CondErr → Err
  | .cond e => .cond e
  | .unknownPragma => .UnknownPragma
  | .unknownDirective => .UnknownCommand
  | .missingInclude => .FailedToFindFile

/-- continue the automaton from the state the reference prescribes -/
def andThen (cv : Macros → List CTok → Except CondErr Bool) (ch : List Block) (rest : List Dir) : Except (Reject CondErr) (Env × Out) → Except Err St
  | .ok s' => run cv ⟨ch, s'.1, s'.2⟩ rest
  | .error e => .error (toErr e)

/-- what the top of the stack says about its if-section: has a group been taken already? -/
def taken : CS → Bool
  | .DisabledInner => false
  | _ => true

/-! ### the macro table and text expansion of the model are the reference ones -/

theorem lookup_filter (m : Env) (n x : String) :
    Env.lookup (m.filter (fun e => e.1 != n)) x = if x = n then none else Env.lookup m x := by
  induction m with
  | nil => simp [Env.lookup]
  | cons e r ih =>
    by_cases hen : e.1 = n
    · simp only [List.filter_cons, hen, bne_self_eq_false, Bool.false_eq_true, if_false, ih, Env.lookup]
      by_cases hx : x = n
      · simp [hx]
      · have : (n == x) = false := by simp [Ne.symm hx]
        simp [hx, this]
    · have : (e.1 != n) = true := by simp [hen]
      simp only [List.filter_cons, this, if_true, Env.lookup, ih]
      by_cases hx : x = n
      · simp [hx, hen]
      · simp [hx]

theorem lookup_append_single (m : Env) (n x : String) (b : List CTok) :
    Env.lookup (m ++ [(n, b)]) x = match Env.lookup m x with
      | some body => some body
      | none => if n = x then some b else none := by
  induction m with
  | nil => simp [Env.lookup]
  | cons e r ih =>
    simp only [List.cons_append, Env.lookup, ih]
    by_cases h : (e.1 == x) = true <;> simp [h]

theorem define_eq (m : Macros) (n b) : Macros.define m n b = Env.define m n b := rfl
theorem undef_eq (m : Macros) (n) : Macros.undef m n = Env.undef m n := rfl

theorem subst_id_false (m : Macros) (x : String) (r : List CTok) :
    subst m false (.Id x :: r) = match m.lookup x with
      | some body => (subst m false r).map (fun r => body ++ r)
      | none => (subst m false r).map (fun r => .Id x :: r) := by
  rw [subst.eq_def]; simp; cases m.lookup x <;> rfl

theorem subst_false (m : Macros) (toks : List CTok) :
    subst m false toks = .ok (Env.expand m toks) := by
  induction toks with
  | nil => rfl
  | cons t r ih =>
    have hexp : Env.expand m (t :: r) =
        (match t with | .Id x => (Env.lookup m x).getD [t] | t => [t]) ++ Env.expand m r := by
      unfold Env.expand; rw [List.flatMap_cons]; rfl
    rw [hexp]
    cases t with
    | Id x =>
      rw [subst_id_false, ih, lookup_eq]
      cases h : Env.lookup m x <;> simp [Except.map, h]
    | _ => simp [subst, ih, Except.map]

theorem expandText_eq (m : Macros) (toks : List CTok) : expandText m toks = Env.expand m toks := by
  simp [expandText, subst_false]

/-! ### nothing happens inside an unprocessed group (reference side) -/

mutual
theorem Items.sel_false {ε} (cv : Env → List CTok → Except ε Bool) :
    ∀ (is : Items) (s : Env × Out), is.sel cv false s = .ok s
  | .nil, s => by simp [Items.sel]
  | .cons i is, s => by
    have hi : i.sel cv false s = .ok s := by cases i <;> simp [Item.sel]
    simp [Items.sel, hi, Items.sel_false cv is s]
end

theorem Chain.sel_false {ε} (cv : Env → List CTok → Except ε Bool) :
    ∀ (c : Chain) (t : Bool) (s : Env × Out), c.sel cv false t s = .ok s
  | .endif, _, _ => by simp [Chain.sel]
  | .els body, _, s => by simp [Chain.sel, Items.sel_false]
  | .elif c body rest, t, s => by simp [Chain.sel, Chain.sel_false cv rest]

/-! ### the refinement -/

theorem exec_plain_active (cv) (ch : List Block) (m : Macros) (out : Out) (p : Plain) :
    exec cv ⟨ch, m, out⟩ (plainDir p) =
      match (p.apply (m, out) : Except (Reject CondErr) (Env × Out)) with
      | .ok s' => .ok ⟨ch, s'.1, s'.2⟩
      | .error e => .error (toErr e) := by
  cases p with
  | pragma k => cases k <;> simp [plainDir, exec, Plain.apply, toErr]
  | incl f => cases f <;> simp [plainDir, exec, Plain.apply, toErr, expandText_eq]
  | _ => simp [plainDir, exec, Plain.apply, toErr, expandText_eq, define_eq, undef_eq]

theorem step_head_inactive (cv) (ch m out) (h : Head) (ha : active ch = false) :
    step cv ⟨ch, m, out⟩ (headDir h) = .ok ⟨⟨.DisabledInner, false⟩ :: ch, m, out⟩ := by
  cases h <;> simp [headDir, step_inactive cv _ _ _ ha]

theorem step_head_active (cv) (ch m out) (h : Head) (ha : active ch = true) :
    step cv ⟨ch, m, out⟩ (headDir h) =
      match (h.value cv m : Except (Reject CondErr) Bool) with
      | .ok b => .ok ⟨⟨pushState b, false⟩ :: ch, m, out⟩
      | .error e => .error (toErr e) := by
  cases h with
  | ifc c =>
    simp only [headDir, step_active cv _ _ _ ha, exec, Head.value]
    cases cv m c <;> simp [toErr]
  | ifdef n => simp [headDir, step_active cv _ _ _ ha, exec, Head.value, isDefined_eq]
  | ifndef n => simp [headDir, step_active cv _ _ _ ha, exec, Head.value, isDefined_eq]

theorem step_endif (cv) (top : Block) (r : List Block) (m out) :
    step cv ⟨top :: r, m, out⟩ .endif = .ok ⟨r, m, out⟩ := by
  cases ha : active (top :: r)
  · rw [step_inactive cv _ _ _ ha]; rfl
  · rw [step_active cv _ _ _ ha]; rfl

theorem step_els (cv) (top : CS) (r : List Block) (m out) :
    step cv ⟨⟨top, false⟩ :: r, m, out⟩ .els = .ok ⟨⟨top.switch true, true⟩ :: r, m, out⟩ := by
  cases ha : active (⟨top, false⟩ :: r)
  · rw [step_inactive cv _ _ _ ha]; rfl
  · rw [step_active cv _ _ _ ha]; rfl

theorem step_elif (cv) (top : CS) (r : List Block) (m out) (c : List CTok) (b : Bool) (hb : cv m c = .ok b) :
    step cv ⟨⟨top, false⟩ :: r, m, out⟩ (.elif c) = .ok ⟨⟨top.switch b, false⟩ :: r, m, out⟩ := by
  cases ha : active (⟨top, false⟩ :: r)
  · rw [step_inactive cv _ _ _ ha]; simp [exec, hb, switchTop]
  · rw [step_active cv _ _ _ ha]; simp [exec, hb, switchTop]

/-- processing a well-formed tree keeps the macro-table invariant -/
theorem Plain.apply_inv (Inv : Macros → Prop) (cv) (p : Plain) (h : ItemWF Inv cv (.plain p))
    (m : Macros) (out : Out) (s' : Env × Out) (hm : Inv m)
    (hs : (p.apply (m, out) : Except (Reject CondErr) (Env × Out)) = .ok s') : Inv s'.1 := by
  cases p with
  | define n b => simp only [Plain.apply, Except.ok.injEq] at hs; subst hs; exact h m hm
  | undef n => simp only [Plain.apply, Except.ok.injEq] at hs; subst hs; exact h m hm
  | text t => simp only [Plain.apply, Except.ok.injEq] at hs; subst hs; exact hm
  | pragma k => cases k <;> simp [Plain.apply] at hs <;> (subst hs; exact hm)
  | incl f => cases f <;> simp [Plain.apply] at hs; subst hs; exact hm
  | unknown => simp [Plain.apply] at hs
  | nonName => simp [Plain.apply] at hs

mutual
theorem Item.sel_inv (Inv : Macros → Prop) (cv) : ∀ (i : Item), ItemWF Inv cv i → ∀ (act : Bool) (m : Macros)
    (out : Out) (s' : Env × Out), Inv m → i.sel cv act (m, out) = .ok s' → Inv s'.1
  | .plain p, h, act, m, out, s', hm, hs => by
    cases act
    · simp only [Item.sel, Bool.false_eq_true, if_false, Except.ok.injEq] at hs; subst hs; exact hm
    · simp only [Item.sel, if_true] at hs
      exact Plain.apply_inv Inv cv p h m out s' hm hs
  | .cond h body chain, ⟨hb, hc⟩, act, m, out, s', hm, hs => by
    cases act
    · simp only [Item.sel, Bool.false_eq_true, if_false, Except.ok.injEq] at hs; subst hs; exact hm
    · simp only [Item.sel, if_true] at hs
      cases hv : (h.value cv m : Except (Reject CondErr) Bool) with
      | error e => simp [hv] at hs
      | ok b =>
        simp only [hv] at hs
        cases hs1 : body.sel cv b (m, out) with
        | error e => simp [hs1] at hs
        | ok s1 =>
          simp only [hs1] at hs
          have h1 := Items.sel_inv Inv cv body hb b m out s1 hm hs1
          exact Chain.sel_inv Inv cv chain hc true b s1.1 s1.2 s' h1 hs
theorem Items.sel_inv (Inv : Macros → Prop) (cv) : ∀ (is : Items), ItemsWF Inv cv is → ∀ (act : Bool)
    (m : Macros) (out : Out) (s' : Env × Out), Inv m → is.sel cv act (m, out) = .ok s' → Inv s'.1
  | .nil, _, act, m, out, s', hm, hs => by
    simp only [Items.sel, Except.ok.injEq] at hs; subst hs; exact hm
  | .cons i is, ⟨hi, his⟩, act, m, out, s', hm, hs => by
    simp only [Items.sel] at hs
    cases hs1 : i.sel cv act (m, out) with
    | error e => simp [hs1] at hs
    | ok s1 =>
      simp only [hs1] at hs
      have h1 := Item.sel_inv Inv cv i hi act m out s1 hm hs1
      exact Items.sel_inv Inv cv is his act s1.1 s1.2 s' h1 hs
theorem Chain.sel_inv (Inv : Macros → Prop) (cv) : ∀ (c : Chain), ChainWF Inv cv c → ∀ (act taken : Bool)
    (m : Macros) (out : Out) (s' : Env × Out), Inv m → c.sel cv act taken (m, out) = .ok s' → Inv s'.1
  | .endif, _, act, tk, m, out, s', hm, hs => by
    simp only [Chain.sel, Except.ok.injEq] at hs; subst hs; exact hm
  | .els body, hb, act, tk, m, out, s', hm, hs => by
    simp only [Chain.sel] at hs
    exact Items.sel_inv Inv cv body hb _ m out s' hm hs
  | .elif c body chain, ⟨hc, hb, hch⟩, act, tk, m, out, s', hm, hs => by
    simp only [Chain.sel] at hs
    by_cases hat : (act && !tk) = true
    · simp only [hat, if_true] at hs
      cases hcv : cv m c with
      | error e => simp [hcv] at hs
      | ok b =>
        simp only [hcv] at hs
        cases hs1 : body.sel cv b (m, out) with
        | error e => simp [hs1] at hs
        | ok s1 =>
          simp only [hs1] at hs
          have h1 := Items.sel_inv Inv cv body hb b m out s1 hm hs1
          exact Chain.sel_inv Inv cv chain hch act b s1.1 s1.2 s' h1 hs
    · simp only [hat] at hs
      exact Chain.sel_inv Inv cv chain hch act tk m out s' hm hs
end

mutual
theorem Item.refines (Inv : Macros → Prop) (cv) : ∀ (i : Item), ItemWF Inv cv i → ∀ (ch : List Block)
    (m : Macros) (out : Out) (rest : List Dir), Inv m →
    run cv ⟨ch, m, out⟩ (flattenItem i ++ rest) = andThen cv ch rest (i.sel cv (active ch) (m, out))
  | .plain p, _, ch, m, out, rest, _ => by
    simp only [flattenItem, List.cons_append, List.nil_append, run]
    cases ha : active ch
    · have : step cv ⟨ch, m, out⟩ (plainDir p) = .ok ⟨ch, m, out⟩ := by
        rw [step_inactive cv _ _ _ ha]
        cases p with
        | pragma k => cases k <;> rfl
        | _ => rfl
      simp [this, Item.sel, andThen]
    · rw [step_active cv _ _ _ ha, exec_plain_active]
      simp only [Item.sel, if_true]
      cases (p.apply (m, out) : Except (Reject CondErr) (Env × Out)) <;> simp [andThen]
  | .cond h body chain, ⟨hb, hc⟩, ch, m, out, rest, hm => by
    simp only [flattenItem, List.cons_append, run, List.append_assoc]
    cases ha : active ch
    · rw [step_head_inactive cv ch m out h ha]
      simp only []
      rw [Items.refines Inv cv body hb _ _ _ _ hm]
      have h1 : active (⟨CS.DisabledInner, false⟩ :: ch) = false := by simp [active_cons]
      rw [h1, Items.sel_false]
      simp only [andThen]
      rw [Chain.refines Inv cv chain hc _ _ _ _ _ hm, ha, Chain.sel_false]
      simp [Item.sel, andThen]
    · rw [step_head_active cv ch m out h ha]
      simp only [Item.sel, if_true]
      cases hv : (h.value cv m : Except (Reject CondErr) Bool) with
      | error e => simp [andThen]
      | ok b =>
        simp only []
        rw [Items.refines Inv cv body hb _ _ _ _ hm]
        have h1 : active (⟨pushState b, false⟩ :: ch) = b := by cases b <;> simp [active_cons, ha]
        rw [h1]
        cases hs : body.sel cv b (m, out) with
        | error e => simp [andThen]
        | ok s' =>
          have hm' := Items.sel_inv Inv cv body hb b m out s' hm hs
          simp only [andThen]
          rw [Chain.refines Inv cv chain hc _ _ _ _ _ hm', ha]
          cases b <;> simp [taken, andThen]
theorem Items.refines (Inv : Macros → Prop) (cv) : ∀ (is : Items), ItemsWF Inv cv is → ∀ (ch : List Block)
    (m : Macros) (out : Out) (rest : List Dir), Inv m →
    run cv ⟨ch, m, out⟩ (flattenItems is ++ rest) = andThen cv ch rest (is.sel cv (active ch) (m, out))
  | .nil, _, ch, m, out, rest, _ => by simp [flattenItems, Items.sel, andThen]
  | .cons i is, ⟨hi, his⟩, ch, m, out, rest, hm => by
    simp only [flattenItems, List.append_assoc]
    rw [Item.refines Inv cv i hi _ _ _ _ hm]
    simp only [Items.sel]
    cases hs : i.sel cv (active ch) (m, out) with
    | error e => simp [andThen]
    | ok s' =>
      have hm' := Item.sel_inv Inv cv i hi _ m out s' hm hs
      simp only [andThen]; rw [Items.refines Inv cv is his _ _ _ _ hm']; simp [andThen]
theorem Chain.refines (Inv : Macros → Prop) (cv) : ∀ (c : Chain), ChainWF Inv cv c → ∀ (top : CS)
    (r : List Block) (m : Macros) (out : Out) (rest : List Dir), Inv m →
    run cv ⟨⟨top, false⟩ :: r, m, out⟩ (flattenChain c ++ rest) =
      andThen cv r rest (c.sel cv (active r) (taken top) (m, out))
  | .endif, _, top, r, m, out, rest, _ => by
    simp [flattenChain, run, step_endif, Chain.sel, andThen]
  | .els body, hb, top, r, m, out, rest, hm => by
    simp only [flattenChain, List.cons_append, run, step_els, List.append_assoc]
    rw [Items.refines Inv cv body hb _ _ _ _ hm]
    have h1 : active (⟨top.switch true, true⟩ :: r) = (active r && !taken top) := by
      cases top <;> simp [active_cons, taken]
    rw [h1]
    simp only [Chain.sel]
    cases body.sel cv (active r && !taken top) (m, out) with
    | error e => simp [andThen]
    | ok s' => simp [andThen, run, step_endif]
  | .elif c body chain, ⟨hc, hb, hch⟩, top, r, m, out, rest, hm => by
    obtain ⟨b, hcv⟩ := hc m hm
    simp only [flattenChain, List.cons_append, run, step_elif cv top r m out c b hcv, List.append_assoc]
    rw [Items.refines Inv cv body hb _ _ _ _ hm]
    simp only [Chain.sel]
    cases top with
    | DisabledInner =>
      cases har : active r
      · simp only [active_cons, har, Bool.and_false, Items.sel_false, andThen]
        rw [Chain.refines Inv cv chain hch _ _ _ _ _ hm, har]
        simp [Chain.sel_false, andThen]
      · have h1 : active (⟨CS.switch .DisabledInner b, false⟩ :: r) = b := by cases b <;> simp [active_cons, har]
        rw [h1]
        simp only [taken, Bool.not_false, Bool.and_self, if_true, hcv]
        cases hs : body.sel cv b (m, out) with
        | error e => simp [andThen]
        | ok s' =>
          have hm' := Items.sel_inv Inv cv body hb b m out s' hm hs
          simp only [andThen]
          rw [Chain.refines Inv cv chain hch _ _ _ _ _ hm', har]
          cases b <;> simp [taken, andThen]
    | Enabled =>
      simp only [switch_en, active_cons, do_beq_en, Bool.false_and, Items.sel_false, andThen]
      rw [Chain.refines Inv cv chain hch _ _ _ _ _ hm]
      simp [taken, andThen]
    | DisabledOuter =>
      simp only [switch_do, active_cons, do_beq_en, Bool.false_and, Items.sel_false, andThen]
      rw [Chain.refines Inv cv chain hch _ _ _ _ _ hm]
      simp [taken, andThen]
end

def shape : Dir → Shape
  | .ifc _ | .ifdef _ _ => .opens
  | .elif _ => .elif
  | .els => .els
  | .endif => .endif
  | _ => .other

/-- a line that cannot be rejected for a reason other than nesting -/
def CleanDir (cv : Macros → List CTok → Except CondErr Bool) : Dir → Prop
  | .ifc c | .elif c => Total cv c
  | .pragma .unknown => False
  | .incl none => False
  | .unknown => False
  | .nonName => False
  | _ => True

def shapeErr : ShapeErr → Err
  | .unmatchedElse => .chain .ElseNotMatched
  | .unmatchedEndif => .chain .EndIfNotMatched
  | .unterminated => .chain .ConditionChainNotFinished
  | .elseAfterElse => .chain .ElseAfterElse
  | .elifAfterElse => .chain .ElifAfterElse

/-- what the grammar scan keeps of the stack: per open block, has its `#else` been seen -/
def flags (ch : List Block) : List Bool := ch.map (·.seenElse)

/-- one line of `scanC` -/
def scanStep (st : List Bool) : Shape → Except ShapeErr (List Bool)
  | .opens => .ok (false :: st)
  | .elif => match st with
    | [] => .error .unmatchedElse
    | true :: _ => .error .elifAfterElse
    | false :: _ => .ok st
  | .els => match st with
    | [] => .error .unmatchedElse
    | true :: _ => .error .elseAfterElse
    | false :: st' => .ok (true :: st')
  | .endif => match st with
    | [] => .error .unmatchedEndif
    | _ :: st' => .ok st'
  | .other => .ok st

theorem scanC_cons (st : List Bool) (sh : Shape) (r : List Shape) :
    scanC st (sh :: r) = match scanStep st sh with
      | .ok st' => scanC st' r
      | .error e => .error e := by
  cases sh with
  | opens => simp [scanC, scanStep]
  | other => simp [scanC, scanStep]
  | endif => cases st <;> simp [scanC, scanStep]
  | elif => rcases st with _ | ⟨_ | _, _⟩ <;> simp [scanC, scanStep]
  | els => rcases st with _ | ⟨_ | _, _⟩ <;> simp [scanC, scanStep]

/-- one clean line moves the automaton exactly as the grammar scan moves its flag stack, and fails exactly
    where the scan fails, with the corresponding error variant -/
theorem step_flags (cv) (d : Dir) (hc : CleanDir cv d) (ch : List Block) (m : Macros) (out : List (List CTok)) :
    match scanStep (flags ch) (shape d) with
    | .ok st' => ∃ s', step cv ⟨ch, m, out⟩ d = .ok s' ∧ flags s'.chain = st'
    | .error e => step cv ⟨ch, m, out⟩ d = .error (shapeErr e) := by
  cases ha : active ch
  · rw [step_inactive cv _ _ _ ha]
    cases d with
    | elif c =>
      obtain ⟨b, hb⟩ := hc m trivial
      rcases ch with _ | ⟨⟨c0, _ | _⟩, r⟩ <;> simp [shape, scanStep, flags, exec, hb, switchTop, shapeErr]
    | els => rcases ch with _ | ⟨⟨c0, _ | _⟩, r⟩ <;> simp [shape, scanStep, flags, exec, switchTop, shapeErr]
    | endif => cases ch <;> simp [shape, scanStep, flags, exec, shapeErr]
    | pragma k => cases k <;> simp [shape, scanStep]
    | _ => simp [shape, scanStep, flags]
  · rw [step_active cv _ _ _ ha]
    cases d with
    | ifc c => obtain ⟨b, hb⟩ := hc m trivial; simp [shape, scanStep, flags, exec, hb]
    | elif c =>
      obtain ⟨b, hb⟩ := hc m trivial
      rcases ch with _ | ⟨⟨c0, _ | _⟩, r⟩ <;> simp [shape, scanStep, flags, exec, hb, switchTop, shapeErr]
    | els => rcases ch with _ | ⟨⟨c0, _ | _⟩, r⟩ <;> simp [shape, scanStep, flags, exec, switchTop, shapeErr]
    | endif => cases ch <;> simp [shape, scanStep, flags, exec, shapeErr]
    | pragma k => cases k <;> simp_all [shape, scanStep, exec, CleanDir]
    | incl f => cases f <;> simp_all [shape, scanStep, exec, CleanDir]
    | unknown => simp_all [CleanDir]
    | nonName => simp_all [CleanDir]
    | _ => simp [shape, scanStep, flags, exec]

/-- result of a whole file as far as nesting is concerned: the end-of-file test of `preprocess_included_file`
    (file base 0), then the one of `preprocess_initial_file` -/
def finish : Except Err St → Except Err Unit
  | .ok s =>
    if s.chain.length ≠ 0 then .error (.chain fileUnfinishedErr)
    else if s.chain.isEmpty then .ok () else .error (.chain unfinishedErr)
  | .error e => .error e

theorem run_scan (cv) : ∀ (ds : List Dir), (∀ d ∈ ds, CleanDir cv d) → ∀ (s : St),
    finish (run cv s ds) = (scanC (flags s.chain) (ds.map shape)).mapError shapeErr
  | [], _, s => by
    cases hch : s.chain <;> simp [run, finish, scanC, flags, hch, Except.mapError, shapeErr]
  | d :: ds, hcl, ⟨ch, m, out⟩ => by
    have hd := hcl d (by simp)
    have ih := run_scan cv ds (fun d hd => hcl d (by simp [hd]))
    have hs := step_flags cv d hd ch m out
    simp only [run, List.map_cons, scanC_cons]
    cases hst : scanStep (flags ch) (shape d) with
    | error e =>
      rw [hst] at hs
      simp [hs, finish, Except.mapError]
    | ok st' =>
      rw [hst] at hs
      obtain ⟨s', h1, h2⟩ := hs
      simp [h1, ih, h2]

/-- the error-naming scan accepts exactly what the Boolean strict scan accepts -/
theorem scanC_ok_iff_strict : ∀ (l : List Shape) (st : List Bool), scanC st l = .ok () ↔ scanStrict st l = true
  | [], st => by cases st <;> simp [scanC, scanStrict]
  | .opens :: r, st => by simp [scanC, scanStrict, scanC_ok_iff_strict r]
  | .other :: r, st => by simp [scanC, scanStrict, scanC_ok_iff_strict r]
  | .endif :: r, st => by cases st <;> simp [scanC, scanStrict, scanC_ok_iff_strict r]
  | .elif :: r, st => by rcases st with _ | ⟨_ | _, _⟩ <;> simp [scanC, scanStrict, scanC_ok_iff_strict r]
  | .els :: r, st => by rcases st with _ | ⟨_ | _, _⟩ <;> simp [scanC, scanStrict, scanC_ok_iff_strict r]

/-! ### sequences produced from a tree satisfy the strict C grammar check -/

mutual
theorem Item.strict : ∀ (i : Item) (st : List Bool) (rest : List Shape),
    scanStrict st ((flattenItem i).map shape ++ rest) = scanStrict st rest
  | .plain p, st, rest => by
    cases p with
    | pragma k => cases k <;> simp [flattenItem, plainDir, shape, scanStrict]
    | _ => simp [flattenItem, plainDir, shape, scanStrict]
  | .cond h body chain, st, rest => by
    have hh : shape (headDir h) = .opens := by cases h <;> rfl
    simp only [flattenItem, List.map_cons, List.map_append, List.cons_append, List.append_assoc, hh,
      scanStrict]
    rw [Items.strict body, Chain.strict chain]
theorem Items.strict : ∀ (is : Items) (st : List Bool) (rest : List Shape),
    scanStrict st ((flattenItems is).map shape ++ rest) = scanStrict st rest
  | .nil, st, rest => by simp [flattenItems]
  | .cons i is, st, rest => by
    simp only [flattenItems, List.map_append, List.append_assoc]
    rw [Item.strict i, Items.strict is]
theorem Chain.strict : ∀ (c : Chain) (st : List Bool) (rest : List Shape),
    scanStrict (false :: st) ((flattenChain c).map shape ++ rest) = scanStrict st rest
  | .endif, st, rest => by simp [flattenChain, shape, scanStrict]
  | .els body, st, rest => by
    simp only [flattenChain, List.map_cons, List.map_append, List.cons_append, List.append_assoc, shape,
      scanStrict]
    rw [Items.strict body]
    simp [scanStrict]
  | .elif c body chain, st, rest => by
    simp only [flattenChain, List.map_cons, List.map_append, List.cons_append, List.append_assoc, shape,
      scanStrict]
    rw [Items.strict body, Chain.strict chain]
end

end RsslVerif.Lemmas.CondChain

"""C13 — compile-time constant evaluation matches run-time semantics."""
T = "RsslVerif.Thm.C13."


def nontrivial(req, obs):
    # an operator or cast applied to something, with a definite outcome
    return req.count("(op ") + req.count("(cast ") + req.count("(b ") + req.count("(u ") + req.count("(t ") >= 1


def finding_key(req, obs, detail):
    import re
    d = detail or ""
    # a reference to an earlier enumerator whose initialiser had an enum or const-qualified type
    if req.startswith("C13.enum\t") and re.match(
            r"FAIL:panic typer/src/typer/expressions\.rs:\d+: \[(int|uint), Rvalue\] != \[[^\]]+, Rvalue\]: Literal\((Int32|UInt32)\(", d):
        return K_ENUMREF
    m = re.match(r"FAIL:panic ([^:]+):\d+: (.*)$", detail or "")
    if m:
        return "panic %s: %s" % (m.group(1), re.sub(r"\d+", "N", m.group(2)))
    # one call site, one finding: Constant::to_uint64 lets negative literals through as sizes
    if re.match(r"FAIL:(array|numthreads) recorded (len|threads):\d+ for an expression whose value is L-\d+ ", detail or ""):
        return "size from a negative literal accepted (Constant::to_uint64, ir/src/ir_types.rs)"
    d = detail or ""
    # template value arguments are bound with the type of the argument expression, not converted to the declared
    # parameter type (the oracle tags exactly the observations that the unconverted argument explains)
    if d.startswith("FAIL:[template argument not converted to the parameter type"):
        return K_TEMPLATE
    # Constant::to_f32 has no arm for FloatLiteral and refuses negative Int32 values
    if re.match(r"FAIL:(minlod|maxlod) recorded reject:\S* ?state requires a float.* whose value is (fl[0-9a-f]{16}|i-\d+) ", d):
        return K_TOF32
    # RayQuery<flags>: get_uint truncates an out-of-range literal with `as u32`
    if re.match(r"FAIL:rayquery recorded flags:\d+ for an expression whose value is L-?\d+ \(expected a rejection", d):
        return K_RAYQUERY
    # (repaired by fix 80dd7f9, `fixed` record: a return of the defect is reported under this key) an enum with underlying
    # type uint was converted to int when it met an int / bool operand (every enum ranked below bool)
    if d.startswith("FAIL:[uint-backed enum converted to int]"):
        return K_ENUMUINT
    if req.startswith("C13.mix\t"):
        return "\t".join(req.split("\t")[:2])
    if req.startswith("C13.inst\t"):
        return "\t".join(req.split("\t")[:3])
    return req.split("\tsrc:")[0]


K_TEMPLATE = "template value argument is not converted to the declared parameter type (typer/src/typer/types.rs, scopes.rs)"
K_TOF32 = "float property rejects a float literal or a negative int (Constant::to_f32, ir/src/ir_types.rs)"
K_RAYQUERY = "RayQuery flags literal outside 32 bits is truncated (get_uint, typer/src/typer/types.rs)"
K_ENUMUINT = "uint-backed enum operand is converted to int (get_non_vector_conversion_rank ranks every enum below bool, typer/src/typer/expressions.rs)"
K_ENUMREF = "panic typer/src/typer/expressions.rs: type self-check on a reference to an earlier enumerator (typer/src/typer/enums.rs records the initialiser's static type)"


def _subtrees(s):
    """top-level operand s-expressions of the outermost node of the tree in s"""
    out, depth, start = [], 0, None
    for i, c in enumerate(s):
        if c == "(":
            depth += 1
            if depth == 2:
                start = i
        elif c == ")":
            if depth == 2 and start is not None:
                out.append(s[start:i + 1])
                start = None
            depth -= 1
    return out


def shrink(req):
    f = req.split("\t")
    if f[0] == "C13.inst" and len(f) >= 3:
        # one use less
        names = f[2].split(" ")
        if len(names) > 1:
            for i in range(len(names)):
                yield "C13.inst\t%s\t%s" % (f[1], " ".join(names[:i] + names[i + 1:]))
        return
    if f[0] == "C13.mix" and len(f) >= 2:
        # a source tree: one of its operand subtrees, or one operand replaced by one of its operands
        for sub in _subtrees(f[1]):
            if not sub.startswith("(a "):
                yield "C13.mix\t" + sub
        for sub in _subtrees(f[1]):
            for subsub in _subtrees(sub):
                yield "C13.mix\t" + f[1].replace(sub, subsub, 1)
        return
    if f[0] != "C13.eval" or len(f) < 2:
        return
    tree = f[1]
    # replace the tree by one of its operand subtrees (drops the source annotation)
    for sub in _subtrees(tree):
        yield "C13.eval\t" + sub
    # replace one operand subtree by one of *its* operands
    for sub in _subtrees(tree):
        for subsub in _subtrees(sub):
            yield "C13.eval\t" + tree.replace(sub, subsub, 1)


def search(ctx):
    """model-side candidates after a broken obligation: every integer operator and cast on boundary operands"""
    b32 = [0, 1, -1, 2, 31, 32, 33, -2147483648, 2147483647]
    u32 = [0, 1, 2, 31, 32, 33, 2147483647, 2147483648, 4294967295]
    lit = [0, 1, -1, 31, 32, 127, 128, 2 ** 31, 2 ** 32, 2 ** 63, 2 ** 64, 2 ** 127 - 1, -2 ** 127]
    ops = ["Add", "Subtract", "Multiply", "Divide", "Modulus", "LeftShift", "RightShift", "BitwiseAnd", "BitwiseOr",
           "BitwiseXor", "LessThan", "Equality"]
    out = []
    for tag, pool in (("i", b32), ("u", u32), ("L", lit)):
        for o in ops:
            for a in pool:
                for b in pool:
                    out.append("C13.eval\t(op %s (lit %s%d) (lit %s%d))" % (o, tag, a, tag, b))
        for o in ["Minus", "BitwiseNot", "Plus", "PrefixIncrement", "PostfixDecrement"]:
            for a in pool:
                out.append("C13.eval\t(op %s (lit %s%d))" % (o, tag, a))
        for t in ["bool", "int", "uint", "float", "double", "half", "enum0:int", "enum1:uint"]:
            for a in pool:
                out.append("C13.eval\t(cast %s (lit %s%d))" % (t, tag, a))
    return out


SPEC = {
    "id": "C13",
    "gens": ["EvalTable", "EvalSites", "PosTable", "RankTable", "TypingTables", "BinopTyping", "InstTable"],
    "lean_modules": ["RsslVerif.Thm.C13"],
    "theorems": [T + n for n in [
        "consteval_no_panic", "tables_panic_free", "consteval_agrees", "div_mod_zero_not_constant",
        "div_mod_zero_not_constant_expr", "literal_exact", "literal_neg_exact", "positions_use_eval",
        "float_round_nearest_even", "int_to_float_nearest_even", "float_to_float_nearest_even", "float_widen_exact",
        "float_to_int_trunc_saturate", "float_narrowing_is_c10_narrow32", "position_rules_as_reviewed", "position_count_agrees", "position_count_complete",
        "position_count_rejections", "case_label_value", "const_initialiser_value", "template_argument_value",
        "template_argument_not_converted", "lod_property_value", "lod_property_complete", "lod_property_rejections",
        "enum_values_c_semantics", "enum_rejected_only_out_of_range", "enum_overflow_only_at_type_max", "enum_no_panic",
        "binop_common_type_as_specified_partial", "binop_common_type_enum_operand_as_specified", "binop_common_type_literal_pairs",
        "instantiation_lookup_is_exact", "each_instantiation_sees_its_own_argument",
        "each_instantiation_sees_the_value_of_its_argument_expression", "struct_instantiation_sees_its_own_arguments",
        "to_uint64_key_identifies_negative_arguments"]],
    "harness": "c13",
    "nontrivial": nontrivial,
    "finding_key": finding_key,
    "shrink": shrink,
    "search": search,
    "level_text": "Proof: an executable Lean model of evaluate_constexpr / evaluate_operator / evaluate_cast whose per-arm "
                  "arithmetic (plain operator, wrapping_*, checked_*->Err, zero guards, literal-shift round trip, cast rules) is "
                  "re-extracted from typer/src/evaluator.rs on every run is proved, for every expression tree of any depth and all "
                  "operand values, (a) never to panic when operand kinds are admissible, (b) to return only values that an independent "
                  "reference semantics (exact integers for literals, BitVec-32 two's complement for int/uint, shift counts masked to "
                  "5 bits, C comparisons, HLSL conversions) defines, with results staying in range, (c) to report division/modulus by "
                  "zero as not constant, (d) to compute literal arithmetic exactly or refuse. The float conversions both sides use are "
                  "proved to be the IEEE-754 / Rust `as` conversions: round-to-nearest-ties-to-even for int->float and double->float "
                  "(equal to property C10's reference rounding, which satisfies IsNearestEven), float->double exact, float->int "
                  "truncate-and-saturate with NaN->0. The positions are modelled too: what every constant-demanding site does with the "
                  "evaluated constant (Constant::to_uint64 / to_f32 arms, 32/64/8-bit guards, zero refusal, enum unwrapping, kinds a "
                  "template argument may have, const-only folding) is re-extracted from the source and proved sound and complete against "
                  "the integer value of the specified result, for every kind of constant (untyped literal, int, uint, bool, enum); "
                  "enum definitions (explicit values, implicit successors, references to earlier enumerators, overflow, deduction of the "
                  "underlying type) are proved to have C semantics for enumerator lists of any length and never to panic; float-valued "
                  "properties (Constant::to_f32) are proved sound and complete against the HLSL conversion to float (every bool, integer "
                  "or float constant of a 32-bit kind, untyped float literals and negative ints included, is accepted with the converted "
                  "value; only enums and strings are refused). One statement that is false on the pinned source is proved in the negative "
                  "with witnesses replayed on the real compiler (template arguments are not converted to the parameter type). "
                  "The models are compared with the real code on boundary-value trees (direct IR and IR from the real type checker), on "
                  "78 position programs per expression and on whole enum definitions; an independent Rust reference evaluator judges "
                  "every real result, including the number printed in the emitted HLSL. Operands of different kinds: the type "
                  "parse_expr_binop converts both operands of a binary operator to (ranks, integer-only operators, short-circuit "
                  "operators, the bool-to-int remap and the operators it applies to — all re-extracted) is proved equal to HLSL's usual "
                  "arithmetic conversions for every operator and every ordered pair of operand kinds (bool, int/float literal, int, "
                  "uint, half, float, double, int- and uint-backed enum) outside one named class: an untyped integer literal with "
                  "bool (proved never to yield a typed kind; observed only as notconst); an enum operand next to an operand of any "
                  "other kind (untyped literals included) is proved, without exception, to take part as its underlying int / uint "
                  "(the step of most_significant_non_vector that does this is re-extracted too). A source-level stream (C13.mix) "
                  "folds every operator on every pair of kinds with the real compiler and judges the value with a reference evaluator "
                  "that applies the usual arithmetic conversions itself instead of trusting the casts the type checker inserted. "
                  "Several instantiations of one template in one compilation: how an existing instantiation is found again "
                  "(FunctionRegistry::find_instantiation: `parent_id == id` and the comparison of the recorded with the requested "
                  "argument list — `==`, the derived equality of TypeOrConstant / RestrictedConstant, kind and value; the struct "
                  "template map HashMap<Vec<TypeOrConstant>, StructId> asked with the provided and with the completed list) is "
                  "re-extracted; over an association-list model of the cache it is proved, for every history of instantiations, "
                  "that a lookup returns an entry only if its recorded argument list equals the requested one and always finds an "
                  "existing one (instantiation_lookup_is_exact), hence that for every sequence of uses of any templates with any "
                  "arguments, in any order, every use is bound to what building the template from its own arguments gives "
                  "(each_instantiation_sees_its_own_argument, ..._the_value_of_its_argument_expression, "
                  "struct_instantiation_sees_its_own_arguments); a key that matches value arguments through to_uint64 is proved to "
                  "identify -1 with -2 and 3 with 3u (negation witness). The stream C13.inst compiles one template used 2-8 times "
                  "with colliding arguments and demands, use by use, what the same use shows compiled alone.",
    "rule": "requests: C13.eval = IR expression tree (module lookups inlined) run through the real evaluate_constexpr — "
            "(1) depth-1 trees: every integer/comparison operator on all pairs of boundary operands per kind, every unary operator and "
            "every cast target on every boundary constant of every kind, float comparisons on boundary pairs; (2) kind-consistent random "
            "trees to depth 5; (3) arbitrary (ill-typed, wrong arity) trees to depth 4; (4) trees produced by the real type checker from "
            "generated source expressions to depth 5; C13.hyp / C13.enumhyp = the theorems' hypotheses evaluated by the model on every "
            "type-checker tree / enum definition; C13.pos = a source expression (every boundary atom of every type, and random trees to "
            "depth 4; constants, namespace-scoped names, sizeof, non-constant forms) placed in 78 position programs: array sizes of globals, "
            "locals, struct members, parameters, typedefs, cbuffer members, groupshared, both dimensions of 2-D arrays, multiple declarators, "
            "size from an initialiser list; enum values (explicit, next, after an implicit 0, in a namespace); case labels (int, uint, enum "
            "switch, nested, twice); template value arguments (function and struct templates, uint/int/bool parameters, defaults, mixed "
            "with type parameters, two instantiations, used in the body as value and as array size, vector/matrix dimensions, RayQuery "
            "flags); const initialisers (every scalar type, enum, namespace, typedef'd const, braces, multiple declarators, static local, "
            "for-init, nested blocks) and their use by later constants; non-const declarations (never constant); numthreads x/y/z, unroll, "
            "bind_group, vk::binding, DefaultBindGroup, WriteMask, MaxAnisotropy, MinLOD/MaxLOD; assert_eval on either side — the IR "
            "field and, where the value is printed, the emitted HLSL are judged against the reference value; C13.enum = whole enum "
            "definitions (1-6 enumerators, implicit/explicit/references to earlier and later enumerators) judged against C semantics; "
            "C13.mix = a source tree over 45 atoms of known kind and value (bool, literal, int, uint, float, half, double, float "
            "literal, enumerators and casts of an int-backed, a uint-backed and a namespaced enum, static const bool/int/uint; values "
            "0 1 2 3 5 -1 2^31 2^32-1 0.5): every binary operator on every ordered pair of kinds (quick: 3 seeded atom pairs per "
            "pair of kinds plus half of all atom pairs of bool/enum/int/uint for the six comparisons; thorough: every atom pair), "
            "every unary operator on every atom, ?: over every pair of kinds, random trees of depth 2-3; rendered to source, type "
            "checked and folded by the real compiler, judged by the usual arithmetic conversions; the IR and (depth 1) the type "
            "both operands were converted to are compared with the model; "
            "C13.inst = one function template (int and uint parameter), one function template handing its parameter on to a second "
            "one, one struct template with a default, used 2-8 times in one function with arguments from a pool of 37 atoms made to "
            "collide under every key coarser than kind-and-value: negatives (-1 -2 -3 -5 -7 -99, (int)-1, E0D, -gI, INT_MIN), constant "
            "expressions folding to equal and to different values (1 - 4, 2 - 7, 0 - 3, 1 + 2, 3 + 4, 4294967296 - 1), one value in "
            "different kinds (1 1u true E0B E1A (int)1; 3 3u (int)3 NS::nI 3L; 7 gI), values equal mod 2^32 / 2^64 (-1, 4294967295u, "
            "4294967295, 4294967296, 2^64-1, -(2^64-1), 2147483648u) — every ordered pair, every ordered triple of negatives "
            "(quick: a quarter), 300 (thorough 4000) random sequences with repetitions per shape; observed per use: the argument "
            "recorded with the instantiation the call / variable is bound to, the size of `int pa[N + 100]` in it and the value of "
            "`return N`; oracle: equal to what the single-use program shows, accepted iff every use alone is, and value + 100 / value "
            "for arguments that fit the parameter type; "
            "non-trivial = contains an operator or cast",
    "trusted_base": [
        "Lean 4.33 kernel; axioms propext / Classical.choice / Quot.sound only (audited by #print axioms)",
        "tools/gens/c13.py (Gen.EvalTable: per-arm rule of evaluate_operator, cast rules of evaluate_cast, enum re-wrap list, "
        "operand-loop asserts, ScalarType::get_size; Gen.EvalSites: every call of evaluate_constexpr in the workspace; Gen.PosTable: "
        "arms of Constant::to_uint64 / to_f32, the conversion and guards of parse_declarator, add_stage, extract_uint32, "
        "parse_expr_as_u32, parse_statement_attribute, WriteMask, case labels, const-only folding of initialisers, kinds accepted by "
        "parse_and_evaluate_constant_expression, first/successor/overflow arms of parse_rootdefinition_enum, the type recorded with an "
        "enumerator (type of the evaluated constant), range kinds, candidate types and conversions of end_enum) — re-run on /repo's working tree every time; unknown shapes are extraction errors",
        "tools/gens/c13.py Gen.BinopTyping (the whole body of most_significant_non_vector: the optional first step that replaces "
        "a lone enum operand by enum_registry.get_underlying_type_id and leaves two enums alone, then the two rank lookups and "
        "`left_order > right_order`; the statement after it in parse_expr_binop: which scalar is "
        "remapped to which, and for which operators — `let x = matches!(op, ..)` conditions are understood; any other shape is an "
        "extraction error) and tools/gens/c03.py Gen.TypingTables / tools/gens/c16.py Gen.RankTable (get_non_vector_conversion_rank, "
        "require_integer, short-circuit test, `left_order > right_order`), Model/ConstBinop.lean (control flow of the common-type "
        "block, tied by the `ct:` field of C13.mix), Spec/HlslUsualConv.lean (our reading of the usual arithmetic conversions: bool "
        "promotes to int, enum through its underlying type, literal < int < uint < float literal < half < float < double; two "
        "operands of one enum stay of that enum); harness/src/c13_mix.rs `reference_s` (same rules written independently in Rust; "
        "shifts whose promoted operands differ in signedness and float arithmetic are not judged)",
        "tools/gens/c13.py Gen.InstTable (the whole body of FunctionRegistry::find_instantiation: loop over all function ids, "
        "`parent_id == id`, and the comparison — `instantiation_data.template_args == template_args` is read as exact, an element-wise "
        "`.all(|(lhs, rhs)| lhs.M(rhs))` is followed into TypeOrConstant::M and read as exact or as to_uint64 equality, anything "
        "else is an extraction error; RestrictedConstant::to_uint64 = Constant::to_uint64 of the unrestricted constant; the derive "
        "lists of RestrictedConstant / TypeOrConstant and the absence of hand-written PartialEq / Eq / Hash; the variants of "
        "RestrictedConstant; the two callers in scopes.rs; StructTemplateData.instantiations and its three uses in "
        "ensure_struct_template / instantiate_struct_template), Model/InstCache.lean (find / use / run, useStruct / runStruct: first "
        "match in id order, build and register on a miss; what an instantiation contains is an abstract function of its argument "
        "list — tied by the C13.inst stream, whose model input is the argument, argument + 100 and the argument converted to the "
        "return type as the real type checker types them standalone); that Rust's derived PartialEq / Hash on these enums and "
        "HashMap::get compare kind and value is taken from the language",
        "hand-written Model/ConstEval.lean and Model/ConstPos.lean (control flow of the modelled functions; Rust integer semantics of "
        "plain/wrapping/checked operations and `as` casts) — tied to the code by the correspondence run",
        "Model/ConstEvalFloat.lean `decode` (meaning of an IEEE-754 bit pattern), `cmp`, `neg`, `neZero`: given; `round`, `ofInt`, "
        "`convert`, `toIntSat` are proved against Spec/Dec2Bin.lean (IsNearestEven) and by direct characterisation",
        "Spec/HlslConst.lean: our reading of HLSL (float->int: truncate, saturate, NaN->0 as D3D ftoi/ftou; half constants kept at "
        "float precision; an operator on enums yields the enum; mixed-kind equality is false); EnumSeq / AllIn in Lemmas/ConstPosEnum "
        "(C semantics of an enumerator list, int-before-uint deduction)",
        "harness reference evaluator and position rules (harness/src/c13.rs `reference`, c13_pos.rs `judge_site` / `judge_enum`): "
        "written from the property text, independent of the Lean model; static types of enumerator initialisers are obtained from the "
        "real type checker through assert_type<T>",
    ],
    "assumptions": [
        "theorem hypotheses: constants fit their Rust types, enum constants are not nested, operator nodes have the operand count "
        "their arm reads (wfE); for consteval_no_panic additionally enum operands are not mixed with other kinds and ~ has an integer "
        "operand (kindsOk); for enum_no_panic additionally an initialiser of integer/enum type evaluates, if at all, to an "
        "integer-like constant (type soundness of the front end) — all are evaluated by the model on every tree / definition the real "
        "type checker produced (C13.hyp, C13.enumhyp)",
        "overflow panics are those of a build with overflow-checks (the harness profile); release builds wrap instead; the type "
        "self-check of parse_expr_internal (debug_assertions) is outside the model: a panic of it is an oracle failure, never an `unsupported`",
        "NaN payload propagation of f64->f32 conversion follows x86 cvtsd2ss (NaN constants cannot be written in source)",
        "conversions the type checker inserts for unary operators, ?: and casts between enums are judged by the source-level "
        "reference evaluator only (no extracted table; ?: is never folded by the pinned compiler); vector / matrix operands of "
        "operators are outside C13's constant expressions",
        "instantiations: the body of an instantiation is a function of the template and the recorded argument list only "
        "(`build`; no other state of the compilation reaches it) — checked by the together = alone oracle of C13.inst, not proved; "
        "template TYPE arguments and intrinsic templates (build_intrinsic_template uses the same find_instantiation) are covered by "
        "the theorems (Arg.type) but not generated; a stack overflow of the real compiler aborts the harness process and is reported "
        "as a broken run, not attributed to its input",
        "positions whose value flows through further declarations (flow_*), the conversion of `return N` in template bodies, "
        "RayQuery flags and assert_eval acceptance are judged by the reference evaluator only (no Lean model); name clashes of "
        "enumerators and overload resolution between templates are other properties' subjects",
    ],
}

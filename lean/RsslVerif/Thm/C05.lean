import RsslVerif.Lemmas.MetaText
import RsslVerif.Lemmas.Meta
import RsslVerif.Lemmas.MetaReach
import RsslVerif.Lemmas.MetaReachTerm
import RsslVerif.Lemmas.MetaFront
import RsslVerif.Lemmas.MetaTotal
import RsslVerif.Thm.C15
/-!
# C05 — reflection metadata agrees with the emitted source

Theorems about `Model.Meta` (the metadata builders, the annotation printers and the stage records of both
back ends) on top of `Model.Slots.assign` (C06), instantiated with the tables regenerated from `/repo`
(`Gen.MetaTables`, `Gen.SlotTables`, `Gen.CompileTables`).
-/
namespace RsslVerif.Thm.C05
open RsslVerif.Gen.SlotTables RsslVerif.Gen.MetaTables RsslVerif.Gen.CompileTables
open RsslVerif.Model.Slots RsslVerif.Model.Meta RsslVerif.Spec.Meta RsslVerif.Lemmas.Meta
open RsslVerif.Lemmas.Slots (ParamsOk paramsFor_ok)

/-! ## Ties to the source -/

/-- Every syntactic fact the model relies on holds in the current source: how the three
    `DescriptorBinding` literals are filled, the shape of msl `generate_pipeline`, of the HLSL annotation
    generators, of the formatter's register / attribute printers, of `build_pipeline`'s stage records, of
    `parse_pipeline` / `add_stage` (property order, order of the checks, last numthreads attribute wins, entry lookup
    among all functions), of `parse_function_attributes` (a kind of attribute is accepted once), of Metal's entry
    function arguments (`UnboundGlobal`), of the places names are read from (name map vs cbuffer registry, Metal's cbuffer
    globals) and of the thread group size attributes both exporters print. -/
theorem source_shape_as_modelled :
    hlslCbufferEntry = ⟨true, true, true, true, false, true, false, true, true, false⟩ ∧
    hlslGlobalEntry = ⟨true, true, true, true, true, false, true, false, false, true⟩ ∧
    mslGlobalEntry = ⟨true, true, true, true, true, false, false, true, false, true⟩ ∧
    hlslCbufferDescType = some .ConstantBuffer ∧ mslRejectsCbufferRoot = true ∧
    hlslNameIsGeneratedName = true ∧ mslNameIsGeneratedName = true ∧ hlslReportsEmittedName = true ∧
    mslRejectsGroupWithoutArgumentBuffer = true ∧ usageFacts = ⟨true, true, true, true⟩ ∧
    mslPipelineFacts = ⟨true, true, true, true, true, true, true, true, true, true⟩ ∧
    hlslAnnotFacts = ⟨true, true, true, true, true, true, true, true, true, true, true, true, true, true, true,
                      true, true, true, true⟩ ∧
    attributeShapeAsModelled = true ∧ attributeArgumentLiteralsBare = true ∧ stagesCopyKindAndThreadGroupSize = true ∧
    metadataIsExportersDescription = true ∧ entryLookupIsByNameAmongAllFunctions = true ∧
    frontFacts = ⟨true, true, true, true, true, true, true, true, true, true, true, true, true, true, true, true,
                  true, true, true, true, true, true⟩ ∧
    (regOpen, regSep, regSpace, regClose) = (" : register(", ", ", "space", ")") := by decide

/-- The two exporters use the same ObjectType ↦ DescriptorType table. -/
theorem descriptor_tables_agree (k : ObjKind) :
    hlslDescType k = mslDescType k ∧ hlslNonObjectDescType = mslNonObjectDescType := by
  cases k <;> decide

/-- The register letter the allocator records (`get_register_type`) is the D3D register class of the
    descriptor type the metadata reports, for every object kind that has both. -/
theorem register_class_of_descriptor (k : ObjKind) (r : RegT) (d : DescT)
    (hr : registerType k = some r) (hd : hlslDescType k = some d) : regClass d = r := by
  cases k <;> simp_all [registerType, hlslDescType] <;> (subst_vars; rfl)

/-- compile.rs and msl generate_pipeline name the Metal entry functions identically (two separate tables). -/
theorem msl_entry_names_agree (s : Stage) : mslEntryName s = mslEmittedEntryName s := by
  cases s <;> rfl

/-! ## annot_matches_meta -/

/-- HLSL, any declaration: if an annotation is printed and a metadata entry is registered, then reading the
    printed text back (character level) yields the annotation, and the (group, slot | inline offset,
    register class) it names are exactly the entry's group and location and the api slot's register class —
    both are projections of the same `api_slot`. -/
theorem annot_matches_meta_hlsl {p : Params} {d : MDecl} {ob : Option Binding} {a : Annot} {g : Nat} {e : Entry}
    (ha : hlslAnnot p d ob = .ok (some a)) (he : hlslEvent d ob = .ok (some (g, e))) :
    readAnnot a.print = some a ∧ (Annot.read a).1 = g ∧ (Annot.read a).2.1 = e.loc ∧
    ∃ b, ob = some b ∧ ∀ r, (Annot.read a).2.2 = some r → b.slotType = some r := by
  have hprint : readAnnot a.print = some a := by
    apply readAnnot_print
    intro i s hid
    subst hid
    cases d with
    | other => simp [hlslAnnot] at ha
    | cbuffer n s' =>
      simp only [hlslAnnot] at ha
      split at ha
      · cases ob with
        | none => simp [vkAnnot] at ha
        | some b =>
          simp only [vkAnnot] at ha
          split at ha
          · cases ha
          · split at ha <;> simp at ha
      · cases ob with
        | none => simp [regAnnot] at ha
        | some b =>
          simp only [regAnnot] at ha
          split at ha
          · cases ha
          · split at ha <;> simp at ha
    | global n s' ss k arr bl st =>
      simp only [hlslAnnot] at ha
      split at ha
      · simp at ha
      · split at ha
        · split at ha
          · cases ob with
            | none => simp [vkAnnot] at ha
            | some b =>
              simp only [vkAnnot] at ha
              split at ha
              · cases ha
              · split at ha <;> simp at ha
          · cases ob with
            | none => simp [regAnnot] at ha
            | some b =>
              simp only [regAnnot] at ha
              split at ha
              · cases ha
              · split at ha <;> simp at ha
        · simp at ha
  refine ⟨hprint, ?_⟩
  cases d with
  | other => simp [hlslAnnot] at ha
  | cbuffer n s' =>
    cases ob with
    | none => simp [hlslEvent] at he
    | some b =>
      simp only [hlslEvent, Except.ok.injEq, Option.some.injEq, Prod.mk.injEq] at he
      obtain ⟨rfl, rfl⟩ := he
      simp only [hlslAnnot] at ha
      split at ha
      · simp only [vkAnnot] at ha
        split at ha
        · cases ha
        · rename_i hst
          split at ha
          · rename_i i hloc
            simp only [Except.ok.injEq, Option.some.injEq] at ha
            subst ha
            exact ⟨rfl, by simp [Annot.read, hloc], b, rfl, by simp [Annot.read]⟩
          · cases ha
      · simp only [regAnnot] at ha
        split at ha
        · cases ha
        · rename_i r hst
          split at ha
          · rename_i i hloc
            simp only [Except.ok.injEq, Option.some.injEq] at ha
            subst ha
            exact ⟨rfl, by simp [Annot.read, hloc], b, rfl, by simp [Annot.read, hst]⟩
          · cases ha
  | global n s' ss k arr bl st =>
    simp only [hlslEvent] at he
    split at he
    · cases he
    · cases ob with
      | none => simp at he
      | some b =>
        simp only [Except.ok.injEq, Option.some.injEq, Prod.mk.injEq] at he
        obtain ⟨rfl, rfl⟩ := he
        simp only [hlslAnnot] at ha
        split at ha
        · rename_i g' o heq
          simp only [Except.ok.injEq, Option.some.injEq] at ha
          subst ha
          simp only [Option.some.injEq] at heq
          subst heq
          exact ⟨rfl, rfl, _, rfl, by simp [Annot.read]⟩
        · split at ha
          · split at ha
            · simp only [vkAnnot] at ha
              split at ha
              · cases ha
              · split at ha
                · rename_i i hloc
                  simp only [Except.ok.injEq, Option.some.injEq] at ha
                  subst ha
                  exact ⟨rfl, by simp [Annot.read, hloc], b, rfl, by simp [Annot.read]⟩
                · cases ha
            · simp only [regAnnot] at ha
              split at ha
              · cases ha
              · rename_i r hst
                split at ha
                · rename_i i hloc
                  simp only [Except.ok.injEq, Option.some.injEq] at ha
                  subst ha
                  exact ⟨rfl, by simp [Annot.read, hloc], b, rfl, by simp [Annot.read, hst]⟩
                · cases ha
          · simp at ha

/-- Metal: the `[[id(n)]]` member printed for a declaration names the group and slot of its entry; the
    group always has an argument buffer struct (`analyse_bindings` refuses the others). -/
theorem annot_matches_meta_msl {u : Bool} {d : MDecl} {ob : Option Binding} {a : Annot} {g : Nat} {e : Entry}
    (ha : mslAnnot d ob = .ok (some a)) (he : mslEvent u d ob = .ok (some (g, e))) :
    readAnnot a.print = some a ∧ (Annot.read a).1 = g ∧ (Annot.read a).2.1 = e.loc ∧
    g < argumentBufferNames.length := by
  cases ob with
  | none => cases d <;> simp [mslAnnot] at ha
  | some b =>
    have hge : g = b.set ∧ e.loc = b.loc ∧ b.set < argumentBufferNames.length := by
      cases d with
      | other => simp [mslEvent] at he
      | cbuffer n s =>
        simp only [mslEvent] at he
        split at he
        · cases he
        · split at he
          · cases he
          · rename_i hlt
            simp only [Except.ok.injEq, Option.some.injEq, Prod.mk.injEq] at he
            obtain ⟨rfl, rfl⟩ := he; exact ⟨rfl, rfl, by omega⟩
      | global n s ss k arr bl st =>
        simp only [mslEvent] at he
        split at he
        · cases he
        · split at he
          · cases he
          · rename_i hlt
            simp only [Except.ok.injEq, Option.some.injEq, Prod.mk.injEq] at he
            obtain ⟨rfl, rfl⟩ := he; exact ⟨rfl, rfl, by omega⟩
    obtain ⟨rfl, hloc, hg⟩ := hge
    have hab : ∃ i, b.loc = .index i ∧ a = .id i b.set := by
      cases d with
      | other => simp [mslAnnot] at ha
      | cbuffer n s =>
        simp only [mslAnnot] at ha
        split at ha
        · rename_i i hl; simp only [Except.ok.injEq, Option.some.injEq] at ha; exact ⟨i, hl, ha.symm⟩
        · cases ha
      | global n s ss k arr bl st =>
        simp only [mslAnnot] at ha
        split at ha
        · rename_i i hl; simp only [Except.ok.injEq, Option.some.injEq] at ha; exact ⟨i, hl, ha.symm⟩
        · cases ha
    obtain ⟨i, hl, rfl⟩ := hab
    refine ⟨readAnnot_print _ ?_, rfl, ?_, hg⟩
    · intro i' s' h; cases h; exact hg
    · simp [Annot.read, hloc, hl]

/-- Since fix "do not allocate binding slots for static or groupshared globals" a non-extern global is
    never externally bound, whatever its type: the allocator leaves it alone, so it has neither api slot,
    nor metadata entry, nor annotation (the former witness `static_object_entry_without_annotation` is no
    longer derivable). -/
theorem non_extern_global_unbound (p : Params) (dflt : Nat) (n : String) (s : Option Nat) (ss bl : Bool)
    (k : Option ObjKind) (arr : Arr) (st : Storage) (hst : st ≠ .extern) :
    externallyBound p (.global n s ss k arr bl st) = false ∧
    (assign p dflt [(MDecl.global n s ss k arr bl st).toSlot]).toOption.map (·.bindings) = some [none] ∧
    hlslEvent (.global n s ss k arr bl st) none = (descOf hlslDescType hlslNonObjectDescType k).map (fun _ => none) ∧
    hlslAnnot p (.global n s ss k arr bl st) none = .ok none := by
  have hts : (MDecl.global n s ss k arr bl st).toSlot = .global s ss none none := by
    simp [MDecl.toSlot, hst]
  refine ⟨by simp [externallyBound, hts, RsslVerif.Spec.Slots.bound], ?_, ?_, ?_⟩
  · rw [hts]
    cases h : (ss && !p.staticSamplersHaveSlots) <;> simp [assign, run, step, h, Except.toOption]
  · simp only [hlslEvent]
    cases descOf hlslDescType hlslNonObjectDescType k <;> rfl
  · have hne : (st == Storage.extern) = false := by cases st <;> simp_all
    simp [hlslAnnot, storageAfter, hne]

/-! ## the whole module: annotations and entries line up, and the printers cannot panic -/

/-- The parameter sets `compile()` uses for the two HLSL flavours satisfy the side condition. -/
theorem hlsl_params_of_targets (sba : Bool) :
    HlslParams (paramsFor .HlslForDirectX sba) ∧ HlslParams (paramsFor .HlslForVulkan sba) := by
  cases sba <;> simp [HlslParams, paramsFor, paramsDefault]

/-- On the api slots the allocator produced, no `panic!` / `assert!` of `generate_register_annotation`,
    `generate_vk_binding_annotation` can fire: every declaration's annotation is printed. -/
theorem hlsl_annotations_total {p : Params} (hp : HlslParams p) {dflt : Nat} {ds : List MDecl} {res : Result}
    (h : assign p dflt (ds.map MDecl.toSlot) = .ok res) :
    ∃ r, annots (hlslAnnot p) ds res.bindings = .ok r :=
  annots_total hp ds res.bindings (assign_good h)

/-- a declaration is annotated iff it is registered (a non-extern global has no api slot, see
    `non_extern_global_unbound`) -/
theorem annot_iff_entry {p : Params} {d : MDecl} {ob : Option Binding} {oa : Option Annot} {oe : Option (Nat × Entry)}
    (hext : ∀ n s ss k arr bl st, d = .global n s ss k arr bl st → st = .extern ∨ ob = none)
    (ha : hlslAnnot p d ob = .ok oa) (he : hlslEvent d ob = .ok oe) : oa.isSome = oe.isSome := by
  have hreg : ∀ b o, regAnnot (some b) = .ok o → o.isSome = true := by
    intro b o h
    simp only [regAnnot] at h
    split at h
    · cases h
    · split at h <;> cases h; rfl
  have hvk : ∀ b o, vkAnnot (some b) = .ok o → o.isSome = true := by
    intro b o h
    simp only [vkAnnot] at h
    split at h
    · cases h
    · split at h <;> cases h; rfl
  cases d with
  | other => simp [hlslAnnot] at ha; simp [hlslEvent] at he; subst ha; subst he; rfl
  | cbuffer n s =>
    cases ob with
    | none =>
      simp [hlslEvent] at he; subst he
      simp only [hlslAnnot] at ha
      split at ha <;> (simp [vkAnnot, regAnnot] at ha; subst ha; rfl)
    | some b =>
      simp [hlslEvent] at he; subst he
      simp only [hlslAnnot] at ha
      split at ha
      · simp [hvk b oa ha]
      · simp [hreg b oa ha]
  | global n s ss k arr bl st =>
    rcases hext n s ss k arr bl st rfl with hst | hob
    case inr =>
      subst hob
      simp only [hlslEvent] at he
      split at he
      · cases he
      · simp at he; subst he
        simp only [hlslAnnot, storageAfter] at ha
        by_cases hse : (st == Storage.extern) = true
        · simp only [hse, if_true] at ha
          by_cases hv : requiresVk p = true <;> (simp [hv, vkAnnot, regAnnot] at ha; subst ha; rfl)
        · simp only [hse] at ha; simp at ha; subst ha; rfl
    subst hst
    have hee : (Storage.extern == Storage.extern) = true := by decide
    simp only [hlslEvent] at he
    split at he
    · cases he
    · cases ob with
      | none =>
        simp at he; subst he
        simp only [hlslAnnot, storageAfter, hee, if_true] at ha
        by_cases hv : requiresVk p = true <;> (simp [hv, vkAnnot, regAnnot] at ha; subst ha; rfl)
      | some b =>
        simp at he; subst he
        obtain ⟨bs, bl', bt⟩ := b
        cases bl' with
        | inline o => simp [hlslAnnot] at ha; subst ha; rfl
        | index i =>
          simp only [hlslAnnot, storageAfter, hee, if_true] at ha
          by_cases hv : requiresVk p = true
          · simp only [hv, if_true] at ha; simp [hvk _ oa ha]
          · simp only [hv] at ha; simp [hreg _ oa ha]

/-- Module level `annot_matches_meta` + "exactly one": on api slots that agree with the allocator's
    specification (C06 `binding_complete` gives this for `assign`'s output), for every module,
    the list of printed annotations and the list of registered entries have the same length and line up
    one to one, in order, on (name, bind group, slot | inline offset); and every printed annotation reads
    back as itself. -/
theorem annotations_match_metadata_hlsl {p : Params} {dflt : Nat} :
    ∀ (ds : List MDecl) (bs : List (Option Binding)) (i : Nat) (as : List (String × Annot)) (evs : List (Nat × Entry)),
      RsslVerif.Thm.C06.Agrees p dflt (ds.map MDecl.toSlot) bs →
      annots (hlslAnnot p) ds bs = .ok as → events (fun _ => hlslEvent) i ds bs = .ok evs →
      as.map (fun x => (x.1, (Annot.read x.2).1, (Annot.read x.2).2.1)) = evs.map (fun x => (x.2.name, x.1, x.2.loc)) ∧
      ∀ x ∈ as, readAnnot x.2.print = some x.2 := by
  intro ds
  induction ds with
  | nil =>
    intro bs i as evs _ ha he
    cases bs <;> (simp [annots] at ha; simp [events] at he; subst ha; subst he; simp)
  | cons d ds ih =>
    intro bs i as evs hext ha he
    cases bs with
    | nil => simp [annots] at ha; simp [events] at he; subst ha; subst he; simp
    | cons ob bs =>
      simp only [List.map_cons, RsslVerif.Thm.C06.Agrees] at hext
      obtain ⟨hhead, htail⟩ := hext
      have hextd : ∀ n s ss k arr bl st, d = .global n s ss k arr bl st → st = .extern ∨ ob = none := by
        intro n s ss k arr bl st hd
        by_cases hst : st = .extern
        · exact Or.inl hst
        · right
          cases ob with
          | none => rfl
          | some b =>
            subst hd
            have hb : RsslVerif.Spec.Slots.bound p (MDecl.global n s ss k arr bl st).toSlot = true := hhead.1
            simp [MDecl.toSlot, hst, RsslVerif.Spec.Slots.bound] at hb
      unfold annots at ha
      unfold events at he
      split at ha
      · cases ha
      · rename_i oa hoa
        split at ha
        · cases ha
        · rename_i ra hra
          split at he
          · cases he
          · rename_i oe hoe
            split at he
            · cases he
            · rename_i re hre
              simp only [Except.ok.injEq] at ha he
              have hrest := ih bs (i + 1) ra re htail hra hre
              have hiff := annot_iff_entry hextd hoa hoe
              cases oa with
              | none =>
                cases oe with
                | some x => simp at hiff
                | none => simp only at ha he; subst ha; subst he; exact hrest
              | some a =>
                cases oe with
                | none => simp at hiff
                | some x =>
                  obtain ⟨g, e⟩ := x
                  simp only at ha he
                  subst ha; subst he
                  obtain ⟨hprint, hg, hloc, _⟩ := annot_matches_meta_hlsl hoa hoe
                  have hname : e.name = d.name := by
                    obtain ⟨_, hsome⟩ := hlslEvent_ok d ob _ hoe
                    cases ob with
                    | none =>
                      cases d <;> simp [hlslEvent] at hoe
                      split at hoe <;> simp at hoe
                    | some b =>
                      have hne : d ≠ .other := by
                        intro hd; subst hd; simp [hlslEvent] at hoe
                      obtain ⟨e', he', hn, _⟩ := hsome b rfl hne
                      simp only [Option.some.injEq, Prod.mk.injEq] at he'
                      rw [he'.2]; exact hn
                  refine ⟨?_, ?_⟩
                  · simp only [List.map_cons, hrest.1, hg, hloc, hname]
                  · intro x hx
                    rcases List.mem_cons.1 hx with rfl | hx
                    · exact hprint
                    · exact hrest.2 x hx

open RsslVerif.Lemmas.MetaTotal RsslVerif.Lemmas.Slots in
/-- once the allocator returned and every single `analyse_bindings` call did, `generate_inline_constant_buffers`
    returns: `bind_groups[buffer.set]` is in range and none of its three asserts can fire -/
theorem hlslMeta_ok_of_events {p : Params} (hp : ParamsOk p) {dflt : Nat} {ds : List MDecl} {res : Result}
    (h : assign p dflt (ds.map MDecl.toSlot) = .ok res) {evs : List (Nat × Entry)}
    (hevs : events (fun _ => hlslEvent) 0 ds res.bindings = .ok evs) :
    ∃ groups, hlslMeta p dflt ds = .ok groups := by
  have hpw := (RsslVerif.Thm.C06.inline_buffers_correct hp h).2.2
  have hpos := (RsslVerif.Thm.C06.inline_buffers_correct hp h).1
  unfold hlslMeta
  rw [h]
  simp only
  rw [hevs]
  simp only
  unfold assign at h
  split at h
  · cases h
  · rename_i st bs hrun
    simp only [Except.ok.injEq] at h
    subst h
    have hinv := run_events_inv hp ds State.init st bs 0 evs [] hrun hevs inlInv_nil
    apply setInlines_total _ _ st.inline.get hinv hpw
    · intro b hb
      have hb' := hb
      simp only [inlineBuffers] at hb'
      rw [mem_sortBufs] at hb'
      simp only [List.mem_map] at hb'
      obtain ⟨g, _, rfl⟩ := hb'
      exact ⟨rfl, (hpos _ hb).2.2⟩
    · intro b _ grp hg
      exact registerAll_noIC evs [] (by intro g hg; cases hg) grp (List.mem_of_getElem? hg)

open RsslVerif.Lemmas.MetaTotal RsslVerif.Lemmas.Slots in
/-- **The HLSL metadata builder is total.**  For every module whose object-typed globals use kinds that have a
    descriptor type, every default group and every parameter set `compile()` can pass: `assign_api_bindings`
    returns (since fix 774c0b4 it has no panic left: C06 `assign_never_panics`; the hypothesis "the allocator
    returned" of the former statement is gone), and `analyse_bindings` + `generate_inline_constant_buffers` return a
    `PipelineDescription` — `bind_groups[buffer.set]` is in range and none of the three asserts
    (`offset + 8 <= size`, `size == found_size`, `inline_constants == None`) can fire, because per bind group the
    inline entries account for exactly the bytes the allocator handed out. -/
theorem hlsl_metadata_total {p : Params} (hp : ParamsOk p) {dflt : Nat} {ds : List MDecl}
    (hdesc : ∀ n s ss k arr bl st, MDecl.global n s ss (some k) arr bl st ∈ ds → (hlslDescType k).isSome) :
    ∃ groups, hlslMeta p dflt ds = .ok groups := by
  obtain ⟨res, h⟩ := RsslVerif.Thm.C06.assign_never_panics p dflt (ds.map MDecl.toSlot)
  have hev : ∀ d ∈ ds, ∀ ob, ∃ o, hlslEvent d ob = .ok o := by
    intro d hd ob
    cases d with
    | other => exact ⟨none, rfl⟩
    | cbuffer n s => cases ob <;> exact ⟨_, rfl⟩
    | global n s ss k arr bl st =>
      have hdo : ∃ dt, descOf hlslDescType hlslNonObjectDescType k = .ok dt := by
        cases k with
        | none => exact ⟨_, rfl⟩
        | some k =>
          have := hdesc n s ss k arr bl st hd
          cases hk : hlslDescType k with
          | none => simp [hk] at this
          | some dt => exact ⟨dt, by simp [descOf, hk]⟩
      obtain ⟨dt, hdt⟩ := hdo
      cases ob with
      | none => exact ⟨none, by simp [hlslEvent, hdt]⟩
      | some b =>
        exact ⟨some (b.set, { name := n, loc := b.loc, descType := dt, count := countOf arr, bindless := bl,
                              used := true, staticSampler := ss }), by simp [hlslEvent, hdt]⟩
  obtain ⟨evs, hevs⟩ := events_total ds hev res.bindings 0
  exact hlslMeta_ok_of_events hp h hevs

open RsslVerif.Lemmas.MetaTotal RsslVerif.Lemmas.Slots in
/-- **HLSL: metadata, or the clean refusal — for every module.**  Whatever the globals are (including globals of the
    object kinds without a register class — `RayDesc`, `RayQuery`, `TriangleStream`, the mips views — on which the
    allocator used to panic on DirectX before fix 774c0b4): the HLSL metadata builder returns a `PipelineDescription`
    or `Err(UnsupportedObjectType)`; no panic, no assert, no out-of-range index on any path. -/
theorem hlsl_metadata_total_or_refused {p : Params} (hp : ParamsOk p) (dflt : Nat) (ds : List MDecl) :
    (∃ groups, hlslMeta p dflt ds = .ok groups) ∨ hlslMeta p dflt ds = .error "UnsupportedObjectType" := by
  obtain ⟨res, h⟩ := RsslVerif.Thm.C06.assign_never_panics p dflt (ds.map MDecl.toSlot)
  rcases events_hlsl_cases ds res.bindings 0 with ⟨evs, hevs⟩ | herr
  · exact Or.inl (hlslMeta_ok_of_events hp h hevs)
  · right
    unfold hlslMeta
    rw [h]
    simp only
    rw [herr]

open RsslVerif.Lemmas.MetaTotal RsslVerif.Lemmas.Slots in
/-- the Metal binding analysis once the allocator returned and every `analyse_bindings` call did, all in groups
    that have an argument buffer: `ARGUMENT_BUFFER_NAMES[i]` stays in range and the sort (its comparator panics on
    an inline constant) is the identity -/
theorem mslMeta_ok_of_events {p : Params} (hsba : p.supportBufferAddress = false) {dflt : Nat}
    {usedAt : Nat → Bool} {ds : List MDecl} {res : Result}
    (h : assign p dflt (ds.map MDecl.toSlot) = .ok res) {evs : List (Nat × Entry)}
    (hev : events (fun i => mslEvent (usedAt i)) 0 ds res.bindings = .ok evs)
    (hlt : ∀ x ∈ evs, x.1 < argumentBufferNames.length) :
    ∃ groups, mslMeta p dflt usedAt ds = .ok groups := by
  have hp : ParamsOk p := by intro hb; rw [hsba] at hb; cases hb
  unfold mslMeta
  rw [h]
  simp only
  rw [hev]
  simp only
  have hlen : (registerAll evs []).length ≤ argumentBufferNames.length :=
    length_registerAll_le evs [] hlt (by simp)
  rw [if_neg (by omega)]
  have hag := RsslVerif.Thm.C06.binding_complete hp h
  have hgood := assign_good h
  have hidx := all_index hsba _ _ hag hgood
  refine ⟨registerAll evs [], ?_⟩
  apply sortGroups_id
  intro grp hgrp
  obtain ⟨k, hk⟩ := List.getElem?_of_mem hgrp
  have hb : bindingsAt (registerAll evs []) k = grp.bindings := by simp [bindingsAt, hk]
  rw [bindingsAt_registerAll, bindingsAt_nil, List.nil_append] at hb
  have hl := events_locs (fun i => mslEvent_ok (usedAt i)) k ds res.bindings 0 evs hag hev
  have hr := indexRanges_locs (p := p) (dflt := dflt) k _ _ hag hidx
  have htile := RsslVerif.Thm.C06.index_ranges_tile hp h k
  apply sortGroup_id (ks := (RsslVerif.Spec.Slots.indexRanges p k (ds.map MDecl.toSlot) res.bindings).map (·.1))
  · rw [← hb, List.map_map, List.map_map]
    exact hl.trans hr.symm
  · exact (List.pairwise_map).2 (tiles_sorted htile).2

open RsslVerif.Lemmas.MetaTotal RsslVerif.Lemmas.Slots in
/-- **Metal: metadata, or the clean refusal.**  Without buffer addresses (Metal's parameter set), for every module
    whose object-typed globals use kinds that have a descriptor type: the allocator returns (C06
    `assign_never_panics`; the former hypothesis is gone) and the Metal metadata builder either returns a
    `PipelineDescription` or refuses the file with `UnsupportedBindGroupIndex` (some binding sits in a group without
    argument buffer struct) — `ARGUMENT_BUFFER_NAMES[i]` is never indexed out of range and the `panic!()` of the sort
    comparator (inline constant in an argument buffer) cannot fire. -/
theorem msl_metadata_total_or_refused {p : Params} (hsba : p.supportBufferAddress = false) {dflt : Nat}
    {usedAt : Nat → Bool} {ds : List MDecl}
    (hdesc : ∀ n s ss k arr bl st, MDecl.global n s ss (some k) arr bl st ∈ ds → (mslDescType k).isSome) :
    (∃ groups, mslMeta p dflt usedAt ds = .ok groups) ∨
    mslMeta p dflt usedAt ds = .error "UnsupportedBindGroupIndex" := by
  obtain ⟨res, h⟩ := RsslVerif.Thm.C06.assign_never_panics p dflt (ds.map MDecl.toSlot)
  rcases events_msl_cases usedAt (by decide) ds hdesc res.bindings 0 with ⟨evs, hev, hlt⟩ | herr
  · exact Or.inl (mslMeta_ok_of_events hsba h hev hlt)
  · right
    unfold mslMeta
    rw [h]
    simp only
    rw [herr]

open RsslVerif.Lemmas.MetaTotal RsslVerif.Lemmas.Slots in
/-- **Metal export: a description, or one of three clean refusals — for every module and every pipeline.**
    Whatever the globals are and whatever the stage entry points reach: `generate_pipeline` returns the
    `PipelineDescription` or `Err(UnsupportedObjectType)` / `Err(UnsupportedBindGroupIndex(_))` /
    `Err(UnboundGlobal)`.  The last one is new with fix 2ba03a4: a stage entry point that reaches an extern global
    without a place in an argument buffer (a 2-D resource array, a struct holding resources, a loose constant) used to
    panic on `global_to_set_index.get(gid).unwrap()`. -/
theorem msl_export_total_or_refused {p : Params} (hsba : p.supportBufferAddress = false) (dflt : Nat)
    (usedAt : Nat → Bool) (hasPipeline : Bool) (ds : List MDecl) :
    (∃ groups, mslExport p dflt usedAt hasPipeline ds = .ok groups) ∨
    mslExport p dflt usedAt hasPipeline ds = .error "UnsupportedObjectType" ∨
    mslExport p dflt usedAt hasPipeline ds = .error "UnsupportedBindGroupIndex" ∨
    mslExport p dflt usedAt hasPipeline ds = .error "UnboundGlobal" := by
  obtain ⟨res, h⟩ := RsslVerif.Thm.C06.assign_never_panics p dflt (ds.map MDecl.toSlot)
  rcases events_msl_cases_any usedAt ds res.bindings 0 with ⟨evs, hev, hlt⟩ | herr | herr
  · obtain ⟨groups, hg⟩ := mslMeta_ok_of_events (usedAt := usedAt) hsba h hev hlt
    unfold mslExport
    rw [hg, h]
    simp only
    split
    · exact Or.inr (Or.inr (Or.inr rfl))
    · exact Or.inl ⟨groups, rfl⟩
  · right; right; left
    unfold mslExport mslMeta
    rw [h]
    simp only
    rw [herr]
  · right; left
    unfold mslExport mslMeta
    rw [h]
    simp only
    rw [herr]

open RsslVerif.Lemmas.MetaTotal in
/-- **Metal: what a stage reaches is bound.**  When a pipeline is exported (the export returns), every extern global
    — cbuffer or global variable that is no static sampler — that some stage entry point requires has an api slot,
    hence (`annot_iff_entry`, `used_flag`) an `[[id]]` member and a metadata entry marked used: with fix 2ba03a4
    "reachable ⇒ reported used" holds for *every* declaration the stages reach, also for those the allocator leaves
    alone (2-D arrays, structs holding resources), because their pipelines are refused (`UnboundGlobal`) instead of
    being exported with a dangling argument.  Conversely the refusal always names such a declaration. -/
theorem msl_reached_argument_is_bound {p : Params} {dflt : Nat} {usedAt : Nat → Bool} {ds : List MDecl} :
    (∀ groups, mslExport p dflt usedAt true ds = .ok groups →
      mslMeta p dflt usedAt ds = .ok groups ∧
      ∃ res, assign p dflt (ds.map MDecl.toSlot) = .ok res ∧
        ∀ i d, ds[i]? = some d → usedAt i = true → isStageArgument d = true → ∃ b, res.bindings[i]? = some (some b)) ∧
    (mslExport p dflt usedAt true ds = .error "UnboundGlobal" →
      ∃ res, assign p dflt (ds.map MDecl.toSlot) = .ok res ∧
        ∃ i d, ds[i]? = some d ∧ usedAt i = true ∧ isStageArgument d = true ∧ res.bindings[i]? = some none) := by
  constructor
  · intro groups h
    unfold mslExport at h
    split at h
    · cases h
    · rename_i gs hgs
      split at h
      · cases h
      · rename_i res hres
        split at h
        · cases h
        · rename_i hun
          simp only [Except.ok.injEq] at h
          subst h
          refine ⟨hgs, res, hres, ?_⟩
          intro i d hd hu ha
          have hl : res.bindings.length = ds.length := by simpa using assign_length hres
          have hf : mslUnbound usedAt 0 ds res.bindings = false := by simpa using hun
          exact mslUnbound_false usedAt ds res.bindings 0 hl hf i d hd (by simpa using hu) ha
  · intro h
    unfold mslExport at h
    split at h
    · rename_i e he
      -- an error of the binding analysis is never `UnboundGlobal`
      simp only [Except.error.injEq] at h
      subst h
      exfalso
      unfold mslMeta at he
      split at he
      · rename_i e' he'
        obtain ⟨res, hres⟩ := RsslVerif.Thm.C06.assign_never_panics p dflt (ds.map MDecl.toSlot)
        rw [hres] at he'
        cases he'
      · rename_i res hres
        rcases events_msl_cases_any usedAt ds res.bindings 0 with ⟨evs, hev, _⟩ | herr | herr
        · rw [hev] at he
          simp only at he
          split at he
          · simp at he
          · have := sortGroups_error _ _ he
            simp at this
        · rw [herr] at he; simp at he
        · rw [herr] at he; simp at he
    · rename_i gs hgs
      split at h
      · rename_i e he
        obtain ⟨res, hres⟩ := RsslVerif.Thm.C06.assign_never_panics p dflt (ds.map MDecl.toSlot)
        rw [hres] at he
        cases he
      · rename_i res hres
        split at h
        · rename_i hun
          refine ⟨res, hres, ?_⟩
          have ht : mslUnbound usedAt 0 ds res.bindings = true := by simpa using hun
          obtain ⟨j, d, hd, hu, ha, hb⟩ := mslUnbound_true usedAt ds res.bindings 0 ht
          exact ⟨j, d, hd, by simpa using hu, ha, hb⟩
        · cases h

/-! ## descriptor_kind_count -/

/-- Descriptor type and count of an entry depend only on the declared (peeled) kind and the array layer:
    any two globals with the same kind and array layer — whatever their names, groups, flags, storage and
    api slots — are reported with the same type and count, on both back ends; the count is the array
    length, 1 without an array. -/
theorem descriptor_kind_count {k : Option ObjKind} {arr : Arr}
    {n₁ n₂ : String} {s₁ s₂ : Option Nat} {ss₁ ss₂ bl₁ bl₂ u₁ : Bool} {st₁ st₂ : Storage} {b₁ b₂ : Binding}
    {g₁ g₂ : Nat} {e₁ e₂ : Entry} :
    (hlslEvent (.global n₁ s₁ ss₁ k arr bl₁ st₁) (some b₁) = .ok (some (g₁, e₁)) →
     hlslEvent (.global n₂ s₂ ss₂ k arr bl₂ st₂) (some b₂) = .ok (some (g₂, e₂)) →
       e₁.descType = e₂.descType ∧ e₁.count = e₂.count ∧ e₁.count = countOf arr) ∧
    (mslEvent u₁ (.global n₁ s₁ ss₁ k arr bl₁ st₁) (some b₁) = .ok (some (g₁, e₁)) →
     hlslEvent (.global n₂ s₂ ss₂ k arr bl₂ st₂) (some b₂) = .ok (some (g₂, e₂)) →
       e₁.descType = e₂.descType ∧ e₁.count = e₂.count ∧ e₁.count = countOf arr) := by
  have hagree : descOf mslDescType mslNonObjectDescType k = descOf hlslDescType hlslNonObjectDescType k := by
    cases k with
    | none => simp [descOf, (descriptor_tables_agree .Buffer).2]
    | some k => simp [descOf, (descriptor_tables_agree k).1]
  constructor
  · intro h1 h2
    simp only [hlslEvent] at h1 h2
    cases hd : descOf hlslDescType hlslNonObjectDescType k with
    | error e => simp [hd] at h1
    | ok dt =>
      simp only [hd, Except.ok.injEq, Option.some.injEq, Prod.mk.injEq] at h1 h2
      obtain ⟨_, rfl⟩ := h1
      obtain ⟨_, rfl⟩ := h2
      exact ⟨rfl, rfl, rfl⟩
  · intro h1 h2
    simp only [hlslEvent, mslEvent, hagree] at h1 h2
    cases hd : descOf hlslDescType hlslNonObjectDescType k with
    | error e => simp [hd] at h1
    | ok dt =>
      simp only [hd, Except.ok.injEq, Option.some.injEq, Prod.mk.injEq] at h1 h2
      split at h1
      · cases h1
      · simp only [Except.ok.injEq, Option.some.injEq, Prod.mk.injEq] at h1
        obtain ⟨_, rfl⟩ := h1
        obtain ⟨_, rfl⟩ := h2
        exact ⟨rfl, rfl, rfl⟩


/-! ## meta_bijective -/

/-- HLSL: in every bind group the metadata entries are exactly the externally bound declarations of that
    group — same number, same names, same (declaration) order; groups beyond the vector have no bound
    declaration.  "Externally bound" is C06's `bound`: cbuffers and object-typed globals. -/
theorem meta_bijective_hlsl {p : Params} (hp : ParamsOk p) {dflt : Nat} {ds : List MDecl} {groups : List Group}
    (h : hlslMeta p dflt ds = .ok groups) (g : Nat) :
    (bindingsAt groups g).map (·.name) = boundNames p dflt g ds := by
  unfold hlslMeta at h
  split at h
  · cases h
  · rename_i res hres
    split at h
    · cases h
    · rename_i evs hev
      have hag := RsslVerif.Thm.C06.binding_complete hp hres
      rw [bindingsAt_setInlines h g, bindingsAt_registerAll, bindingsAt_nil, List.nil_append, List.map_map]
      exact events_names (fun _ => hlslEvent_ok) g ds res.bindings 0 evs hag hev

/-- Metal: the same, up to the per-group sort by slot (a permutation; `meta_bijective_msl_exact` removes
    the "up to" for the parameter sets without buffer addresses, i.e. for Metal itself). -/
theorem meta_bijective_msl {p : Params} (hp : ParamsOk p) {dflt : Nat} {usedAt : Nat → Bool} {ds : List MDecl}
    {groups : List Group} (h : mslMeta p dflt usedAt ds = .ok groups) (g : Nat) :
    ((bindingsAt groups g).map (·.name)).Perm (boundNames p dflt g ds) := by
  unfold mslMeta at h
  split at h
  · cases h
  · rename_i res hres
    split at h
    · cases h
    · rename_i evs hev
      have hag := RsslVerif.Thm.C06.binding_complete hp hres
      simp only at h
      split at h
      · cases h
      · obtain ⟨_, hperm⟩ := sortGroups_at h
        have hn := events_names (fun i => mslEvent_ok (usedAt i)) g ds res.bindings 0 evs hag hev
        have := (hperm g).map (·.name)
        rw [bindingsAt_registerAll, bindingsAt_nil, List.nil_append, List.map_map] at this
        rw [← hn]
        exact this

/-- Metal, exact form: the sort never reorders what the allocator produced, so per bind group the entries
    are the externally bound declarations in declaration order. -/
theorem meta_bijective_msl_exact {p : Params} (hsba : p.supportBufferAddress = false) {dflt : Nat}
    {usedAt : Nat → Bool} {ds : List MDecl} {groups : List Group}
    (h : mslMeta p dflt usedAt ds = .ok groups) (g : Nat) :
    (bindingsAt groups g).map (·.name) = boundNames p dflt g ds := by
  have hp : ParamsOk p := by intro hb; rw [hsba] at hb; cases hb
  unfold mslMeta at h
  split at h
  · cases h
  · rename_i res hres
    split at h
    · cases h
    · rename_i evs hev
      have hag := RsslVerif.Thm.C06.binding_complete hp hres
      have hgood := assign_good hres
      have hidx := all_index hsba _ _ hag hgood
      simp only at h
      split at h
      · cases h
      · have hid : sortGroups (registerAll evs []) = .ok (registerAll evs []) := by
          apply sortGroups_id
          intro grp hgrp
          obtain ⟨k, hk⟩ := List.getElem?_of_mem hgrp
          have hb : bindingsAt (registerAll evs []) k = grp.bindings := by simp [bindingsAt, hk]
          rw [bindingsAt_registerAll, bindingsAt_nil, List.nil_append] at hb
          have hl := events_locs (fun i => mslEvent_ok (usedAt i)) k ds res.bindings 0 evs hag hev
          have hr := indexRanges_locs (p := p) (dflt := dflt) k _ _ hag hidx
          have htile := RsslVerif.Thm.C06.index_ranges_tile hp hres k
          apply sortGroup_id (ks := (RsslVerif.Spec.Slots.indexRanges p k (ds.map MDecl.toSlot) res.bindings).map (·.1))
          · rw [← hb, List.map_map, List.map_map]
            exact hl.trans hr.symm
          · exact (List.pairwise_map).2 (tiles_sorted htile).2
        rw [hid] at h
        cases h
        rw [bindingsAt_registerAll, bindingsAt_nil, List.nil_append, List.map_map]
        exact events_names (fun i => mslEvent_ok (usedAt i)) g ds res.bindings 0 evs hag hev

/-- the Metal sort does not reorder a group whose slots are already non-decreasing (which C06's
    `index_ranges_tile` guarantees for the allocator's output) -/
theorem msl_sort_keeps_sorted (ks : List (Nat × Entry)) (h : ks.Pairwise (fun a b => a.1 ≤ b.1)) :
    sortKeyed ks = ks := sortKeyed_sorted ks h

/-- who is excluded on both sides: non-definitions, non-object globals, non-extern globals, unsized arrays
    (the allocator does not look through them), and static samplers on Metal (implemented in source there). -/
theorem excluded_declarations (p : Params) (n : String) (s : Option Nat) (ss bl : Bool) (k : Option ObjKind)
    (arr : Arr) (st : Storage) :
    externallyBound p .other = false ∧
    externallyBound p (.global n s ss none arr bl st) = false ∧
    externallyBound p (.global n s ss k .unsized bl st) = false ∧
    externallyBound (paramsFor .Msl false) (.global n s true k arr bl st) = false ∧
    (st ≠ .extern → externallyBound p (.global n s ss k arr bl st) = false) ∧
    externallyBound p (.cbuffer n s) = true := by
  refine ⟨rfl, ?_, ?_, ?_, ?_, rfl⟩
  · cases arr <;> cases st <;> simp [externallyBound, MDecl.toSlot, RsslVerif.Spec.Slots.bound]
  · cases st <;> simp [externallyBound, MDecl.toSlot, RsslVerif.Spec.Slots.bound]
  · cases arr <;> cases k <;> cases st <;>
      simp [externallyBound, MDecl.toSlot, RsslVerif.Spec.Slots.bound, paramsFor]
  · intro hst
    simp [externallyBound, MDecl.toSlot, hst, RsslVerif.Spec.Slots.bound]

/-! ## used_sound_complete -/

open RsslVerif.Model.MetaReach RsslVerif.Lemmas.MetaReach in
/-- Metal: whenever the usage fixed point loop returns (with whatever fuel), a binding is marked used iff some
    stage entry point reaches the global in the use graph (calls, bodies, default arguments, and the
    initialisers of the globals on the way).  `usage_loop_terminates` shows that it always returns. -/
theorem used_iff_reachable_of_result {direct : Sym → List Sym} {keys : List Sym} {entries : List Nat} {fuel : Nat}
    {req : Sym → List Sym} (hk : ∀ k ∈ keys, ∀ s ∈ direct k, s ∈ keys)
    (he : ∀ e ∈ entries, Sym.fn e ∈ keys) (h : recurse fuel keys direct = some req) (g : Nat) :
    usedBy req entries g = true ↔ ∃ e ∈ entries, Reach direct (.fn e) (.glob g) := by
  have hr := recurse_is_reach hk h
  simp only [usedBy, List.any_eq_true, List.contains_iff_mem]
  constructor
  · rintro ⟨e, hem, hm⟩; exact ⟨e, hem, (hr _ (he e hem) _).1 hm⟩
  · rintro ⟨e, hem, hm⟩; exact ⟨e, hem, (hr _ (he e hem) _).2 hm⟩

open RsslVerif.Model.MetaReach in
/-- `GlobalUsageAnalysis::recurse` terminates: over `n` symbols (functions, globals, cbuffers — whatever key
    order the hash map yields) the loop makes at most `n * n` modifying passes, because every such pass adds a
    (symbol, required symbol) pair and there are at most `n * n` of them. -/
theorem usage_loop_terminates {direct : Sym → List Sym} {keys : List Sym}
    (hk : ∀ k ∈ keys, ∀ s ∈ direct k, s ∈ keys) :
    ∃ req, recurse (keys.length * keys.length + 1) keys direct = some req :=
  RsslVerif.Lemmas.MetaReachTerm.recurse_terminates hk

open RsslVerif.Model.MetaReach in
/-- **used_sound_complete** (Metal, full): for every use graph — any functions with bodies and default
    arguments, any globals with initialisers that mention other globals or call functions, any key order — the
    usage analysis returns, and a binding is reported used iff some stage entry point of the pipeline reaches
    its global.  (A resource array or a bindless array is one global: mentioning any element mentions it.) -/
theorem used_sound_complete {direct : Sym → List Sym} {keys : List Sym} {entries : List Nat}
    (hk : ∀ k ∈ keys, ∀ s ∈ direct k, s ∈ keys) (he : ∀ e ∈ entries, Sym.fn e ∈ keys) :
    ∃ req, recurse (keys.length * keys.length + 1) keys direct = some req ∧
      ∀ g, usedBy req entries g = true ↔ ∃ e ∈ entries, Reach direct (.fn e) (.glob g) := by
  obtain ⟨req, h⟩ := usage_loop_terminates hk
  exact ⟨req, h, used_iff_reachable_of_result hk he h⟩

/-- a use graph with a global (4) whose initialiser mentions another global (7), itself reached through a call -/
def exampleDirect : RsslVerif.Model.MetaReach.Sym → List RsslVerif.Model.MetaReach.Sym
  | .fn 0 => [.fn 1]
  | .fn 1 => [.glob 4]
  | .glob 4 => [.glob 7]
  | _ => []

example : Reach exampleDirect (.fn 0) (.glob 7) :=
  Reach.step (m := .fn 1) (Reach.base (by decide))
    (Reach.step (m := .glob 4) (Reach.base (by decide)) (Reach.base (by decide)))

/-- the `is_used` flag of an entry: always true on HLSL (so a reachable binding is never reported unused),
    the membership test on Metal -/
theorem used_flag {u : Bool} {d : MDecl} {ob : Option Binding} {g : Nat} {e : Entry} :
    (hlslEvent d ob = .ok (some (g, e)) → e.used = true) ∧
    (mslEvent u d ob = .ok (some (g, e)) → e.used = u) := by
  constructor
  · intro h
    cases d with
    | other => simp [hlslEvent] at h
    | cbuffer n s => cases ob <;> simp [hlslEvent] at h; obtain ⟨_, rfl⟩ := h; rfl
    | global n s ss k arr bl st =>
      simp only [hlslEvent] at h
      split at h
      · cases h
      · cases ob <;> simp at h; obtain ⟨_, rfl⟩ := h; rfl
  · intro h
    cases d with
    | other => simp [mslEvent] at h
    | cbuffer n s =>
      cases ob with
      | none => simp [mslEvent] at h
      | some b =>
        simp only [mslEvent] at h
        split at h
        · cases h
        · split at h
          · cases h
          · simp at h; obtain ⟨_, rfl⟩ := h; rfl
    | global n s ss k arr bl st =>
      simp only [mslEvent] at h
      split at h
      · cases h
      · cases ob with
        | none => simp at h
        | some b =>
          simp only at h
          split at h
          · cases h
          · simp at h; obtain ⟨_, rfl⟩ := h; rfl

/-! ## entry_named_and_defined -/

/-- Each reported stage names the function the emitted source defines for it, and the reported thread group
    size is the value of the **last** thread group size attribute that function is emitted with (`none` when it has
    none) — on every target and for every stage kind, whatever the name generator did to the entry function's name:
    HLSL reports the exporter's generated name (since fix "report the emitted name of HLSL entry points"), Metal the
    fixed name of its generated entry function (the two name tables agree).  When the function carries exactly one
    attribute, reported = emitted. -/
theorem entry_named_and_defined (msl : Bool) (funcs : List FuncDef) (s : StageDef) (r : StageOut)
    (h : reportStage msl funcs s = some r) :
    ∃ attrs, emittedStage msl funcs s = some (r.entryPoint, attrs) ∧ r.stage = s.stage ∧
      r.threadGroupSize = lastNumThreads attrs ∧ (∀ t, attrs = [t] → r.threadGroupSize = some t) ∧
      (attrs = [] → r.threadGroupSize = none) := by
  unfold reportStage at h
  unfold emittedStage
  cases hf : funcs[s.entry]? with
  | none => simp [hf] at h
  | some f =>
    simp only [hf, Option.some.injEq] at h ⊢
    subst h
    refine ⟨f.attrs, ?_, rfl, rfl, ?_, ?_⟩
    · cases msl with
      | true => simp [msl_entry_names_agree]
      | false => simp
    · intro t ht; simp [ht, lastNumThreads]
    · intro ht; simp [ht, lastNumThreads]

/-- the renamed entry point of the former defect: reported and emitted names are both `float16_t_0` -/
example : reportStage false [{ name := "float16_t", emitted := "float16_t_0", attrs := [(8, 4, 1)] }]
      { stage := .Compute, entry := 0 } = some ⟨.Compute, "float16_t_0", some (8, 4, 1)⟩ := rfl

/-! ## where the stage records come from (`parse_pipeline` / `add_stage`) -/

open RsslVerif.Model.MetaFront RsslVerif.Lemmas.MetaFront in
/-- A `Pipeline` block the front end accepts yields one stage record per stage property, in the order the
    properties are written (not in a canonical stage order); each record points at the one function of the registry
    (`funcs` = the registry *as the block finds it*: the functions registered so far and the intrinsics)
    that carries the given name — a function with a body that is no template — and stores the last
    `numthreads` attribute of exactly that function, for every stage kind alike. -/
theorem stage_records_follow_properties {funcs : List FnSrc} {earlier : List String} {p : PipeSrc} {d : PipeDef}
    (h : parsePipeline funcs earlier p = .ok d) :
    d.stages.map (·.stage) = p.stages.map (·.1) ∧ d.stages ≠ [] ∧ d.dflt = p.dflt.getD 0 ∧
    ∀ s ∈ d.stages, ∃ q ∈ p.stages, s.stage = q.1 ∧ fnIndices funcs q.2 0 = [s.entry] ∧
      ∃ f, funcs[s.entry]? = some f ∧ f.name = q.2 ∧ f.hasBody = true ∧ f.isTemplate = false ∧ f.registered = true ∧
        s.threadGroupSize = lastNumThreads f.attrs := by
  obtain ⟨_, _, hd, hmap, hne, hall, _⟩ := parsePipeline_ok h
  refine ⟨hmap, hne, hd, ?_⟩
  intro s hs
  obtain ⟨q, hq, hadd⟩ := hall s hs
  obtain ⟨h1, h2, f, hf, hn, ht, hb, hr, htg⟩ := addStage_ok hadd
  exact ⟨q, hq, h1, h2, f, hf, hn, hb, ht, hr, htg⟩

open RsslVerif.Model.MetaFront RsslVerif.Lemmas.MetaFront in
/-- `build_pipeline` copies `stage.thread_group_size` of the record; that is the value `reportStage` computes
    from the attributes the entry function is emitted with, whenever the emitted function table carries the same
    attributes as the front end's — so for every stage kind: reported size = last emitted attribute. -/
theorem reported_size_is_the_typers_record {funcs : List FnSrc} {earlier : List String} {p : PipeSrc} {d : PipeDef}
    (h : parsePipeline funcs earlier p = .ok d) {fdefs : List FuncDef} (msl : Bool)
    (hsame : ∀ (i : Nat) (f : FnSrc), funcs[i]? = some f → ∃ g : FuncDef, fdefs[i]? = some g ∧ g.attrs = f.attrs) :
    ∀ s ∈ d.stages, ∃ r, reportStage msl fdefs { stage := s.stage, entry := s.entry } = some r ∧
      r.stage = s.stage ∧ r.threadGroupSize = s.threadGroupSize := by
  intro s hs
  obtain ⟨_, _, _, hall⟩ := stage_records_follow_properties h
  obtain ⟨_, _, _, _, f, hf, _, _, _, _, htg⟩ := hall s hs
  obtain ⟨g, hg, hga⟩ := hsame _ f hf
  refine ⟨{ stage := s.stage, entryPoint := if msl then mslEntryName s.stage else g.emitted,
            threadGroupSize := lastNumThreads g.attrs }, by simp [reportStage, hg], rfl, ?_⟩
  simp [htg, hga]

open RsslVerif.Model.MetaFront RsslVerif.Lemmas.MetaFront in
/-- **The reported thread group size is the emitted one.**  Since fix 0f5be73 ("a function attribute can be given
    only once") a file the front end accepts *defines* no function with a second `numthreads` attribute (a forward
    declaration may carry any: `parse_function` never parses its attributes — and never stores them either).  A stage
    entry function has an implementation when its `Pipeline` block is met, so it was defined by an earlier root
    definition of the file and went through `parse_function_attributes`.  So for every pipeline of an accepted file,
    every stage record and both back ends: the stage reports the emitted entry function, and the thread group size
    attributes that function is emitted with are *exactly* the reported size (`[]` when none is reported, `[t]` when
    `t` is) — for every stage kind.  This replaces the negation witness `thread_group_size_ambiguous_witness` (two
    attributes, the report agreeing with only one of them).
    `funcs` = the table of all functions the file registers plus the intrinsics; the only hypothesis on it: before the
    file is read nothing has an implementation (intrinsics never have one). -/
theorem reported_thread_group_size_is_emitted {funcs : List FnSrc} {items : List Item} {ds : List PipeDef}
    (h : parseFile funcs [] [] [] items = .ok ds)
    (hfuncs : ∀ f ∈ funcs, f.hasBody = false)
    {fdefs : List FuncDef} (msl : Bool)
    (hsame : ∀ (i : Nat) (f : FnSrc), funcs[i]? = some f → ∃ g : FuncDef, fdefs[i]? = some g ∧ g.attrs = f.attrs) :
    ∀ d ∈ ds, ∀ s ∈ d.stages, ∃ r, reportStage msl fdefs { stage := s.stage, entry := s.entry } = some r ∧
      emittedStage msl fdefs { stage := s.stage, entry := s.entry } = some (r.entryPoint, r.threadGroupSize.toList) ∧
      r.stage = s.stage ∧ r.threadGroupSize = s.threadGroupSize := by
  intro d hd s hs
  obtain ⟨hone, hpipes⟩ := parseFile_ok h
  obtain ⟨p, _, dc', df', e, hp, hdf⟩ := hpipes d hd
  obtain ⟨_, _, _, hall⟩ := stage_records_follow_properties hp
  obtain ⟨_, _, _, _, v, hv, _, hvb, _, _, htg⟩ := hall s hs
  obtain ⟨f, hf, _, hfa, _, hfb, _⟩ := regAt_getElem? hv
  obtain ⟨g, hg, hga⟩ := hsame _ f hf
  have hlen : f.attrs.length ≤ 1 := by
    have hnb := hfuncs f (List.mem_of_getElem? hf)
    rw [hfb, hnb] at hvb
    have hmem : s.entry ∈ df' := by simpa using hvb
    rcases hdf _ hmem with hm | hm
    · cases hm
    · exact hone _ hm f hf
  refine ⟨{ stage := s.stage, entryPoint := if msl then mslEntryName s.stage else g.emitted,
            threadGroupSize := lastNumThreads g.attrs }, by simp [reportStage, hg], ?_, rfl, by simp [htg, hga, hfa]⟩
  simp only [emittedStage, hg, Option.some.injEq, Prod.mk.injEq]
  refine ⟨?_, ?_⟩
  · cases msl with
    | true => simp [msl_entry_names_agree]
    | false => simp
  · rw [hga]; exact lastNumThreads_of_length hlen

open RsslVerif.Model.MetaFront in
/-- the former witness is now refused by the front end, whatever follows the definition … -/
example : parseFile [⟨"cs_0", [(9, 4, 1), (8, 4, 1)], false, false, false⟩] [] [] []
    [.defn 0, .pipe ⟨"P0", [(.Compute, "cs_0")], none, false⟩] =
    .error .FunctionAttributeDuplicate := rfl

open RsslVerif.Model.MetaFront in
/-- … while the same file with one attribute is accepted and records it (the hypotheses of
    `reported_thread_group_size_is_emitted` are satisfiable), also with a forward declaration in front -/
example : (parseFile [⟨"cs_0", [(8, 4, 1)], false, false, false⟩] [] [] []
    [.decl 0, .defn 0, .pipe ⟨"P0", [(.Compute, "cs_0")], none, false⟩]).toOption.map
      (·.map (·.stages)) = some [[⟨.Compute, 0, some (8, 4, 1)⟩]] := by decide

/-! ## the order of the front end's errors -/

open RsslVerif.Model.MetaFront RsslVerif.Lemmas.MetaFront in
/-- **The first error in file order wins**, for every file: when the root definitions up to some point are refused,
    the file is refused with exactly that error, whatever follows (`type_check_internal` returns at the first `?`). -/
theorem first_front_end_error_wins {funcs : List FnSrc} {e : FrontErr} {pre : List Item} (post : List Item)
    {dc df : List Nat} {earlier : List String} (h : parseFile funcs dc df earlier pre = .error e) :
    parseFile funcs dc df earlier (pre ++ post) = .error e :=
  parseFile_prefix_error post h

/-- the function table of the reduced seed-1 soak program: one mesh entry point written with two `numthreads` -/
def soakFuncs : List RsslVerif.Model.MetaFront.FnSrc := [⟨"ms_2", [(2, 2, 1), (1, 2, 1)], false, false, false⟩]

/-- an entry point and a second function of the same name (an overload) -/
def overloadFuncs : List RsslVerif.Model.MetaFront.FnSrc :=
  [⟨"cs_0", [(8, 4, 1)], false, false, false⟩, ⟨"cs_0", [], false, false, false⟩]

open RsslVerif.Model.MetaFront in
/-- the program of the seed-1 soak, reduced: a forward declaration with two `numthreads`, a `Pipeline` block without
    entry point, then the definition (two `numthreads`).  The declaration's attributes are not parsed: the block is the
    first error.  With the definition in front of the block the attribute error comes first; a block that names the
    entry point between declaration and definition finds a function without implementation. -/
example :
    parseFile soakFuncs [] [] [] [.decl 0, .pipe ⟨"P0", [], none, true⟩, .defn 0] = .error .PipelineNoEntryPoint ∧
    parseFile soakFuncs [] [] [] [.decl 0, .defn 0, .pipe ⟨"P0", [], none, true⟩] = .error .FunctionAttributeDuplicate ∧
    parseFile soakFuncs [] [] [] [.decl 0, .pipe ⟨"P0", [(.Mesh, "ms_2")], none, false⟩, .defn 0] =
      .error .PipelineEntryPointFunctionUnknown ∧
    parseFile soakFuncs [] [] [] [.pipe ⟨"P0", [(.Mesh, "ms_2")], none, false⟩, .defn 0] =
      .error .PipelineEntryPointFunctionUnknown := ⟨rfl, rfl, rfl, rfl⟩

open RsslVerif.Model.MetaFront in
/-- the entry point is looked up in the registry *of the moment*: an overload defined after the `Pipeline` block does
    not make the name ambiguous (accepted, record points at function 0), one defined before it does -/
example :
    (parseFile overloadFuncs [] [] [] [.defn 0, .pipe ⟨"P0", [(.Compute, "cs_0")], none, false⟩, .defn 1]).toOption.map
      (·.map (·.stages)) = some [[⟨.Compute, 0, some (8, 4, 1)⟩]] ∧
    parseFile overloadFuncs [] [] [] [.defn 0, .defn 1, .pipe ⟨"P0", [(.Compute, "cs_0")], none, false⟩] =
      .error .PipelineEntryPointFunctionUnknown := ⟨by decide, rfl⟩

open RsslVerif.Model.MetaFront RsslVerif.Lemmas.MetaFront in
/-- the pipelines of an accepted file — `Pipeline` blocks anywhere between the functions — are its blocks in source
    order and have pairwise different names: selecting by name is unambiguous -/
theorem pipeline_names_distinct {funcs : List FnSrc} {items : List Item} {dc df : List Nat} {ds : List PipeDef}
    (h : parseFile funcs dc df [] items = .ok ds) :
    ds.map (·.name) = (itemPipes items).map (·.name) ∧ (ds.map (·.name)).Pairwise (· ≠ ·) := by
  rcases parseFile_names h with ⟨h1, h2⟩ | h3
  · exact ⟨h1, by simpa [h1] using h2⟩
  · exact absurd List.Pairwise.nil h3

/-! ## the names that are reported (discharging `NameKept`) -/

open RsslVerif.Model.MetaFront RsslVerif.Lemmas.MetaFront RsslVerif.Model in
/-- **Arbitrary names.** Whatever the source names are — reserved in the target language, overloaded, equal to
    another symbol's generated name — two different symbols (functions, globals, structs, namespaces) that the
    name map places in the same scope never receive the same name.  Since the HLSL stage record and every
    binding name are read from the same map the definitions are printed from, a reported entry point name denotes
    exactly one emitted function of its scope and a reported binding name exactly one emitted global of its
    scope. -/
theorem reported_name_denotes_one_symbol {reserved : List String} {src : NameSrc} {names : List Names.Named}
    (h : Names.build reserved src.input = .ok names)
    {k₁ k₂ : Names.Kind} {i j : Nat} {n₁ n₂ : String}
    (h₁ : leaf names k₁ i = .ok n₁) (h₂ : leaf names k₂ j = .ok n₂)
    (hk₁ : k₁ ≠ .localVar) (hk₂ : k₂ ≠ .localVar) (hne : (k₁, i) ≠ (k₂, j))
    (hscope : (Names.lookup names ⟨k₁, i⟩).map (·.scope) = (Names.lookup names ⟨k₂, j⟩).map (·.scope)) :
    n₁ ≠ n₂ := by
  obtain ⟨a, ha, rfl⟩ := leaf_ok h₁
  obtain ⟨b, hb, rfl⟩ := leaf_ok h₂
  obtain ⟨ham, has⟩ := lookup_mem ha
  obtain ⟨hbm, hbs⟩ := lookup_mem hb
  apply RsslVerif.Thm.C15.injective_per_scope h a ham b hbm
  · rw [has]; exact hk₁
  · rw [hbs]; exact hk₂
  · simpa [ha, hb] using hscope
  · rw [has, hbs]; intro e; apply hne; cases e; rfl

open RsslVerif.Model.MetaFront RsslVerif.Lemmas.MetaFront RsslVerif.Model in
/-- `entry_named_and_defined` for arbitrary names (HLSL): when the emitted function table takes its names from
    the name map — as the exporter does for the definitions it prints and for `entry_point_names` alike — the
    reported entry point is the emitted name of the stage's entry function and **no other** function the map
    places in the same scope is emitted under that name, whether the source name was reserved, overloaded or
    equal to another function's generated name. -/
theorem hlsl_entry_point_unambiguous {reserved : List String} {src : NameSrc} {names : List Names.Named}
    (h : Names.build reserved src.input = .ok names) {fdefs : List FuncDef}
    (hf : ∀ (i : Nat) (f : FuncDef), fdefs[i]? = some f → leaf names .func i = .ok f.emitted)
    {s : StageDef} {r : StageOut} (hr : reportStage false fdefs s = some r) :
    (∃ f, fdefs[s.entry]? = some f ∧ r.entryPoint = f.emitted) ∧
    ∀ (j : Nat) (g : FuncDef), fdefs[j]? = some g → j ≠ s.entry →
      (Names.lookup names ⟨.func, j⟩).map (·.scope) = (Names.lookup names ⟨.func, s.entry⟩).map (·.scope) →
      g.emitted ≠ r.entryPoint := by
  unfold reportStage at hr
  cases hfe : fdefs[s.entry]? with
  | none => simp [hfe] at hr
  | some f =>
    simp only [hfe, Option.some.injEq] at hr
    subst hr
    refine ⟨⟨f, rfl, by simp⟩, ?_⟩
    intro j g hg hj hscope
    simp only [Bool.false_eq_true, if_false]
    exact reported_name_denotes_one_symbol h (hf j g hg) (hf s.entry f hfe) (by decide) (by decide)
      (by intro e; apply hj; cases e; rfl) hscope

open RsslVerif.Model.MetaFront RsslVerif.Lemmas.MetaFront RsslVerif.Model in
/-- no reported name is a reserved word of the target language -/
theorem reported_name_not_reserved {reserved : List String} {src : NameSrc} {names : List Names.Named}
    (h : Names.build reserved src.input = .ok names) {k : Names.Kind} {i : Nat} {n : String}
    (hl : leaf names k i = .ok n) : n ∉ reserved := by
  obtain ⟨a, ha, rfl⟩ := leaf_ok hl
  exact RsslVerif.Thm.C15.never_reserved h a (lookup_mem ha).1

open RsslVerif.Model.MetaFront RsslVerif.Lemmas.MetaFront RsslVerif.Model in
/-- `NameKept` as a theorem: a function (or global) whose source name no other symbol of its scope carries and
    that is not reserved is printed and reported under exactly that name, so for such entry points the reported
    name is the name written in the `Pipeline` block. -/
theorem name_kept_when_unique_and_free {reserved : List String} {src : NameSrc} {names : List Names.Named}
    (h : Names.build reserved src.input = .ok names) {sc : Option Nat} (hsc : sc ∈ Names.scopeIds src.input)
    {n : String} {sym : Names.Sym}
    (hmem : (n, sym) ∈ Names.scopeSyms src.input sc)
    (huniq : ((Names.scopeSyms src.input sc).filter (fun p => p.1 == n)).map (·.2) = [sym])
    (hres : n ∉ reserved) : (⟨sym, sc, n⟩ : Names.Named) ∈ names :=
  RsslVerif.Thm.C15.verbatim h hsc hmem huniq hres

/-- HLSL prints and reports a cbuffer block under its *source* name (`get_constant_buffer_name` reads the
    registry, not the name map).  Negation witness of "every reported name denotes one declaration" on the current
    tables: `Texture2D<float4> float16_t; cbuffer float16_t_0 { .. }` — the global's name is reserved in HLSL and
    becomes `float16_t_0`, the cbuffer keeps `float16_t_0`, and the metadata holds two entries of that name
    (replayed on the real compiler by the corpus). -/
theorem hlsl_cbuffer_bypasses_name_map_witness :
    (RsslVerif.Model.Names.build hlslReserved
        (RsslVerif.Model.MetaFront.NameSrc.input { nss := [], structs := [], globals := [(none, "float16_t")], funcs := [] })).toOption.bind
      (fun names => (RsslVerif.Model.MetaFront.leaf names .global 0).toOption) = some "float16_t_0" ∧
    (hlslMeta (paramsFor .HlslForDirectX false) 0
        [.global "float16_t_0" none false (some .Texture2D) .no false .extern, .cbuffer "float16_t_0" none]).toOption.map
      (·.map fun g => g.bindings.map (·.name)) = some [["float16_t_0", "float16_t_0"]] := by
  constructor
  · decide +kernel
  · decide +kernel

/-- Bindings are reported under their leaf name.  Negation witness: `Texture2D<float4> g_t;
    namespace NS1 { Texture2D<float4> g_t; }` — the two globals live in different scopes, both keep `g_t`, and
    the metadata (and on Metal the argument buffer) holds two entries of that name. -/
theorem same_leaf_name_in_two_namespaces_witness :
    (RsslVerif.Model.Names.build mslReserved
        (RsslVerif.Model.MetaFront.NameSrc.input
          { nss := [(none, "NS1")], structs := [], globals := [(none, "g_t"), (some 0, "g_t")], funcs := [] })).toOption.map
      (fun names => ((RsslVerif.Model.MetaFront.leaf names .global 0).toOption,
                     (RsslVerif.Model.MetaFront.leaf names .global 1).toOption)) =
      some (some "g_t", some "g_t") := by
  decide +kernel

/-! Non-vacuity: a block with reversed stage properties is accepted and recorded in property order; overloads
    `a`, `a` next to an entry point `a_0` (the former defect) get three different names (the entry point keeps `a_0`:
    names that can be kept are claimed first); a compute stage next to
    another stage and a second pipeline of the same name are refused. -/
open RsslVerif.Model.MetaFront in
example : (parsePipeline [⟨"h", [], true, false, true⟩, ⟨"vs", [], true, false, true⟩, ⟨"ps", [(4, 2, 1)], true, false, true⟩] ["P0"]
      ⟨"P1", [(.Pixel, "ps"), (.Vertex, "vs")], some 2, true⟩).toOption =
    some ⟨"P1", 2, [⟨.Pixel, 2, some (4, 2, 1)⟩, ⟨.Vertex, 1, none⟩], true⟩ := by decide

open RsslVerif.Model.MetaFront in
example : (parsePipeline [⟨"cs", [(8, 4, 1)], true, false, true⟩, ⟨"ps", [], true, false, true⟩] []
      ⟨"P0", [(.Compute, "cs"), (.Pixel, "ps")], none, false⟩).toOption = none ∧
    (parsePipeline [⟨"cs", [(8, 4, 1)], true, false, true⟩] ["P0"] ⟨"P0", [(.Compute, "cs")], none, false⟩).toOption = none ∧
    (parsePipeline [⟨"cs", [(8, 4, 1)], true, false, true⟩, ⟨"cs", [], true, false, true⟩] [] ⟨"P0", [(.Compute, "cs")], none, false⟩).toOption = none := by
  decide

example : (RsslVerif.Model.Names.build hlslReserved
      (RsslVerif.Model.MetaFront.NameSrc.input { nss := [], structs := [], globals := [], funcs := [(none, "a"), (none, "a"), (none, "a_0")] })).toOption.map
      (fun names => [0, 1, 2].map fun i => (RsslVerif.Model.MetaFront.leaf names .func i).toOption) =
    some [some "a_1", some "a_2", some "a_0"] := by decide +kernel

/-! Non-vacuity of the hypotheses above. -/
example : hlslAnnot (paramsFor .HlslForVulkan true) (.global "g" (some 1) false (some .Texture2D) (.sized 3) false .extern)
      (some ⟨1, .index 4, none⟩) = .ok (some (.vk 4 1)) ∧
    hlslEvent (.global "g" (some 1) false (some .Texture2D) (.sized 3) false .extern) (some ⟨1, .index 4, none⟩) =
      .ok (some (1, ⟨"g", .index 4, .Texture2d, some 3, false, true, false⟩)) := ⟨rfl, rfl⟩

example : String.ofList (Annot.print (.reg .T 3 1)).2 = " : register(t3, space1)" ∧
    String.ofList (Annot.print (.vk 3 0)).2 = "[[vk::binding(3)]]" ∧
    (Annot.print (.offset 8 2)).1 = "InlineDescriptor2".toList := by decide

/-! Non-vacuity: a mixed module goes through both exporters' metadata builders, and the usage loop
    terminates on a small call graph. -/
def exampleDecls : List MDecl :=
  [ .other, .cbuffer "g_cb" none, .global "g_t" (some 1) false (some .Texture2D) (.sized 3) false .extern,
    .global "s_value" none false none .no false .static,
    .global "g_ss" none true (some .SamplerState) .no false .extern,
    .global "g_ba" none false (some .BufferAddress) .no false .extern,
    .global "g_bab" none false (some .ByteAddressBuffer) (.sized 2) true .extern ]

example : ((hlslMeta (paramsFor .HlslForVulkan true) 0 exampleDecls).toOption.map
      (·.map fun g => (g.bindings.map (·.name), g.inlineConstants))) =
    some [(["g_cb", "g_ss", "g_ba", "g_bab"], some (4, 8)), (["g_t"], none)] := by decide

example : ((mslMeta (paramsFor .Msl false) 0 (fun i => i == 2) exampleDecls).toOption.map
      (·.map fun g => g.bindings.map fun e => (e.name, e.loc, e.used))) =
    some [[("g_cb", .index 0, false), ("g_ba", .index 1, false), ("g_bab", .index 3, false)],
          [("g_t", .index 0, true)]] := by decide

example : boundNames (paramsFor .Msl false) 0 0 exampleDecls = ["g_cb", "g_ba", "g_bab"] := by decide

open RsslVerif.Model.MetaReach in
example : ((recurse 6 [.fn 0, .fn 1, .fn 2, .glob 7, .glob 9, .glob 3]
      (fun k => if k = .fn 0 then [.fn 1] else if k = .fn 1 then [.glob 7, .fn 2] else if k = .fn 2 then [.glob 9]
                else if k = .glob 9 then [.glob 3] else [])).map
      fun req => (usedBy req [0] 9, usedBy req [0] 3, usedBy req [2] 7)) = some (true, true, false) := by decide

end RsslVerif.Thm.C05

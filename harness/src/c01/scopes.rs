//! C block scoping for the re-parsed emitted text (scalar stream).
//!
//! `AstEval` keeps one flat frame per function (names unique per function).  This pass gives the re-parsed functions
//! exactly that form *by the scoping rules of C / HLSL*: every declaration opens a new variable, an identifier denotes the
//! innermost declaration in scope, a name without a declaration in scope denotes the static global of that name.  A
//! declaration whose name was already declared in the function (shadowing, or a sibling block re-using a name) or is the
//! name of a global is renamed `name@k` (`@` cannot occur in an identifier), and the uses that refer to it follow; programs
//! whose names are unique come out unchanged.  What C rejects is an error here and an oracle failure for the caller:
//! two declarations of one name in one scope, an identifier that denotes nothing, a call whose callee name denotes a local.
//!
//! Scopes: parameters and the outermost block of the body share one scope (C++ [basic.scope.block]/2); every `{ }`, every
//! sub-statement of if / else / while / do / switch and every `for` (its init-declaration, condition, increment and the
//! outermost block of its body) is a scope; a `case` / `default` label does not open one.  A declarator's name is in scope
//! from the end of the declarator, i.e. **inside its own initialiser** (C / C++ [basic.scope.pdecl] / HLSL; rssl's front end
//! resolves the initialiser *before* the name exists, so an IR initialiser never reads its own variable): an emitted
//! initialiser that mentions the name being declared reads the uninitialised new variable instead of what the IR reads —
//! reported as a failure (seeded mutant C01-5: `int slot = v[slot];`).
use super::sx::*;
use std::collections::{HashMap, HashSet};

struct Res<'a> {
    globals: &'a HashSet<String>,
    scopes: Vec<HashMap<String, String>>,
    declared: HashSet<String>,
    counter: u32,
    func: String,
}

impl<'a> Res<'a> {
    fn lookup(&self, n: &str) -> Option<&String> {
        self.scopes.iter().rev().find_map(|s| s.get(n))
    }

    fn declare(&mut self, n: &str) -> Result<String, String> {
        if self.scopes.last().map(|s| s.contains_key(n)).unwrap_or(false) {
            return Err(format!("`{}` is declared twice in one scope of {}", n, self.func));
        }
        let unique = if self.declared.contains(n) || self.globals.contains(n) {
            self.counter += 1;
            format!("{}@{}", n, self.counter)
        } else {
            n.to_string()
        };
        self.declared.insert(n.to_string());
        self.scopes.last_mut().unwrap().insert(n.to_string(), unique.clone());
        Ok(unique)
    }

    fn expr(&self, e: &Sx) -> Result<Sx, String> {
        match e {
            Sx::A(_) => Ok(e.clone()),
            Sx::L(items) => match e.head() {
                "id" => {
                    let n = e.args().first().map(|x| x.atom()).unwrap_or("");
                    match self.lookup(n) {
                        Some(u) => Ok(node("id", vec![a(u)])),
                        None if self.globals.contains(n) => Ok(e.clone()),
                        None => Err(format!("`{}` denotes nothing where {} uses it", n, self.func)),
                    }
                }
                "call" => {
                    let n = e.args().first().map(|x| x.atom()).unwrap_or("");
                    if self.lookup(n).is_some() {
                        return Err(format!("the call of `{}` in {} names a local variable", n, self.func));
                    }
                    let mut v = vec![a(n)];
                    for x in &e.args()[1..] {
                        v.push(self.expr(x)?);
                    }
                    Ok(node("call", v))
                }
                _ => Ok(Sx::L(items.iter().map(|x| self.expr(x)).collect::<Result<Vec<_>, _>>()?)),
            },
        }
    }

    /// `(<type> (d name init?)...)`
    fn decls(&mut self, items: &[Sx]) -> Result<Vec<Sx>, String> {
        let mut v = vec![items[0].clone()];
        for d in &items[1..] {
            let n = d.args()[0].atom();
            let u = self.declare(n)?;
            let init = match d.args().get(1) {
                Some(x) => Some(self.expr(x)?),
                None => None,
            };
            if init.as_ref().map(|i| mentions(i, &u)).unwrap_or(false) {
                return Err(format!("the initialiser of `{}` in {} mentions `{}`: in C / HLSL that is the variable being declared (uninitialised)", n, self.func, n));
            }
            let mut it = vec![a(&u)];
            it.extend(init);
            v.push(node("d", it));
        }
        Ok(v)
    }

    fn scoped(&mut self, s: &Sx) -> Result<Sx, String> {
        self.scopes.push(HashMap::new());
        let r = if s.head() == "block" { self.block_items(s.args()).map(|v| node("block", v)) } else { self.stmt(s) };
        self.scopes.pop();
        r
    }

    fn block_items(&mut self, items: &[Sx]) -> Result<Vec<Sx>, String> {
        items.iter().map(|x| self.stmt(x)).collect()
    }

    fn opt(&self, e: &Sx) -> Result<Sx, String> {
        if e.head() == "none" { Ok(e.clone()) } else { self.expr(e) }
    }

    fn for_inner(&mut self, x: &[Sx]) -> Result<Sx, String> {
        let init = match x[0].head() {
            "e" => node("e", vec![self.expr(&x[0].args()[0])?]),
            "decl" => node("decl", self.decls(x[0].args())?),
            _ => x[0].clone(),
        };
        let c = self.opt(&x[1])?;
        let n = self.opt(&x[2])?;
        // the outermost block of the body belongs to the scope of the init-declaration (C++ [stmt.iter]; rssl agrees)
        let body = if x[3].head() == "block" { node("block", self.block_items(x[3].args())?) } else { self.scoped(&x[3])? };
        Ok(node("for", vec![init, c, n, body]))
    }

    fn stmt(&mut self, s: &Sx) -> Result<Sx, String> {
        let x = s.args();
        Ok(match s.head() {
            "expr" => node("expr", vec![self.expr(&x[0])?]),
            "var" => node("var", self.decls(x)?),
            "block" => self.scoped(s)?,
            "if" => node("if", vec![self.expr(&x[0])?, self.scoped(&x[1])?]),
            "ifelse" => node("ifelse", vec![self.expr(&x[0])?, self.scoped(&x[1])?, self.scoped(&x[2])?]),
            "while" => node("while", vec![self.expr(&x[0])?, self.scoped(&x[1])?]),
            "dowhile" => node("dowhile", vec![self.scoped(&x[0])?, self.expr(&x[1])?]),
            "switch" => node("switch", vec![self.expr(&x[0])?, self.scoped(&x[1])?]),
            "for" => {
                self.scopes.push(HashMap::new());
                let r = self.for_inner(x);
                self.scopes.pop();
                r?
            }
            "ret" => node("ret", x.iter().map(|e| self.expr(e)).collect::<Result<Vec<_>, _>>()?),
            "case" => node("case", vec![self.expr(&x[0])?, self.stmt(&x[1])?]),
            "default" => node("default", vec![self.stmt(&x[0])?]),
            _ => s.clone(),
        })
    }
}

/// does the (resolved) expression read or write the variable `u`?
fn mentions(e: &Sx, u: &str) -> bool {
    match e {
        Sx::A(_) => false,
        Sx::L(items) => (e.head() == "id" && e.args().first().map(|x| x.atom() == u).unwrap_or(false)) || items.iter().any(|x| mentions(x, u)),
    }
}

/// the items of `ast_module` with every function alpha-renamed by C's scoping rules
pub fn resolve_module(items: &[Sx]) -> Result<Vec<Sx>, String> {
    let globals: HashSet<String> = items.iter().filter(|i| i.head() == "global").map(|i| i.args()[0].atom().to_string()).collect();
    let mut out = Vec::new();
    for it in items {
        if it.head() != "fn" || it.args().len() != 4 {
            out.push(it.clone());
            continue;
        }
        let x = it.args();
        let mut r = Res { globals: &globals, scopes: vec![HashMap::new()], declared: HashSet::new(), counter: 0, func: x[0].atom().to_string() };
        let mut ps = Vec::new();
        for p in x[2].args() {
            if p.head() != "p" {
                ps.push(p.clone());
                continue;
            }
            let u = r.declare(p.args()[0].atom())?;
            ps.push(node("p", vec![a(&u), p.args()[1].clone(), p.args()[2].clone()]));
        }
        // the outermost block of the body is the parameters' scope
        let body = if x[3].head() == "block" { node("block", r.block_items(x[3].args())?) } else { x[3].clone() };
        out.push(node("fn", vec![x[0].clone(), x[1].clone(), node("params", ps), body]));
    }
    Ok(out)
}

/// did any declaration have to be renamed (shadowing, a name re-used by a sibling block, a local called like a global)?
pub fn renamed_any(items: &[Sx]) -> bool {
    items.iter().any(|i| i.show().contains('@'))
}

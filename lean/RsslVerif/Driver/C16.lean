import RsslVerif.Model.OverloadT
import RsslVerif.Driver.Util
/-! Line-protocol front end of the C16 model (`C16.resolve`, `C16.conv`); formats are described in
`harness/src/c16.rs`. -/
namespace RsslVerif.Driver.C16
open RsslVerif.Gen.RankTable RsslVerif.Model.Conv RsslVerif.Model.Overload RsslVerif.Driver

def modLetters : List (Char × (Modifier → Modifier)) :=
  [('c', fun m => { m with isConst := true }), ('v', fun m => { m with volatile := true }),
   ('r', fun m => { m with rest := m.rest ||| 1 }), ('k', fun m => { m with rest := m.rest ||| 2 }),
   ('u', fun m => { m with rest := m.rest ||| 4 }), ('n', fun m => { m with rest := m.rest ||| 8 })]

def parseMods (s : String) : Option Modifier :=
  if s == "-" then some {} else
  s.toList.foldl (fun acc c => acc.bind fun m => (modLetters.lookup c).map (· m)) (some {})

def showMods (m : Modifier) : String :=
  let s := (if m.isConst then "c" else "") ++ (if m.volatile then "v" else "") ++
    (if m.rest &&& 1 != 0 then "r" else "") ++ (if m.rest &&& 2 != 0 then "k" else "") ++
    (if m.rest &&& 4 != 0 then "u" else "") ++ (if m.rest &&& 8 != 0 then "n" else "")
  if s.isEmpty then "-" else s

def parseLayer (s : String) : Option Layer :=
  match s.splitOn "." with
  | ["s", sc] => (Scalar.ofName? sc).map .scalar
  | ["v", sc, n] => do pure (.vector (← Scalar.ofName? sc) (← n.toNat?))
  | ["m", sc, x, y] => do pure (.matrix (← Scalar.ofName? sc) (← x.toNat?) (← y.toNat?))
  | ["e", i] => i.toNat?.map .enum
  | ["o", i] => i.toNat?.map .other
  | _ => none

def showLayer : Layer → String
  | .scalar s => "s." ++ s.name
  | .vector s n => "v." ++ s.name ++ "." ++ toString n
  | .matrix s x y => "m." ++ s.name ++ "." ++ toString x ++ "." ++ toString y
  | .enum i => "e." ++ toString i
  | .other i => "o." ++ toString i

def parseETy (s : String) : Option ETy :=
  match s.splitOn "/" with
  | [vt, m, l] => do
    let vt ← match vt with | "L" => some VT.lvalue | "R" => some VT.rvalue | _ => none
    pure ⟨⟨← parseMods m, ← parseLayer l⟩, vt⟩
  | _ => none

def showETy (e : ETy) : String :=
  (match e.vt with | .lvalue => "L" | .rvalue => "R") ++ "/" ++ showMods e.ty.mod ++ "/" ++ showLayer e.ty.layer

def parseParam (s : String) : Option Param :=
  match s.splitOn "/" with
  | [io, m, l] => do
    let io ← match io with
      | "in" => some InputModifier.in | "out" => some .out | "inout" => some .inOut | _ => none
    pure ⟨⟨← parseMods m, ← parseLayer l⟩, io⟩
  | _ => none

def parseCand (s : String) : Option Cand :=
  match s.splitOn ":" with
  | [id, nd, ps] => do
    let ps ← sequenceOpt ((if ps.isEmpty then [] else ps.splitOn ",").map parseParam)
    pure ⟨← id.toNat?, ps, ← nd.toNat?⟩
  | _ => none

def showOutcome : Outcome → String
  | .selected id => "sel " ++ toString id
  | .ambiguous ids => "amb " ++ ",".intercalate (ids.map toString)
  | .unmatched => "none"
  | .panic => "panic"

def convCell (src dst : ETy) : String :=
  match find src dst with
  | .error _ => "panic"
  | .ok none => "err"
  | .ok (some c) =>
    (match getRank c with
     | .error _ => "panic/panic"
     | .ok r => r.num.name ++ "/" ++ r.vec.name) ++ ">" ++
    (match targetType c with
     | .error _ => "panic"
     | .ok t => showETy t)

def parsePTy (m l : String) : Option PTy :=
  match l.splitOn "." with
  | ["t", k] => if m == "-" then k.toNat?.map .tvar else none
  | ["vt", k, n] => if m == "-" then do pure (.tvec (← k.toNat?) (← n.toNat?)) else none
  | ["mt", k, x, y] => if m == "-" then do pure (.tmat (← k.toNat?) (← x.toNat?) (← y.toNat?)) else none
  | ["at", k, n] => if m == "-" then do pure (.tarr (← k.toNat?) (← n.toNat?)) else none
  | _ => do pure (.conc ⟨← parseMods m, ← parseLayer l⟩)

def parseTParam (s : String) : Option TParam :=
  match s.splitOn "/" with
  | [io, m, l] => do
    let io ← match io with
      | "in" => some InputModifier.in | "out" => some .out | "inout" => some .inOut | _ => none
    pure ⟨← parsePTy m l, io⟩
  | _ => none

def parseKinds (s : String) : Option (List TKind) :=
  match s.toList with
  | 't' :: ks => sequenceOpt (ks.map fun c => if c == 'T' then some TKind.type else if c == 'V' then some .value else none)
  | _ => none

/-- `<id>:<non_default>:<param>,..[:t<kinds>]` -/
def parseTCand (s : String) : Option TCand :=
  match s.splitOn ":" with
  | [id, nd, ps] => do
    let ps ← sequenceOpt ((if ps.isEmpty then [] else ps.splitOn ",").map parseTParam)
    pure ⟨← id.toNat?, [], ps, ← nd.toNat?⟩
  | [id, nd, ps, ks] => do
    let ps ← sequenceOpt ((if ps.isEmpty then [] else ps.splitOn ",").map parseTParam)
    pure ⟨← id.toNat?, ← parseKinds ks, ps, ← nd.toNat?⟩
  | _ => none

def parseTArg (s : String) : Option TArg :=
  if s == "#" then some .const else
  match s.splitOn "/" with
  | [m, l] => do pure (.type ⟨← parseMods m, ← parseLayer l⟩)
  | _ => none

def showTArg : TArg → String
  | .const => "#"
  | .type t => showMods t.mod ++ "/" ++ showLayer t.layer

/-- options field: comma separated; `X=<targ>+<targ>..` are the explicit template arguments of the call, everything
    else (`D`, `P=<call path>`) changes how the candidates are declared, not which candidates there are -/
def parseExplicit (opts : String) : Option (List TArg) :=
  match (opts.splitOn ",").filter (·.startsWith "X=") with
  | [] => some []
  | [x] => sequenceOpt (((x.drop 2).toString.splitOn "+").map parseTArg)
  | _ => none

def TCand.toCand? (c : TCand) : Option Cand :=
  if c.tkinds.isEmpty then
    (sequenceOpt (c.params.map fun p => match p.pat with | .conc t => some (⟨t, p.io⟩ : Param) | _ => none)).map
      fun ps => ⟨c.id, ps, c.nonDefault⟩
  else none

def showSelected (cands : List TCand) (explicit : List TArg) (a : List ETy) (id : Nat) : String :=
  match cands.find? (·.id == id) with
  | some c =>
    if c.tkinds.isEmpty then "sel " ++ toString id
    else match c.targs explicit a with
      | some targs => "sel " ++ toString id ++ "<" ++ "+".intercalate (targs.map showTArg) ++ ">"
      | none => "model-internal-mismatch"
  | none => "model-internal-mismatch"

def handleResolve (cs az opts : String) : String :=
  match sequenceOpt ((if cs.isEmpty then [] else cs.splitOn ";").map parseTCand),
        sequenceOpt ((if az.isEmpty then [] else az.splitOn ",").map parseETy),
        parseExplicit opts with
  | some cands, some a, some explicit =>
    -- the literal transcription answers; the form the theorems are about must agree (Thm.C16.resolveGLazy_eq_resolveG)
    -- outside the protocol's type language (an array of a non-scalar)
    let unsupported := cands.any fun c =>
      a.length ≤ c.params.length && c.nonDefault ≤ a.length &&
        (match c.inst explicit a with | .error e => e.startsWith "unsupported" | _ => false)
    if unsupported then "unsupported: array of a non-scalar" else
    let o := resolveTLazy cands explicit a
    if o != resolveT cands explicit a then "model-internal-mismatch" else
    -- without templates this is the model of the first round (Thm.C16.resolveG_of_plain)
    let plainOk := match sequenceOpt (cands.map TCand.toCand?) with
      | some plain => explicit != [] || (resolveLazy plain a == o && resolve plain a == o)
      | none => true
    if !plainOk then "model-internal-mismatch" else
    -- `write_function` / `write_method`: the casts are applied and the output arguments of the selected overload checked
    match (finishCall cands explicit a o).normalize with
    | .accepted id => showSelected cands explicit a id
    | .refused .lvalueRequired => "lvreq"
    | .refused .mutableRequired => "mutreq"
    | .ambiguous ids => showOutcome (.ambiguous ids)
    | .unmatched => showOutcome .unmatched
    -- a selected id without viable casts contradicts `Thm.C16.selectedG_is_viable`
    | .panic => if o == .panic then showOutcome .panic else "model-internal-mismatch"
  | _, _, _ => "bad-request"

def handle (op : String) (args : List String) : String :=
  match op, args with
  | "C16.resolve", [cs, az, opts] => handleResolve cs az opts
  | "C16.resolve", [cs, az] => handleResolve cs az ""
  | "C16.conv", [src, dsts] =>
    match parseETy src, sequenceOpt ((dsts.splitOn " ").map parseETy) with
    | some s, some ds => " ".intercalate (ds.map (convCell s))
    | _, _ => "bad-request"
  | _, _ => "unsupported-op"

end RsslVerif.Driver.C16

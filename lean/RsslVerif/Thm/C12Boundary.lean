import RsslVerif.Thm.C12
import RsslVerif.Lemmas.MacroEval
/-!
# C12 — where rssl's macro expansion is *not* the C algorithm: one machine-checked witness per deviation class

`expand_refines_spec` (Thm/C12.lean) proves `model = reference` on the tame class.  Each theorem here takes the
smallest input of one deviation class (the same inputs are replayed on the real preprocessor by corpus/C12.txt and are
listed in known_findings.jsonl), evaluates the model (`applyLoopF_sound`) and the reference on it, and concludes
* `¬ Agree`: there is no fuel for which the reference yields the model's tokens, and
* the input has no tame derivation (for the classes without `##`): the side conditions of `Tame` do exclude it.
So the boundary of the class is checked from both sides.
-/
namespace RsslVerif.Thm.C12
open RsslVerif.Model.Macro RsslVerif.Spec.CPreMacro RsslVerif.Lemmas.MacroEval RsslVerif.Lemmas.SpecExpand
open RsslVerif.Lemmas.MacroTame RsslVerif.Lemmas.MacroTameSpec RsslVerif.Lemmas.MacroTameRun
open RsslVerif.Model.MacroTame RsslVerif.Lemmas.MacroTameP RsslVerif.Lemmas.MacroTamePSpec RsslVerif.Lemmas.MacroHang

/-- located tokens -/
abbrev loc (ks : List Tok) : List PTok := ks.map (⟨·, true⟩)

/-- rssl and the reference C algorithm agree on `toks`: both succeed, with the same tokens (white space aside) -/
def Agree (defs : List Macro) (toks : List PTok) : Prop :=
  ∃ out fuel r, applyMacros defs toks = .ok out ∧
    expand (defs.map ofMacro) fuel (plain (ppTokens toks)) = .ok r ∧ r.map (·.tok) = ppTokens out

theorem model_eval (n : Nat) (defs : List Macro) (toks : List PTok) (r : Except Err (List PTok))
    (h : applyLoopF n (allEnabled defs) toks SearchPos.start = some r) : applyMacros defs toks = r :=
  applyLoopF_sound n _ _ _ _ h

theorem not_agree (defs : List Macro) (toks : List PTok) (mr : Except Err (List PTok)) (f0 : Nat) (r0 : List HTok)
    (hm : applyMacros defs toks = mr) (hs : expand (defs.map ofMacro) f0 (plain (ppTokens toks)) = .ok r0)
    (hne : ∀ out, mr = .ok out → r0.map (·.tok) ≠ ppTokens out) : ¬ Agree defs toks := by
  rintro ⟨out, fuel, r, h1, h2, h3⟩
  rw [hm] at h1
  have := expand_det _ _ _ _ _ _ hs h2
  subst this
  exact hne out h1 h3

/-- an input on which the two differ has no tame derivation -/
theorem not_tame_of_not_agree (defs : List Macro) (toks : List PTok) (hwf : ∀ m ∈ defs, WFMacro m)
    (h : ¬ Agree defs toks) : ¬ ∃ out, Tame (allEnabled defs) toks out := by
  rintro ⟨out, hT⟩
  obtain ⟨h1, fuel, r, h2, h3⟩ := expand_refines_spec defs toks out hwf hT
  exact h ⟨out, fuel, r, h1, h2, h3⟩

/-- the reference's tokens -/
def refToks (defs : List Macro) (fuel : Nat) (toks : List PTok) : Except SErr (List Tok) :=
  (expand (defs.map ofMacro) fuel (plain (ppTokens toks))).map (·.map (·.tok))

theorem refToks_ok {defs : List Macro} {fuel : Nat} {toks : List PTok} {ks : List Tok}
    (h : refToks defs fuel toks = .ok ks) :
    ∃ r0, expand (defs.map ofMacro) fuel (plain (ppTokens toks)) = .ok r0 ∧ r0.map (·.tok) = ks := by
  unfold refToks at h
  cases hr : expand (defs.map ofMacro) fuel (plain (ppTokens toks)) with
  | error e => simp [hr, Except.map] at h
  | ok r0 =>
    simp only [hr, Except.map, Except.ok.injEq] at h
    exact ⟨r0, rfl, h⟩

/-- the common shape of the witnesses: model result `mr`, reference tokens `ks`, and they differ -/
theorem differs_of_eval (defs : List Macro) (toks : List PTok) (n fuel : Nat) (mr : Except Err (List PTok))
    (ks : List Tok) (hm : applyLoopF n (allEnabled defs) toks SearchPos.start = some mr)
    (hs : refToks defs fuel toks = .ok ks) (hne : ∀ out, mr = .ok out → ks ≠ ppTokens out) :
    applyMacros defs toks = mr ∧ refToks defs fuel toks = .ok ks ∧ ¬ Agree defs toks := by
  obtain ⟨r0, h1, h2⟩ := refToks_ok hs
  refine ⟨model_eval n defs toks mr hm, hs, ?_⟩
  apply not_agree defs toks mr fuel r0 (model_eval n defs toks mr hm) h1
  intro out ho
  rw [h2]
  exact hne out ho

/-! ## the witnesses -/

/-- **unused-argument-expanded.** `#define K(X) 3`, `#define G(X) X`; `K(G(1,2))`.  rssl expands the argument although
the parameter does not occur in the replacement list and reports the wrong number of arguments for `G`; C: `3`. -/
theorem differs_unused_argument_expanded :
    let defs : List Macro := [⟨"K", true, 1, loc [.int "3"]⟩, ⟨"G", true, 1, loc [.arg 0]⟩]
    let toks := loc [.id "K", .lparen, .id "G", .lparen, .int "1", .comma, .int "2", .rparen, .rparen]
    applyMacros defs toks = .error .macroExpectsDifferentNumberOfArguments ∧
      refToks defs 10 toks = .ok [.int "3"] ∧ ¬ Agree defs toks ∧ ¬ ∃ out, Tame (allEnabled defs) toks out := by
  intro defs toks
  have h := differs_of_eval defs toks 10 10 (.error .macroExpectsDifferentNumberOfArguments) [.int "3"] (by decide)
    (by decide +kernel) (by intro out ho; cases ho)
  exact ⟨h.1, h.2.1, h.2.2, not_tame_of_not_agree defs toks
    (fun m hm => wfMacro_of_wfB m (by revert m; decide)) h.2.2⟩

/-- **argument-repainted.** `#define B B 0`, `#define ID(X) X`; `ID(B)`.  rssl: `B 0 0` (the `B` that came out of the
expanded argument is expanded again when the replacement list is rescanned); C: `B 0`. -/
theorem differs_argument_repainted :
    let defs : List Macro := [⟨"B", false, 0, loc [.id "B", .ws, .int "0"]⟩, ⟨"ID", true, 1, loc [.arg 0]⟩]
    let toks := loc [.id "ID", .lparen, .id "B", .rparen]
    applyMacros defs toks = .ok (loc [.id "B", .ws, .int "0", .ws, .int "0"]) ∧
      refToks defs 10 toks = .ok [.id "B", .int "0"] ∧ ¬ Agree defs toks ∧
      ¬ ∃ out, Tame (allEnabled defs) toks out := by
  intro defs toks
  have h := differs_of_eval defs toks 12 10 (.ok (loc [.id "B", .ws, .int "0", .ws, .int "0"])) [.id "B", .int "0"]
    (by decide) (by decide +kernel) (by intro out ho; cases ho; decide)
  exact ⟨h.1, h.2.1, h.2.2, not_tame_of_not_agree defs toks
    (fun m hm => wfMacro_of_wfB m (by revert m; decide)) h.2.2⟩

/-- **argument-list-ends-behind-replacement-list.** `#define F(X) X +`, `#define G F(1`; `G) 2`.  rssl rescans the
replacement list of `G` on its own, finds `F (` and no end of the argument list: `MacroArgumentsNeverEnd`; C rescans the
replacement list together with the rest of the source, reads `F(1)` across its end and gives `1 + 2`.  (`Tame` has no
derivation: `readArgs` fails inside the replacement list, and `F` cannot be kept in front of `(`.) -/
theorem differs_argument_list_ends_behind_replacement_list :
    let defs : List Macro := [⟨"F", true, 1, loc [.arg 0, .ws, .punct "+"]⟩,
      ⟨"G", false, 0, loc [.id "F", .lparen, .int "1"]⟩]
    let toks := loc [.id "G", .rparen, .ws, .int "2"]
    applyMacros defs toks = .error .macroArgumentsNeverEnd ∧
      refToks defs 10 toks = .ok [.int "1", .punct "+", .int "2"] ∧ ¬ Agree defs toks ∧
      ¬ ∃ out, Tame (allEnabled defs) toks out := by
  intro defs toks
  have h := differs_of_eval defs toks 10 10 (.error .macroArgumentsNeverEnd) [.int "1", .punct "+", .int "2"] (by decide)
    (by decide +kernel) (by intro out ho; cases ho)
  exact ⟨h.1, h.2.1, h.2.2, not_tame_of_not_agree defs toks
    (fun m hm => wfMacro_of_wfB m (by revert m; decide)) h.2.2⟩

/-- **painted-function-name-reinvoked.** `#define A B(A)`, `#define B(X) X B`; `A(1)`.  rssl: `A 1 B` (the `B` at the
end of `A`'s expansion came out of `B` itself, but only the macro applied last is remembered); C: `A B ( 1 )`. -/
theorem differs_painted_function_name_reinvoked :
    let defs : List Macro := [⟨"A", false, 0, loc [.id "B", .lparen, .id "A", .rparen]⟩,
      ⟨"B", true, 1, loc [.arg 0, .ws, .id "B"]⟩]
    let toks := loc [.id "A", .lparen, .int "1", .rparen]
    applyMacros defs toks = .ok (loc [.id "A", .ws, .int "1", .ws, .id "B"]) ∧
      refToks defs 12 toks = .ok [.id "A", .id "B", .lparen, .int "1", .rparen] ∧ ¬ Agree defs toks ∧
      ¬ ∃ out, Tame (allEnabled defs) toks out := by
  intro defs toks
  have h := differs_of_eval defs toks 12 12 (.ok (loc [.id "A", .ws, .int "1", .ws, .id "B"]))
    [.id "A", .id "B", .lparen, .int "1", .rparen] (by decide) (by decide +kernel)
    (by intro out ho; cases ho; decide)
  exact ⟨h.1, h.2.1, h.2.2, not_tame_of_not_agree defs toks
    (fun m hm => wfMacro_of_wfB m (by revert m; decide)) h.2.2⟩

/-- the same class with an acyclic table: `#define F(X) X`, `#define H(X) F(X)`; `H(F)(1)`.  rssl: `1`; C: `F ( 1 )`
(the `F` that came in through the argument is painted by the inner expansion of `F`). -/
theorem differs_painted_function_name_reinvoked_acyclic :
    let defs : List Macro := [⟨"F", true, 1, loc [.arg 0]⟩, ⟨"H", true, 1, loc [.id "F", .lparen, .arg 0, .rparen]⟩]
    let toks := loc [.id "H", .lparen, .id "F", .rparen, .lparen, .int "1", .rparen]
    applyMacros defs toks = .ok (loc [.int "1"]) ∧
      refToks defs 12 toks = .ok [.id "F", .lparen, .int "1", .rparen] ∧ ¬ Agree defs toks ∧
      ¬ ∃ out, Tame (allEnabled defs) toks out := by
  intro defs toks
  have h := differs_of_eval defs toks 12 12 (.ok (loc [.int "1"])) [.id "F", .lparen, .int "1", .rparen]
    (by decide) (by decide +kernel) (by intro out ho; cases ho; decide)
  exact ⟨h.1, h.2.1, h.2.2, not_tame_of_not_agree defs toks
    (fun m hm => wfMacro_of_wfB m (by revert m; decide)) h.2.2⟩

/-- **function-name-before-vanished-macro-invoked** (found by this proof: the `NoFire` side condition could not be
weakened to "the name was looked at with nothing after it").  `#define E`, `#define F(X) X`, `#define A F E`; `A(1)`.
rssl: `1` (when `A`'s expansion `F ` is complete, `early_function_pos` lets `F` meet the `(` that follows); C: `F ( 1 )`
(`F` was followed by `E`, not by `(`, when it was looked at; `E` then expands to nothing). -/
theorem differs_function_name_before_vanished_macro :
    let defs : List Macro := [⟨"E", false, 0, []⟩, ⟨"F", true, 1, loc [.arg 0]⟩,
      ⟨"A", false, 0, loc [.id "F", .ws, .id "E"]⟩]
    let toks := loc [.id "A", .lparen, .int "1", .rparen]
    applyMacros defs toks = .ok (loc [.int "1"]) ∧
      refToks defs 12 toks = .ok [.id "F", .lparen, .int "1", .rparen] ∧ ¬ Agree defs toks ∧
      ¬ ∃ out, Tame (allEnabled defs) toks out := by
  intro defs toks
  have h := differs_of_eval defs toks 12 12 (.ok (loc [.int "1"])) [.id "F", .lparen, .int "1", .rparen]
    (by decide) (by decide +kernel) (by intro out ho; cases ho; decide)
  exact ⟨h.1, h.2.1, h.2.2, not_tame_of_not_agree defs toks
    (fun m hm => wfMacro_of_wfB m (by revert m; decide)) h.2.2⟩

/-- **empty-argument-next-to-paste.** `#define F(X) P ## X Q`; `F()`.  rssl: `PQ` (no placemarker: `##` pastes the
tokens that happen to be adjacent); C: `P Q`. -/
theorem differs_empty_argument_next_to_paste :
    let defs : List Macro := [⟨"F", true, 1, loc [.id "P", .ws, .concat, .ws, .arg 0, .ws, .id "Q"]⟩]
    let toks := loc [.id "F", .lparen, .rparen]
    applyMacros defs toks = .ok (loc [.id "PQ"]) ∧ refToks defs 12 toks = .ok [.id "P", .id "Q"] ∧
      ¬ Agree defs toks := by
  intro defs toks
  exact differs_of_eval defs toks 12 12 (.ok (loc [.id "PQ"])) [.id "P", .id "Q"] (by decide) (by decide +kernel)
    (by intro out ho; cases ho; decide)



/-- an input on which the two differ has no tame derivation with `##` either -/
theorem not_tameP_of_not_agree (defs : List Macro) (toks : List PTok) (hwf : ∀ m ∈ defs, WFMacroP m)
    (hnc : NoConcat toks) (h : ¬ Agree defs toks) : ¬ ∃ out, TameP (allEnabled defs) toks out := by
  rintro ⟨out, hT⟩
  obtain ⟨h1, fuel, r, h2, h3⟩ := expand_refines_spec_with_paste defs toks out hwf hnc hT
  exact h ⟨out, fuel, r, h1, h2, h3⟩

/-- **The six witnesses lie outside the class with `##` as well** (`TameP`, the class of
`expand_refines_spec_with_paste`) -- in particular `F()` for `#define F(X) P ## X Q`: an empty argument next to
`##`. -/
theorem differs_outside_class_with_paste :
    (¬ ∃ out, TameP (allEnabled [⟨"K", true, 1, loc [.int "3"]⟩, ⟨"G", true, 1, loc [.arg 0]⟩])
      (loc [.id "K", .lparen, .id "G", .lparen, .int "1", .comma, .int "2", .rparen, .rparen]) out) ∧
    (¬ ∃ out, TameP (allEnabled [⟨"B", false, 0, loc [.id "B", .ws, .int "0"]⟩, ⟨"ID", true, 1, loc [.arg 0]⟩])
      (loc [.id "ID", .lparen, .id "B", .rparen]) out) ∧
    (¬ ∃ out, TameP (allEnabled [⟨"A", false, 0, loc [.id "B", .lparen, .id "A", .rparen]⟩,
        ⟨"B", true, 1, loc [.arg 0, .ws, .id "B"]⟩]) (loc [.id "A", .lparen, .int "1", .rparen]) out) ∧
    (¬ ∃ out, TameP (allEnabled [⟨"F", true, 1, loc [.arg 0]⟩,
        ⟨"H", true, 1, loc [.id "F", .lparen, .arg 0, .rparen]⟩])
      (loc [.id "H", .lparen, .id "F", .rparen, .lparen, .int "1", .rparen]) out) ∧
    (¬ ∃ out, TameP (allEnabled [⟨"E", false, 0, []⟩, ⟨"F", true, 1, loc [.arg 0]⟩,
        ⟨"A", false, 0, loc [.id "F", .ws, .id "E"]⟩]) (loc [.id "A", .lparen, .int "1", .rparen]) out) ∧
    (¬ ∃ out, TameP (allEnabled [⟨"F", true, 1, loc [.id "P", .ws, .concat, .ws, .arg 0, .ws, .id "Q"]⟩])
      (loc [.id "F", .lparen, .rparen]) out) := by
  refine ⟨?_, ?_, ?_, ?_, ?_, ?_⟩
  · exact not_tameP_of_not_agree _ _ (fun m hm => wfMacroP_of_wfPB m (by revert m; decide))
      (by unfold NoConcat; decide) differs_unused_argument_expanded.2.2.1
  · exact not_tameP_of_not_agree _ _ (fun m hm => wfMacroP_of_wfPB m (by revert m; decide))
      (by unfold NoConcat; decide) differs_argument_repainted.2.2.1
  · exact not_tameP_of_not_agree _ _ (fun m hm => wfMacroP_of_wfPB m (by revert m; decide))
      (by unfold NoConcat; decide) differs_painted_function_name_reinvoked.2.2.1
  · exact not_tameP_of_not_agree _ _ (fun m hm => wfMacroP_of_wfPB m (by revert m; decide))
      (by unfold NoConcat; decide) differs_painted_function_name_reinvoked_acyclic.2.2.1
  · exact not_tameP_of_not_agree _ _ (fun m hm => wfMacroP_of_wfPB m (by revert m; decide))
      (by unfold NoConcat; decide) differs_function_name_before_vanished_macro.2.2.1
  · exact not_tameP_of_not_agree _ _ (fun m hm => wfMacroP_of_wfPB m (by revert m; decide))
      (by unfold NoConcat; decide) differs_empty_argument_next_to_paste.2.2

theorem agree_of_eval (defs : List Macro) (toks out : List PTok) (n fuel : Nat) (ks : List Tok)
    (hm : applyLoopF n (allEnabled defs) toks SearchPos.start = some (.ok out))
    (hs : refToks defs fuel toks = .ok ks) (heq : ks = ppTokens out) : Agree defs toks := by
  obtain ⟨r0, h1, h2⟩ := refToks_ok hs
  exact ⟨out, fuel, r0, model_eval n defs toks _ hm, h1, by rw [h2, heq]⟩

/-- **line-end-before-parenthesis, repaired (fix f08088c).**  The former witness of a deviation, `#define F(X) X`;
`F` ⏎ `(1)`: rssl now gives `1` like C (it was `F ⏎ ( 1 )`: a line end stopped the search for `(`), and the input lies
in the tame class, so it is covered by `expand_refines_spec`.  The same for a macro without parameters whose empty
argument list holds a line break, `#define Z() 7`; `Z(` ⏎ `)` (it was rejected for its argument count), and for a line
comment / several line ends between the name and `(`.  The universal statements: `invocation_may_continue_on_next_line`
(the search for `(` is the C reading "next token that is not white space"), `function_like_is_substitution` (any
white space before `(`), and the refinement theorems, whose class now contains these invocations. -/
theorem agrees_line_end_before_parenthesis :
    let F : Macro := ⟨"F", true, 1, loc [.arg 0]⟩
    let Z : Macro := ⟨"Z", true, 0, loc [.int "7"]⟩
    (applyMacros [F] (loc [.id "F", .endline, .lparen, .int "1", .rparen]) = .ok (loc [.int "1"]) ∧
      refToks [F] 10 (loc [.id "F", .endline, .lparen, .int "1", .rparen]) = .ok [.int "1"] ∧
      Agree [F] (loc [.id "F", .endline, .lparen, .int "1", .rparen]) ∧
      Tame (allEnabled [F]) (loc [.id "F", .endline, .lparen, .int "1", .rparen]) (loc [.int "1"])) ∧
    (applyMacros [Z] (loc [.id "Z", .lparen, .endline, .rparen]) = .ok (loc [.int "7"]) ∧
      Agree [Z] (loc [.id "Z", .lparen, .endline, .rparen]) ∧
      Tame (allEnabled [Z]) (loc [.id "Z", .lparen, .endline, .rparen]) (loc [.int "7"])) ∧
    Agree [F, Z] (loc [.id "F", .ws, .endline, .endline, .ws, .lparen, .id "Z", .endline, .lparen, .ws, .endline,
      .rparen, .rparen]) := by
  intro F Z
  refine ⟨⟨?_, by decide +kernel, ?_, ?_⟩, ⟨?_, ?_, ?_⟩, ?_⟩
  · exact model_eval 10 [F] _ _ (by decide)
  · exact agree_of_eval _ _ (loc [.int "1"]) 10 10 [.int "1"] (by decide) (by decide +kernel) (by decide)
  · exact tameRun_sound 10 _ _ _ (by decide) (by decide)
  · exact model_eval 10 [Z] _ _ (by decide)
  · exact agree_of_eval _ _ (loc [.int "7"]) 10 10 [.int "7"] (by decide) (by decide +kernel) (by decide)
  · exact tameRun_sound 10 _ _ _ (by decide) (by decide)
  · exact agree_of_eval _ _ (loc [.int "7"]) 12 12 [.int "7"] (by decide) (by decide +kernel) (by decide)

/-- **Higher-order use of macros: the name of a function-like macro passed as an argument and invoked by the
replacement list.**  `#define NEG(v) (-(v))`, `#define APPLY(f, x) f(x)`: `APPLY(NEG, a)` gives `(-(a))`; the X-macro
idiom `#define LIST(X) X(1) X(2)`, `LIST(DECL)` (also with a `DECL` that pastes, `v ## n`); `#define CALL(f, args) f args`,
`CALL(ADD, (p, q))`.  In each the argument is the bare name of an *enabled* function-like macro, so what the argument
expands to (itself) is not `OnlyDisabled`; it is `AllKept`: nothing happens in the argument, its token reaches the
replacement list with exactly the hide set of the invocation, and the rescan of the replacement list -- which rssl
carries out for *every* invocation, whatever the replacement list consists of (`source_shape`: `bodyAlwaysRescanned`) --
invokes it on both sides.  The inputs lie in the class of `expand_refines_spec` / `expand_refines_spec_with_paste`
(rule `invoke`, side condition `ArgOK`), so the agreement is an instance of the refinement theorem; here model and
reference are also evaluated.  (A preprocessor that skips the rescan when the replacement list holds no identifier
of its own -- seeded mutant C12-3 -- leaves `NEG(a)`, `DECL(1) DECL(2)`, `ADD (p, q)`.) -/
theorem agrees_on_higher_order_invocation :
    let NEG : Macro := ⟨"NEG", true, 1, loc [.lparen, .punct "-", .lparen, .arg 0, .rparen, .rparen]⟩
    let APPLY : Macro := ⟨"APPLY", true, 2, loc [.arg 0, .lparen, .arg 1, .rparen]⟩
    let DECL : Macro := ⟨"DECL", true, 1, loc [.id "int", .ws, .arg 0, .punct ";"]⟩
    let DECLP : Macro := ⟨"DECLP", true, 1, loc [.id "v", .ws, .concat, .ws, .arg 0, .punct ";"]⟩
    let LIST : Macro := ⟨"LIST", true, 1, loc [.arg 0, .lparen, .int "1", .rparen, .ws, .arg 0, .lparen, .int "2", .rparen]⟩
    let ADD : Macro := ⟨"ADD", true, 2, loc [.arg 0, .ws, .punct "+", .ws, .arg 1]⟩
    let CALL : Macro := ⟨"CALL", true, 2, loc [.arg 0, .ws, .arg 1]⟩
    let apply := loc [.id "APPLY", .lparen, .id "NEG", .comma, .ws, .id "a", .rparen]
    let list := loc [.id "LIST", .lparen, .id "DECL", .rparen]
    let listp := loc [.id "LIST", .lparen, .id "DECLP", .rparen]
    let call := loc [.id "CALL", .lparen, .id "ADD", .comma, .ws, .lparen, .id "p", .comma, .ws, .id "q", .rparen, .rparen]
    (applyMacros [NEG, APPLY] apply = .ok (loc [.lparen, .punct "-", .lparen, .id "a", .rparen, .rparen]) ∧
      Agree [NEG, APPLY] apply ∧
      Tame (allEnabled [NEG, APPLY]) apply (loc [.lparen, .punct "-", .lparen, .id "a", .rparen, .rparen])) ∧
    (applyMacros [DECL, LIST] list =
        .ok (loc [.id "int", .ws, .int "1", .punct ";", .ws, .id "int", .ws, .int "2", .punct ";"]) ∧
      Agree [DECL, LIST] list ∧
      Tame (allEnabled [DECL, LIST]) list
        (loc [.id "int", .ws, .int "1", .punct ";", .ws, .id "int", .ws, .int "2", .punct ";"])) ∧
    (applyMacros [DECLP, LIST] listp = .ok (loc [.id "v1", .punct ";", .ws, .id "v2", .punct ";"]) ∧
      Agree [DECLP, LIST] listp ∧
      TameP (allEnabled [DECLP, LIST]) listp (loc [.id "v1", .punct ";", .ws, .id "v2", .punct ";"])) ∧
    (applyMacros [ADD, CALL] call = .ok (loc [.id "p", .ws, .punct "+", .ws, .id "q"]) ∧
      Agree [ADD, CALL] call ∧
      Tame (allEnabled [ADD, CALL]) call (loc [.id "p", .ws, .punct "+", .ws, .id "q"])) := by
  intro NEG APPLY DECL DECLP LIST ADD CALL apply list listp call
  refine ⟨⟨?_, ?_, ?_⟩, ⟨?_, ?_, ?_⟩, ⟨?_, ?_, ?_⟩, ⟨?_, ?_, ?_⟩⟩
  · exact model_eval 12 _ _ _ (by decide)
  · exact agree_of_eval _ _ (loc [.lparen, .punct "-", .lparen, .id "a", .rparen, .rparen]) 12 12
      [.lparen, .punct "-", .lparen, .id "a", .rparen, .rparen] (by decide) (by decide +kernel) (by decide)
  · exact tameRun_sound 12 _ _ _ (by decide) (by decide)
  · exact model_eval 14 _ _ _ (by decide)
  · exact agree_of_eval _ _ (loc [.id "int", .ws, .int "1", .punct ";", .ws, .id "int", .ws, .int "2", .punct ";"]) 14 14
      [.id "int", .int "1", .punct ";", .id "int", .int "2", .punct ";"] (by decide) (by decide +kernel) (by decide)
  · exact tameRun_sound 14 _ _ _ (by decide) (by decide)
  · exact model_eval 14 _ _ _ (by decide)
  · exact agree_of_eval _ _ (loc [.id "v1", .punct ";", .ws, .id "v2", .punct ";"]) 14 14
      [.id "v1", .punct ";", .id "v2", .punct ";"] (by decide) (by decide +kernel) (by decide)
  · exact RsslVerif.Lemmas.MacroTamePRun.tameRunP_sound 14 _ _ _ (by decide) (by decide)
  · exact model_eval 12 _ _ _ (by decide)
  · exact agree_of_eval _ _ (loc [.id "p", .ws, .punct "+", .ws, .id "q"]) 12 12
      [.id "p", .punct "+", .id "q"] (by decide) (by decide +kernel) (by decide)
  · exact tameRun_sound 12 _ _ _ (by decide) (by decide)

/-- **Invocations completed after the end of an expansion on which rssl and C agree** (the counterpart of
`differs_painted_function_name_reinvoked` / `differs_function_name_before_vanished_macro`; the universal statement
about the model is `trailing_function_name_is_invoked`):
`#define A(X) { X }`, `#define M(X) A X`: `M()(6)` gives `{ 6 }` (the expansion of `M()` is `A` followed by the blank
that preceded the empty argument), and `M()(6)(1)`; `#define N A`: `N(7)`; `#define S(X) X * 2`,
`#define AP(F,X) F X`: `AP(S,)(5)` gives `5 * 2`. -/
theorem agrees_on_invocation_completed_after_expansion :
    let A : Macro := ⟨"A", true, 1, loc [.punct "{", .ws, .arg 0, .ws, .punct "}"]⟩
    let M : Macro := ⟨"M", true, 1, loc [.id "A", .ws, .arg 0]⟩
    let N : Macro := ⟨"N", false, 0, loc [.id "A"]⟩
    let S : Macro := ⟨"S", true, 1, loc [.arg 0, .ws, .punct "*", .ws, .int "2"]⟩
    let AP : Macro := ⟨"AP", true, 2, loc [.arg 0, .ws, .arg 1]⟩
    Agree [A, M] (loc [.id "M", .lparen, .rparen, .lparen, .int "6", .rparen]) ∧
    Agree [A, M] (loc [.id "M", .lparen, .rparen, .ws, .lparen, .int "6", .rparen, .lparen, .int "1", .rparen]) ∧
    Agree [A, N] (loc [.id "N", .lparen, .int "7", .rparen]) ∧
    Agree [S, AP] (loc [.id "AP", .lparen, .id "S", .comma, .rparen, .lparen, .int "5", .rparen]) := by
  intro A M N S AP
  refine ⟨?_, ?_, ?_, ?_⟩
  · exact agree_of_eval _ _ (loc [.punct "{", .ws, .int "6", .ws, .punct "}"]) 12 12
      [.punct "{", .int "6", .punct "}"] (by decide) (by decide +kernel) (by decide)
  · exact agree_of_eval _ _ (loc [.punct "{", .ws, .int "6", .ws, .punct "}", .lparen, .int "1", .rparen]) 12 12
      [.punct "{", .int "6", .punct "}", .lparen, .int "1", .rparen] (by decide) (by decide +kernel) (by decide)
  · exact agree_of_eval _ _ (loc [.punct "{", .ws, .int "7", .ws, .punct "}"]) 12 12
      [.punct "{", .int "7", .punct "}"] (by decide) (by decide +kernel) (by decide)
  · exact agree_of_eval _ _ (loc [.int "5", .ws, .punct "*", .ws, .int "2"]) 12 12
      [.int "5", .punct "*", .int "2"] (by decide) (by decide +kernel) (by decide)

/-- the other side of the boundary, next to `differs_function_name_before_vanished_macro`: the same invocation
written in the text (`F E (1)`, no enclosing expansion) and inside an argument (`ID(F E)(1)`) is treated alike by
rssl and C -/
example :
    Agree [⟨"E", false, 0, []⟩, ⟨"F", true, 1, loc [.arg 0]⟩] (loc [.id "F", .ws, .id "E", .ws, .lparen, .int "1", .rparen]) := by
  have h := expand_refines_spec_decided [⟨"E", false, 0, []⟩, ⟨"F", true, 1, loc [.arg 0]⟩]
    (loc [.id "F", .ws, .id "E", .ws, .lparen, .int "1", .rparen]) _ 12
    (fun m hm => wfMacro_of_wfB m (by revert m; decide)) (by decide) (by decide : _ = some (loc [.id "F", .ws, .ws, .lparen, .int "1", .rparen]))
  obtain ⟨h1, fuel, r, h2, h3⟩ := h
  exact ⟨_, fuel, r, h1, h2, h3⟩

/-! ## inclusion: where "pasting the file's contents" and the block structure differ -/

section FileBoundary
open RsslVerif.Model.Include RsslVerif.Lemmas.MacroApi RsslVerif.Lemmas.Include

/-- entry file: `#define F(X) X` / `#include "f1"` / `(1)` -/
def boundaryMain : List Line :=
  [.define (loc [.ws, .id "F", .lparen, .id "X", .rparen, .ws, .id "X"]), .incl "f1",
    .text (loc [.lparen, .int "1", .rparen])]
/-- the header `f1`: `F` -/
def boundaryHeader : List Line := [.text (loc [.id "F"])]
/-- the entry file with the header's line pasted in place of the directive -/
def boundaryPasted : List Line :=
  [.define (loc [.ws, .id "F", .lparen, .id "X", .rparen, .ws, .id "X"]), .text (loc [.id "F"]),
    .text (loc [.lparen, .int "1", .rparen])]
def boundaryHandler (main : List Line) : Handler := fun n =>
  if n = "main" then some ("main", main) else if n = "f1" then some ("f1", boundaryHeader) else none

/-- **invocation-spans-file-boundary** (negation witness for the plain textual reading of "`#include` is equivalent to
pasting the file's contents"; visible on its own since fix f08088c -- before it the pasted program gave `F ( 1 )` too,
because of the line end).  The header ends in the name of a function-like macro and the including file continues with
`(1)`: rssl expands the text before an `#include`, the included file and the text after it as separate blocks and
gives `F ( 1 )`; the program with the header's line pasted in gives `1`.  `include_is_paste` is the true statement: the
pasted lines stand between two block boundaries.  (C compilers agree with rssl here: clang cites C99 5.1.1.2p4, GCC
stops its look-ahead at the end of an included buffer.) -/
theorem differs_invocation_spanning_file_boundary :
    (preprocess (boundaryHandler boundaryMain) 10 [] "main").map prepare =
      .ok (.ok [.id "F", .lparen, .int "1", .rparen]) ∧
    (preprocess (boundaryHandler boundaryPasted) 10 [] "main").map prepare = .ok (.ok [.int "1"]) := by
  have hd : doDefine [] (loc [.ws, .id "F", .lparen, .id "X", .rparen, .ws, .id "X"]) =
      .ok [⟨"F", true, 1, loc [.arg 0]⟩] := by decide
  have e1 : applyMacros [⟨"F", true, 1, loc [.arg 0]⟩] (loc [.id "F", .endline]) = .ok (loc [.id "F", .endline]) :=
    model_eval 10 _ _ _ (by decide)
  have e2 : applyMacros [⟨"F", true, 1, loc [.arg 0]⟩] (loc [.lparen, .int "1", .rparen, .endline]) =
      .ok (loc [.lparen, .int "1", .rparen, .endline]) := model_eval 10 _ _ _ (by decide)
  have e3 : applyMacros [⟨"F", true, 1, loc [.arg 0]⟩]
      (loc [.id "F", .endline, .lparen, .int "1", .rparen, .endline]) = .ok (loc [.int "1", .endline]) :=
    model_eval 10 _ _ _ (by decide)
  constructor
  · simp [preprocess, boundaryHandler, boundaryMain, boundaryHeader, runInitial, initialMacros, runFile, fileStart,
      foldLines, stepLine, flush, applyMacros_nil, includeFile, eol, loc] at hd e1 e2 ⊢
    simp [hd, e1, e2, applyMacros_nil, prepare, Except.map, Tok.isWhitespace]
  · simp [preprocess, boundaryHandler, boundaryPasted, runInitial, initialMacros, runFile, fileStart, foldLines,
      stepLine, flush, applyMacros_nil, eol, loc] at hd e3 ⊢
    simp [hd, e3, prepare, Except.map, Tok.isWhitespace]

end FileBoundary

end RsslVerif.Thm.C12

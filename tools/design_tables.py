#!/usr/bin/env python3
"""Rewrite sections 9.2-9.4 of DESIGN.md (the as-built log) from git history and seeded/*/meta.json."""
import json
import os
import subprocess

ROOT = os.path.dirname(os.path.dirname(os.path.abspath(__file__)))
d = open(os.path.join(ROOT, "DESIGN.md")).read()
i = d.index("### 9.2 Changes made to /repo")
j = d.find("### 9.5", i)
head = d[:i]
tail = d[j:] if j >= 0 else ""
log = subprocess.run(["git", "-C", "/repo", "log", "--format=%h %s", "28d5604..HEAD"],
                     capture_output=True, text=True).stdout.strip().splitlines()
fixes = [l for l in log if " fix: " in l][::-1]
hooks = [l for l in log if "verif hook" in l][::-1]
s = "### 9.2 Changes made to /repo\n\n"
s += ("Hooks (add-only, `#[cfg(trark_rssl_verif)]`, commits " + ", ".join(h.split()[0] for h in hooks) +
      "): `rssl_preprocess::verif` (raw lexer, condition parser), `rssl_typer::verif`\n(casting + constant evaluator), "
      "`rssl_hlsl::verif_generate_ast`, `rssl_msl::verif_generate_ast`.\n\n")
s += ("`fix:` commits — each repairs one genuine defect that a check (or the attempt to state a theorem) exposed with a concrete "
      "input on the\nreal code; the unedited suite passed 382/382 after each; every one is recorded as `fixed` in "
      "`known_findings.jsonl` (a fixed\nrecord suppresses nothing: the reproducer stays in the corpus and is reported again if "
      "it returns):\n\n| commit | subject |\n|---|---|\n")
for f in fixes:
    h, rest = f.split(" ", 1)
    s += f"| {h} | {rest[5:]} |\n"
s += ("\nOne candidate was tried and *not* applied: parenthesising an assignment in the middle operand of `?:` in the formatter "
      "changed\na golden Metal test (`address[location] = value` inside a generated helper); the defect was repaired in the "
      "parser instead (f3b64c8).\n\n")
s += """### 9.3 False alarms met while building, and what was done

* C04 first compared the whole reflection metadata of both generations; the second generation legitimately reports
  `ByteBuffer` where the first reports `BufferAddress` (DirectX export lowers buffer addresses to `ByteAddressBuffer`). The
  property speaks of binding *slots*; the oracle now compares (group, name, location, count). Machinery corrected, nothing listed.
* C17's first model predicted `ok` for pipelines the Metal back end rejects (`InvalidPipelineForMeshIntrinsic` when a file
  contains mesh functions); which builds fail is now an *input* of the model (exactly as `build` is a parameter of the theorems).
* C07 reported a `VIOLATION` for `ffx_fsr2_accumulate_pass.hlsl` on Metal: the compile *panics* (`ir_types.rs:218 extract_scalar
  expects unmodified type`) — deterministically, on every run. A panic is C08's subject, not a determinism failure; the C07
  oracle now only requires the same outcome (including the same panic site) on every run. The panic itself is reported by C08.
* All checks at once raised alarms in `vp check` #2 because one property's table (C19's, mid-way through the layout fix) could
  not be extracted and the single shared model executable then failed to build for everybody. Each property now has its own
  executable (`rsslmodel_cxx`, `lean/Mains/Cxx.lean`), every generator runs on every check, and a missing model executable is
  reported as a broken obligation of that property only.

### 9.4 Seeded changes (independent sub-agents given only the property text) and which check catches them

Each seed was re-verified by the lead (suite 382/382 with the change; demonstration fails with it and passes without it), then the
property's check was run with `VERIF_REPO=<seed tree>`. Details are in `seeded/<id>/meta.json` (`lead_verification`).

| seed | change (what it needs) | result of the check |
|---|---|---|
"""
rows = {
    "C01-1": None, "C03-1": None, "C13-1": None, "C14-1": None,
    "C02-1": "usage analysis skips the increment clause of `for` (a static / inout callee reachable only there)",
    "C04-1": "subscript index printed without parentheses (a bare comma expression as index)",
    "C05-1": "Metal `is_used` looked up with binary_search on a list that is only sorted per stage (multi-stage pipeline)",
    "C06-1": "buffer-address test taken after array peeling (vk + buffer addresses, `BufferAddress g[3]`)",
    "C06-2": "slot count of arrays ignores the per-element cost (Metal, array of raw/structured buffers then another resource)",
    "C07-1": "suffix candidates checked against the all-scopes set (same generated base name in two or more scopes)",
    "C07-2": "inline constant blocks sorted by location only (vk + buffer addresses in several groups with equal slot counts)",
    "C09-1": "sign spacing decided on the operand node instead of its text (`-(--x)`, `+(++x)`)",
    "C10-1": "fast path for float literals with up to 16 digits (16-digit odd digit string above 2^53, small scale)",
    "C11-1": "same-level condition operators grouped right-to-left (`2 == 2 == 1`, `3 > 2 > 1`)",
    "C12-1": "include cache keyed by (parent, name): a `#pragma once` file reached from two parents is pasted twice",
    "C15-1": "generated global names no longer recorded for the local-variable pass (a local named like a generated `f_0`)",
    "C16-1": "early return for the first all-exact candidate (in/out twins: order-dependent verdict)",
    "C17-1": "result of an earlier pipeline with equal stages reused (different DefaultBindGroup)",
    "C17-2": "selected index taken from the filtered list (by-name compile of a pipeline that is not first)",
    "C18-1": "Metal reflection drops the outer modifier peel (typedef'd resource arrays reported as PushConstants/1)",
    "C19-1": "offsets comparison skips members whose size/align agree (nested struct, equal size, different inner offsets)",
}
n = 0
for sid in sorted(rows):
    p = os.path.join(ROOT, "seeded", sid, "meta.json")
    if not os.path.exists(p):
        continue
    m = json.load(open(p))
    lv = m.get("lead_verification", {})
    res = lv.get("check_result", "").replace("|", "/")
    what = rows[sid] or m.get("summary", "")[:160].replace("|", "/")
    s += f"| {sid} | {what} | {res} |\n"
    n += 1
s += f"\n{n} seeds so far. Where a seed was missed at first, the table says what was strengthened; nothing was loosened.\n\n"
open(os.path.join(ROOT, "DESIGN.md"), "w").write(head + s + tail)
print("rewrote 9.2-9.4 with", len(fixes), "fixes and", n, "seeds")

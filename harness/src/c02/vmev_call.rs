// part of vmev.rs: calls (user functions, methods, constructors, library functions), running a function from outside

/// per-run context: where the file-scope constants live
pub struct Cx {
    pub const_cells: Vec<usize>,
}

pub enum Bound {
    Val(String, MTy, VV),
    Ref(String, MTy, Place),
}

fn is_tag_arg(e: &Sx) -> bool {
    e.head() == "call" && e.args().len() == 1 && e.args()[0].atom() == "metal::true_type"
}

fn param_has_default(p: &Sx) -> bool {
    p.head() == "val" && p.args().len() == 3
}

impl<'a> MslV<'a> {
    fn fn_ns(&self, f: &Sx, _fr: &Frame) -> String {
        ns_of(f.args()[0].atom())
    }

    fn viable(f: &Sx, nargs: usize, tag_at: Option<usize>) -> bool {
        let params = f.args()[2].args();
        if nargs > params.len() || !params[nargs..].iter().all(param_has_default) {
            return false;
        }
        match tag_at {
            Some(i) => params.get(i).map(|p| p.head() == "tag").unwrap_or(false),
            None => !params[..nargs].iter().any(|p| p.head() == "tag"),
        }
    }

    fn pick<'s>(cands: Vec<&'s Sx>, nargs: usize, what: &str) -> Option<&'s Sx> {
        if let Some(f) = cands.iter().copied().find(|f| f.args()[2].args().len() == nargs) {
            return Some(f);
        }
        match cands.len() {
            1 => Some(cands[0]),
            0 => other(format!("no viable definition of {} for {} arguments", what, nargs)),
            _ => other(format!("call of {} with {} arguments is ambiguous", what, nargs)),
        }
    }

    /// a called name inside a method denotes a method of the same struct first; then a function of the current namespace,
    /// then of the global one
    fn resolve_tagged(&self, name: &str, nargs: usize, tag_at: Option<usize>, fr: &Frame) -> Option<(&'a Sx, bool)> {
        if let Some((k, _)) = &fr.this {
            let cands: Vec<&'a Sx> = self.structs.get(k)?.methods.iter().copied().filter(|f| f.args()[0].atom() == name && Self::viable(f, nargs, tag_at)).collect();
            if !cands.is_empty() {
                return Self::pick(cands, nargs, name).map(|f| (f, true));
            }
        }
        for cand in [format!("{}{}", fr.ns, name), name.to_string()] {
            let cands: Vec<&'a Sx> = self.funcs.iter().copied().filter(|f| f.args()[0].atom() == cand && Self::viable(f, nargs, tag_at)).collect();
            if !cands.is_empty() {
                return Self::pick(cands, nargs, name).map(|f| (f, false));
            }
        }
        other(format!("no function {} taking {} arguments{}", name, nargs, if tag_at.is_some() { " (tagged)" } else { "" }))
    }

    fn resolve_method(&self, obj: &MTy, name: &str, nargs: usize, tag_at: Option<usize>) -> Option<&'a Sx> {
        match obj {
            MTy::Struct(k) => {
                let cands: Vec<&'a Sx> = self.structs.get(k)?.methods.iter().copied().filter(|f| f.args()[0].atom() == name && Self::viable(f, nargs, tag_at)).collect();
                Self::pick(cands, nargs, name)
            }
            _ => other(format!("method call on {}", obj.show())),
        }
    }

    fn bind_args(&self, f: &'a Sx, callee_ns: &str, args: &[Sx], fr: &mut Frame, mem: &mut Mem, cx: &Cx, depth: u32) -> Option<(Vec<Bound>, bool)> {
        let params = f.args()[2].args();
        let mut bound = Vec::new();
        let mut is_target = false;
        let mut ref_snapshots: Vec<(Place, VV)> = Vec::new();
        for (i, p) in params.iter().enumerate() {
            match (p.head(), args.get(i)) {
                ("val", Some(arg)) => {
                    let pt = self.ty_in(&p.args()[0], callee_ns)?;
                    let name = p.args()[1].atom().to_string();
                    if matches!(pt, MTy::Arr(..)) && !self.hlsl_literals {
                        // `T a[n]` as a parameter is a pointer to the first element of the caller's array
                        hazard(C_ARRAY_PARAM);
                        let (pl, at, _) = self.place(arg, fr, mem, cx, depth)?;
                        if at != pt {
                            return other(format!("array argument of type {} for parameter {}", at.show(), pt.show()));
                        }
                        bound.push(Bound::Ref(name, pt, pl));
                    } else {
                        let v = self.eval_as(&pt, arg, fr, mem, cx, depth)?;
                        bound.push(Bound::Val(name, pt, v));
                    }
                }
                ("val", None) => {
                    // default argument: evaluated in the context of the callee's declaration
                    let pt = self.ty_in(&p.args()[0], callee_ns)?;
                    let d = p.args().get(2)?;
                    let mut dfr = Frame { vars: HashMap::new(), ret: MTy::Void, this: None, ns: callee_ns.to_string() };
                    let v = self.eval_as(&pt, d, &mut dfr, mem, cx, depth)?;
                    bound.push(Bound::Val(p.args()[1].atom().to_string(), pt, v));
                }
                ("ref", Some(arg)) => {
                    let pt = self.ty_in(&p.args()[1], callee_ns)?;
                    if !self.is_lvalue(arg) {
                        return stuck(Stuck::Class(C_IMPLICIT), format!("a non-const reference cannot bind to the temporary {}", arg.show()));
                    }
                    let (pl, at, in_vector) = self.place(arg, fr, mem, cx, depth)?;
                    if in_vector && !self.hlsl_literals {
                        return stuck(Stuck::Class(C_REF_ELEM), format!("`thread {}&` cannot bind to the vector element {}", pt.show(), arg.show()));
                    }
                    if at != pt {
                        return stuck(Stuck::Class(C_IMPLICIT), format!("reference to {} cannot bind to {} {}", pt.show(), at.show(), arg.show()));
                    }
                    if let Some(v) = mem.read(&pl) {
                        ref_snapshots.push((pl.clone(), v));
                    }
                    bound.push(Bound::Ref(p.args()[2].atom().to_string(), pt, pl));
                }
                ("tag", Some(arg)) => {
                    if !is_tag_arg(arg) {
                        return other(format!("tag parameter receives {}", arg.show()));
                    }
                    is_target = true;
                }
                _ => return other(format!("parameter {} of {} has no argument", i, f.args()[0].atom())),
            }
        }
        for (pl, before) in ref_snapshots {
            if mem.read(&pl).as_ref() != Some(&before) {
                hazard(H_INOUT_ORDER);
            }
        }
        Some((bound, is_target))
    }

    fn eval_call(&self, e: &Sx, fr: &mut Frame, mem: &mut Mem, cx: &Cx, depth: u32) -> Option<VV> {
        let x = e.args();
        match e.head() {
            "call" => {
                let name = x[0].atom();
                let args = &x[1..];
                if let Some(t) = self.callee_type_name(name, fr) {
                    return self.construct(&t, args, fr, mem, cx, depth);
                }
                if let Some(lib) = name.strip_prefix("metal::") {
                    return self.eval_lib(lib, args, fr, mem, cx, depth);
                }
                self.call_user(name, args, fr, mem, cx, depth)
            }
            "tcall" => {
                let name = x[0].atom();
                let args = &x[2..];
                if name == "as_type" {
                    let t = self.ty(x[1].args().first()?, fr)?;
                    let variant = match t.scalar() {
                        Some(MS::Int) => "AsInt",
                        Some(MS::Uint) => "AsUInt",
                        Some(MS::Float) => "AsFloat",
                        _ => return other("as_type to this type".into()),
                    };
                    let at = self.type_of(args.first()?, fr, cx)?;
                    let v = self.eval(&args[0], fr, mem, cx, depth)?;
                    let (rt, pt) = (numeric_ty(&t)?, numeric_ty(&self.arith(&at)?)?);
                    if rt.count() != pt.count() {
                        return other("as_type between types of different size".into());
                    }
                    return vintr(variant, &[pt.show()], &[v], &rt);
                }
                // explicit template arguments of an instantiation the exporter emitted under its own name
                self.call_user(name, args, fr, mem, cx, depth)
            }
            "mcall" => {
                let ot = self.type_of(&x[0], fr, cx)?;
                let k = match &ot {
                    MTy::Struct(k) => k.clone(),
                    _ => return other(format!("method call on {}", ot.show())),
                };
                let args = &x[2..];
                let f = self.resolve_method(&ot, x[1].atom(), args.len(), args.iter().position(is_tag_arg))?;
                // the object expression first
                let this_place = if self.is_lvalue(&x[0]) {
                    self.place(&x[0], fr, mem, cx, depth)?.0
                } else {
                    let v = self.eval(&x[0], fr, mem, cx, depth)?;
                    Place { cell: mem.alloc(v, "<temporary object>"), path: vec![] }
                };
                let ns = ns_of(&k);
                let object_before = mem.read(&this_place);
                let (bound, is_target) = self.bind_args(f, &ns, args, fr, mem, cx, depth)?;
                if mem.read(&this_place) != object_before {
                    hazard(H_METHOD_OBJECT);
                }
                let r = self.invoke(f, bound, Some((k, this_place)), &ns, is_target, mem, cx, depth)?;
                Some(r.unwrap_or(VV::S(V::Void)))
            }
            _ => None,
        }
    }

    fn call_user(&self, name: &str, args: &[Sx], fr: &mut Frame, mem: &mut Mem, cx: &Cx, depth: u32) -> Option<VV> {
        let tag_at = args.iter().position(is_tag_arg);
        let (f, is_method) = self.resolve_tagged(name, args.len(), tag_at, fr)?;
        let (this, ns) = if is_method {
            let t = fr.this.clone()?;
            let ns = ns_of(&t.0);
            (Some(t), ns)
        } else {
            (None, ns_of(f.args()[0].atom()))
        };
        let (bound, is_target) = self.bind_args(f, &ns, args, fr, mem, cx, depth)?;
        let r = self.invoke(f, bound, this, &ns, is_target, mem, cx, depth)?;
        Some(r.unwrap_or(VV::S(V::Void)))
    }

    fn eval_lib(&self, lib: &str, args: &[Sx], fr: &mut Frame, mem: &mut Mem, cx: &Cx, depth: u32) -> Option<VV> {
        let mut tys = Vec::new();
        for a in args {
            tys.push(self.type_of(a, fr, cx)?);
        }
        if lib == "fmod" && !self.fmod_is_builtin {
            if args.len() != 2 {
                return None;
            }
            let p = self.eval(&args[0], fr, mem, cx, depth)?;
            let q = self.eval(&args[1], fr, mem, cx, depth)?;
            self.in_fmod.set(true);
            let r = self.binary(MBin::Mod, &tys[0], &tys[1], p, q);
            self.in_fmod.set(false);
            return r;
        }
        // the static type also decides whether the function is modelled at all
        let rt = self.lib_type(lib, &tys)?;
        if lib == "transpose" {
            let v = self.eval(&args[0], fr, mem, cx, depth)?;
            let (pt, ret) = (numeric_ty(&self.arith(&tys[0])?)?, numeric_ty(&rt)?);
            return vintr("Transpose", &[pt.show()], &[v], &ret);
        }
        let variant = MBUILTINS.iter().find(|b| b.0 == lib)?.1;
        let mut vals = Vec::new();
        if variant == "Select" {
            // `select(c, t, f)` is emitted as `metal::select(f, t, c)`: the operands are written in the REVERSE order.  This reading
            // evaluates arguments left to right (as the typed semantics does; C++ leaves the order unspecified), so operands with
            // effects run in the other order than in the source; the alternative reading runs them in the source's order
            let before = mem.cells.clone();
            let order: Vec<usize> = if self.hlsl_literals { (0..args.len()).rev().collect() } else { (0..args.len()).collect() };
            let mut slots: Vec<Option<VV>> = vec![None; args.len()];
            for i in order {
                slots[i] = Some(self.eval(&args[i], fr, mem, cx, depth)?);
            }
            if mem.cells != before {
                hazard(H_SELECT_ORDER);
            }
            for v in slots {
                vals.push(v?);
            }
        } else {
            for a in args {
                vals.push(self.eval(a, fr, mem, cx, depth)?);
            }
        }
        if vals.iter().any(|v| v.comps().map(|c| c.contains(&V::Void)).unwrap_or(true)) {
            return other(format!("argument of metal::{} is an uninitialised value", lib));
        }
        let (tys, vals) = if variant == "Select" {
            // Metal: select(a, b, c) = c ? b : a; the RSSL built-in takes the condition first
            (tys.into_iter().rev().collect::<Vec<_>>(), vals.into_iter().rev().collect::<Vec<_>>())
        } else {
            (tys, vals)
        };
        let (ret, names) = self.builtin_ret(variant, &tys)?;
        vintr(variant, &names, &vals, &ret)
    }

    /// run a definition on bound arguments; a call of the tagged overload (trampoline → target) is not counted as a level
    /// of call depth, so that one source-level call is one level on both sides
    #[allow(clippy::too_many_arguments)]
    fn invoke(&self, f: &'a Sx, bound: Vec<Bound>, this: Option<(String, Place)>, ns: &str, is_target: bool, mem: &mut Mem, cx: &Cx, depth: u32) -> Option<Option<VV>> {
        let depth = if is_target {
            depth
        } else {
            if depth == 0 {
                return other("call depth".into());
            }
            depth - 1
        };
        if f.args().len() > 4 {
            return other(format!("definition of {} has a form outside the modelled subset", f.args()[0].atom()));
        }
        let mut fr = Frame { vars: HashMap::new(), ret: self.ty_in(&f.args()[1], ns)?, this, ns: ns.to_string() };
        for b in bound {
            match b {
                Bound::Val(n, t, v) => {
                    let c = mem.alloc(v, &n);
                    fr.vars.insert(n, Binding { place: Place { cell: c, path: vec![] }, ty: t });
                }
                Bound::Ref(n, t, p) => {
                    fr.vars.insert(n, Binding { place: p, ty: t });
                }
            }
        }
        let fl = self.exec(&f.args()[3], &mut fr, mem, cx, depth)?;
        Some(match fl {
            Flow::Ret(Some(v)) => Some(v),
            _ => None,
        })
    }

    /// a value of the typed side in the representation of the Metal type: a one-component vector (`float1`) is a scalar
    pub fn adapt(&self, t: &MTy, v: VV) -> VV {
        match (t, v) {
            (MTy::S(_), VV::V(xs)) if xs.len() == 1 => VV::S(xs[0]),
            (MTy::Struct(k), VV::St(xs)) => match self.structs.get(k) {
                Some(sd) if sd.members.len() == xs.len() => VV::St(sd.members.iter().zip(xs).map(|(m, x)| self.adapt(&m.1, x)).collect()),
                _ => VV::St(xs),
            },
            (MTy::Arr(e, _), VV::Ar(xs)) => VV::Ar(xs.into_iter().map(|x| self.adapt(e, x)).collect()),
            (_, v) => v,
        }
    }

    /// memory with the file-scope constants initialised in emission order
    pub fn init_mem(&self) -> Option<(Mem, Cx)> {
        let mut mem = Mem { cells: Vec::new(), names: Vec::new() };
        let mut cx = Cx { const_cells: Vec::new() };
        for (n, t, init) in &self.consts {
            let v = match init {
                Some(i) => {
                    let mut fr = Frame { vars: HashMap::new(), ret: MTy::Void, this: None, ns: ns_of(n) };
                    self.init_value(t, i, &mut fr, &mut mem, &cx, 1)?
                }
                None => self.undef(t)?,
            };
            let c = mem.alloc(v, n);
            cx.const_cells.push(c);
        }
        Some((mem, cx))
    }

    /// value of the file-scope constant `name` after initialisation
    pub fn const_value(&self, name: &str) -> Option<VV> {
        let (mem, cx) = self.init_mem()?;
        let i = self.consts.iter().position(|c| c.0 == name)?;
        Some(mem.cells[cx.const_cells[i]].clone())
    }

    pub fn callable(&self, name: &str) -> Option<&'a Sx> {
        self.funcs.iter().copied().find(|f| f.args()[0].atom() == name && !f.args()[2].args().iter().any(|p| p.head() == "tag"))
    }

    /// call the function `name` as code outside the module would: by-value arguments as values, every reference parameter
    /// bound to a variable of the caller (`user[i]` for the first parameters, the static of that name for the parameters
    /// the exporter appended).  Returns (return value, final values of the caller's variables — `None` for by-value
    /// parameters —, final statics in the order of `statics`).
    pub fn run(&self, name: &str, user: &[TopArg], statics: &[(String, VV)]) -> Option<(Option<VV>, Vec<Option<VV>>, Vec<VV>)> {
        let (mut mem, cx) = self.init_mem()?;
        let mut gcells: Vec<(String, usize)> = Vec::new();
        for (n, v) in statics {
            let c = mem.alloc(v.clone(), n);
            gcells.push((n.clone(), c));
        }
        let f = match self.callable(name) {
            Some(f) => f,
            None => return other(format!("no callable definition of {}", name)),
        };
        let ns = ns_of(name);
        let params = f.args()[2].args();
        if params.len() < user.len() {
            return other("fewer parameters than the source function".into());
        }
        let mut bound = Vec::new();
        let mut user_cells: Vec<Option<usize>> = Vec::new();
        for (i, p) in params.iter().enumerate() {
            if i < user.len() {
                match (p.head(), &user[i]) {
                    ("val", TopArg::Val(v)) => {
                        let pt = self.ty_in(&p.args()[0], &ns)?;
                        let v = &self.adapt(&pt, v.clone());
                        let n = p.args()[1].atom().to_string();
                        if let MTy::Arr(..) = pt {
                            let c = mem.alloc(v.clone(), "<caller array>");
                            bound.push(Bound::Ref(n, pt, Place { cell: c, path: vec![] }));
                        } else {
                            bound.push(Bound::Val(n, pt, v.clone()));
                        }
                        user_cells.push(None);
                    }
                    ("ref", TopArg::Var(v)) => {
                        let v = &self.adapt(&self.ty_in(&p.args()[1], &ns)?, v.clone());
                        let c = mem.alloc(v.clone(), "<caller variable>");
                        bound.push(Bound::Ref(p.args()[2].atom().to_string(), self.ty_in(&p.args()[1], &ns)?, Place { cell: c, path: vec![] }));
                        user_cells.push(Some(c));
                    }
                    _ => return other(format!("parameter {} is passed differently from the source parameter", i)),
                }
            } else {
                if p.head() != "ref" {
                    return other(format!("appended parameter {} is not a reference", p.show()));
                }
                let n = p.args()[2].atom();
                if gcells.iter().filter(|g| g.0 == n || g.0.rsplit("::").next() == Some(n)).count() > 1 {
                    // two statics of one leaf name (different namespaces): the parameter's name does not say which one it carries
                    return stuck(Stuck::Skip, "same-leaf-statics: the appended parameter's name fits two statics".into());
                }
                match gcells.iter().find(|g| g.0 == n || g.0.rsplit("::").next() == Some(n)) {
                    Some((_, c)) => bound.push(Bound::Ref(n.to_string(), self.ty_in(&p.args()[1], &ns)?, Place { cell: *c, path: vec![] })),
                    None => return other(format!("appended parameter {} names no static", n)),
                }
            }
        }
        let ret = self.invoke(f, bound, None, &ns, false, &mut mem, &cx, DEPTH)?;
        let finals = user_cells.iter().map(|c| c.map(|c| mem.cells[c].clone())).collect();
        let gl = gcells.iter().map(|(_, c)| mem.cells[*c].clone()).collect();
        Some((ret, finals, gl))
    }

    /// static type of a parameter of the callable definition (for the driver: does the Metal signature match?)
    pub fn param_type(&self, name: &str, i: usize) -> Option<MTy> {
        let f = self.callable(name)?;
        let p = f.args()[2].args().get(i)?;
        let ns = ns_of(name);
        match p.head() {
            "val" => self.ty_in(&p.args()[0], &ns),
            "ref" => self.ty_in(&p.args()[1], &ns),
            _ => None,
        }
    }
}


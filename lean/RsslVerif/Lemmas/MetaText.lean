import RsslVerif.Spec.Meta
/-! Reading a printed binding annotation back gives the annotation (character level). -/
namespace RsslVerif.Lemmas.Meta
open RsslVerif.Gen.SlotTables RsslVerif.Gen.MetaTables RsslVerif.Model.Slots RsslVerif.Model.Meta RsslVerif.Spec.Meta

theorem expect_append (p s : List Char) : expect p (p ++ s) = some s := by
  induction p with
  | nil => rfl
  | cons c cs ih => simp [expect, ih]

def headNotDigit (s : List Char) : Prop := ∀ c, s.head? = some c → c.isDigit = false

theorem readDigits_append (ds : List Char) (hd : ∀ c ∈ ds, c.isDigit = true) (rest : List Char)
    (hr : headNotDigit rest) (acc : Nat) :
    readDigits (ds ++ rest) acc = (Nat.ofDigitChars 10 ds acc, rest) := by
  induction ds generalizing acc with
  | nil =>
    cases rest with
    | nil => rfl
    | cons c cs =>
      have : c.isDigit = false := hr c rfl
      simp [readDigits, this]
  | cons d ds ih =>
    have h1 : d.isDigit = true := hd d (by simp)
    simp only [List.cons_append, readDigits, h1, if_true, Nat.ofDigitChars_cons]
    exact ih (fun c hc => hd c (by simp [hc])) _

theorem readNat_digits (n : Nat) (rest : List Char) (hr : headNotDigit rest) :
    readNat (digits n ++ rest) = some (n, rest) := by
  have hne : digits n ≠ [] := Nat.toDigits_ne_nil
  have hall : ∀ c ∈ digits n, c.isDigit = true := fun c hc =>
    Nat.isDigit_of_mem_toDigits (by decide) (by decide) hc
  cases hds : digits n with
  | nil => exact absurd hds hne
  | cons d ds =>
    have h1 : d.isDigit = true := hall d (by simp [hds])
    have := readDigits_append (digits n) hall rest hr 0
    rw [hds] at this
    simp only [List.cons_append, readNat, h1, if_true]
    rw [← List.cons_append, this, ← hds]
    simp [digits]

theorem expect_self (p : List Char) : expect p p = some [] := by
  have := expect_append p []; simpa using this

theorem readLetter_regLetter (r : RegT) : readLetter (regLetter r) = some r := by
  cases r <;> decide

theorem hnd_close : headNotDigit regClose.toList := by
  intro c h; simp [regClose] at h; subst h; decide

theorem hnd_sep (s : List Char) : headNotDigit (regSep.toList ++ s) := by
  intro c h; simp [regSep] at h; subst h; decide

theorem expect_close_sep (s : List Char) : expect regClose.toList (regSep.toList ++ s) = none := by
  simp [regClose, regSep, expect]

theorem readReg_printReg (r : RegT) (i s : Nat) : readReg (printReg r i s) = some (.reg r i s) := by
  unfold printReg readReg
  by_cases hs : s = 0
  · subst hs
    simp only [ne_eq, not_true_eq_false, if_false, List.append_nil, List.append_assoc, expect_append,
      List.cons_append, List.nil_append, readLetter_regLetter]
    rw [readNat_digits i _ hnd_close]
    simp [expect_self]
  · simp only [ne_eq, hs, not_false_eq_true, if_true, List.append_assoc, expect_append,
      List.cons_append, List.nil_append, readLetter_regLetter]
    rw [readNat_digits i _ (hnd_sep _)]
    simp only [expect_close_sep]
    rw [← List.append_assoc regSep.toList, expect_append]
    simp only []
    rw [readNat_digits s _ hnd_close]
    simp

theorem hnd_lit (c : Char) (s : List Char) (h : c.isDigit = false) : headNotDigit (c :: s) := by
  intro d hd; simp at hd; subst hd; exact h

theorem hnd_rp (s : List Char) : headNotDigit (")]]".toList ++ s) := by
  intro c h; simp at h; subst h; decide
theorem hnd_rp' : headNotDigit (")]]".toList) := by
  intro c h; simp at h; subst h; decide
theorem hnd_cs (s : List Char) : headNotDigit (", ".toList ++ s) := by
  intro c h; simp at h; subst h; decide

theorem readVk_printVk (i s : Nat) : readVk (printVk i s) = some (.vk i s) := by
  unfold printVk readVk
  by_cases hs : s = 0
  · subst hs
    simp only [ne_eq, not_true_eq_false, if_false, List.append_nil, List.append_assoc, expect_append]
    rw [readNat_digits i _ hnd_rp']
    simp
  · simp only [ne_eq, hs, not_false_eq_true, if_true, List.append_assoc, expect_append]
    rw [readNat_digits i _ (hnd_cs _)]
    have : (", ".toList ++ (digits s ++ ")]]".toList) = ")]]".toList) = False := by simp
    simp only [this, if_false, expect_append]
    rw [readNat_digits s _ hnd_rp']
    simp

theorem readWholeNat_digits (n : Nat) : readWholeNat (digits n) = some n := by
  have := readNat_digits n [] (by intro c h; simp at h)
  simp only [List.append_nil] at this
  simp [readWholeNat, this]

theorem readOffset_print (o s : Nat) : readOffset (inlineStructName s) (printOffset o) = some (.offset o s) := by
  unfold readOffset inlineStructName printOffset
  simp only [List.append_assoc, expect_append, readWholeNat_digits]
  rw [readNat_digits o _ hnd_rp']
  simp

theorem readId_print (i s : Nat) (hs : s < argumentBufferNames.length) :
    readId ((argumentBufferNames.getD s "").toList) (printId i) = some (.id i s) := by
  unfold readId printId
  simp only [List.append_assoc, expect_append]
  rw [readNat_digits i _ hnd_rp']
  have h4 : s = 0 ∨ s = 1 ∨ s = 2 ∨ s = 3 := by
    simp [argumentBufferNames] at hs; omega
  simp only [if_true]
  have hf : ∀ g, g < 4 → List.findIdx? (fun n => decide (n.toList = (argumentBufferNames.getD g "").toList)) argumentBufferNames = some g := by decide
  rcases h4 with rfl | rfl | rfl | rfl <;> rw [hf _ (by decide)]

theorem expect_head_ne (c d : Char) (cs ds : List Char) (h : c ≠ d) : expect (c :: cs) (d :: ds) = none := by
  simp [expect, h]

theorem vk_head (x : List Char) : "[[vk::binding(".toList ++ x = '[' :: ("[vk::binding(".toList ++ x) := by simp

theorem readReg_printVk (i s : Nat) : readReg (printVk i s) = none := by
  have h1 : regOpen.toList = ' ' :: [':', ' ', 'r', 'e', 'g', 'i', 's', 't', 'e', 'r', '('] := by simp [regOpen]
  unfold readReg printVk
  rw [h1, List.append_assoc, List.append_assoc, vk_head, expect_head_ne _ _ _ _ (by decide)]

theorem inlineStructName_ne (s : Nat) : inlineStructName s ≠ [] := by
  unfold inlineStructName
  have : "InlineDescriptor".toList ++ digits s = 'I' :: ("nlineDescriptor".toList ++ digits s) := by simp
  rw [this]; exact List.cons_ne_nil _ _

theorem argbuf_facts : ∀ g, g < 4 →
    (argumentBufferNames.getD g "").toList ≠ [] ∧
    expect "InlineDescriptor".toList (argumentBufferNames.getD g "").toList = none := by decide

/-- Reading the printed form of any annotation gives the annotation back
    (Metal: for the bind groups that have an argument buffer struct name). -/
theorem readAnnot_print (a : Annot) (hid : ∀ i s, a = .id i s → s < argumentBufferNames.length) :
    readAnnot a.print = some a := by
  cases a with
  | reg r i s => simp [Annot.print, readAnnot, readReg_printReg]
  | vk i s => simp [Annot.print, readAnnot, readReg_printVk, readVk_printVk]
  | offset o s => simp [Annot.print, readAnnot, inlineStructName_ne, readOffset_print]
  | id i s =>
    have hs := hid i s rfl
    have hs4 : s < 4 := by simpa [argumentBufferNames] using hs
    obtain ⟨h1, h2⟩ := argbuf_facts s hs4
    have hro : readOffset (argumentBufferNames.getD s "").toList (printId i) = none := by
      unfold readOffset; rw [h2]
    unfold readAnnot Annot.print
    simp only []
    rw [if_neg h1, hro, readId_print i s hs]
    rfl

end RsslVerif.Lemmas.Meta

import RsslVerif.Spec.HlslUsualConv
/-! Finite facts about `Model.ConstBinop.commonTy` (every operator × every pair of operand shapes), decided by evaluation. -/
namespace RsslVerif.Lemmas.ConstBinop
open RsslVerif.Gen.RankTable RsslVerif.Gen.TypingTables RsslVerif.Model.ConstBinop
open RsslVerif.Spec

/-- pairs on which the pinned code does not choose the specified type (see `Thm.C13.binop_common_type_as_specified_partial`) -/
def deviates (l r : OpShape) : Bool :=
  let one (a b : OpShape) : Bool :=
    (a = .scalar .intLiteral ∧ (b = .scalar .bool ∨ b = .enumInt ∨ b = .enumUInt)) ∨
    (a = .enumUInt ∧ (b = .scalar .bool ∨ b = .scalar .int32))
  one l r || one r l

theorem binOp_mem_all (b : BinOp) : b ∈ BinOp.all := by cases b <;> decide

theorem shape_mem_all (s : OpShape) : s ∈ OpShape.all := by
  cases s with
  | scalar s => cases s <;> decide
  | enumInt => decide
  | enumUInt => decide

theorem commonTy_table :
    ∀ op ∈ BinOp.all, ∀ l ∈ OpShape.all, ∀ r ∈ OpShape.all,
      HlslUsualConv.sameEnum l r = true → deviates l r = false → commonTy op l r = HlslUsualConv.commonTy op l r := by
  decide +kernel

/-- on the excluded literal pairs the code converts the typed operand *to the untyped literal kind* (a conversion the
    constant folder has no rule for and the front end refuses for enums): never another typed kind -/
theorem commonTy_literal_pairs :
    ∀ op ∈ BinOp.all, ∀ s ∈ [OpShape.scalar .bool, .enumInt, .enumUInt], ∀ t, 
      (commonTy op (.scalar .intLiteral) s = some t ∨ commonTy op s (.scalar .intLiteral) = some t) →
      t = .scalar .intLiteral ∨ (op.shortCircuit = true ∧ t = .scalar .bool) := by
  intro op hop s hs t
  have key : ∀ op ∈ BinOp.all, ∀ s ∈ [OpShape.scalar .bool, .enumInt, .enumUInt],
      (commonTy op (.scalar .intLiteral) s = none ∨ commonTy op (.scalar .intLiteral) s = some (.scalar .intLiteral) ∨
        (op.shortCircuit = true ∧ commonTy op (.scalar .intLiteral) s = some (.scalar .bool))) ∧
      (commonTy op s (.scalar .intLiteral) = none ∨ commonTy op s (.scalar .intLiteral) = some (.scalar .intLiteral) ∨
        (op.shortCircuit = true ∧ commonTy op s (.scalar .intLiteral) = some (.scalar .bool))) := by decide +kernel
  have k := key op hop s hs
  rintro (h | h)
  · rcases k.1 with k | k | ⟨k1, k2⟩
    · rw [k] at h; cases h
    · rw [k] at h; cases h; exact .inl rfl
    · rw [k2] at h; cases h; exact .inr ⟨k1, rfl⟩
  · rcases k.2 with k | k | ⟨k1, k2⟩
    · rw [k] at h; cases h
    · rw [k] at h; cases h; exact .inl rfl
    · rw [k2] at h; cases h; exact .inr ⟨k1, rfl⟩

end RsslVerif.Lemmas.ConstBinop

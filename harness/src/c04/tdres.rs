//! C04.fix `tdr:<seed>` — resources and resource arrays declared THROUGH TYPEDEFS (round `w12-c04`, seeded mutant C04-7).
//!
//! Why: the exporter prints no typedef — `typedef Texture2D<float4> TextureTable[4]; TextureTable g;` is emitted as the direct
//! array `Texture2D<float4> g[4] : register(t0);`.  The two spellings have different layer chains (`const(array(obj))` for the
//! typedef'd one — the implicit const of an extern global wraps the NAMED type — and `array(const(obj))` for the direct one),
//! so the second generation runs `assign_api_bindings`' peel (modifier, sized array layer, modifier) over another chain than
//! the first one did: every slot stays where it was only if the peel sees the same kind and length through both.
//!
//! Program (all choices from the seed):
//! * 1..3 typedef families over an object type of the 14-type pool:
//!   `typedef [const] <obj> TO<i>;` (1 in 2), `typedef [const] <obj | TO<i>> TA<i>[n];`, 0..2 alias steps
//!   `typedef [const] <prev> TC<i>_<j>;` (a typedef of a typedef of an array);
//! * optionally a cbuffer (with / without `register(b..)`) in front, between or after;
//! * 3..8 resources, each with a spelling
//!     direct            `<obj> g;`
//!     direct-array      `<obj> g[n];`
//!     obj-typedef       `TO g;`
//!     obj-typedef-array `TO g[n];`
//!     array-typedef     `TA g;`                 <- const OUTSIDE the array layer
//!     alias-chain       `TC_j g;`               <- the same through further typedefs (const merged or added on the way)
//!   optionally `const` in front, and an attribute: none | `[[rssl::bind_group(k)]]` | `register(<letter><i>)` |
//!   `register(<letter><i>, space<k>)` | `register(space<k>)`; a register annotation on a declaration whose type is an array
//!   typedef is refused by the front end (the register class is looked up on the base type), so it is written 1 time in 30 only;
//!   directly declared and typedef'd resources are mixed, so that a resource that loses its slots moves every follower;
//! * a function that reads / writes some of the resources (element access through the typedef'd array).
//!
//! Oracle: the property's own (emitted text accepted, second text byte-identical, every slot kept) — `run_one` of c04.rs.
use crate::util::*;

const OBJS: [(&str, &str); 14] = [
    ("Texture2D<float4>", "t"), ("RWTexture2D<float4>", "u"), ("StructuredBuffer<float4>", "t"),
    ("RWStructuredBuffer<uint>", "u"), ("ByteAddressBuffer", "t"), ("RWByteAddressBuffer", "u"),
    ("Buffer<float4>", "t"), ("RWBuffer<float4>", "u"), ("SamplerState", "s"), ("Texture3D<float4>", "t"),
    ("TextureCube<float4>", "t"), ("Texture2DArray<float4>", "t"), ("SamplerComparisonState", "s"),
    ("RaytracingAccelerationStructure", "t"),
];

struct Family {
    obj: usize,
    /// name of the object typedef, if written
    to: Option<String>,
    /// name and length of the array typedef
    ta: (String, u64),
    /// alias names (last = outermost)
    aliases: Vec<String>,
}

/// one statement that uses resource `name` (element `idx` of an array), if the pool type has a simple use
fn use_of(obj: &str, name: &str, idx: Option<u64>) -> Option<String> {
    let e = match idx {
        Some(i) => format!("{}[{}]", name, i),
        None => name.to_string(),
    };
    match obj {
        "Texture2D<float4>" => Some(format!("    acc += {}.Load(int3(0, 0, 0)).x;\n", e)),
        "ByteAddressBuffer" => Some(format!("    acc += asfloat({}.Load(0));\n", e)),
        "RWByteAddressBuffer" => Some(format!("    {}.Store(0, 1u);\n", e)),
        "RWStructuredBuffer<uint>" => Some(format!("    {}[0] = 1u;\n", e)),
        "StructuredBuffer<float4>" => Some(format!("    acc += {}[0].x;\n", e)),
        "Buffer<float4>" => Some(format!("    acc += {}[0].x;\n", e)),
        _ => None,
    }
}

pub fn generate(rng: &mut Rng, hist: &mut Hist) -> String {
    let mut s = String::new();
    let nfam = 1 + rng.below(3) as usize;
    let mut fams: Vec<Family> = Vec::new();
    for i in 0..nfam {
        let obj = rng.below(OBJS.len() as u64) as usize;
        let c = |rng: &mut Rng| if rng.chance(1, 4) { "const " } else { "" };
        let to = if rng.chance(1, 2) {
            let n = format!("TO{}", i);
            s.push_str(&format!("typedef {}{} {};\n", c(rng), OBJS[obj].0, n));
            Some(n)
        } else {
            None
        };
        let len = rng.range(1, 5) as u64;
        let ta = format!("TA{}", i);
        let elem = match (&to, rng.chance(2, 3)) {
            (Some(n), true) => n.clone(),
            _ => OBJS[obj].0.to_string(),
        };
        s.push_str(&format!("typedef {}{} {}[{}];\n", c(rng), elem, ta, len));
        let mut aliases = Vec::new();
        let mut prev = ta.clone();
        for j in 0..rng.below(3) {
            let n = format!("TC{}_{}", i, j);
            s.push_str(&format!("typedef {}{} {};\n", c(rng), prev, n));
            prev = n.clone();
            aliases.push(n);
        }
        fams.push(Family { obj, to, ta: (ta, len), aliases });
    }
    let nres = 3 + rng.below(6) as usize;
    let cb_at = if rng.chance(1, 2) { Some(rng.below(nres as u64 + 1) as usize) } else { None };
    let mut uses = String::new();
    let mut any_td = false;
    for k in 0..=nres {
        if cb_at == Some(k) {
            let reg = if rng.chance(1, 2) { format!(" : register(b{})", rng.below(3)) } else { String::new() };
            s.push_str(&format!("cbuffer Params{}\n{{\n    float4 c_color;\n}}\n", reg));
            hist.add("tdr:cbuffer");
        }
        if k == nres {
            break;
        }
        let name = format!("g_r{}", k);
        // make sure every program has at least one array typedef'd resource, not in the last position
        let mut spell = rng.below(9);
        if k + 2 == nres && !any_td {
            spell = 4;
        }
        let f = &fams[rng.below(fams.len() as u64) as usize];
        let (obj_i, ty, dim, via_arr_td): (usize, String, Option<u64>, bool) = match spell {
            0 => {
                hist.add("tdr:spell:direct");
                let o = rng.below(OBJS.len() as u64) as usize;
                (o, OBJS[o].0.to_string(), None, false)
            }
            1 => {
                hist.add("tdr:spell:direct-array");
                let o = rng.below(OBJS.len() as u64) as usize;
                (o, OBJS[o].0.to_string(), Some(rng.range(1, 4) as u64), false)
            }
            2 if f.to.is_some() => {
                hist.add("tdr:spell:obj-typedef");
                (f.obj, f.to.clone().unwrap(), None, false)
            }
            3 if f.to.is_some() => {
                hist.add("tdr:spell:obj-typedef-array");
                (f.obj, f.to.clone().unwrap(), Some(rng.range(1, 4) as u64), false)
            }
            6 | 7 | 8 if !f.aliases.is_empty() => {
                hist.add("tdr:spell:alias-chain");
                any_td = true;
                (f.obj, rng.pick(&f.aliases).clone(), None, true)
            }
            _ => {
                hist.add("tdr:spell:array-typedef");
                any_td = true;
                (f.obj, f.ta.0.clone(), None, true)
            }
        };
        let letter = OBJS[obj_i].1;
        let mut line = String::new();
        let attr = rng.below(12);
        let reg_ok = !via_arr_td || rng.chance(1, 30);
        match attr {
            0 | 1 | 2 => {
                hist.add("tdr:attr:bind-group");
                line.push_str(&format!("[[rssl::bind_group({})]] ", rng.below(3)));
            }
            _ => {}
        }
        if rng.chance(1, 5) {
            hist.add("tdr:const-keyword");
            line.push_str("const ");
        }
        line.push_str(&format!("{} {}", ty, name));
        if let Some(n) = dim {
            line.push_str(&format!("[{}]", n));
        }
        match attr {
            3 | 4 if reg_ok => {
                hist.add(if via_arr_td { "tdr:attr:register-on-array-typedef" } else { "tdr:attr:register" });
                line.push_str(&format!(" : register({}{})", letter, rng.below(6)));
            }
            5 if reg_ok => {
                hist.add(if via_arr_td { "tdr:attr:register-on-array-typedef" } else { "tdr:attr:register-space" });
                line.push_str(&format!(" : register({}{}, space{})", letter, rng.below(6), rng.below(3)));
            }
            6 if reg_ok => {
                hist.add(if via_arr_td { "tdr:attr:register-on-array-typedef" } else { "tdr:attr:space-only" });
                line.push_str(&format!(" : register(space{})", rng.below(3)));
            }
            0 | 1 | 2 => {}
            _ => hist.add("tdr:attr:none"),
        }
        line.push_str(";\n");
        s.push_str(&line);
        if rng.chance(2, 3) {
            let idx = if via_arr_td { Some(rng.below(f.ta.1)) } else { dim.map(|n| rng.below(n)) };
            if let Some(u) = use_of(OBJS[obj_i].0, &name, idx) {
                uses.push_str(&u);
            }
        }
    }
    s.push_str("float work()\n{\n    float acc = 0.0f;\n");
    s.push_str(&uses);
    s.push_str("    return acc;\n}\n");
    s
}

pub fn source(seed: u64) -> String {
    generate(&mut Rng::new(seed), &mut Hist::default())
}

/// fixed programs of the class (demo inputs of seeded mutant C04-7 and their siblings): corpus / search list
pub fn fixed_sources() -> Vec<String> {
    vec![
        "typedef Texture2D<float4> TextureTable[4];\nTextureTable g_table;\nTexture2D<float4> g_plain[2];\nRWStructuredBuffer<uint> g_out;\nByteAddressBuffer g_after;\n\
         void main(uint3 id : SV_DispatchThreadID) {\n    g_out[id.x] = asuint(g_table[3].Load(int3(0, 0, 0)).x + g_plain[1].Load(int3(0, 0, 0)).x) + g_after.Load(0);\n}\n"
            .to_string(),
        "typedef RWByteAddressBuffer Outputs[3];\n[[rssl::bind_group(2)]] Outputs g_outputs;\nRWByteAddressBuffer g_single : register(space2);\nByteAddressBuffer g_input;\n\
         void main(uint3 id : SV_DispatchThreadID) {\n    g_outputs[2].Store(id.x * 4, g_input.Load(id.x * 4));\n    g_single.Store(0, 1);\n}\n"
            .to_string(),
        "typedef Texture2D<float4> TextureTable[4];\ntypedef const TextureTable CT;\ntypedef CT CT2;\ntypedef RWByteAddressBuffer RB;\ntypedef RB RBA[3];\n\
         TextureTable g_table;\nCT2 g_ct;\nconst TextureTable g_ct3;\n[[rssl::bind_group(2)]] RBA g_outs;\nRB g_one : register(u7, space1);\nRB g_arr2[2] : register(u1);\n\
         Texture2D<float4> g_plain[2];\nRWStructuredBuffer<uint> g_out;\nByteAddressBuffer g_after;\n"
            .to_string(),
        "typedef const SamplerState CS;\ntypedef CS SA[2];\nSamplerState s_first;\nSA s_table;\nSamplerState s_after;\ncbuffer P { float4 c; }\nSA s_more;\nTexture2D<float4> t_after;\n".to_string(),
    ]
}

pub const CONST_TAG: &str = "[tdr: element-const-of-typedef-array-printed-once]";

/// Known class (genuine defect of the exporter, notes/C04.md finding 9): the `const` a typedef put on the ELEMENT type of a
/// typedef'd resource array (`typedef const T CS; typedef CS SA[n]; SA g;` — chain const(array(const(obj)))) is printed
/// (`const T g[n] : register(..)`: generate_type_impl suppresses the implicit const of the outer modifier layer only) and,
/// read back, merges with the implicit const of the extern global and is not printed again.  Judged on the two emitted
/// texts alone: a line pair of the class differs by exactly a leading `const ` on a global array declaration with a
/// register annotation.  Returns (number of line pairs of the class, first differing line pair NOT of the class).
pub fn split_const_lines(a: &str, b: &str) -> (usize, Option<String>) {
    if a.lines().count() != b.lines().count() {
        return (0, Some(super::first_diff(a, b)));
    }
    let mut n = 0;
    let mut other = None;
    for (i, (la, lb)) in a.lines().zip(b.lines()).enumerate() {
        if la == lb {
            continue;
        }
        let of_class = !la.starts_with(' ')
            && la.strip_prefix("const ") == Some(lb)
            && lb.contains('[')
            && lb.contains("] : register(")
            && lb.ends_with(");");
        if of_class {
            n += 1;
        } else if other.is_none() {
            other = Some(format!("line {}: `{}` became `{}`", i + 1, la.trim(), lb.trim()));
        }
    }
    (n, other)
}

import RsslVerif.Model.Names
import Std.Data.String.ToNat
/-!
Lemmas about the model of `NameMap::build`: candidate injectivity, the candidate loops (result is fresh,
fuel suffices), and the per-scope invariants behind `injective_per_scope` / `never_reserved`.
-/
namespace RsslVerif.Lemmas.Names
open RsslVerif.Model.Names

/-! ## candidates -/

theorem cand_inj {n : String} {i j : Nat} (h : cand n i = cand n j) : i = j := by
  unfold cand at h
  have h2 := (String.append_right_inj (n ++ "_")).mp h
  simp only [Nat.toString_eq_repr] at h2
  exact Nat.repr_injective h2

/-! ## the scope loop -/

theorem firstFree_not_mem {used : List String} {n : String} :
    ∀ (fuel k : Nat) {c : String}, firstFree used n fuel k = .ok c → c ∉ used := by
  intro fuel
  induction fuel with
  | zero => intro k c h; simp [firstFree] at h
  | succ f ih =>
    intro k c h
    unfold firstFree at h
    split at h
    · exact ih (k + 1) h
    · rename_i hc
      cases h
      simpa using hc

theorem firstFree_is_cand {used : List String} {n : String} :
    ∀ (fuel k : Nat) {c : String}, firstFree used n fuel k = .ok c →
      ∃ j, k ≤ j ∧ c = cand n j ∧ ∀ i, k ≤ i → i < j → cand n i ∈ used := by
  intro fuel
  induction fuel with
  | zero => intro k c h; simp [firstFree] at h
  | succ f ih =>
    intro k c h
    unfold firstFree at h
    split at h
    · rename_i hc
      obtain ⟨j, hj, hcj, hall⟩ := ih (k + 1) h
      refine ⟨j, by omega, hcj, ?_⟩
      intro i hki hij
      by_cases hik : i = k
      · subst hik; simpa using hc
      · exact hall i (by omega) hij
    · cases h
      exact ⟨k, Nat.le_refl k, rfl, fun i h1 h2 => absurd h2 (by omega)⟩

/-- pigeonhole, in the form needed: if `cand n k … cand n (k+m-1)` are all in `used` (and the candidates are
pairwise different) then `m ≤ used.length` -/
theorem run_le_length (n : String) :
    ∀ (m : Nat) (used : List String) (k : Nat), (∀ i, k ≤ i → i < k + m → cand n i ∈ used) → m ≤ used.length := by
  intro m
  induction m with
  | zero => intros; omega
  | succ m ih =>
    intro used k h
    have hk : cand n k ∈ used := h k (Nat.le_refl k) (by omega)
    have h' : ∀ i, k + 1 ≤ i → i < (k + 1) + m → cand n i ∈ used.erase (cand n k) := by
      intro i h1 h2
      have hi : cand n i ∈ used := h i (by omega) (by omega)
      have hne : cand n i ≠ cand n k := fun e => by have := cand_inj e; omega
      exact (List.mem_erase_of_ne hne).mpr hi
    have := ih (used.erase (cand n k)) (k + 1) h'
    rw [List.length_erase_of_mem hk] at this
    have hpos : 0 < used.length := List.length_pos_of_mem hk
    omega

/-- the Rust `loop` terminates: with fuel `used.length + 1` the model never reports `"fuel"`;
fuel sufficiency, stated on the start state the model uses -/
theorem firstFree_total (used : List String) (n : String) :
    ∃ c, firstFree used n (used.length + 1) 0 = .ok c := by
  -- generalised: from counter k with `fuel`, if the first `k` candidates are all used and k + fuel = length + 1
  have gen : ∀ (fuel k : Nat), k + fuel = used.length + 1 → (∀ i, i < k → cand n i ∈ used) →
      ∃ c, firstFree used n fuel k = .ok c := by
    intro fuel
    induction fuel with
    | zero =>
      intro k hk hall
      have := run_le_length n k used 0 (fun i _ h2 => hall i (by omega))
      omega
    | succ f ih =>
      intro k hk hall
      unfold firstFree
      split
      · rename_i hc
        apply ih (k + 1) (by omega)
        intro i hi
        by_cases hik : i = k
        · subst hik; simpa using hc
        · exact hall i (by omega)
      · exact ⟨_, rfl⟩
  exact gen (used.length + 1) 0 (by omega) (fun i hi => absurd hi (by omega))

/-! ## per-scope invariants -/

/-- invariant of the per-scope loop: the reserved names stay in `used_names`, every assigned name is in
`used_names`, is not reserved, and the assigned names are pairwise different -/
structure Inv (reserved : List String) (st : St) : Prop where
  res_sub : ∀ r, r ∈ reserved → r ∈ st.used
  out_used : ∀ p, p ∈ st.out → p.2 ∈ st.used
  out_fresh : ∀ p, p ∈ st.out → p.2 ∉ reserved
  out_distinct : st.out.Pairwise (fun a b => a.2 ≠ b.2)
  gen_used : ∀ g, g ∈ st.gen → g ∈ st.used

theorem inv_init (reserved : List String) : Inv reserved ⟨reserved, [], []⟩ :=
  ⟨fun _ h => h, by simp, by simp, by simp, by simp⟩

theorem assignSym_inv {reserved : List String} {name : String} {single : Bool} {st st' : St} {s : Sym}
    (hinv : Inv reserved st) (h : assignSym name single st s = .ok st') : Inv reserved st' := by
  unfold assignSym at h
  split at h
  · rename_i hc
    cases h
    have hfree : name ∉ st.used := by
      simp only [Bool.and_eq_true, Bool.not_eq_eq_eq_not, Bool.not_true] at hc
      simpa using hc.2
    refine ⟨?_, ?_, ?_, ?_, ?_⟩
    · intro r hr; exact List.mem_cons_of_mem _ (hinv.res_sub r hr)
    · intro p hp
      rcases List.mem_append.mp hp with hp | hp
      · exact List.mem_cons_of_mem _ (hinv.out_used p hp)
      · simp at hp; subst hp; simp
    · intro p hp
      rcases List.mem_append.mp hp with hp | hp
      · exact hinv.out_fresh p hp
      · simp at hp; subst hp
        exact fun hr => hfree (hinv.res_sub _ hr)
    · rw [List.pairwise_append]
      refine ⟨hinv.out_distinct, by simp, ?_⟩
      intro a ha b hb
      simp at hb; subst hb
      intro e
      have e' : a.2 = name := e
      exact hfree (e' ▸ hinv.out_used a ha)
    · intro g hg; exact List.mem_cons_of_mem _ (hinv.gen_used g hg)
  · split at h
    · rename_i c hff
      cases h
      have hfree : c ∉ st.used := firstFree_not_mem _ _ hff
      refine ⟨?_, ?_, ?_, ?_, ?_⟩
      · intro r hr; exact List.mem_cons_of_mem _ (hinv.res_sub r hr)
      · intro p hp
        rcases List.mem_append.mp hp with hp | hp
        · exact List.mem_cons_of_mem _ (hinv.out_used p hp)
        · simp at hp; subst hp; simp
      · intro p hp
        rcases List.mem_append.mp hp with hp | hp
        · exact hinv.out_fresh p hp
        · simp at hp; subst hp
          exact fun hr => hfree (hinv.res_sub _ hr)
      · rw [List.pairwise_append]
        refine ⟨hinv.out_distinct, by simp, ?_⟩
        intro a ha b hb
        simp at hb; subst hb
        intro e
        have e' : a.2 = c := e
        exact hfree (e' ▸ hinv.out_used a ha)
      · intro g hg
        rcases List.mem_cons.mp hg with hg | hg
        · subst hg; simp
        · exact List.mem_cons_of_mem _ (hinv.gen_used g hg)
    · cases h

theorem assignSyms_inv {reserved : List String} {name : String} {single : Bool} :
    ∀ (syms : List Sym) {st st' : St}, Inv reserved st → assignSyms name single st syms = .ok st' → Inv reserved st' := by
  intro syms
  induction syms with
  | nil => intro st st' hinv h; simp [assignSyms] at h; subst h; exact hinv
  | cons s r ih =>
    intro st st' hinv h
    unfold assignSyms at h
    split at h
    · rename_i st1 h1
      exact ih (assignSym_inv hinv h1) h
    · cases h

theorem assignGroups_inv {reserved : List String} :
    ∀ (gs : List (String × List Sym)) {st st' : St}, Inv reserved st → assignGroups st gs = .ok st' → Inv reserved st' := by
  intro gs
  induction gs with
  | nil => intro st st' hinv h; simp [assignGroups] at h; subst h; exact hinv
  | cons g r ih =>
    intro st st' hinv h
    unfold assignGroups at h
    split at h
    · rename_i st1 h1
      exact ih (assignSyms_inv _ hinv h1) h
    · cases h

/-! ## local pass -/

theorem firstFreeLocal_not_mem {al ua : List String} {n : String} :
    ∀ (fuel k : Nat) {c : String}, firstFreeLocal al ua n fuel k = .ok c → c ∉ ua ∧ c ∉ al := by
  intro fuel
  induction fuel with
  | zero => intro k c h; simp [firstFreeLocal] at h
  | succ f ih =>
    intro k c h
    unfold firstFreeLocal at h
    split at h
    · rename_i hc
      cases h
      simp only [Bool.and_eq_true, Bool.not_eq_eq_eq_not, Bool.not_true] at hc
      exact ⟨by simpa using hc.2, by simpa using hc.1⟩
    · exact ih (k + 1) h

/-- every name the local pass picks is outside the set it started from (⊇ reserved) -/
theorem assignLocals_not_mem {al : List String} :
    ∀ (ls : List String) {ua out : List String}, assignLocals al ua ls = .ok out →
      ∀ x, x ∈ out → x ∉ ua := by
  intro ls
  induction ls with
  | nil => intro ua out h x hx; simp [assignLocals] at h; subst h; simp at hx
  | cons n r ih =>
    intro ua out h x hx
    unfold assignLocals at h
    split at h
    · split at h
      · cases h
      · rename_i c hc
        split at h
        · cases h
        · rename_i rest hrest
          cases h
          rcases List.mem_cons.mp hx with hx | hx
          · subst hx; exact (firstFreeLocal_not_mem _ _ hc).1
          · intro hmem
            exact ih hrest x hx (List.mem_cons_of_mem _ hmem)
    · rename_i hn
      split at h
      · cases h
      · rename_i rest hrest
        cases h
        rcases List.mem_cons.mp hx with hx | hx
        · subst hx; simpa using hn
        · exact ih hrest x hx

/-! ## the sorted key vector -/

theorem mem_insertSorted {n x : String} : ∀ {l : List String}, x ∈ insertSorted n l ↔ x = n ∨ x ∈ l := by
  intro l
  induction l with
  | nil => simp [insertSorted]
  | cons m r ih =>
    unfold insertSorted
    split
    · simp
    · simp only [List.mem_cons, ih]
      constructor
      · rintro (h | h | h)
        · exact Or.inr (Or.inl h)
        · exact Or.inl h
        · exact Or.inr (Or.inr h)
      · rintro (h | h | h)
        · exact Or.inr (Or.inl h)
        · exact Or.inl h
        · exact Or.inr (Or.inr h)

theorem mem_sortedNames {x : String} : ∀ {xs : List String}, x ∈ sortedNames xs ↔ x ∈ xs := by
  intro xs
  induction xs with
  | nil => simp [sortedNames]
  | cons a r ih =>
    have hunf : sortedNames (a :: r) =
        if (sortedNames r).contains a then sortedNames r else insertSorted a (sortedNames r) := rfl
    rw [hunf]
    split
    · rename_i hc
      have ha : a ∈ sortedNames r := by simpa using hc
      simp only [List.mem_cons, ih]
      constructor
      · exact Or.inr
      · rintro (h | h)
        · subst h; exact ih.mp ha
        · exact h
    · simp only [mem_insertSorted, ih, List.mem_cons]

/-! ## verbatim: a group of one symbol whose name is free keeps it -/

theorem assignSym_out_mono {name : String} {single : Bool} {st st' : St} {s : Sym}
    (h : assignSym name single st s = .ok st') : ∀ p, p ∈ st.out → p ∈ st'.out := by
  unfold assignSym at h
  split at h
  · cases h; intro p hp; exact List.mem_append_left _ hp
  · split at h
    · cases h; intro p hp; exact List.mem_append_left _ hp
    · cases h

theorem assignSym_used {name : String} {single : Bool} {st st' : St} {s : Sym}
    (h : assignSym name single st s = .ok st') :
    ∀ u, u ∈ st'.used → u ∈ st.used ∨ u = name ∨ ∃ k, u = cand name k := by
  unfold assignSym at h
  split at h
  · cases h
    intro u hu
    rcases List.mem_cons.mp hu with hu | hu
    · exact Or.inr (Or.inl hu)
    · exact Or.inl hu
  · split at h
    · rename_i c hc
      cases h
      intro u hu
      rcases List.mem_cons.mp hu with hu | hu
      · obtain ⟨j, _, hj, _⟩ := firstFree_is_cand _ _ hc
        exact Or.inr (Or.inr ⟨j, hu.trans hj⟩)
      · exact Or.inl hu
    · cases h

theorem assignSyms_out_mono {name : String} {single : Bool} :
    ∀ (syms : List Sym) {st st' : St}, assignSyms name single st syms = .ok st' → ∀ p, p ∈ st.out → p ∈ st'.out := by
  intro syms
  induction syms with
  | nil => intro st st' h p hp; simp [assignSyms] at h; subst h; exact hp
  | cons s r ih =>
    intro st st' h p hp
    unfold assignSyms at h
    split at h
    · rename_i st1 h1
      exact ih h p (assignSym_out_mono h1 p hp)
    · cases h

theorem assignSyms_used {name : String} {single : Bool} :
    ∀ (syms : List Sym) {st st' : St}, assignSyms name single st syms = .ok st' →
      ∀ u, u ∈ st'.used → u ∈ st.used ∨ u = name ∨ ∃ k, u = cand name k := by
  intro syms
  induction syms with
  | nil => intro st st' h u hu; simp [assignSyms] at h; subst h; exact Or.inl hu
  | cons s r ih =>
    intro st st' h u hu
    unfold assignSyms at h
    split at h
    · rename_i st1 h1
      rcases ih h u hu with h2 | h2
      · exact assignSym_used h1 u h2
      · exact Or.inr h2
    · cases h

theorem assignGroups_out_mono :
    ∀ (gs : List (String × List Sym)) {st st' : St}, assignGroups st gs = .ok st' → ∀ p, p ∈ st.out → p ∈ st'.out := by
  intro gs
  induction gs with
  | nil => intro st st' h p hp; simp [assignGroups] at h; subst h; exact hp
  | cons g r ih =>
    intro st st' h p hp
    unfold assignGroups at h
    split at h
    · rename_i st1 h1
      exact ih h p (assignSyms_out_mono _ h1 p hp)
    · cases h

/-- the group `(n, [sym])` keeps `n` when `n` is still free -/
theorem assignGroup_keep {n : String} {sym : Sym} {st st' : St}
    (h : assignGroup st (n, [sym]) = .ok st') (hfree : n ∉ st.used) : (sym, n) ∈ st'.out := by
  unfold assignGroup at h
  simp only [List.length_singleton, BEq.rfl] at h
  unfold assignSyms at h
  split at h
  · rename_i st1 h1
    simp [assignSyms] at h
    subst h
    unfold assignSym at h1
    have : (true && !st.used.contains n) = true := by simpa using hfree
    rw [if_pos this] at h1
    cases h1
    simp
  · cases h

/-- **per-scope verbatim**: if every group keyed `n` is `(n, [sym])`, no candidate of any key equals `n`, `n` is
not yet used, and a group keyed `n` is still to come (or `(sym, n)` is already assigned), then `(sym, n)` is in
the result -/
theorem assignGroups_keep {n : String} {sym : Sym} :
    ∀ (gs : List (String × List Sym)) {st st' : St}, assignGroups st gs = .ok st' →
      (∀ g, g ∈ gs → g.1 = n → g.2 = [sym]) → (∀ g, g ∈ gs → ∀ k, cand g.1 k ≠ n) →
      ((sym, n) ∈ st.out ∨ (n ∉ st.used ∧ ∃ g, g ∈ gs ∧ g.1 = n)) → (sym, n) ∈ st'.out := by
  intro gs
  induction gs with
  | nil =>
    intro st st' h _ _ hc
    simp [assignGroups] at h; subst h
    rcases hc with hc | ⟨_, g, hg, _⟩
    · exact hc
    · simp at hg
  | cons g r ih =>
    intro st st' h hgrp hcl hc
    unfold assignGroups at h
    split at h
    · rename_i st1 h1
      have hgrp' : ∀ g', g' ∈ r → g'.1 = n → g'.2 = [sym] := fun g' hg' => hgrp g' (List.mem_cons_of_mem _ hg')
      have hcl' : ∀ g', g' ∈ r → ∀ k, cand g'.1 k ≠ n := fun g' hg' => hcl g' (List.mem_cons_of_mem _ hg')
      apply ih h hgrp' hcl'
      rcases hc with hc | ⟨hfree, g0, hg0, hg0n⟩
      · exact Or.inl (assignSyms_out_mono _ h1 _ hc)
      · by_cases hgn : g.1 = n
        · -- this is the group of `n`
          left
          have h2 : g.2 = [sym] := hgrp g (List.mem_cons_self ..) hgn
          have hg : g = (n, [sym]) := by cases g; simp_all
          rw [hg] at h1
          exact assignGroup_keep h1 hfree
        · right
          refine ⟨?_, ?_⟩
          · intro hmem
            rcases assignSyms_used _ h1 n hmem with h3 | h3 | ⟨k, h3⟩
            · exact hfree h3
            · exact hgn h3.symm
            · exact hcl g (List.mem_cons_self ..) k h3.symm
          · rcases List.mem_cons.mp hg0 with e | hg0'
            · exact absurd (e ▸ hg0n) hgn
            · exact ⟨g0, hg0', hg0n⟩
    · cases h

/-- the groups of a scope: keys are exactly the names that occur, the symbols are the filter -/
theorem mem_groupsOf {syms : List (String × Sym)} {g : String × List Sym} :
    g ∈ groupsOf syms ↔ (∃ p, p ∈ syms ∧ p.1 = g.1) ∧ g.2 = (syms.filter (fun p => p.1 == g.1)).map (·.2) := by
  unfold groupsOf groupsOfKeys
  simp only [List.mem_map, mem_sortedNames]
  constructor
  · rintro ⟨a, ⟨p, hp, rfl⟩, rfl⟩
    exact ⟨⟨p, hp, rfl⟩, rfl⟩
  · rintro ⟨⟨p, hp, hpe⟩, h2⟩
    refine ⟨g.1, ⟨p, hp, hpe⟩, ?_⟩
    cases g
    simp_all

end RsslVerif.Lemmas.Names

import RsslVerif.Lemmas.ElabConv
/-! Lemmas for C03: the typing judgment is functional and agrees with `typeOf`; a node whose children are typed and on
which `get_type` succeeds is typed; every helper of the elaboration model builds nodes whose children are typed; the main
induction `elab_sound_aux`. Core Lean only. -/
namespace RsslVerif.Lemmas.Elab
open RsslVerif.Gen.RankTable RsslVerif.Gen.TypingTables RsslVerif.Model.Conv RsslVerif.Model.Overload
open RsslVerif.Model.IrTyping RsslVerif.Model.Elab RsslVerif.Lemmas.ElabConv

variable {Γ : Env}

mutual
/-- the judgment is functional and agrees with `Expression::get_type` -/
theorem typeOf_of_hasType : ∀ (e : IExpr) (τ : ETy), HasType Γ e τ → typeOf Γ e = .ok τ
  | .lit k, _, h => by cases h; simp [typeOf]
  | .var i, _, h => by cases h with | var hv => simp [typeOf, hv]
  | .tern c a b, _, h => by
    cases h with
    | tern hc ha hb hl => simp [typeOf, typeOf_of_hasType a _ ha, typeOf_of_hasType b _ hb, hl]
  | .seq a b, _, h => by
    cases h with
    | seq ha hb => simp [typeOf, typeOf_of_hasType b _ hb]
  | .call f args, _, h => by cases h with | call hf _ => simp [typeOf, hf]
  | .cast t e, _, h => by cases h; simp [typeOf]
  | .op o args, _, h => by
    cases h with
    | op ha hr => simp [typeOf, typesOf_of_hasArgs args _ ha, hr]
theorem typesOf_of_hasArgs : ∀ (as : IArgs) (ts : List ETy), HasArgs Γ as ts → typesOf Γ as = .ok ts
  | .nil, _, h => by cases h; simp [typesOf]
  | .cons e r, _, h => by
    cases h with
    | cons he hr => simp [typesOf, typeOf_of_hasType e _ he, typesOf_of_hasArgs r _ hr]
end

/-- every immediate sub-expression has a type -/
def ChildrenTyped (Γ : Env) : IExpr → Prop
  | .lit _ => True
  | .var _ => True
  | .tern c a b => (∃ t, HasType Γ c t) ∧ (∃ t, HasType Γ a t) ∧ (∃ t, HasType Γ b t)
  | .seq a b => (∃ t, HasType Γ a t) ∧ (∃ t, HasType Γ b t)
  | .call _ args => ∃ ts, HasArgs Γ args ts
  | .cast _ e => ∃ t, HasType Γ e t
  | .op _ args => ∃ ts, HasArgs Γ args ts

/-- a node whose children are typed and on which `get_type` succeeds is typed -/
theorem hasType_node {e : IExpr} {τ : ETy} (hc : ChildrenTyped Γ e) (h : typeOf Γ e = .ok τ) : HasType Γ e τ := by
  cases e with
  | lit k => simp [typeOf] at h; subst h; exact .lit k
  | var i =>
    simp only [typeOf] at h
    split at h
    · rename_i t ht; simp at h; subst h; exact .var ht
    · simp at h
  | tern c a b =>
    obtain ⟨⟨tc, hc'⟩, ⟨ta, ha⟩, ⟨tb, hb⟩⟩ := hc
    simp only [typeOf, typeOf_of_hasType a _ ha, typeOf_of_hasType b _ hb] at h
    split at h
    · rename_i hl; simp at h; subst h; exact .tern hc' ha hb hl
    · simp at h
  | seq a b =>
    obtain ⟨⟨ta, ha⟩, ⟨tb, hb⟩⟩ := hc
    simp only [typeOf, typeOf_of_hasType b _ hb] at h
    simp at h; subst h; exact .seq ha hb
  | call f args =>
    obtain ⟨ts, ha⟩ := hc
    simp only [typeOf] at h
    split at h
    · rename_i s hs; simp at h; subst h; exact .call hs ha
    · simp at h
  | cast t e =>
    obtain ⟨te, he⟩ := hc
    simp [typeOf] at h; subst h; exact .cast he
  | op o args =>
    obtain ⟨ts, ha⟩ := hc
    simp only [typeOf, typesOf_of_hasArgs args _ ha] at h
    exact .op ha h

theorem selfCheck_true {e e' : IExpr} {τ τ' : ETy} (h : selfCheck true Γ e τ = .ok (e', τ')) :
    e' = e ∧ τ' = τ ∧ typeOf Γ e = .ok τ := by
  simp only [selfCheck, if_true] at h
  split at h
  · simp at h
  · rename_i t ht
    split at h
    · rename_i heq; simp at h; subst heq; exact ⟨h.1.symm, h.2.symm, ht⟩
    · simp at h

theorem selfCheck_sound {e e' : IExpr} {τ τ' : ETy} (h : selfCheck true Γ e τ = .ok (e', τ'))
    (hc : ChildrenTyped Γ e) : HasType Γ e' τ' := by
  obtain ⟨rfl, rfl, ht⟩ := selfCheck_true h
  exact hasType_node hc ht

/-- `apply` keeps the expression typed: it is the operand itself, a literal, or a cast around the operand -/
theorem applyConv_typed {c : Conversion} {e e' : IExpr} (he : ∃ t, HasType Γ e t) (h : applyConv c e = .ok e') :
    ∃ t, HasType Γ e' t := by
  unfold applyConv at h
  obtain ⟨t, he⟩ := he
  split at h
  · simp at h; subst h; exact ⟨t, he⟩
  · split at h
    · simp at h
    · split at h
      · simp at h; subst h; exact ⟨_, .cast he⟩
      · split at h
        · split at h <;> (simp at h; subst h)
          · exact ⟨_, .lit _⟩
          · exact ⟨_, .cast he⟩
        · split at h <;> (simp at h; subst h)
          · exact ⟨_, .lit _⟩
          · exact ⟨_, .cast he⟩
        · simp at h; subst h; exact ⟨_, .cast he⟩

theorem convert_typed {e e' : IExpr} {s d t : ETy} (he : ∃ t, HasType Γ e t) (h : convert e s d = .ok (some (e', t))) :
    ∃ t, HasType Γ e' t := by
  unfold convert at h
  split at h
  · simp at h
  · simp at h
  · split at h
    · simp at h
    · rename_i e'' ha
      split at h
      · simp at h
      · simp at h; obtain ⟨rfl, _⟩ := h; exact applyConv_typed he ha

theorem castOperand_typed {f : Err} {e e' : IExpr} {τ inp : ETy} (he : ∃ t, HasType Γ e t)
    (h : castOperand f e τ inp = .ok e') :
    ∃ t, HasType Γ e' t := by
  unfold castOperand at h
  split at h
  · simp at h; subst h; exact he
  · split at h
    · simp at h
    · simp at h
    · exact applyConv_typed he h

theorem args_one {a : IExpr} (ha : ∃ t, HasType Γ a t) : ∃ ts, HasArgs Γ (.cons a .nil) ts := by
  obtain ⟨t, ha⟩ := ha; exact ⟨_, .cons ha .nil⟩

theorem args_two {a b : IExpr} (ha : ∃ t, HasType Γ a t) (hb : ∃ t, HasType Γ b t) :
    ∃ ts, HasArgs Γ (.cons a (.cons b .nil)) ts := by
  obtain ⟨_, ha⟩ := ha; obtain ⟨_, hb⟩ := hb; exact ⟨_, .cons ha (.cons hb .nil)⟩

theorem elabUn_children {o : UnOp} {e n : IExpr} {τ τ' : ETy} (he : ∃ t, HasType Γ e t)
    (h : elabUn Γ o e τ = .ok (n, τ')) : ChildrenTyped Γ n := by
  unfold elabUn at h
  cases o <;> simp only at h
  all_goals (repeat' split at h)
  all_goals (first | (simp at h; done) | skip)
  all_goals (simp only [Except.ok.injEq, Prod.mk.injEq] at h; obtain ⟨rfl, rfl⟩ := h)
  all_goals (first
    | exact args_one he
    | exact args_one (castOperand_typed he (by assumption))
    | trivial)

theorem arithBuild_children {o : BinOp} {ca cb : Conversion} {a b n : IExpr} {τ' : ETy} (ha : ∃ t, HasType Γ a t)
    (hb : ∃ t, HasType Γ b t) (h : arithBuild o ca cb a b = .ok (n, τ')) : ChildrenTyped Γ n := by
  unfold arithBuild at h
  repeat' split at h
  all_goals (first | (simp at h; done) | skip)
  all_goals (simp only [Except.ok.injEq, Prod.mk.injEq] at h; obtain ⟨rfl, rfl⟩ := h)
  all_goals exact args_two (applyConv_typed ha (by assumption)) (applyConv_typed hb (by assumption))

theorem elabArith_children {o : BinOp} {a b n : IExpr} {τa τb τ' : ETy} (ha : ∃ t, HasType Γ a t)
    (hb : ∃ t, HasType Γ b t) (h : elabArith o a τa b τb = .ok (n, τ')) : ChildrenTyped Γ n := by
  unfold elabArith at h
  repeat' split at h
  all_goals (first | (simp at h; done) | skip)
  all_goals exact arithBuild_children ha hb h

theorem elabAssign_children {o : BinOp} {a b n : IExpr} {τa τb τ' : ETy} (ha : ∃ t, HasType Γ a t)
    (hb : ∃ t, HasType Γ b t) (h : elabAssign Γ o a τa b τb = .ok (n, τ')) : ChildrenTyped Γ n := by
  unfold elabAssign at h
  repeat' split at h
  all_goals (first | (simp at h; done) | skip)
  all_goals (simp only [Except.ok.injEq, Prod.mk.injEq] at h; obtain ⟨rfl, rfl⟩ := h)
  all_goals exact args_two ha (convert_typed hb (by assumption))

theorem ternBuild_children {c a b n : IExpr} {τc τ' : ETy} {ca cb : Conversion} (hc : ∃ t, HasType Γ c t)
    (ha : ∃ t, HasType Γ a t) (hb : ∃ t, HasType Γ b t) (h : ternBuild c τc ca cb a b = .ok (n, τ')) :
    ChildrenTyped Γ n := by
  unfold ternBuild at h
  repeat' split at h
  all_goals (first | (simp at h; done) | skip)
  all_goals (simp only [Except.ok.injEq, Prod.mk.injEq] at h; obtain ⟨rfl, rfl⟩ := h)
  all_goals exact ⟨convert_typed hc (by assumption), applyConv_typed ha (by assumption), applyConv_typed hb (by assumption)⟩

theorem elabTern_children {c a b n : IExpr} {τc τa τb τ' : ETy} (hc : ∃ t, HasType Γ c t) (ha : ∃ t, HasType Γ a t)
    (hb : ∃ t, HasType Γ b t) (h : elabTern c τc a τa b τb = .ok (n, τ')) : ChildrenTyped Γ n := by
  unfold elabTern at h
  repeat' split at h
  all_goals (first | (simp at h; done) | skip)
  all_goals exact ternBuild_children hc ha hb h

theorem castArgs_typed : ∀ (ps : List Param) (as : IArgs) (ts : List ETy) (as' : IArgs),
    (∃ us, HasArgs Γ as us) → castArgs ps as ts = .ok as' → ∃ us, HasArgs Γ as' us
  | p :: ps, .cons e r, t :: ts, as', ⟨us, hu⟩, h => by
    cases hu with
    | cons he hr =>
      simp only [castArgs] at h
      split at h
      · simp at h
      · simp at h
      · rename_i e' _ hc
        split at h
        · simp at h
        · rename_i r' hr'
          simp at h; subst h
          obtain ⟨_, h1⟩ := convert_typed ⟨_, he⟩ hc
          obtain ⟨_, h2⟩ := castArgs_typed ps r ts r' ⟨_, hr⟩ hr'
          exact ⟨_, .cons h1 h2⟩
  | _, .nil, [], as', _, h => by
    simp [castArgs] at h; subst h; exact ⟨_, .nil⟩
  | [], .cons _ _, _ :: _, _, _, h => by simp [castArgs] at h
  | _, .cons _ _, [], _, _, h => by simp [castArgs] at h
  | _, .nil, _ :: _, _, _, h => by simp [castArgs] at h

theorem elabCall_children {name : Nat} {args : IArgs} {ts : List ETy} {n : IExpr} {τ' : ETy}
    (ha : ∃ us, HasArgs Γ args us) (h : elabCall Γ name args ts = .ok (n, τ')) : ChildrenTyped Γ n := by
  unfold elabCall at h
  repeat' split at h
  all_goals (first | (simp at h; done) | skip)
  all_goals (simp only [Except.ok.injEq, Prod.mk.injEq] at h; obtain ⟨rfl, rfl⟩ := h)
  all_goals exact castArgs_typed _ _ _ _ ha (by assumption)

mutual
/-- **Soundness of elaboration (debug build).**  By induction over all source expressions. -/
theorem elab_sound_aux : ∀ (e : SExpr) (e' : IExpr) (τ : ETy), elabE true Γ e = .ok (e', τ) → HasType Γ e' τ
  | .lit k, e', τ, h => by
    simp only [elabE] at h
    exact selfCheck_sound h trivial
  | .var i, e', τ, h => by
    simp only [elabE] at h
    split at h
    · exact selfCheck_sound h trivial
    · simp at h
  | .un o e, e', τ, h => by
    simp only [elabE] at h
    split at h
    · simp at h
    · rename_i e1 τ1 h1
      have ih := elab_sound_aux e e1 τ1 h1
      split at h
      · simp at h
      · rename_i n τn hn
        exact selfCheck_sound h (elabUn_children ⟨_, ih⟩ hn)
  | .bin o a b, e', τ, h => by
    simp only [elabE] at h
    split at h
    · simp at h
    · rename_i a1 τa ha
      have iha := elab_sound_aux a a1 τa ha
      split at h
      · simp at h
      · rename_i b1 τb hb
        have ihb := elab_sound_aux b b1 τb hb
        split at h
        · split at h
          · simp at h
          · rename_i n τn hn
            exact selfCheck_sound h (elabArith_children ⟨_, iha⟩ ⟨_, ihb⟩ hn)
        · split at h
          · simp at h
          · rename_i n τn hn
            exact selfCheck_sound h (elabAssign_children ⟨_, iha⟩ ⟨_, ihb⟩ hn)
        · exact selfCheck_sound h ⟨⟨_, iha⟩, ⟨_, ihb⟩⟩
  | .tern c a b, e', τ, h => by
    simp only [elabE] at h
    split at h
    · simp at h
    · rename_i c1 τc hc
      have ihc := elab_sound_aux c c1 τc hc
      split at h
      · simp at h
      · rename_i a1 τa ha
        have iha := elab_sound_aux a a1 τa ha
        split at h
        · simp at h
        · rename_i b1 τb hb
          have ihb := elab_sound_aux b b1 τb hb
          split at h
          · simp at h
          · rename_i n τn hn
            exact selfCheck_sound h (elabTern_children ⟨_, ihc⟩ ⟨_, iha⟩ ⟨_, ihb⟩ hn)
  | .call name args, e', τ, h => by
    simp only [elabE] at h
    split at h
    · simp at h
    · split at h
      · simp at h
      · rename_i as1 ts ha
        have iha := elabArgs_sound_aux args as1 ts ha
        split at h
        · simp at h
        · rename_i n τn hn
          exact selfCheck_sound h (elabCall_children ⟨_, iha⟩ hn)
  | .cast t e, e', τ, h => by
    simp only [elabE] at h
    split at h
    · simp at h
    · rename_i e1 τ1 h1
      have ih := elab_sound_aux e e1 τ1 h1
      exact selfCheck_sound h ⟨_, ih⟩
theorem elabArgs_sound_aux : ∀ (as : SArgs) (as' : IArgs) (ts : List ETy),
    elabArgs true Γ as = .ok (as', ts) → HasArgs Γ as' ts
  | .nil, as', ts, h => by
    simp only [elabArgs] at h
    simp at h; obtain ⟨rfl, rfl⟩ := h; exact .nil
  | .cons e r, as', ts, h => by
    simp only [elabArgs] at h
    split at h
    · simp at h
    · rename_i e1 τ1 h1
      have ih := elab_sound_aux e e1 τ1 h1
      split at h
      · simp at h
      · rename_i r1 ts1 hr
        have ihr := elabArgs_sound_aux r r1 ts1 hr
        simp at h; obtain ⟨rfl, rfl⟩ := h
        exact .cons ih ihr
end

mutual
/-- every variable and function id of the expression is allocated in the environment -/
def IdsInRange (Γ : Env) : IExpr → Prop
  | .lit _ => True
  | .var i => i < Γ.vars.length
  | .tern c a b => IdsInRange Γ c ∧ IdsInRange Γ a ∧ IdsInRange Γ b
  | .seq a b => IdsInRange Γ a ∧ IdsInRange Γ b
  | .call f args => f < Γ.funcs.length ∧ ArgsInRange Γ args
  | .cast _ e => IdsInRange Γ e
  | .op _ args => ArgsInRange Γ args
def ArgsInRange (Γ : Env) : IArgs → Prop
  | .nil => True
  | .cons e r => IdsInRange Γ e ∧ ArgsInRange Γ r
end

mutual
theorem ids_of_hasType : ∀ (e : IExpr) (τ : ETy), HasType Γ e τ → IdsInRange Γ e
  | .lit _, _, _ => by simp [IdsInRange]
  | .var i, _, h => by
    cases h with
    | var hv =>
      simp only [IdsInRange]
      exact (List.getElem?_eq_some_iff.mp hv).1
  | .tern c a b, _, h => by
    cases h with
    | tern hc ha hb _ => exact ⟨ids_of_hasType c _ hc, ids_of_hasType a _ ha, ids_of_hasType b _ hb⟩
  | .seq a b, _, h => by
    cases h with
    | seq ha hb => exact ⟨ids_of_hasType a _ ha, ids_of_hasType b _ hb⟩
  | .call f args, _, h => by
    cases h with
    | call hf ha => exact ⟨(List.getElem?_eq_some_iff.mp hf).1, ids_of_hasArgs args _ ha⟩
  | .cast _ e, _, h => by
    cases h with
    | cast he => exact ids_of_hasType e _ he
  | .op _ args, _, h => by
    cases h with
    | op ha _ => exact ids_of_hasArgs args _ ha
theorem ids_of_hasArgs : ∀ (as : IArgs) (ts : List ETy), HasArgs Γ as ts → ArgsInRange Γ as
  | .nil, _, _ => by simp [ArgsInRange]
  | .cons e r, _, h => by
    cases h with
    | cons he hr => exact ⟨ids_of_hasType e _ he, ids_of_hasArgs r _ hr⟩
end

end RsslVerif.Lemmas.Elab

import RsslVerif.Spec.SemMslVec
/-! Vector layer of C02: the typed semantics `VIr.eval` produces values of the shape the type checker computed
(`shape_sound`) — what the Metal reading's *static* decisions (is the operand a vector? how long?) rely on. -/
namespace RsslVerif.Lemmas.GenMslVec
open RsslVerif.Gen.HlslGenTables RsslVerif.Gen.HlslVecTables RsslVerif.Model RsslVerif.Model.IrVec
open RsslVerif.Spec.Sem RsslVerif.Spec.SemVec RsslVerif.Spec.SemMslVec
open RsslVerif.Model.Ir (Ty Var)

abbrev shaped := VOk.shaped

theorem mapOpt_length {α β : Type} (f : α → Option β) : ∀ (xs : List α) (ys : List β), mapOpt f xs = some ys → ys.length = xs.length
  | [], ys, h => by simp [mapOpt] at h; subst h; rfl
  | x :: xs, ys, h => by
    simp only [mapOpt] at h
    cases hf : f x with
    | none => simp [hf] at h
    | some y =>
      cases hr : mapOpt f xs with
      | none => simp [hf, hr] at h
      | some r =>
        simp [hf, hr] at h; subst h
        simp [mapOpt_length f xs r hr]

theorem zipOpt_length (f : Val → Val → Option Val) : ∀ (xs ys zs : List Val), zipOpt f xs ys = some zs → zs.length = xs.length
  | [], [], zs, h => by simp [zipOpt] at h; subst h; rfl
  | [], _ :: _, zs, h => by simp [zipOpt] at h
  | _ :: _, [], zs, h => by simp [zipOpt] at h
  | x :: xs, y :: ys, zs, h => by
    simp only [zipOpt] at h
    cases hf : f x y with
    | none => simp [hf] at h
    | some z =>
      cases hr : zipOpt f xs ys with
      | none => simp [hf, hr] at h
      | some r =>
        simp [hf, hr] at h; subst h
        simp [zipOpt_length f xs ys r hr]

theorem shaped_withScalar {t : VTy} {v : VVal} (k : Ty) (h : shaped t v = true) : shaped (t.withScalar k) v = true := by
  cases t <;> cases v <;> simp_all [VOk.shaped, VTy.withScalar]

theorem lift1_shaped {f : Val → Option Val} {t : VTy} {v r : VVal} (h : shaped t v = true) (hl : lift1 f v = some r) :
    shaped t r = true := by
  cases v with
  | sc x =>
    cases t with
    | vec k n => simp [VOk.shaped] at h
    | sc k =>
      simp only [lift1] at hl
      cases hf : f x <;> simp [hf] at hl
      subst hl; rfl
  | vec xs =>
    cases t with
    | sc k => simp [VOk.shaped] at h
    | vec k n =>
      simp only [lift1] at hl
      cases hm : mapOpt f xs with
      | none => simp [hm] at hl
      | some ys =>
        simp [hm] at hl; subst hl
        have := mapOpt_length f xs ys hm
        simp [VOk.shaped] at h ⊢
        omega

theorem lift2_shaped {f : Val → Val → Option Val} {t : VTy} {a b r : VVal} (h : shaped t a = true) (hl : lift2 f a b = some r) :
    shaped t r = true := by
  cases a with
  | sc x =>
    cases b with
    | vec ys => simp [lift2] at hl
    | sc y =>
      cases t with
      | vec k n => simp [VOk.shaped] at h
      | sc k =>
        simp only [lift2] at hl
        cases hf : f x y <;> simp [hf] at hl
        subst hl; rfl
  | vec xs =>
    cases b with
    | sc y => simp [lift2] at hl
    | vec ys =>
      cases t with
      | sc k => simp [VOk.shaped] at h
      | vec k n =>
        simp only [lift2] at hl
        cases hm : zipOpt f xs ys with
        | none => simp [hm] at hl
        | some zs =>
          simp [hm] at hl; subst hl
          have := zipOpt_length f xs ys zs hm
          simp [VOk.shaped] at h ⊢
          omega

theorem castShape_shaped {P : Prim} {ty : VTy} {v r : VVal} (h : castShape P ty v = some r) : shaped ty r = true := by
  cases ty with
  | sc t =>
    cases v with
    | sc x => simp only [castShape] at h; cases hc : castVal P t x <;> simp [hc] at h; subst h; rfl
    | vec xs =>
      cases xs with
      | nil => simp [castShape] at h
      | cons x r' => simp only [castShape] at h; cases hc : castVal P t x <;> simp [hc] at h; subst h; rfl
  | vec t n =>
    cases v with
    | sc x =>
      simp only [castShape] at h
      cases hc : castVal P t x <;> simp [hc] at h
      subst h; simp [VOk.shaped]
    | vec xs =>
      simp only [castShape] at h
      split at h
      · rename_i x
        cases hc : castVal P t x <;> simp [hc] at h
        subst h; simp [VOk.shaped]
      · split at h
        · rename_i hn
          cases hm : mapOpt (castVal P t) (xs.take n) with
          | none => simp [hm] at h
          | some ys =>
            simp [hm] at h; subst h
            have := mapOpt_length _ _ _ hm
            simp [VOk.shaped, this, List.length_take]
            omega
        · simp at h

theorem select_shaped {idx : List Nat} {v r : VVal} (k : Ty) (h : select idx v = some r) : shaped (swzTy k idx.length) r = true := by
  simp only [select] at h
  cases hm : mapOpt (fun i => v.comps[i]?) idx with
  | none => simp [hm] at h
  | some ys =>
    have hl := mapOpt_length _ _ _ hm
    rw [hm] at h
    match ys, h, hl with
    | [x], h, hl =>
      simp at h; subst h
      have : idx.length = 1 := by simpa using hl.symm
      simp [swzTy, this, VOk.shaped]
    | [], h, hl =>
      simp at h; subst h
      have : idx.length = 0 := by simpa using hl.symm
      simp [swzTy, this, VOk.shaped]
    | x :: y :: zs, h, hl =>
      simp at h; subst h
      have : idx.length = zs.length + 2 := by simpa using hl.symm
      simp [swzTy, this, VOk.shaped]

theorem build_shaped {ty : VTy} {vals : List Val} {r : VVal} (h : build ty vals = some r) : shaped ty r = true := by
  cases ty with
  | sc k =>
    match vals, h with
    | [x], h => simp [build] at h; subst h; rfl
    | [], h => simp [build] at h
    | _ :: _ :: _, h => simp [build] at h
  | vec k n =>
    simp only [build] at h
    split at h
    · rename_i hn; simp at h; subst h; simp [VOk.shaped, hn]
    · simp at h

/-- **shape soundness of the typed semantics**: from a vector store whose values have the shapes of their declared types,
an accepted expression evaluates to a value of the shape of its type -/
theorem shape_sound {W : World} {ρ : VStore} {vty : Var → Ty} {vvty : Var → VTy} (hρ : ∀ x, shaped (vvty x) (ρ x) = true) :
    ∀ (e : VExpr) (t : VTy) (σ σ1 : Store) (v : VVal),
      VIr.typeOf W.sig vty vvty e = some t → VIr.eval W ρ e σ = some (v, σ1) → shaped t v = true
  | .sc e, t, σ, σ1, v, ht, hv => by
    simp only [VIr.eval] at hv
    cases he : Ir.eval W e σ with
    | none => simp [he] at hv
    | some r =>
      simp [he] at hv
      cases hte : Ir.typeOf W.sig vty e with
      | none => simp [VIr.typeOf, hte] at ht
      | some t' =>
        simp [VIr.typeOf, hte] at ht; subst ht
        rw [← hv.1]; rfl
  | .vvar id, t, σ, σ1, v, ht, hv => by
    simp [VIr.typeOf] at ht; subst ht
    simp [VIr.eval] at hv
    rw [← hv.1]; exact hρ _
  | .vglobal id, t, σ, σ1, v, ht, hv => by
    simp [VIr.typeOf] at ht; subst ht
    simp [VIr.eval] at hv
    rw [← hv.1]; exact hρ _
  | .cast ty x, t, σ, σ1, v, ht, hv => by
    simp only [VIr.typeOf] at ht
    cases htx : VIr.typeOf W.sig vty vvty x with
    | none => simp [htx] at ht
    | some tx =>
      simp only [htx] at ht
      split at ht
      · simp at ht
      · simp at ht; subst ht
        simp only [VIr.eval, castShapeR] at hv
        cases hx : VIr.eval W ρ x σ with
        | none => simp [hx] at hv
        | some r =>
          obtain ⟨vx, σx⟩ := r
          simp only [hx] at hv
          cases hc : castShape W.P ty vx with
          | none => simp [hc] at hv
          | some r2 =>
            simp [hc] at hv
            rw [← hv.1]; exact castShape_shaped hc
  | .swz x sl, t, σ, σ1, v, ht, hv => by
    simp only [VIr.typeOf] at ht
    have htt : ∃ k, t = swzTy k sl.length := by
      cases htx : VIr.typeOf W.sig vty vvty x with
      | none => simp [htx] at ht
      | some tx =>
        cases tx with
        | sc k => simp only [htx] at ht; split at ht <;> simp at ht; exact ⟨k, ht.symm⟩
        | vec k n => simp only [htx] at ht; split at ht <;> simp at ht; exact ⟨k, ht.symm⟩
    obtain ⟨k, rfl⟩ := htt
    simp only [VIr.eval] at hv
    cases hx : VIr.eval W ρ x σ with
    | none => simp [hx] at hv
    | some r =>
      obtain ⟨vx, σx⟩ := r
      simp only [hx] at hv
      cases hs : select (sl.map slotIdx) vx with
      | none => simp [hs] at hv
      | some r2 =>
        simp [hs] at hv
        rw [← hv.1]
        have := select_shaped k hs
        simpa using this
  | .ctor ty slots, t, σ, σ1, v, ht, hv => by
    simp only [VIr.typeOf] at ht
    cases hso : VIr.slotsOK W.sig vty vvty ty.scalar slots with
    | none => simp [hso] at ht
    | some total =>
      simp only [hso] at ht
      split at ht
      · simp at ht; subst ht
        simp only [VIr.eval] at hv
        cases hs : VIr.evalSlots W ρ slots σ with
        | none => simp [hs] at hv
        | some r =>
          obtain ⟨vals, σs⟩ := r
          simp only [hs] at hv
          cases hb : build ty vals with
          | none => simp [hb] at hv
          | some r2 =>
            simp [hb] at hv
            rw [← hv.1]; exact build_shaped hb
      · simp at ht
  | .tern c f g, t, σ, σ1, v, ht, hv => by
    simp only [VIr.typeOf] at ht
    cases htc : VIr.typeOf W.sig vty vvty c with
    | none => simp [htc] at ht
    | some tc =>
      cases htf : VIr.typeOf W.sig vty vvty f with
      | none => simp [htc, htf] at ht
      | some tf =>
        cases htg : VIr.typeOf W.sig vty vvty g with
        | none => simp [htc, htf, htg] at ht
        | some tg =>
          simp only [htc, htf, htg] at ht
          have hb : tf = t ∧ tg = t := by
            cases tc with
            | vec k n => simp at ht
            | sc k =>
              cases k <;> simp at ht
              obtain ⟨⟨h1, _⟩, h3⟩ := ht
              subst h1; subst h3; exact ⟨rfl, rfl⟩
          obtain ⟨rfl, rfl⟩ := hb
          simp only [VIr.eval] at hv
          cases hc : VIr.eval W ρ c σ with
          | none => simp [hc] at hv
          | some r =>
            obtain ⟨vc, σc⟩ := r
            simp only [hc] at hv
            cases vc with
            | vec vs => simp at hv
            | sc sv =>
              cases sv with
              | b bv =>
                cases bv
                · exact shape_sound hρ g _ σc σ1 v htg (by simpa using hv)
                · exact shape_sound hρ f _ σc σ1 v htf (by simpa using hv)
              | _ => simp at hv
  | .op o .nil, t, σ, σ1, v, ht, hv => by simp [VIr.typeOf] at ht
  | .op o (.cons x .nil), t, σ, σ1, v, ht, hv => by
    simp only [VIr.typeOf] at ht
    cases htx : VIr.typeOf W.sig vty vvty x with
    | none => simp only [htx] at ht; split at ht <;> simp_all
    | some tx =>
      simp only [htx] at ht
      cases hm : irOpSem o with
      | un m =>
        have htt : t = tx := by
          rw [hm] at ht
          cases m <;> simp at ht
          all_goals first
            | exact ht.2.symm
            | exact ht.2.symm
        subst htt
        simp only [VIr.eval, hm] at hv
        cases hx : VIr.eval W ρ x σ with
        | none => simp [hx] at hv
        | some r =>
          obtain ⟨vx, σx⟩ := r
          simp only [hx] at hv
          cases hl : lift1 (unop W.P m) vx with
          | none => simp [hl] at hv
          | some r2 =>
            simp [hl] at hv
            rw [← hv.1]
            exact lift1_shaped (shape_sound hρ x t σ σx vx htx hx) hl
      | _ => rw [hm] at ht; simp at ht
  | .op o (.cons x (.cons y .nil)), t, σ, σ1, v, ht, hv => by
    simp only [VIr.typeOf] at ht
    cases htx : VIr.typeOf W.sig vty vvty x with
    | none => simp only [htx] at ht; split at ht <;> simp_all
    | some tx =>
      cases hty : VIr.typeOf W.sig vty vvty y with
      | none => simp only [htx, hty] at ht; split at ht <;> simp_all
      | some ty =>
        simp only [htx, hty] at ht
        cases hm : irOpSem o with
        | bin m =>
          rw [hm] at ht
          simp only [] at ht
          split at ht
          · rename_i hc
            obtain ⟨rfl, _⟩ := hc
            simp only [VIr.eval, hm] at hv
            cases hx : VIr.eval W ρ x σ with
            | none => simp [hx] at hv
            | some r =>
              obtain ⟨vx, σx⟩ := r
              simp only [hx] at hv
              cases hy : VIr.eval W ρ y σx with
              | none => simp [hy] at hv
              | some r2 =>
                obtain ⟨vy, σy⟩ := r2
                simp only [hy] at hv
                cases hl : lift2 (binop W.P m) vx vy with
                | none => simp [hl] at hv
                | some r3 =>
                  simp [hl] at hv
                  rw [← hv.1]
                  have hs := lift2_shaped (shape_sound hρ x tx σ σx vx htx hx) hl
                  cases hcmp : m.isCmp <;> simp [hcmp] at ht <;> subst ht
                  · exact hs
                  · exact shaped_withScalar _ hs
          · simp at ht
        | land =>
          rw [hm] at ht
          have : t = .sc .bool := by
            cases tx with
            | vec k n => simp at ht
            | sc k =>
              cases ty with
              | vec k2 n2 => cases k <;> simp at ht
              | sc k2 => cases k <;> cases k2 <;> simp at ht <;> exact ht.symm
          subst this
          simp only [VIr.eval, hm] at hv
          cases hx : VIr.eval W ρ x σ with
          | none => simp [hx] at hv
          | some r =>
            obtain ⟨vx, σx⟩ := r
            simp only [hx] at hv
            cases vx with
            | vec vs => simp at hv
            | sc sv =>
              cases sv with
              | b bv =>
                cases bv
                · simp at hv; rw [← hv.1]; rfl
                · simp only [] at hv
                  cases hy : VIr.eval W ρ y σx with
                  | none => simp [hy] at hv
                  | some r2 =>
                    obtain ⟨vy, σy⟩ := r2
                    simp only [hy] at hv
                    cases vy with
                    | vec ws => simp at hv
                    | sc sw => cases sw <;> simp at hv; rw [← hv.1]; rfl
              | _ => simp at hv
        | lor =>
          rw [hm] at ht
          have : t = .sc .bool := by
            cases tx with
            | vec k n => simp at ht
            | sc k =>
              cases ty with
              | vec k2 n2 => cases k <;> simp at ht
              | sc k2 => cases k <;> cases k2 <;> simp at ht <;> exact ht.symm
          subst this
          simp only [VIr.eval, hm] at hv
          cases hx : VIr.eval W ρ x σ with
          | none => simp [hx] at hv
          | some r =>
            obtain ⟨vx, σx⟩ := r
            simp only [hx] at hv
            cases vx with
            | vec vs => simp at hv
            | sc sv =>
              cases sv with
              | b bv =>
                cases bv
                · simp only [] at hv
                  cases hy : VIr.eval W ρ y σx with
                  | none => simp [hy] at hv
                  | some r2 =>
                    obtain ⟨vy, σy⟩ := r2
                    simp only [hy] at hv
                    cases vy with
                    | vec ws => simp at hv
                    | sc sw => cases sw <;> simp at hv; rw [← hv.1]; rfl
                · simp at hv; rw [← hv.1]; rfl
              | _ => simp at hv
        | _ => rw [hm] at ht; simp at ht
  | .op o (.cons x (.cons y (.cons z r))), t, σ, σ1, v, ht, hv => by simp [VIr.typeOf] at ht

end RsslVerif.Lemmas.GenMslVec

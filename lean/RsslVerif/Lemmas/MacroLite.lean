import RsslVerif.Spec.Targets
/-!
# An object-like macro that is never mentioned has no effect (lemmas for C18)

Everything is by induction over the fuel / the token list / the line list; no bound on sizes.
-/
namespace RsslVerif.Lemmas.MacroLite
open RsslVerif.Model.MacroLite RsslVerif.Spec.Targets

variable {S : List String}

theorem flatMap_congr' {α β : Type} (l : List α) (f g : α → List β) (h : ∀ a ∈ l, f a = g a) :
    l.flatMap f = l.flatMap g := by
  induction l with
  | nil => rfl
  | cons a l ih =>
    simp only [List.flatMap_cons]
    rw [h a (by simp), ih (fun b hb => h b (by simp [hb]))]

theorem TableRel.length_eq {ms ms' : Table} (h : TableRel S ms ms') : ms.length = ms'.length := by
  induction h with
  | nil => rfl
  | cons _ _ _ ih => simp [ih]

theorem TableRel.refl (ms : Table) : TableRel S ms ms := by
  induction ms with
  | nil => exact .nil
  | cons m ms ih => exact .cons rfl (fun _ => rfl) ih

/-- looking up a name outside `S` finds corresponding entries with equal bodies, or nothing on both sides -/
theorem lookup_rel {ms ms' : Table} (h : TableRel S ms ms') (dis : List String) (s : String) (hs : s ∉ S) :
    (lookup ms dis s = none ∧ lookup ms' dis s = none) ∨
    (∃ m m', lookup ms dis s = some m ∧ lookup ms' dis s = some m' ∧ m.name = m'.name ∧
      m.name ∉ S ∧ m.body = m'.body ∧ m ∈ ms ∧ m' ∈ ms') := by
  induction h with
  | nil => left; simp [lookup]
  | @cons m m' ms ms' hn hb _ ih =>
    by_cases hp : (m.name == s && !dis.contains m.name) = true
    · right
      have hp' : (m'.name == s && !dis.contains m'.name) = true := by rw [← hn]; exact hp
      have hms : m.name = s := by
        simp only [Bool.and_eq_true, beq_iff_eq] at hp
        exact hp.1
      have hout : m.name ∉ S := by rw [hms]; exact hs
      refine ⟨m, m', ?_, ?_, hn, hout, hb hout, by simp, by simp⟩
      · simp only [lookup, List.find?_cons, hp]
      · simp only [lookup, List.find?_cons, hp']
    · have hp' : ¬ (m'.name == s && !dis.contains m'.name) = true := by rw [← hn]; exact hp
      have e1 : lookup (m :: ms) dis s = lookup ms dis s := by
        simp only [lookup, List.find?_cons]
        split
        · rename_i hc; exact absurd hc hp
        · rfl
      have e2 : lookup (m' :: ms') dis s = lookup ms' dis s := by
        simp only [lookup, List.find?_cons]
        split
        · rename_i hc; exact absurd hc hp'
        · rfl
      rcases ih with ⟨a, b⟩ | ⟨x, x', a, b, c, d, e, f, g⟩
      · left; exact ⟨e1 ▸ a, e2 ▸ b⟩
      · right
        exact ⟨x, x', e1 ▸ a, e2 ▸ b, c, d, e, List.mem_cons_of_mem _ f, List.mem_cons_of_mem _ g⟩

/-- **unmentioned_define_irrelevant**, one token: with tables that differ only in the bodies of `S`, whose other
    bodies never mention `S`, a token that is not an identifier of `S` expands identically — for every fuel and
    every set of disabled names. -/
theorem expandTok_rel {ms ms' : Table} (h : TableRel S ms ms') (hc : TableClean S ms) :
    ∀ (fuel : Nat) (dis : List String) (t : Tok), (∀ s, t = .id s → s ∉ S) →
      expandTok ms fuel dis t = expandTok ms' fuel dis t := by
  intro fuel
  induction fuel with
  | zero => intro dis t _; simp [expandTok]
  | succ fuel ih =>
    intro dis t ht
    cases t with
    | lit n => simp [expandTok]
    | punct p => simp [expandTok]
    | id s =>
      have hs : s ∉ S := ht s rfl
      simp only [expandTok]
      rcases lookup_rel h dis s hs with ⟨a, b⟩ | ⟨m, m', a, b, hn, hout, hb, hm, _⟩
      · rw [a, b]
      · rw [a, b]
        simp only
        rw [← hn, ← hb]
        apply flatMap_congr'
        intro t ht'
        exact ih (m.name :: dis) t (fun s' e => hc m hm hout s' (e ▸ ht'))

theorem expandToks_rel {ms ms' : Table} (h : TableRel S ms ms') (hc : TableClean S ms)
    (fuel : Nat) (dis : List String) (ts : List Tok) (hts : Clean S ts) :
    ts.flatMap (expandTok ms fuel dis) = ts.flatMap (expandTok ms' fuel dis) := by
  apply flatMap_congr'
  intro t ht
  exact expandTok_rel h hc fuel dis t (fun s e => hts s (e ▸ ht))

theorem expand_rel {ms ms' : Table} (h : TableRel S ms ms') (hc : TableClean S ms)
    (ts : List Tok) (hts : Clean S ts) : expand ms ts = expand ms' ts := by
  simp only [expand, fuelFor, TableRel.length_eq h]
  exact expandToks_rel h hc _ _ ts hts

theorem isDefined_rel {ms ms' : Table} (h : TableRel S ms ms') (x : String) :
    isDefined ms x = isDefined ms' x := by
  induction h with
  | nil => rfl
  | cons hn _ _ ih =>
    simp only [isDefined, List.any_cons] at ih ⊢
    rw [ih, hn]

theorem expandCondWith_congr (d d' : String → Bool) (e e' : Tok → List Tok) (c : List Tok)
    (hd : ∀ x, Tok.id x ∈ c → d x = d' x) (he : ∀ t ∈ c, e t = e' t) :
    expandCondWith d e c = expandCondWith d' e' c := by
  fun_induction expandCondWith d e c with
  | case1 => simp [expandCondWith]
  | case2 x rest ih =>
    simp only [expandCondWith]
    rw [ih (fun y hy => hd y (by simp [hy])) (fun t ht => he t (by simp [ht])), hd x (by simp)]
  | case3 x rest ih =>
    simp only [expandCondWith]
    rw [ih (fun y hy => hd y (by simp [hy])) (fun t ht => he t (by simp [ht])), hd x (by simp)]
  | case4 rest h1 h2 =>
    rw [expandCondWith.eq_4 _ _ _ h1 h2]
  | case5 t rest h1 h2 h3 ih =>
    rw [expandCondWith.eq_5 _ _ _ _ h1 h2 h3]
    rw [ih (fun y hy => hd y (by simp [hy])) (fun t ht => he t (by simp [ht])), he t (by simp)]

theorem expandCond_rel {ms ms' : Table} (h : TableRel S ms ms') (hc : TableClean S ms)
    (c : List Tok) (hcl : Clean S c) : expandCond ms c = expandCond ms' c := by
  simp only [expandCond, fuelFor, TableRel.length_eq h]
  apply expandCondWith_congr
  · intro x _; exact isDefined_rel h x
  · intro t ht; exact expandTok_rel h hc _ _ t (fun s e => hcl s (e ▸ ht))

theorem condValue_rel (ev : List Tok → Option Bool) {ms ms' : Table} (h : TableRel S ms ms')
    (hc : TableClean S ms) (c : List Tok) (hcl : Clean S c) : condValue ev ms c = condValue ev ms' c := by
  simp only [condValue, expandCond_rel h hc c hcl]

theorem removeName_rel {ms ms' : Table} (h : TableRel S ms ms') (n : String) :
    TableRel S (removeName ms n) (removeName ms' n) := by
  induction h with
  | nil => exact .nil
  | @cons m m' ms ms' hn hb _ ih =>
    simp only [removeName, List.filter_cons] at ih ⊢
    rw [← hn]
    split
    · exact .cons hn hb ih
    · exact ih

theorem removeName_clean {ms : Table} (hc : TableClean S ms) (n : String) :
    TableClean S (removeName ms n) := by
  intro m hm
  exact hc m (List.mem_filter.1 hm).1

theorem append_rel {a a' b b' : Table} (h : TableRel S a a') (h2 : TableRel S b b') :
    TableRel S (a ++ b) (a' ++ b') := by
  induction h with
  | nil => exact h2
  | cons hn hb _ ih => exact .cons hn hb ih

/-- the invariant carried along a run on two related tables -/
structure StRel (S : List String) (a b : St) : Prop where
  rel : TableRel S a.macros b.macros
  cleanL : TableClean S a.macros
  cleanR : TableClean S b.macros
  chain : a.chain = b.chain
  out : a.out = b.out

/-- the outcome of two runs is "the same": both fail with the same error or both continue in related states -/
def SameOutcome (S : List String) : Except PErr St → Except PErr St → Prop
  | .ok a, .ok b => StRel S a b
  | .error e, .error e' => e = e'
  | _, _ => False

theorem step_rel (ev : List Tok → Option Bool) {a b : St} (h : StRel S a b) (l : Line)
    (hl : LineClean S l) : SameOutcome S (step ev a l) (step ev b l) := by
  obtain ⟨rel, cl, cr, ch, out⟩ := h
  cases l with
  | text ts =>
    simp only [step, ← ch]
    split
    · exact ⟨rel, cl, cr, rfl, by simp only [out, expand_rel rel cl ts hl]⟩
    · exact ⟨rel, cl, cr, ch, out⟩
  | define n body =>
    simp only [step, ← ch]
    split
    · refine ⟨append_rel (removeName_rel rel n) (.cons rfl (fun _ => rfl) .nil), ?_, ?_, rfl, out⟩
      · intro m hm hout
        rcases List.mem_append.1 hm with hm | hm
        · exact removeName_clean cl n m hm hout
        · simp only [List.mem_singleton] at hm; subst hm; exact hl.2
      · intro m hm hout
        rcases List.mem_append.1 hm with hm | hm
        · exact removeName_clean cr n m hm hout
        · simp only [List.mem_singleton] at hm; subst hm; exact hl.2
    · exact ⟨rel, cl, cr, ch, out⟩
  | undef n =>
    simp only [step, ← ch]
    split
    · exact ⟨removeName_rel rel n, removeName_clean cl n, removeName_clean cr n, rfl, out⟩
    · exact ⟨rel, cl, cr, ch, out⟩
  | ifdef neg n =>
    simp only [step, ← ch]
    split
    · exact ⟨rel, cl, cr, by simp only [isDefined_rel rel n], out⟩
    · exact ⟨rel, cl, cr, rfl, out⟩
  | if_ c =>
    simp only [step, ← ch]
    split
    · rw [← condValue_rel ev rel cl c hl]
      cases condValue ev a.macros c with
      | none => exact rfl
      | some v => exact ⟨rel, cl, cr, rfl, out⟩
    · exact ⟨rel, cl, cr, rfl, out⟩
  | elif c =>
    simp only [step, ← ch]
    rw [← condValue_rel ev rel cl c hl]
    cases condValue ev a.macros c with
    | none => exact rfl
    | some v =>
      dsimp only
      cases switch v false a.chain with
      | error e => exact rfl
      | ok chn => exact ⟨rel, cl, cr, rfl, out⟩
  | else_ =>
    simp only [step, ← ch]
    cases switch true true a.chain with
    | error e => exact rfl
    | ok chn => exact ⟨rel, cl, cr, rfl, out⟩
  | endif =>
    simp only [step, ← ch]
    cases a.chain with
    | nil => exact rfl
    | cons g r => exact ⟨rel, cl, cr, rfl, out⟩

theorem steps_rel (ev : List Tok → Option Bool) (ls : List Line) :
    ∀ {a b : St}, StRel S a b → LinesClean S ls → SameOutcome S (steps ev a ls) (steps ev b ls) := by
  induction ls with
  | nil => intro a b h _; exact h
  | cons l ls ih =>
    intro a b h hl
    have hs := step_rel ev h l (hl l (by simp))
    simp only [steps]
    cases ha : step ev a l with
    | error e =>
      cases hb : step ev b l with
      | error e' => rw [ha, hb] at hs; exact hs
      | ok b' => rw [ha, hb] at hs; exact hs.elim
    | ok a' =>
      cases hb : step ev b l with
      | error e' => rw [ha, hb] at hs; exact hs.elim
      | ok b' =>
        rw [ha, hb] at hs
        exact ih hs (fun l' hl' => hl l' (by simp [hl']))

/-- **unmentioned_define_irrelevant**, whole files: the token stream (or the error) produced from a file that
    does not mention `S` is the same for any two macro tables that differ only in the bodies of `S`. -/
theorem run_rel (ev : List Tok → Option Bool) {ms ms' : Table} (h : TableRel S ms ms')
    (hc : TableClean S ms) (hc' : TableClean S ms') (ls : List Line) (hl : LinesClean S ls) :
    run ev ms ls = run ev ms' ls := by
  have hs := steps_rel (S := S) ev ls (a := ⟨ms, [], []⟩) (b := ⟨ms', [], []⟩) ⟨h, hc, hc', rfl, rfl⟩ hl
  simp only [run]
  cases ha : steps ev ⟨ms, [], []⟩ ls with
  | error e =>
    cases hb : steps ev ⟨ms', [], []⟩ ls with
    | error e' => rw [ha, hb] at hs; simp only [SameOutcome] at hs; rw [hs]
    | ok b' => rw [ha, hb] at hs; exact hs.elim
  | ok a' =>
    cases hb : steps ev ⟨ms', [], []⟩ ls with
    | error e' => rw [ha, hb] at hs; exact hs.elim
    | ok b' =>
      rw [ha, hb] at hs
      simp only [hs.chain, hs.out]

end RsslVerif.Lemmas.MacroLite

/-! ## The fuel of `expandTok` is never exhausted

Each nesting level disables a macro that was enabled and is in the table, so the number of enabled entries
strictly decreases; with more fuel than enabled entries the result no longer depends on the fuel. -/
namespace RsslVerif.Lemmas.MacroLite
open RsslVerif.Model.MacroLite

/-- number of table entries whose name is not disabled -/
def enabledCount (ms : Table) (dis : List String) : Nat :=
  (ms.filter fun m => !dis.contains m.name).length

theorem filter_length_lt {α : Type} (p q : α → Bool) (l : List α) (hpq : ∀ a, p a = true → q a = true)
    (a : α) (ha : a ∈ l) (hq : q a = true) (hp : p a = false) :
    (l.filter p).length < (l.filter q).length := by
  induction l with
  | nil => cases ha
  | cons b l ih =>
    have hle : (l.filter p).length ≤ (l.filter q).length := by
      clear ih ha
      induction l with
      | nil => simp
      | cons c l ih2 =>
        simp only [List.filter_cons]
        cases hpc : p c with
        | false =>
          cases q c <;> simp <;> omega
        | true => simp [hpq c hpc, ih2]
    rcases List.mem_cons.1 ha with rfl | hmem
    · simp only [List.filter_cons, hq, hp]
      simp
      omega
    · have := ih hmem
      simp only [List.filter_cons]
      cases hpb : p b with
      | false => cases q b <;> simp <;> omega
      | true => simp [hpq b hpb]; omega

theorem lookup_some {ms : Table} {dis : List String} {s : String} {m : Macro}
    (h : lookup ms dis s = some m) : m ∈ ms ∧ dis.contains m.name = false := by
  simp only [lookup] at h
  have h1 := List.mem_of_find?_eq_some h
  have h2 := List.find?_some h
  simp only [Bool.and_eq_true, Bool.not_eq_eq_eq_not, Bool.not_true] at h2
  exact ⟨h1, h2.2⟩

theorem enabledCount_lt {ms : Table} {dis : List String} {m : Macro} (hm : m ∈ ms)
    (hd : dis.contains m.name = false) : enabledCount ms (m.name :: dis) < enabledCount ms dis := by
  apply filter_length_lt _ _ ms _ m hm
  · have : m.name ∉ dis := by simpa using hd
    simp [this]
  · simp
  · intro a ha
    simp only [List.contains_cons, Bool.not_or, Bool.and_eq_true, Bool.not_eq_eq_eq_not, Bool.not_true] at ha
    have : a.name ∉ dis := by simpa using ha.2
    simp [this]

/-- with more fuel than enabled entries, one more unit of fuel changes nothing -/
theorem expandTok_fuel_succ (ms : Table) :
    ∀ (fuel : Nat) (dis : List String) (t : Tok), enabledCount ms dis < fuel →
      expandTok ms fuel dis t = expandTok ms (fuel + 1) dis t := by
  intro fuel
  induction fuel with
  | zero => intro dis t h; omega
  | succ fuel ih =>
    intro dis t h
    cases t with
    | lit n => simp [expandTok]
    | punct p => simp [expandTok]
    | id s =>
      simp only [expandTok]
      cases hl : lookup ms dis s with
      | none => rfl
      | some m =>
        simp only
        have ⟨hm, hd⟩ := lookup_some hl
        have hlt := enabledCount_lt hm hd
        apply flatMap_congr'
        intro t' _
        exact ih (m.name :: dis) t' (by omega)

/-- **The fuel bound is sufficient**: any amount of fuel above `fuelFor ms` gives the same expansion, so the
    out-of-fuel branch of `expandTok` is never the reason for a result. -/
theorem expand_fuel_irrelevant (ms : Table) (k : Nat) (t : Tok) :
    expandTok ms (fuelFor ms + k) [] t = expandTok ms (fuelFor ms) [] t := by
  induction k with
  | zero => rfl
  | succ k ih =>
    rw [← ih]
    have hle : enabledCount ms [] < fuelFor ms + k := by
      simp only [enabledCount, fuelFor]
      have := List.length_filter_le (fun m : Macro => !([] : List String).contains m.name) ms
      omega
    exact (expandTok_fuel_succ ms (fuelFor ms + k) [] t hle).symm

end RsslVerif.Lemmas.MacroLite

import RsslVerif.Spec.MetaLayers
import RsslVerif.Spec.Meta
/-!
Lemmas about the type peels (`Model/MetaLayers`): the three extracted sequences against the peel-free reading of a
layer chain (`Spec/MetaLayers`), and the typed metadata builders against the builders over peeled declarations.
-/
namespace RsslVerif.Lemmas.MetaLayers
open RsslVerif.Gen.SlotTables RsslVerif.Gen.MetaTables RsslVerif.Model.Slots RsslVerif.Model.Meta RsslVerif.Spec.Meta

/-- a peel sequence reads every well-formed chain the way `Spec/MetaLayers` does -/
def ReadsLayers (ops : List PeelOp) : Prop :=
  ∀ t : Ty, Ty.wf t = true → (runPeel ops t).kind = specKind t ∧ (runPeel ops t).arr = specArr t

theorem reads_layers_of_mod_array_mod : ReadsLayers [.removeModifier, .takeArray false, .removeModifierAfterArray] := by
  intro t h
  cases t with
  | object k => simp [runPeel, runPeelFrom, applyOp, Peel.kind, specKind, specArr, Ty.dims, Ty.base]
  | other => simp [runPeel, runPeelFrom, applyOp, Peel.kind, specKind, specArr, Ty.dims, Ty.base]
  | modifier t' =>
    cases t' with
    | object k => simp [runPeel, runPeelFrom, applyOp, Peel.kind, specKind, specArr, Ty.dims, Ty.base]
    | other => simp [runPeel, runPeelFrom, applyOp, Peel.kind, specKind, specArr, Ty.dims, Ty.base]
    | modifier u => simp [Ty.wf] at h
    | array t'' n =>
      cases n <;> cases t'' with
      | object k => simp [runPeel, runPeelFrom, applyOp, Peel.kind, specKind, specArr, Ty.dims, Ty.base]
      | other => simp [runPeel, runPeelFrom, applyOp, Peel.kind, specKind, specArr, Ty.dims, Ty.base]
      | array v m => simp [runPeel, runPeelFrom, applyOp, Peel.kind, specKind, specArr, Ty.dims, Ty.base]
      | modifier u =>
        cases u with
        | object k => simp [runPeel, runPeelFrom, applyOp, Peel.kind, specKind, specArr, Ty.dims, Ty.base]
        | other => simp [runPeel, runPeelFrom, applyOp, Peel.kind, specKind, specArr, Ty.dims, Ty.base]
        | array v m => simp [runPeel, runPeelFrom, applyOp, Peel.kind, specKind, specArr, Ty.dims, Ty.base]
        | modifier w => simp [Ty.wf] at h
  | array t'' n =>
    cases n <;> cases t'' with
    | object k => simp [runPeel, runPeelFrom, applyOp, Peel.kind, specKind, specArr, Ty.dims, Ty.base]
    | other => simp [runPeel, runPeelFrom, applyOp, Peel.kind, specKind, specArr, Ty.dims, Ty.base]
    | array v m => simp [runPeel, runPeelFrom, applyOp, Peel.kind, specKind, specArr, Ty.dims, Ty.base]
    | modifier u =>
      cases u with
      | object k => simp [runPeel, runPeelFrom, applyOp, Peel.kind, specKind, specArr, Ty.dims, Ty.base]
      | other => simp [runPeel, runPeelFrom, applyOp, Peel.kind, specKind, specArr, Ty.dims, Ty.base]
      | array v m => simp [runPeel, runPeelFrom, applyOp, Peel.kind, specKind, specArr, Ty.dims, Ty.base]
      | modifier w => simp [Ty.wf] at h

theorem countOf_specArr (t : Ty) : countOf (specArr t) = specCount t := by
  unfold specArr specCount
  cases Ty.dims t with
  | nil => rfl
  | cons d r => cases d <;> rfl

/-- the allocator's view of a chain, computed from the reflection's view (`MDecl.toSlot`), is the allocator's own peel -/
theorem toSlot_agree (ops : List PeelOp) (hops : ops = [.removeModifier, .takeArray false, .removeModifierAfterArray])
    (d : TDecl) :
    (d.toMeta ops).toSlot = d.toSlot [.removeModifier, .takeArray true, .removeModifierAfterArray] := by
  subst hops
  cases d with
  | other => rfl
  | cbuffer n s => rfl
  | global n s ss t bl st =>
    by_cases hst : st = .extern
    · subst hst
      cases t with
      | object k => simp [TDecl.toMeta, TDecl.toSlot, MDecl.toSlot, runPeel, runPeelFrom, applyOp, Peel.kind]
      | other => simp [TDecl.toMeta, TDecl.toSlot, MDecl.toSlot, runPeel, runPeelFrom, applyOp, Peel.kind]
      | modifier t' =>
        cases t' with
        | object k => simp [TDecl.toMeta, TDecl.toSlot, MDecl.toSlot, runPeel, runPeelFrom, applyOp, Peel.kind]
        | other => simp [TDecl.toMeta, TDecl.toSlot, MDecl.toSlot, runPeel, runPeelFrom, applyOp, Peel.kind]
        | modifier u => simp [TDecl.toMeta, TDecl.toSlot, MDecl.toSlot, runPeel, runPeelFrom, applyOp, Peel.kind]
        | array t'' m =>
          cases m <;> cases t'' <;>
            simp [TDecl.toMeta, TDecl.toSlot, MDecl.toSlot, runPeel, runPeelFrom, applyOp, Peel.kind]
      | array t'' m =>
        cases m <;> cases t'' <;>
          simp [TDecl.toMeta, TDecl.toSlot, MDecl.toSlot, runPeel, runPeelFrom, applyOp, Peel.kind]
    · simp [TDecl.toMeta, TDecl.toSlot, MDecl.toSlot, hst]

/-- `is_buffer_address(decl.type_id)` (one `remove_modifier`, then an object test) is what C06's allocator model tests on
    the allocator's own view: buffer address kind and no array taken — for every chain -/
theorem buffer_address_test (t : Ty) :
    (match (runPeel [.removeModifier] t).kind with | some k => isBufferAddress k | none => false) =
    (match (runPeel [.removeModifier, .takeArray true, .removeModifierAfterArray] t).kind with
     | some k => isBufferAddress k && !(runPeel [.removeModifier, .takeArray true, .removeModifierAfterArray] t).took
     | none => false) := by
  cases t with
  | object k => simp [runPeel, runPeelFrom, applyOp, Peel.kind]
  | other => simp [runPeel, runPeelFrom, applyOp, Peel.kind]
  | modifier t' =>
    cases t' with
    | object k => simp [runPeel, runPeelFrom, applyOp, Peel.kind]
    | other => simp [runPeel, runPeelFrom, applyOp, Peel.kind]
    | modifier u => simp [runPeel, runPeelFrom, applyOp, Peel.kind]
    | array t'' m =>
      cases m with
      | none => simp [runPeel, runPeelFrom, applyOp, Peel.kind]
      | some n =>
        cases t'' with
        | modifier u => cases u <;> simp [runPeel, runPeelFrom, applyOp, Peel.kind]
        | _ => simp [runPeel, runPeelFrom, applyOp, Peel.kind]
  | array t'' m =>
    cases m with
    | none => simp [runPeel, runPeelFrom, applyOp, Peel.kind]
    | some n =>
      cases t'' with
      | modifier u => cases u <;> simp [runPeel, runPeelFrom, applyOp, Peel.kind]
      | _ => simp [runPeel, runPeelFrom, applyOp, Peel.kind]

/-! ## what the typer builds -/

theorem wf_makeConst {t : Ty} (h : Ty.wf t = true) : Ty.wf t.makeConst = true := by
  cases t with
  | object k => simp [Ty.makeConst, Ty.wf]
  | other => simp [Ty.makeConst, Ty.wf]
  | modifier u => simpa [Ty.makeConst] using h
  | array u n => simpa [Ty.makeConst, Ty.wf] using h

theorem dims_makeConst (t : Ty) : Ty.dims t.makeConst = Ty.dims t := by
  cases t <;> simp [Ty.makeConst, Ty.dims]

theorem base_makeConst (t : Ty) : Ty.base t.makeConst = Ty.base t := by
  cases t <;> simp [Ty.makeConst, Ty.base]

theorem wf_step (s : TypedefStep) {t : Ty} (h : Ty.wf t = true) : Ty.wf (s.apply t) = true := by
  unfold TypedefStep.apply
  cases s.isConst <;> cases s.dim <;> simp [Ty.wf, h, wf_makeConst h]

theorem base_step (s : TypedefStep) (t : Ty) : Ty.base (s.apply t) = Ty.base t := by
  unfold TypedefStep.apply
  cases s.isConst <;> cases s.dim <;> simp [Ty.base, base_makeConst]

theorem dims_step (s : TypedefStep) (t : Ty) : Ty.dims (s.apply t) = (s.dim.map some).toList ++ Ty.dims t := by
  unfold TypedefStep.apply
  cases s.isConst <;> cases s.dim <;> simp [Ty.dims, dims_makeConst]

theorem wf_steps (steps : List TypedefStep) {t : Ty} (h : Ty.wf t = true) :
    Ty.wf (steps.foldl (fun t s => s.apply t) t) = true := by
  induction steps generalizing t with
  | nil => simpa using h
  | cons s r ih => exact ih (wf_step s h)

theorem base_steps (steps : List TypedefStep) (t : Ty) : Ty.base (steps.foldl (fun t s => s.apply t) t) = Ty.base t := by
  induction steps generalizing t with
  | nil => rfl
  | cons s r ih => simp [List.foldl, ih, base_step]

/-- array layers of a typedef chain: the last typedef's dimension is the outermost -/
theorem dims_steps (steps : List TypedefStep) (t : Ty) :
    Ty.dims (steps.foldl (fun t s => s.apply t) t) = (steps.reverse.filterMap (·.dim)).map some ++ Ty.dims t := by
  induction steps generalizing t with
  | nil => simp
  | cons s r ih =>
    simp only [List.foldl, ih, dims_step, List.reverse_cons, List.filterMap_append, List.map_append, List.append_assoc]
    cases hd : s.dim <;> simp [hd]

theorem wf_wrapDims (b : Ty) (ds : List (Option Nat)) (h : Ty.wf b = true) : Ty.wf (wrapDims b ds) = true := by
  induction ds with
  | nil => simpa [wrapDims] using h
  | cons d r ih => simpa [wrapDims, Ty.wf] using ih

theorem base_wrapDims (b : Ty) (ds : List (Option Nat)) : Ty.base (wrapDims b ds) = Ty.base b := by
  induction ds with
  | nil => rfl
  | cons d r ih => simpa [wrapDims, Ty.base] using ih

theorem dims_wrapDims (b : Ty) (ds : List (Option Nat)) : Ty.dims (wrapDims b ds) = ds ++ Ty.dims b := by
  induction ds with
  | nil => rfl
  | cons d r ih => simp [wrapDims, Ty.dims, ih]

/-- every type the typer gives a global declared through typedefs over an object type is a well-formed chain; its
    innermost layer is that object; its array layers are the declarator's, then the typedefs' from the last one inwards -/
theorem globalTy_shape (k : ObjKind) (steps : List TypedefStep) (constKw : Bool) (st : Storage) (ds : List (Option Nat)) :
    Ty.wf (globalTy (.object k) steps constKw st ds) = true ∧
    Ty.base (globalTy (.object k) steps constKw st ds) = some k ∧
    Ty.dims (globalTy (.object k) steps constKw st ds) = ds ++ (steps.reverse.filterMap (·.dim)).map some := by
  have hw : Ty.wf (steps.foldl (fun t s => s.apply t) (.object k)) = true := wf_steps steps (by simp [Ty.wf])
  unfold globalTy
  refine ⟨?_, ?_, ?_⟩
  · apply wf_wrapDims
    split
    · exact wf_makeConst hw
    · exact hw
  · rw [base_wrapDims]
    split <;> simp [base_makeConst, base_steps, Ty.base]
  · rw [dims_wrapDims]
    split <;> simp [dims_makeConst, dims_steps, Ty.dims]

/-- an extern global's chain carries a modifier layer exactly where the named type starts -/
theorem globalTy_extern_const (k : ObjKind) (steps : List TypedefStep) (constKw : Bool) :
    ∃ u, globalTy (.object k) steps constKw .extern [] = .modifier u := by
  unfold globalTy
  simp only [wrapDims, beq_self_eq_true, Bool.or_true, if_true]
  cases (steps.foldl (fun t s => s.apply t) (Ty.object k)) with
  | modifier u => exact ⟨u, rfl⟩
  | object k' => exact ⟨_, rfl⟩
  | other => exact ⟨_, rfl⟩
  | array u n => exact ⟨_, rfl⟩

/-! ## typed builders = builders over the peeled declarations -/

theorem map_toSlot_agree (ops : List PeelOp) (hops : ops = [.removeModifier, .takeArray false, .removeModifierAfterArray])
    (ds : List TDecl) :
    (ds.map (TDecl.toMeta ops)).map MDecl.toSlot =
      ds.map (TDecl.toSlot [.removeModifier, .takeArray true, .removeModifierAfterArray]) := by
  simp only [List.map_map]
  apply List.map_congr_left
  intro d _
  exact toSlot_agree ops hops d

end RsslVerif.Lemmas.MetaLayers

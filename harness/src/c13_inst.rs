//! C13, SEVERAL instantiations of one template in one compilation.
//!
//! A template value argument is a constant expression; inside the instantiation the parameter has the value of *that*
//! argument, and so has every constant built from it. The other template sites instantiate a template once (or twice with
//! a fixed first argument); here one template is used several times with arguments from a pool made to collide under every
//! key that is coarser than "kind and value": negatives, values equal mod 2^32 / 2^64, one value written with different
//! kinds (3 / 3u / (int)3 / true / an enumerator / a static const), constant expressions folding to equal and to different
//! values — in every order.
//!
//! request : C13.inst \t <shape> \t <atom names, blank separated> [\t <model input>]
//!   shape : fn   template<int N> int tf() { int pa[N + 100]; return N; }      uses tf<(a)>();
//!           fnu  the same with `uint`
//!           nest template<int N> int ti() { int pa[N + 100]; return N; } template<int N> int tf() { return ti<N>(); }
//!           st   template<int N = 7> struct TS { int pa[N + 100]; int f() { return N; } };   uses TS<(a)> v; v.f();
//!                (the atom `_` is `TS<>`)
//!   model input : per use `<IR of the argument> ; <IR of (argument) + 100> ; <IR of (return type)(argument)>` joined by ` | `
//!                 (type checked standalone)
//! observe : per use, in source order, what the instantiation the use is BOUND to contains:
//!           `a=<recorded template argument, - for a struct>,len=<size of pa>,ret=<value of the returned expression>` joined by ` | `;
//!           or reject:<kind> / panic:<message>
//! oracle  : (1) the use is bound to an instantiation that shows exactly what the program with this use ALONE shows
//!           (each instantiation sees its own argument, independent of which others exist or came first); the program is
//!           accepted exactly when every use alone is; (2) for an argument whose value fits the parameter type the size is
//!           value + 100 and the returned / recorded constant has that integer value.
use super::*;

/// (name, source, integer value)
pub const ATOMS: &[(&str, &str, i128)] = &[
    ("Lm1", "-1", -1), ("Lm2", "-2", -2), ("Lm3", "-3", -3), ("Lm5", "-5", -5),
    ("im1", "(int)-1", -1), ("im2", "(int)-2", -2), ("e14", "1 - 4", -3), ("e27", "2 - 7", -5), ("e03", "0 - 3", -3),
    ("E0D", "E0D", -1), ("ngI", "-gI", -7), ("Lm7", "-7", -7), ("Lm99", "-99", -99),
    ("L0", "0", 0), ("L1", "1", 1), ("u1", "1u", 1), ("true", "true", 1), ("E0B", "E0B", 1), ("E1A", "E1A", 1), ("i1", "(int)1", 1),
    ("L3", "3", 3), ("u3", "3u", 3), ("i3", "(int)3", 3), ("nI", "NS::nI", 3), ("e12", "1 + 2", 3), ("l3", "3L", 3),
    ("L7", "7", 7), ("gI", "gI", 7), ("e34", "3 + 4", 7),
    ("umax", "4294967295u", 4294967295), ("Lumax", "4294967295", 4294967295), ("Lbig", "4294967296", 4294967296),
    ("Lp32m1", "4294967296 - 1", 4294967295), ("L64", "18446744073709551615", 18446744073709551615),
    ("L64m", "-18446744073709551615", -18446744073709551615), ("ubig", "2147483648u", 2147483648), ("imin", "(int)-2147483648", -2147483648),
];

pub const SHAPES: &[&str] = &["fn", "fnu", "nest", "st"];

fn atom(name: &str) -> Option<(&'static str, i128)> {
    if name == "_" {
        return Some(("", 7));
    }
    ATOMS.iter().find(|a| a.0 == name).map(|a| (a.1, a.2))
}

pub fn program(shape: &str, names: &[&str]) -> Option<String> {
    let mut body = String::new();
    for (i, n) in names.iter().enumerate() {
        let (src, _) = atom(n)?;
        match shape {
            "fn" | "fnu" | "nest" => {
                if *n == "_" {
                    return None;
                }
                body.push_str(&format!(" tf<({})>();", src));
            }
            "st" => {
                if *n == "_" {
                    body.push_str(&format!(" TS<> v{}; v{}.f();", i, i));
                } else {
                    body.push_str(&format!(" TS<({})> v{}; v{}.f();", src, i, i));
                }
            }
            _ => return None,
        }
    }
    let head = match shape {
        "fn" => "template<int N> int tf() { int pa[N + 100]; return N; }\n",
        "fnu" => "template<uint N> uint tf() { uint pa[N + 100]; return N; }\n",
        "nest" => "template<int N> int ti() { int pa[N + 100]; return N; }\ntemplate<int N> int tf() { return ti<N>(); }\n",
        "st" => "template<int N = 7> struct TS { int pa[N + 100]; int f() { return N; } };\n",
        _ => return None,
    };
    Some(format!("{}{}void t() {{{} }}\n", PRELUDE, head, body))
}

fn find_call(e: &ir::Expression) -> Option<ir::FunctionId> {
    match e {
        ir::Expression::Call(id, _, _) => Some(*id),
        ir::Expression::Cast(_, inner) => find_call(inner),
        _ => None,
    }
}

/// what the body of a function shows: (size of the local `pa`, the literal returned) — through a returned call of a
/// further instantiation when the body has one
fn body_obs(m: &ir::Module, fid: ir::FunctionId, depth: u32) -> (String, String) {
    let (mut len, mut ret) = ("?".to_string(), "?".to_string());
    let imp = match m.function_registry.get_function_implementation(fid) {
        Some(i) => i,
        None => return ("nobody".into(), "nobody".into()),
    };
    let mut inner = None;
    pos::walk_statements(&imp.scope_block.0, &mut |st| match &st.kind {
        ir::StatementKind::Var(d) => {
            let v = m.variable_registry.get_local_variable(d.id);
            if v.name.node == "pa" {
                len = pos::array_dims(m, v.type_id).map(|s| s.replace("len:", "")).unwrap_or_else(|| "notarray".into());
            }
        }
        ir::StatementKind::Return(Some(e)) => {
            if let Some(id) = find_call(e) {
                inner = Some(id);
            } else {
                // the value of the returned expression (the parameter converted to the return type), by the real evaluator
                ret = match eval_real(m, e) {
                    Obs::Val(k) => show_k(&k),
                    Obs::NotConst => "notconst".into(),
                    Obs::Panic(p) => format!("panic:{}", p),
                };
            }
        }
        _ => {}
    });
    if let (Some(id), true) = (inner, depth < 4) {
        return body_obs(m, id, depth + 1);
    }
    (len, ret)
}

fn recorded_arg(m: &ir::Module, fid: ir::FunctionId) -> String {
    match m.function_registry.get_template_instantiation_data(fid) {
        Some(d) => match d.template_args.first() {
            Some(ir::TypeOrConstant::Constant(c)) => show_k(&k_of_const(&c.clone().unrestrict())),
            _ => "noconst".into(),
        },
        None => "noinst".into(),
    }
}

/// per use, in source order
fn observe_uses(m: &ir::Module, shape: &str) -> Vec<String> {
    let mut out = Vec::new();
    for id in m.function_registry.iter() {
        if m.function_registry.get_function_name(id) != "t" {
            continue;
        }
        let imp = match m.function_registry.get_function_implementation(id) {
            Some(i) => i,
            None => continue,
        };
        for st in &imp.scope_block.0 {
            match (&st.kind, shape) {
                (ir::StatementKind::Expression(e), "fn" | "fnu" | "nest") => {
                    if let Some(fid) = find_call(e) {
                        let (len, ret) = body_obs(m, fid, 0);
                        out.push(format!("a={},len={},ret={}", recorded_arg(m, fid), len, ret));
                    }
                }
                (ir::StatementKind::Var(d), "st") => {
                    let v = m.variable_registry.get_local_variable(d.id);
                    let ty = m.type_registry.remove_modifier(v.type_id);
                    if let ir::TypeLayer::Struct(sid) = m.type_registry.get_type_layer(ty) {
                        let sd = &m.struct_registry[sid.0 as usize];
                        let mut len = "nomember".to_string();
                        for mem in &sd.members {
                            if mem.name == "pa" {
                                len = pos::array_dims(m, mem.type_id).map(|s| s.replace("len:", "")).unwrap_or_else(|| "notarray".into());
                            }
                        }
                        let mut ret = "nomethod".to_string();
                        for fid in &sd.methods {
                            ret = body_obs(m, *fid, 0).1;
                        }
                        out.push(format!("a=-,len={},ret={}", len, ret));
                    } else {
                        out.push("notstruct".into());
                    }
                }
                _ => {}
            }
        }
    }
    out
}

fn compile_obs(shape: &str, names: &[&str]) -> Result<Vec<String>, String> {
    let text = match program(shape, names) {
        Some(t) => t,
        None => return Err("bad-request".into()),
    };
    match guard(|| front_end_src(&text)) {
        Ok(Ok(m)) => Ok(observe_uses(&m, shape)),
        Ok(Err(e)) => Err(format!("reject:{}", err_kind(&format!("reject:{}:{}", e.stage(), e.text())))),
        Err(p) => Err(format!("panic:{}", norm_panic(&p))),
    }
}

fn field<'a>(obs: &'a str, key: &str) -> Option<&'a str> {
    obs.split(',').find_map(|f| f.strip_prefix(key))
}

pub fn run_inst(w: &World, shape: &str, atoms: &str, out: &mut Out, hist: &mut Hist) {
    let names: Vec<&str> = atoms.split(' ').filter(|s| !s.is_empty()).collect();
    let base = format!("C13.inst\t{}\t{}", shape, names.join(" "));
    if names.is_empty() || names.iter().any(|n| atom(n).is_none()) || program(shape, &names).is_none() {
        out.case(&base, "bad-request", "SKIP:unparsable request");
        return;
    }
    hist.add(&format!("inst:{}:uses{}", shape, names.len().min(7)));
    // every use alone
    let alone: Vec<Result<String, String>> = names
        .iter()
        .map(|n| compile_obs(shape, &[n]).map(|v| if v.len() == 1 { v[0].clone() } else { format!("shape:{} uses observed", v.len()) }))
        .collect();
    let together = compile_obs(shape, &names);
    let srcs: Vec<String> = names.iter().map(|n| if *n == "_" { "<default 7>".to_string() } else { atom(n).unwrap().0.to_string() }).collect();
    let mut verdict = "ok".to_string();
    // (2) the absolute value, on the single-instantiation programs
    let (lo, hi) = if shape == "fnu" { (0i128, 4294967295i128) } else { (-2147483648i128, 2147483647i128) };
    for (i, a) in alone.iter().enumerate() {
        let v = atom(names[i]).unwrap().1;
        match a {
            Err(e) if e.starts_with("panic:") => {
                verdict = format!("FAIL:panic {} (use `{}` alone)", &e[6..], srcs[i]);
            }
            // (no wrap-around in `N + 100` at the parameter type)
            Ok(o) if v >= lo && v + 100 <= hi && v + 100 > 0 => {
                let len_ok = field(o, "len=") == Some(&(v + 100).to_string());
                let val = |k: &str| field(o, k).and_then(parse_k).and_then(|k| as_integer(&k));
                if !len_ok || val("ret=") != Some(v) || (shape != "st" && val("a=") != Some(v)) {
                    verdict = format!("FAIL:{} instantiated with `{}` alone shows {} (argument value {}, expected len={} and that value recorded and returned)",
                                      shape, srcs[i], o, v, v + 100);
                }
            }
            _ => {}
        }
    }
    let n_distinct = {
        let mut s: Vec<&str> = names.clone();
        s.sort();
        s.dedup();
        s.len()
    };
    hist.add(&format!("inst:distinct-arguments:{}", n_distinct.min(6)));
    if names.iter().filter(|n| atom(n).map(|a| a.1 < 0).unwrap_or(false)).count() >= 2 {
        hist.add("inst:two-or-more-negative-arguments");
    }
    // (1) together = alone, use by use
    let obs = match &together {
        Ok(v) => {
            hist.add("inst:accepted");
            if v.len() != names.len() {
                verdict = format!("FAIL:{} uses in the source, {} observed in the IR", names.len(), v.len());
            } else if verdict == "ok" {
                for i in 0..names.len() {
                    match &alone[i] {
                        Ok(a) if *a == v[i] => {}
                        Ok(a) => {
                            verdict = format!("FAIL:use {} `{}` is bound to an instantiation that shows {}; compiled alone the same use shows {} (the other uses: {})",
                                              i, srcs[i], v[i], a, srcs.join(" , "));
                            break;
                        }
                        Err(e) => {
                            verdict = format!("FAIL:the program is accepted although the use `{}` alone is refused ({})", srcs[i], e);
                            break;
                        }
                    }
                }
            }
            v.join(" | ")
        }
        Err(e) => {
            hist.add(if e.starts_with("panic:") { "inst:panic" } else { "inst:rejected" });
            if e.starts_with("panic:") {
                verdict = format!("FAIL:panic {}", &e[6..]);
            } else if alone.iter().all(|a| a.is_ok()) && verdict == "ok" {
                verdict = format!("FAIL:the program is refused ({}) although every use alone is accepted (uses: {})", e, srcs.join(" , "));
            }
            e.clone()
        }
    };
    // model input: the argument and the size expression of every use, type checked standalone
    let mut req = base.clone();
    if together.is_ok() {
        let mut aux = Vec::new();
        for n in &names {
            let src = if *n == "_" { "7" } else { atom(n).unwrap().0 };
            let rt = if shape == "fnu" { "uint" } else { "int" };
            match (w.typed(src), w.typed(&format!("({}) + 100", src)), w.typed(&format!("({})({})", rt, src))) {
                (Ok((m1, e1)), Ok((m2, e2)), Ok((m3, e3))) => aux.push(format!(
                    "{} ; {} ; {}",
                    show_x(&x_of_expr(&m1, &e1)),
                    show_x(&x_of_expr(&m2, &e2)),
                    show_x(&x_of_expr(&m3, &e3))
                )),
                _ => {
                    aux.clear();
                    break;
                }
            }
        }
        if aux.len() == names.len() {
            req = format!("{}\t{}", base, aux.join(" | "));
        }
    }
    out.case(&req, &obs, &verdict);
}

pub fn generate(w: &World, rng: &mut Rng, thorough: bool, out: &mut Out, hist: &mut Hist) {
    let all: Vec<&str> = ATOMS.iter().map(|a| a.0).collect();
    for shape in SHAPES {
        // atoms this shape accepts alone (sequences with a refused use are refused as a whole)
        let mut good: Vec<&str> = all.iter().copied().filter(|n| compile_obs(shape, &[n]).is_ok()).collect();
        if *shape == "st" {
            good.push("_");
        }
        let pool: Vec<&str> = if *shape == "st" { all.iter().copied().chain(["_"]).collect() } else { all.clone() };
        // every ordered pair (thorough: of all atoms; quick: of the accepted ones, and a refused one next to an accepted one)
        let pairs: &Vec<&str> = if thorough { &pool } else { &good };
        for a in pairs {
            for b in pairs {
                run_inst(w, shape, &format!("{} {}", a, b), out, hist);
            }
        }
        if !thorough {
            for a in &pool {
                if !good.contains(a) {
                    let b = *rng.pick(&good);
                    run_inst(w, shape, &format!("{} {}", a, b), out, hist);
                    run_inst(w, shape, &format!("{} {}", b, a), out, hist);
                }
            }
        }
        // every ordered triple of the negative atoms
        let neg: Vec<&str> = good.iter().copied().filter(|n| atom(n).map(|a| a.1 < 0).unwrap_or(false)).collect();
        for a in &neg {
            for b in &neg {
                for c in &neg {
                    if thorough || rng.below(4) == 0 {
                        run_inst(w, shape, &format!("{} {} {}", a, b, c), out, hist);
                    }
                }
            }
        }
        // random sequences of 3-8 uses, repetitions included
        for _ in 0..(if thorough { 4000 } else { 300 }) {
            let n = rng.range(3, 8) as usize;
            let mut seq = Vec::new();
            for _ in 0..n {
                if !seq.is_empty() && rng.below(5) == 0 {
                    let again: &str = *rng.pick(&seq);
                    seq.push(again);
                } else if rng.below(60) == 0 {
                    seq.push(*rng.pick(&pool));
                } else {
                    seq.push(*rng.pick(&good));
                }
            }
            run_inst(w, shape, &seq.join(" "), out, hist);
        }
    }
}

"""C13 — compile-time constant evaluation matches run-time semantics."""
T = "RsslVerif.Thm.C13."


def nontrivial(req, obs):
    # an operator or cast applied to something, with a definite outcome
    return req.count("(op ") + req.count("(cast ") >= 1


def finding_key(req, obs, detail):
    import re
    d = detail or ""
    # a reference to an earlier enumerator whose initialiser had an enum or const-qualified type
    if req.startswith("C13.enum\t") and re.match(
            r"FAIL:panic typer/src/typer/expressions\.rs:\d+: \[(int|uint), Rvalue\] != \[[^\]]+, Rvalue\]: Literal\((Int32|UInt32)\(", d):
        return K_ENUMREF
    m = re.match(r"FAIL:panic ([^:]+):\d+: (.*)$", detail or "")
    if m:
        return "panic %s: %s" % (m.group(1), re.sub(r"\d+", "N", m.group(2)))
    # one call site, one finding: Constant::to_uint64 lets negative literals through as sizes
    if re.match(r"FAIL:(array|numthreads) recorded (len|threads):\d+ for an expression whose value is L-\d+ ", detail or ""):
        return "size from a negative literal accepted (Constant::to_uint64, ir/src/ir_types.rs)"
    d = detail or ""
    # template value arguments are bound with the type of the argument expression, not converted to the declared
    # parameter type (the oracle tags exactly the observations that the unconverted argument explains)
    if d.startswith("FAIL:[template argument not converted to the parameter type"):
        return K_TEMPLATE
    # Constant::to_f32 has no arm for FloatLiteral and refuses negative Int32 values
    if re.match(r"FAIL:(minlod|maxlod) recorded reject:\S* ?state requires a float.* whose value is (fl[0-9a-f]{16}|i-\d+) ", d):
        return K_TOF32
    # RayQuery<flags>: get_uint truncates an out-of-range literal with `as u32`
    if re.match(r"FAIL:rayquery recorded flags:\d+ for an expression whose value is L-?\d+ \(expected a rejection", d):
        return K_RAYQUERY
    return req.split("\tsrc:")[0]


K_TEMPLATE = "template value argument is not converted to the declared parameter type (typer/src/typer/types.rs, scopes.rs)"
K_TOF32 = "float property rejects a float literal or a negative int (Constant::to_f32, ir/src/ir_types.rs)"
K_RAYQUERY = "RayQuery flags literal outside 32 bits is truncated (get_uint, typer/src/typer/types.rs)"
K_ENUMREF = "panic typer/src/typer/expressions.rs: type self-check on a reference to an earlier enumerator (typer/src/typer/enums.rs records the initialiser's static type)"


def _subtrees(s):
    """top-level operand s-expressions of the outermost node of the tree in s"""
    out, depth, start = [], 0, None
    for i, c in enumerate(s):
        if c == "(":
            depth += 1
            if depth == 2:
                start = i
        elif c == ")":
            if depth == 2 and start is not None:
                out.append(s[start:i + 1])
                start = None
            depth -= 1
    return out


def shrink(req):
    f = req.split("\t")
    if f[0] != "C13.eval" or len(f) < 2:
        return
    tree = f[1]
    # replace the tree by one of its operand subtrees (drops the source annotation)
    for sub in _subtrees(tree):
        yield "C13.eval\t" + sub
    # replace one operand subtree by one of *its* operands
    for sub in _subtrees(tree):
        for subsub in _subtrees(sub):
            yield "C13.eval\t" + tree.replace(sub, subsub, 1)


def search(ctx):
    """model-side candidates after a broken obligation: every integer operator and cast on boundary operands"""
    b32 = [0, 1, -1, 2, 31, 32, 33, -2147483648, 2147483647]
    u32 = [0, 1, 2, 31, 32, 33, 2147483647, 2147483648, 4294967295]
    lit = [0, 1, -1, 31, 32, 127, 128, 2 ** 31, 2 ** 32, 2 ** 63, 2 ** 64, 2 ** 127 - 1, -2 ** 127]
    ops = ["Add", "Subtract", "Multiply", "Divide", "Modulus", "LeftShift", "RightShift", "BitwiseAnd", "BitwiseOr",
           "BitwiseXor", "LessThan", "Equality"]
    out = []
    for tag, pool in (("i", b32), ("u", u32), ("L", lit)):
        for o in ops:
            for a in pool:
                for b in pool:
                    out.append("C13.eval\t(op %s (lit %s%d) (lit %s%d))" % (o, tag, a, tag, b))
        for o in ["Minus", "BitwiseNot", "Plus", "PrefixIncrement", "PostfixDecrement"]:
            for a in pool:
                out.append("C13.eval\t(op %s (lit %s%d))" % (o, tag, a))
        for t in ["bool", "int", "uint", "float", "double", "half", "enum0:int", "enum1:uint"]:
            for a in pool:
                out.append("C13.eval\t(cast %s (lit %s%d))" % (t, tag, a))
    return out


SPEC = {
    "id": "C13",
    "gens": ["EvalTable", "EvalSites", "PosTable"],
    "lean_modules": ["RsslVerif.Thm.C13"],
    "theorems": [T + n for n in [
        "consteval_no_panic", "tables_panic_free", "consteval_agrees", "div_mod_zero_not_constant",
        "div_mod_zero_not_constant_expr", "literal_exact", "literal_neg_exact", "positions_use_eval",
        "float_round_nearest_even", "int_to_float_nearest_even", "float_to_float_nearest_even", "float_widen_exact",
        "float_to_int_trunc_saturate", "position_rules_as_reviewed", "position_count_agrees", "position_count_complete",
        "position_count_rejections", "case_label_value", "const_initialiser_value", "template_argument_value",
        "template_argument_not_converted", "lod_property_value_partial", "lod_property_refuses_valid_values",
        "enum_values_c_semantics", "enum_rejected_only_out_of_range", "enum_overflow_only_at_type_max", "enum_no_panic"]],
    "harness": "c13",
    "nontrivial": nontrivial,
    "finding_key": finding_key,
    "shrink": shrink,
    "search": search,
    "level_text": "Proof: an executable Lean model of evaluate_constexpr / evaluate_operator / evaluate_cast whose per-arm "
                  "arithmetic (plain operator, wrapping_*, checked_*->Err, zero guards, literal-shift round trip, cast rules) is "
                  "re-extracted from typer/src/evaluator.rs on every run is proved, for every expression tree of any depth and all "
                  "operand values, (a) never to panic when operand kinds are admissible, (b) to return only values that an independent "
                  "reference semantics (exact integers for literals, BitVec-32 two's complement for int/uint, shift counts masked to "
                  "5 bits, C comparisons, HLSL conversions) defines, with results staying in range, (c) to report division/modulus by "
                  "zero as not constant, (d) to compute literal arithmetic exactly or refuse. The model is compared with the real "
                  "evaluator on boundary-value trees (direct IR and IR produced by the real type checker), an independent Rust reference "
                  "evaluator judges every real result, and generated expressions are placed in every constant-demanding position.",
    "rule": "requests: C13.eval = IR expression tree (module lookups inlined) run through the real evaluate_constexpr — "
            "(1) depth-1 trees: every integer/comparison operator on all pairs of boundary operands per kind, every unary operator and "
            "every cast target on every boundary constant of every kind, float comparisons on boundary pairs; (2) kind-consistent random "
            "trees to depth 5; (3) arbitrary (ill-typed, wrong arity) trees to depth 4; (4) trees produced by the real type checker from "
            "generated source expressions to depth 5; C13.hyp = the theorems' hypotheses evaluated by the model on every type-checker tree; "
            "C13.pos = a generated source expression placed as array size / enum value / next enumerator / case label / template value "
            "argument / global and local const initialiser / numthreads, unroll and bind_group arguments / pipeline property / "
            "assert_eval operand, judged against the reference value; "
            "non-trivial = contains an operator or cast",
    "trusted_base": [
        "Lean 4.33 kernel; axioms propext / Classical.choice / Quot.sound only (audited by #print axioms)",
        "tools/gens/c13.py (Gen.EvalTable: per-arm rule of evaluate_operator, cast rules of evaluate_cast, enum re-wrap list, "
        "operand-loop asserts, ScalarType::get_size; Gen.EvalSites: every call of evaluate_constexpr in the workspace) — re-run on /repo's working tree every time; unknown arm shapes are extraction errors",
        "hand-written Model/ConstEval.lean (control flow of the three functions; Rust integer semantics of plain/wrapping/checked "
        "operations and `as` casts) — tied to the code by the correspondence run",
        "Model/ConstEvalFloat.lean: IEEE-754 binary32/64 decode, compare, round-to-nearest-even, saturating float->int — the meaning of "
        "the Rust float primitives, given (shared by model and specification), exercised by the correspondence run only",
        "Spec/HlslConst.lean: our reading of HLSL (float->int: truncate, saturate, NaN->0 as D3D ftoi/ftou; half constants kept at "
        "float precision; an operator on enums yields the enum; mixed-kind equality is false)",
        "harness reference evaluator (harness/src/c13.rs `reference`): written from the property text, independent of the Lean model",
    ],
    "assumptions": [
        "theorem hypotheses: constants fit their Rust types, enum constants are not nested, operator nodes have the operand count "
        "their arm reads (wfE); for consteval_no_panic additionally enum operands are not mixed with other kinds and ~ has an integer "
        "operand (kindsOk) — both are evaluated by the model on every tree the real type checker produced (C13.hyp)",
        "overflow panics are those of a build with overflow-checks (the harness profile); release builds wrap instead",
        "NaN payload propagation of f64->f32 conversion follows x86 cvtsd2ss (NaN constants cannot be written in source)",
        "the positions (array size, enum value, case label, template argument, const initialiser, attribute argument) are not "
        "modelled in Lean: positions_use_eval ties the inventory of evaluate_constexpr call sites to a reviewed list; what each "
        "site does with the result is checked by the correspondence run against the reference evaluator only",
    ],
}

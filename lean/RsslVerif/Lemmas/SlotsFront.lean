import RsslVerif.Model.SlotsFront
/-!
# What the front half of binding (Model.SlotsFront) computes, stated per declarator

`explicitGroup attrs anns` is our reading of "the explicit group of a declarator": the group named by the LAST
group-naming attribute of its declaration, else the space of its OWN last `register(..)` annotation, else none.
The lemmas show the model's loops compute exactly this for every declarator, independently of the other
declarators of the same declaration and of what is already in the registry.
-/
namespace RsslVerif.Lemmas.SlotsFront
open RsslVerif.Gen.SlotTables RsslVerif.Model.Slots RsslVerif.Model.SlotsFront

/-- the last element of the list `f` says something about -/
def lastSome {α β : Type} (f : α → Option β) : List α → Option β
  | [] => none
  | x :: xs =>
    match lastSome f xs with
    | some b => some b
    | none => f x

/-- the group an attribute names -/
def attrGroup : Attr → Option Nat
  | .bindGroup g => some g
  | .vkBinding _ (some g) => some g
  | _ => none

/-- the binding index an attribute names -/
def attrIndex : Attr → Option Nat
  | .vkBinding i _ => some i
  | _ => none

def isBindless : Attr → Bool
  | .bindless => true
  | _ => false

def registerOf : Annotation → Option Register
  | .register r => some r
  | _ => none

/-- **Spec**: the explicit group of ONE declarator with annotations `anns` in a declaration with attributes `attrs` -/
def explicitGroup (attrs : List Attr) (anns : List Annotation) : Option Nat :=
  match lastSome attrGroup attrs with
  | some g => some g
  | none => (lastSome registerOf anns).bind (·.space)

/-! ## the attribute loop -/

/-- an accepted attribute list: what the three fields hold afterwards -/
theorem attrLoop_spec (as : List Attr) : ∀ {r r' : AttrResult}, attrLoop r as = .ok r' →
    r'.groupOverride = (match lastSome attrGroup as with | some g => some g | none => r.groupOverride) ∧
    r'.indexOverride = (match lastSome attrIndex as with | some i => some i | none => r.indexOverride) ∧
    r'.bindless = (r.bindless || as.any isBindless) := by
  induction as with
  | nil => intro r r' h; simp [attrLoop] at h; subst h; simp [lastSome]
  | cons a as ih =>
    intro r r' h
    cases a with
    | badCount l => simp [attrLoop] at h
    | unknown n => simp [attrLoop] at h
    | notConstant w => simp [attrLoop] at h
    | bindGroup g =>
      simp only [attrLoop] at h
      obtain ⟨h1, h2, h3⟩ := ih h
      refine ⟨?_, ?_, ?_⟩
      · rw [h1]; simp only [lastSome]; cases lastSome attrGroup as <;> rfl
      · rw [h2]; simp only [lastSome]; cases lastSome attrIndex as <;> rfl
      · rw [h3]; simp [attrStep, isBindless]
    | bindless =>
      simp only [attrLoop] at h
      obtain ⟨h1, h2, h3⟩ := ih h
      refine ⟨?_, ?_, ?_⟩
      · rw [h1]; simp only [lastSome]; cases lastSome attrGroup as <;> rfl
      · rw [h2]; simp only [lastSome]; cases lastSome attrIndex as <;> rfl
      · rw [h3]; simp [attrStep, isBindless]
    | vkBinding i g =>
      simp only [attrLoop] at h
      obtain ⟨h1, h2, h3⟩ := ih h
      refine ⟨?_, ?_, ?_⟩
      · rw [h1]; simp only [lastSome]; cases lastSome attrGroup as <;> cases g <;> rfl
      · rw [h2]; simp only [lastSome]; cases lastSome attrIndex as <;> cases g <;> rfl
      · rw [h3]; cases g <;> simp [attrStep, isBindless]

/-- an accepted attribute list has no ill-formed attribute -/
def wellFormed : Attr → Bool
  | .badCount _ => false
  | .unknown _ => false
  | .notConstant _ => false
  | _ => true

theorem attrLoop_wellFormed (as : List Attr) : ∀ {r r' : AttrResult}, attrLoop r as = .ok r' →
    as.all wellFormed = true := by
  induction as with
  | nil => intro r r' _; rfl
  | cons a as ih =>
    intro r r' h
    cases a with
    | badCount l => simp [attrLoop] at h
    | unknown n => simp [attrLoop] at h
    | notConstant w => simp [attrLoop] at h
    | bindGroup g => simp only [attrLoop] at h; simp [wellFormed, ih h]
    | bindless => simp only [attrLoop] at h; simp [wellFormed, ih h]
    | vkBinding i g => simp only [attrLoop] at h; simp [wellFormed, ih h]

theorem parseAttributes_group {as : List Attr} {attr : AttrResult} (h : parseAttributes as = .ok attr) :
    attr.groupOverride = lastSome attrGroup as := by
  rw [(attrLoop_spec as h).1]
  cases lastSome attrGroup as <;> rfl

theorem parseAttributes_index {as : List Attr} {attr : AttrResult} (h : parseAttributes as = .ok attr) :
    attr.indexOverride = lastSome attrIndex as := by
  rw [(attrLoop_spec as h).2.1]
  cases lastSome attrIndex as <;> rfl

theorem parseAttributes_bindless {as : List Attr} {attr : AttrResult} (h : parseAttributes as = .ok attr) :
    attr.bindless = as.any isBindless := by
  rw [(attrLoop_spec as h).2.2]
  simp [AttrResult.empty]

/-! ## the annotation loop of one name -/

/-- an accepted annotation list leaves the space of its last `register(..)`, or what was there before -/
theorem annotate_set {expected : Option RegT} {conflict : FrontErr} {name : String} :
    ∀ {anns : List Annotation} {slot s : LangBinding}, annotate expected conflict name slot anns = .ok s →
      s.set = (match lastSome registerOf anns with | some r => r.space | none => slot.set) := by
  intro anns
  induction anns with
  | nil => intro slot s h; simp [annotate] at h; subst h; rfl
  | cons a rest ih =>
    intro slot s h
    cases a with
    | packOffset => simp [annotate] at h
    | semantic => simp [annotate] at h
    | register r =>
      unfold annotate at h
      split at h
      · cases h
      · split at h
        · cases h
        · simp only at h
          split at h
          · cases h
          · have := ih h
            rw [this]
            simp only [lastSome, registerOf]
            cases lastSome registerOf rest <;> rfl

/-- an accepted annotation list consists of `register(..)` annotations only -/
theorem annotate_all_registers {expected : Option RegT} {conflict : FrontErr} {name : String} :
    ∀ {anns : List Annotation} {slot s : LangBinding}, annotate expected conflict name slot anns = .ok s →
      ∀ a ∈ anns, ∃ r, a = .register r := by
  intro anns
  induction anns with
  | nil => intro slot s _ a ha; cases ha
  | cons a rest ih =>
    intro slot s h b hb
    cases a with
    | packOffset => simp [annotate] at h
    | semantic => simp [annotate] at h
    | register r =>
      rcases List.mem_cons.1 hb with rfl | hb
      · exact ⟨r, rfl⟩
      · unfold annotate at h
        split at h
        · cases h
        · split at h
          · cases h
          · simp only at h
            split at h
            · cases h
            · exact ih h b hb

/-- the language binding one `register(..)` asks for, when its class is right -/
def bindingOf (e : RegT) (name : String) (r : Register) : Option LangBinding :=
  match registerIndex e name r with
  | .ok index => some { set := r.space, index := index }
  | .error _ => none

/-- "Repeated annotations are fine as long as they agree": starting from a slot that already holds a binding, an
    accepted list changes nothing and every register in it asks for exactly that binding -/
theorem annotate_held {e : RegT} {conflict : FrontErr} {name : String} :
    ∀ {anns : List Annotation} {slot s : LangBinding}, slot ≠ LangBinding.default →
      annotate (some e) conflict name slot anns = .ok s →
      s = slot ∧ ∀ r, Annotation.register r ∈ anns → bindingOf e name r = some slot := by
  intro anns
  induction anns with
  | nil => intro slot s _ h; simp [annotate] at h; exact ⟨h.symm, by simp⟩
  | cons a rest ih =>
    intro slot s hne h
    cases a with
    | packOffset => simp [annotate] at h
    | semantic => simp [annotate] at h
    | register r =>
      unfold annotate at h
      simp only at h
      cases hi : registerIndex e name r with
      | error err => simp [hi] at h
      | ok index =>
        simp only [hi] at h
        split at h
        · cases h
        · rename_i hc
          have hnb : slot = { set := r.space, index := index } := by
            by_cases hq : slot = { set := r.space, index := index }
            · exact hq
            · exact absurd ⟨hne, hq⟩ hc
          rw [← hnb] at h
          obtain ⟨h1, h2⟩ := ih hne h
          refine ⟨h1, ?_⟩
          intro r' hr'
          rcases List.mem_cons.1 hr' with heq | hr'
          · cases heq
            simp [bindingOf, hi, hnb]
          · exact h2 r' hr'

/-- every `register(..)` the parser produces names a slot or a space -/
def Register.nontrivial (r : Register) : Prop := r.slot.isSome ∨ r.space.isSome

theorem bindingOf_ne_default {e : RegT} {name : String} {r : Register} {b : LangBinding}
    (hr : Register.nontrivial r) (h : bindingOf e name r = some b) : b ≠ LangBinding.default := by
  unfold bindingOf at h
  cases hi : registerIndex e name r with
  | error err => simp [hi] at h
  | ok index =>
    simp only [hi, Option.some.injEq] at h
    subst h
    intro hd
    simp only [LangBinding.default, LangBinding.mk.injEq] at hd
    obtain ⟨h1, h2⟩ := hd
    rcases hr with hs | hs
    · unfold registerIndex at hi
      cases hslot : r.slot with
      | none => simp [hslot] at hs
      | some ti =>
        obtain ⟨t, i⟩ := ti
        simp only [hslot] at hi
        split at hi
        · cases hi
        · cases hi; cases h2
    · rw [h1] at hs; cases hs

/-- **Accepted annotations agree.** On a fresh slot, if the annotations of one name are accepted then every
    `register(..)` among them asks for the same binding, which is the result; in particular they all name the same
    space (there is no such thing as "the first one wins" or "the last one wins" on accepted input). -/
theorem annotate_fresh_agree {e : RegT} {conflict : FrontErr} {name : String} :
    ∀ {anns : List Annotation} {s : LangBinding},
      (∀ r, Annotation.register r ∈ anns → Register.nontrivial r) →
      annotate (some e) conflict name LangBinding.default anns = .ok s →
      ∀ r, Annotation.register r ∈ anns → bindingOf e name r = some s := by
  intro anns s hnt h
  cases anns with
  | nil => intro r hr; cases hr
  | cons a rest =>
    cases a with
    | packOffset => simp [annotate] at h
    | semantic => simp [annotate] at h
    | register r0 =>
      unfold annotate at h
      simp only at h
      cases hi : registerIndex e name r0 with
      | error err => simp [hi] at h
      | ok index =>
        simp only [hi] at h
        split at h
        · cases h
        · have hb0 : bindingOf e name r0 = some { set := r0.space, index := index } := by simp [bindingOf, hi]
          have hne := bindingOf_ne_default (hnt r0 (List.mem_cons_self ..)) hb0
          obtain ⟨h1, h2⟩ := annotate_held hne h
          intro r hr
          rcases List.mem_cons.1 hr with heq | hr
          · cases heq; rw [h1]; exact hb0
          · rw [h1]; exact h2 r hr

/-! ## one declarator, the loop over the declarators -/

theorem applyOverrides_set (attr : AttrResult) (slot : LangBinding) :
    (applyOverrides attr slot).set = (match attr.groupOverride with | some g => some g | none => slot.set) := by
  unfold applyOverrides
  cases attr.indexOverride <;> cases attr.groupOverride <;> rfl

theorem applyOverrides_index (attr : AttrResult) (slot : LangBinding) :
    (applyOverrides attr slot).index = (match attr.indexOverride with | some i => some i | none => slot.index) := by
  unfold applyOverrides
  cases attr.indexOverride <;> cases attr.groupOverride <;> rfl

/-- one iteration appends exactly one global, and that global is what the same declarator gives on an EMPTY
    registry: nothing of the registry (the earlier declarators included) is read -/
theorem declaratorStep_frame {σ : Type} {expected : Option RegT} {isExtern : Bool} {attr : AttrResult}
    {registry registry' : List (GlobalVar σ)} {d : Declarator σ}
    (h : declaratorStep expected isExtern attr registry d = .ok registry') :
    ∃ g, registry' = registry ++ [g] ∧ declaratorStep expected isExtern attr [] d = .ok [g] := by
  unfold declaratorStep at h ⊢
  simp only at h ⊢
  split at h
  · cases h
  · rename_i hss
    simp only [hss]
    split at h
    · cases h
    · rename_i slot hann
      split at h
      · cases h
      · rename_i hidx
        cases h
        exact ⟨_, rfl, by rw [if_neg (by simp), if_neg hidx]; rfl⟩

/-- the global one declarator produces: its own name and shape, and a group that is `explicitGroup` of the
    declaration's attributes and ITS annotations -/
theorem declaratorStep_single {σ : Type} {attrs : List Attr} {attr : AttrResult} {expected : Option RegT}
    {isExtern : Bool} {d : Declarator σ} {g : GlobalVar σ} (ha : parseAttributes attrs = .ok attr)
    (h : declaratorStep expected isExtern attr [] d = .ok [g]) :
    g.name = d.name ∧ g.shape = d.shape ∧ g.staticSampler = d.staticSampler ∧
    g.bindless = attrs.any isBindless ∧
    g.langSlot.set = explicitGroup attrs d.annotations := by
  unfold declaratorStep at h
  simp only at h
  split at h
  · cases h
  · split at h
    · cases h
    · rename_i slot hann
      split at h
      · cases h
      · simp only [List.nil_append, Except.ok.injEq, List.cons.injEq, and_true] at h
        subst h
        refine ⟨rfl, rfl, rfl, parseAttributes_bindless ha, ?_⟩
        simp only [applyOverrides_set, parseAttributes_group ha, explicitGroup, annotate_set hann]
        cases lastSome attrGroup attrs with
        | some g => rfl
        | none =>
          cases lastSome registerOf d.annotations <;> rfl

/-- the loop appends one global per declarator, in declarator order, each being what its declarator gives alone -/
theorem declaratorLoop_spec {σ : Type} {expected : Option RegT} {isExtern : Bool} {attr : AttrResult} :
    ∀ {ds : List (Declarator σ)} {registry registry' : List (GlobalVar σ)},
      declaratorLoop expected isExtern attr registry ds = .ok registry' →
      ∃ news : List (GlobalVar σ), registry' = registry ++ news ∧ news.length = ds.length ∧
        ∀ (j : Nat) (d : Declarator σ), ds[j]? = some d →
          ∃ g, news[j]? = some g ∧ declaratorStep expected isExtern attr [] d = .ok [g] := by
  intro ds
  induction ds with
  | nil =>
    intro registry registry' h
    simp [declaratorLoop] at h
    subst h
    exact ⟨[], by simp, rfl, by intro j d hd; simp at hd⟩
  | cons d ds ih =>
    intro registry registry' h
    unfold declaratorLoop at h
    split at h
    · cases h
    · rename_i reg1 hstep
      obtain ⟨g, hreg1, hg⟩ := declaratorStep_frame hstep
      obtain ⟨news, hnews, hlen, hall⟩ := ih h
      refine ⟨g :: news, ?_, by simp [hlen], ?_⟩
      · rw [hnews, hreg1]; simp
      · intro j d' hd'
        cases j with
        | zero =>
          simp only [List.getElem?_cons_zero, Option.some.injEq] at hd'
          subst hd'
          exact ⟨g, by simp, hg⟩
        | succ j =>
          simp only [List.getElem?_cons_succ] at hd'
          obtain ⟨g', hg', hs'⟩ := hall j d' hd'
          exact ⟨g', by simpa using hg', hs'⟩

/-! ## a whole file -/

/-- no state is carried from one root definition to the next: the front end of a concatenation is the
    concatenation of the front ends -/
theorem frontItems_append : ∀ (a b : List RootItem) {out : List (String × Decl)},
    frontItems (a ++ b) = .ok out →
    ∃ oa ob, frontItems a = .ok oa ∧ frontItems b = .ok ob ∧ out = oa ++ ob := by
  intro a
  induction a with
  | nil => intro b out h; exact ⟨[], out, rfl, by simpa using h, by simp⟩
  | cons item rest ih =>
    intro b out h
    rw [List.cons_append] at h
    simp only [frontItems] at h ⊢
    split at h
    · cases h
    · rename_i xs hx
      split at h
      · cases h
      · rename_i ys hy
        cases h
        obtain ⟨oa, ob, h1, h2, h3⟩ := ih b hy
        refine ⟨xs ++ oa, ob, ?_, h2, by simp [h3]⟩
        simp [h1]

end RsslVerif.Lemmas.SlotsFront

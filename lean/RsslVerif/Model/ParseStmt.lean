import RsslVerif.Model.FormatStmt
import RsslVerif.Model.ParseFull
/-!
# C09 model, reading half: statements and local variable definitions

`parse_statement`, `parse_statement_kind`, `statement_block`, `parse_attribute_base`, `parse_vardef`,
`parse_init_statement`, `parse_initializer` (statements.rs), `parse_init_declarators`, `parse_init_declarator`
(declarations.rs), `parse_type_internal` without symbols (types.rs).

**Declaration or expression.**  Where a statement starts with neither a keyword nor `{` / `;`, the parser reads it both
as a declaration and as an expression statement.  When both readings succeed it returns
`AmbiguousDeclarationOrExpression`, which the type checker resolves: the declaration if its type is a type.  The model
is that resolution with the set `W` of type names (as for casts): `.var` if the declaration reading succeeds and its
type name is in `W` or the expression reading fails; the real code asserts that both readings end at the same token —
the model's result then is `panic`.

**for-init.**  `parse_init_statement` takes the longest of expression, declaration and nothing, the expression on a
tie.  Failures are `none`; how far a failed alternative got is not represented.

Not modelled: location annotations (`: SEMANTIC`) of local declarators, `StaticSampler` initialisers.
-/
namespace RsslVerif.Model.ParseStmt
open RsslVerif.Gen.FmtTables RsslVerif.Gen.ParseTables RsslVerif.Gen.SyntaxTables RsslVerif.Model.Format
open RsslVerif.Model.FormatFull RsslVerif.Model.FormatStmt RsslVerif.Model.ParseFull

/-- result of a statement-level parser: the real code can panic (`assert_eq!` in `parse_statement_kind`) -/
inductive Res (α : Type) where
  | ok (a : α) (rest : List Tok)
  | fail
  | panic
  deriving Repr

variable (W : List String)

/-- `parse_type_internal(input, None)`: modifiers, name (any identifier), template arguments, modifiers after -/
def parseTy (f : Nat) (ts : List Tok) : Option ((List TypeMod × String × TArgs) × List Tok) :=
  match takeModsBefore ts with
  | (mods, .id n :: r) =>
    let (targs, r1) : TArgs × List Tok :=
      match parseTArgsReq W f r with
      | some x => x
      | none => (.nil, r)
    let (mods2, r2) := takeModsAfter r1
    some ((mods ++ mods2, n, targs), r2)
  | _ => none

mutual
/-- `init_any` = `init_expr.select(init_aggregate)` (different first tokens) -/
def parseInitAny : Nat → List Tok → Option (Init × List Tok)
  | 0, _ => none
  | f + 1, ts =>
    match ts with
    | .p .LeftBrace :: r =>
      match parseInitList f r with
      | some (l, .p .Comma :: .p .RightBrace :: r') => some (.agg l, r')   -- optional trailing comma
      | some (l, .p .RightBrace :: r') => some (.agg l, r')
      | _ => none
    | _ =>
      match xparseLvl W f 15 initTerminator ts with
      | some (e, r) => some (.expr e, r)
      | none => none
/-- `parse_list(Comma, init_any)` inside an aggregate: possibly empty -/
def parseInitList : Nat → List Tok → Option (Inits × List Tok)
  | 0, _ => none
  | f + 1, ts =>
    match ts with
    | .p .RightBrace :: _ => some (.nil, ts)
    | _ =>
      match parseInitAny f ts with
      | some (i, .p .Comma :: .p .RightBrace :: r) => some (.cons i .nil, .p .Comma :: .p .RightBrace :: r)
      | some (i, .p .Comma :: r) =>
        match parseInitList f r with
        | some (l, r') => some (.cons i l, r')
        | none => none
      | some (i, r) => some (.cons i .nil, r)
      | none => none
end

/-- `parse_initializer` -/
def parseInitializer (f : Nat) (ts : List Tok) : Option (Option Init × List Tok) :=
  match ts with
  | [] => none
  | .p .Equals :: .id "StaticSampler" :: _ => none        -- not modelled
  | .p .Equals :: .p .LeftBrace :: r =>
    match parseInitAny W f (.p .LeftBrace :: r) with
    | some (i, r') => some (some i, r')
    | none => none
  | .p .Equals :: r =>
    match xparseLvl W f 15 initTerminator r with
    | some (e, r') => some (some (.expr e), r')
    | none => none
  | _ => some (none, ts)

/-- `parse_init_declarators` = `parse_list_nonempty(Comma, parse_init_declarator)` -/
def parseInitDecls : Nat → List Tok → Option (List InitDecl × List Tok)
  | 0, _ => none
  | f + 1, ts =>
    match parseDecl W f false ts with
    | some (d, .p .Colon :: _) => none                     -- location annotation: not modelled
    | some (d, r) =>
      match parseInitializer W f r with
      | some (init, .p .Comma :: r') =>
        match parseInitDecls f r' with
        | some (ds, r'') => some (⟨d, init⟩ :: ds, r'')
        | none => none
      | some (init, r') => some ([⟨d, init⟩], r')
      | none => none
    | none => none

/-- `parse_vardef` -/
def parseVarDef (f : Nat) (ts : List Tok) : Option (VarDef × List Tok) :=
  match parseTy W f ts with
  | some ((mods, n, targs), r) =>
    match parseInitDecls W f r with
    | some (ds, r') => some (⟨mods, n, targs, ds⟩, r')
    | none => none
  | none => none

/-- `parse_attribute_base(input, allow_single = true)` after the first `[` -/
def parseAttr (f : Nat) (ts : List Tok) : Option (Attr × List Tok) :=
  let (double, ts1) := match ts with
    | .p .LeftSquareBracket :: r => (true, r)
    | _ => (false, ts)
  match ts1 with
  | .id n :: r =>
    let argsR : Option (XArgs × List Tok) :=
      match r with
      | .p .LeftParen :: r1 => xparseArgs W f r1
      | _ => some (.nil, r)
    match argsR with
    | some (args, .p .RightSquareBracket :: r2) =>
      if double then
        match r2 with
        | .p .RightSquareBracket :: r3 => some (⟨n, args, true⟩, r3)
        | _ => none
      else some (⟨n, args, false⟩, r2)
    | _ => none
  | _ => none

/-- `parse_multiple(parse_attribute)` -/
def parseAttrs : Nat → List Tok → Option (List Attr × List Tok)
  | 0, _ => none
  | f + 1, ts =>
    match ts with
    | .p .LeftSquareBracket :: r =>
      match parseAttr W f r with
      | some (a, r') =>
        match parseAttrs f r' with
        | some (as, r'') => some (a :: as, r'')
        | none => none
      | none => none
    | _ => some ([], ts)

/-- `parse_optional(parse_expression)` in front of `;` / `)` -/
def parseOptExpr (f : Nat) (ts : List Tok) : Option (Option XExpr × List Tok) :=
  match xparseLvl W f 15 .Standard ts with
  | some (e, r) => some (some e, r)
  | none =>
    -- no expression here: nothing is consumed when the expression fails at its first token
    match ts with
    | .p .Semicolon :: _ => some (none, ts)
    | .p .RightParen :: _ => some (none, ts)
    | _ => none

/-- `parse_init_statement`: the longest of expression / declaration / nothing, in that order on a tie -/
def parseForInit (f : Nat) (ts : List Tok) : Option (ForInit × List Tok) :=
  match xparseLvl W f 15 .Standard ts, parseVarDef W f ts with
  | some (e, r1), some (v, r2) => if r2.length < r1.length then some (.decl v, r2) else some (.expr e, r1)
  | some (e, r1), none => some (.expr e, r1)
  | none, some (v, r2) => some (.decl v, r2)
  | none, none =>
    match ts with
    | .p .Semicolon :: _ => some (.empty, ts)
    | _ => none

/-- the declaration / expression alternative of `parse_statement_kind` -/
def parseDeclOrExpr (f : Nat) (ts : List Tok) : Res Kind :=
  let declR : Option (VarDef × List Tok) :=
    match parseVarDef W f ts with
    | some (v, .p .Semicolon :: r) => some (v, r)
    | _ => none
  let exprR : Option (XExpr × List Tok) :=
    match xparseLvl W f 15 .Standard ts with
    | some (e, .p .Semicolon :: r) => some (e, r)
    | _ => none
  match declR, exprR with
  | some (v, r1), some (e, r2) =>
    if r1.length ≠ r2.length then .panic
    else if W.contains v.name then .ok (.var v) r1 else .ok (.expr e) r2
  | some (v, r1), none => .ok (.var v) r1
  | none, some (e, r2) => .ok (.expr e) r2
  | none, none => .fail

mutual
/-- `parse_statement` -/
def parseStmt : Nat → List Tok → Res Stmt
  | 0, _ => .fail
  | f + 1, ts =>
    match parseAttrs W f ts with
    | some (attrs, r) =>
      match parseKind f r with
      | .ok k r' => .ok (.mk attrs k) r'
      | .fail => .fail
      | .panic => .panic
    | none => .fail
/-- `parse_statement_kind` -/
def parseKind : Nat → List Tok → Res Kind
  | 0, _ => .fail
  | f + 1, ts =>
    match ts with
    | [] => .fail
    | .p .Semicolon :: r => .ok .empty r
    | .p .If :: .p .LeftParen :: r =>
      match xparseLvl W f 15 .Standard r with
      | some (c, .p .RightParen :: r1) =>
        match parseStmt f r1 with
        | .ok t [] => .fail                                  -- `input.is_empty()` after the inner statement
        | .ok t (.p .Else :: r2) =>
          match parseStmt f r2 with
          | .ok e r3 => .ok (.ifElse c t e) r3
          | .fail => .fail
          | .panic => .panic
        | .ok t r2 => .ok (.ifS c t) r2
        | .fail => .fail
        | .panic => .panic
      | _ => .fail
    | .p .If :: _ => .fail
    | .p .For :: .p .LeftParen :: r =>
      match parseForInit W f r with
      | some (init, .p .Semicolon :: r1) =>
        match parseOptExpr W f r1 with
        | some (cond, .p .Semicolon :: r2) =>
          match parseOptExpr W f r2 with
          | some (inc, .p .RightParen :: r3) =>
            match parseStmt f r3 with
            | .ok body r4 => .ok (.forS init cond inc body) r4
            | .fail => .fail
            | .panic => .panic
          | _ => .fail
        | _ => .fail
      | _ => .fail
    | .p .For :: _ => .fail
    | .p .While :: .p .LeftParen :: r =>
      match xparseLvl W f 15 .Standard r with
      | some (c, .p .RightParen :: r1) =>
        match parseStmt f r1 with
        | .ok body r2 => .ok (.whileS c body) r2
        | .fail => .fail
        | .panic => .panic
      | _ => .fail
    | .p .While :: _ => .fail
    | .p .Do :: r =>
      match parseStmt f r with
      | .ok body (.p .While :: .p .LeftParen :: r1) =>
        match xparseLvl W f 15 .Standard r1 with
        | some (c, .p .RightParen :: .p .Semicolon :: r2) => .ok (.doWhile body c) r2
        | _ => .fail
      | .ok _ _ => .fail
      | .fail => .fail
      | .panic => .panic
    | .p .Switch :: .p .LeftParen :: r =>
      match xparseLvl W f 15 .Standard r with
      | some (c, .p .RightParen :: r1) =>
        match parseStmt f r1 with
        | .ok body r2 => .ok (.switchS c body) r2
        | .fail => .fail
        | .panic => .panic
      | _ => .fail
    | .p .Switch :: _ => .fail
    | .p .Break :: .p .Semicolon :: r => .ok .breakS r
    | .p .Break :: _ => .fail
    | .p .Continue :: .p .Semicolon :: r => .ok .continueS r
    | .p .Continue :: _ => .fail
    | .p .Discard :: .p .Semicolon :: r => .ok .discardS r
    | .p .Discard :: _ => .fail
    | .p .Return :: r =>
      match xparseLvl W f 15 .Standard r with
      | some (e, .p .Semicolon :: r1) => .ok (.ret (some e)) r1
      | some _ => .fail
      | none =>
        match r with
        | .p .Semicolon :: r1 => .ok (.ret none) r1
        | _ => .fail
    | .p .Case :: r =>
      match xparseLvl W f 15 .Standard r with
      | some (v, .p .Colon :: r1) =>
        match parseStmt f r1 with
        | .ok next r2 => .ok (.caseS v next) r2
        | .fail => .fail
        | .panic => .panic
      | _ => .fail
    | .p .Default :: .p .Colon :: r =>
      match parseStmt f r with
      | .ok next r1 => .ok (.defaultS next) r1
      | .fail => .fail
      | .panic => .panic
    | .p .Default :: _ => .fail
    | .p .LeftBrace :: r =>
      match parseStmts f r with
      | .ok b r1 => .ok (.block b) r1
      | .fail => .fail
      | .panic => .panic
    | _ => parseDeclOrExpr W f ts
/-- `statement_block` after its `{`: statements up to and including `}` -/
def parseStmts : Nat → List Tok → Res Stmts
  | 0, _ => .fail
  | f + 1, ts =>
    match ts with
    | .p .RightBrace :: r => .ok .nil r
    | _ =>
      match parseStmt f ts with
      | .ok s r =>
        match parseStmts f r with
        | .ok b r' => .ok (.cons s b) r'
        | .fail => .fail
        | .panic => .panic
      | .fail => .fail
      | .panic => .panic
end

/-- a whole statement, with fuel enough for it -/
def parseStmtAll (ts : List Tok) : Res Stmt := parseStmt W (40 * ts.length + 80) ts

end RsslVerif.Model.ParseStmt

import RsslVerif.Model.OverloadSeq
/-!
# "the set of visible candidates" for a call that stands between declarations

The property: *which overload a call selects … depends only on the set of visible candidates and the argument types*.
For a call site in a translation unit the visible candidates are, in the property's words and without reference to how
the type checker walks the unit: the overloads **declared above the call** in the scope the lookup reaches —

* an unqualified call at the root, or `::f(..)` anywhere: the root scope's;
* `N::f(..)`: those of `namespace N` (however many times it was reopened);
* an unqualified call inside `namespace N`: N's if N has declared one above the call, else the root's;
* a call of a method: **every** method of that struct, above or below the caller (and none of another struct's);
* a name the compiler has overloads of: those (they lead the sequence) and the user's above the call;
* a struct, enum, typedef, cbuffer or namespace of the same name is not a candidate and takes no candidate away, wherever
  it stands among the declarations; a scope that declares no function of the name but a type of it knows the name as
  that type (an unqualified call inside `namespace N` then does not reach the root's overloads).

Definitions of functions declared before, other call sites, helper templates and their instantiations are not
declarations of the name: they do not occur in this definition at all.
-/
namespace RsslVerif.Spec.Overload
open RsslVerif.Model.Overload

/-- the overloads a stretch of the unit declares in one scope, in order -/
def declared (scope : Nat) : List SeqItem → List TCand
  | [] => []
  | .decl s c :: is => if s = scope then c :: declared scope is else declared scope is
  | _ :: is => declared scope is

/-- does a stretch of the unit declare a type (struct, enum, typedef) of the name in that scope -/
def declaresType (scope : Nat) : List SeqItem → Bool
  | [] => false
  | .other s k :: is => (s = scope && k.isType) || declaresType scope is
  | _ :: is => declaresType scope is

/-- the same in any scope (an intrinsic's name lives in the root scope only) -/
def declaresTypeAnywhere : List SeqItem → Bool
  | [] => false
  | .other _ k :: is => k.isType || declaresTypeAnywhere is
  | _ :: is => declaresTypeAnywhere is

/-- what one scope knows of the name: **every function of the name declared there** — whatever else of that name
    (struct, enum, typedef, cbuffer, namespace) stands before, between or after them —; without a function, the type of
    that name if one is declared; a cbuffer block or a namespace alone is neither a value nor a type -/
def scopeKnows (fns : List TCand) (type : Bool) : Found :=
  if !fns.isEmpty then .functions fns else if type then .type else .nothing

/-- the candidates visible at a call with lookup `mode` that stands between `pre` and `post`; `.nothing` = the name is
    unknown there, `.type` = the innermost scope that knows the name declares a type of it and no function -/
def visibleAt (p : SeqPath) (pre post : List SeqItem) (mode : Nat) : Found :=
  match p with
  | .method =>
    match mode with
    | 2 => scopeKnows (declared 1 (pre ++ post)) false
    | 3 => scopeKnows (declared 1 (pre ++ post)) false
    | _ => scopeKnows (declared 0 (pre ++ post)) false
  | .intrinsic => scopeKnows (allDeclared pre) (declaresTypeAnywhere pre)
  | .free =>
    let root := scopeKnows (declared 0 pre) (declaresType 0 pre)
    let ns := scopeKnows (declared 1 pre) (declaresType 1 pre)
    match mode with
    | 1 => ns
    | 2 => if ns = .nothing then root else ns
    | _ => root

/-- the items that declare something a *later ordinary call site* can be affected by: everything but call sites and
    calls that instantiate a helper -/
def SeqItem.isCall : SeqItem → Bool
  | .site .. => true
  | .trigger .. => true
  | _ => false

end RsslVerif.Spec.Overload

import RsslVerif.Model.ConstPos
import RsslVerif.Lemmas.ConstEvalNoPanic
/-!
# The positions that demand a constant: the boundary between untyped literals and typed values (C13)

What a position records is related here to the *integer value* of the evaluated constant (`intValue`: `false/true`
are 0/1, an integer constant of any kind is its value, an enum is its underlying value where the position accepts
enums): which kinds are accepted, the exact range, and that the recorded number is the value.
-/
namespace RsslVerif.Lemmas.ConstPos
open RsslVerif.Gen.EvalTable RsslVerif.Gen.PosTable RsslVerif.Model.ConstEval RsslVerif.Model.ConstPos
open RsslVerif.Lemmas.ConstEval

/-- the integer a constant denotes when it is used as a count; `none` for floats, strings and enums -/
def intValue : Constant → Option Int
  | .bool b => some (if b then 1 else 0)
  | .intLit v | .int32 v | .uint32 v | .int64 v | .uint64 v => some v
  | _ => none

/-- **`Constant::to_uint64`**: defined exactly for the integer-like constants with a value in `[0, 2^64)`, and then
it *is* the value — whatever the kind (untyped literal, `int`, `uint`, `bool`) -/
theorem toUint64_spec (c : Constant) (h : wf c = true) :
    toUint64 c = (match intValue c with
                  | some v => if 0 ≤ v ∧ v ≤ 2 ^ 64 - 1 then some v else none
                  | none => none) := by
  cases c <;> simp [toUint64, lookup, toUint64Table, Constant.kind, Constant.intVal?, intValue] <;>
    (try (simp [wf, IntTy.inRange, IntTy.lo, IntTy.hi, i32, u32, i64, u64] at h)) <;>
    (try (split <;> simp_all <;> omega)) <;> (try omega)

/-- the count a position with rule `r` reads off a constant: enums only where the position unwraps them -/
def countOf (r : SizeRule) (c : Constant) : Option Int :=
  match c with
  | .enum _ inner => if r.unwrapEnum then intValue inner else none
  | c => intValue c

theorem wf_enum_inner {i : Nat} {c : Constant} (h : wf (.enum i c) = true) : wf c = true := by
  simp [wf] at h; exact h.1

/-- **a position that needs a count**: the outcome as a function of the integer value of the constant alone -/
theorem sizeSite_ok (r : SizeRule) (c : Constant) (h : wf c = true) :
    sizeSite r (.ok c) =
      (match countOf r c with
       | none => .notConstant
       | some v =>
         if v < 0 ∨ 2 ^ 64 - 1 < v then .notConstant
         else if r.rejectZero = true ∧ v = 0 then .zeroSize
         else if r.max32 = true ∧ 2 ^ 32 - 1 < v then .outOfRange
         else .count v) := by
  have key : ∀ d : Constant, wf d = true →
      (match toUint64 d with
       | none => Out.notConstant
       | some n => if (r.rejectZero && n == 0) = true then Out.zeroSize
                   else if (r.max32 && decide (2 ^ 32 - 1 < n)) = true then Out.outOfRange else Out.count n) =
      (match intValue d with
       | none => Out.notConstant
       | some v =>
         if v < 0 ∨ 2 ^ 64 - 1 < v then Out.notConstant
         else if r.rejectZero = true ∧ v = 0 then Out.zeroSize
         else if r.max32 = true ∧ 2 ^ 32 - 1 < v then Out.outOfRange
         else Out.count v) := by
    intro d hd
    rw [toUint64_spec d hd]
    cases hv : intValue d with
    | none => rfl
    | some v =>
      by_cases hr : 0 ≤ v ∧ v ≤ 2 ^ 64 - 1
      · have hn : ¬ (v < 0 ∨ 2 ^ 64 - 1 < v) := by omega
        simp only [hr, and_self, if_true, hn, if_false]
        cases r.rejectZero <;> cases r.max32 <;> simp
      · have hn : (v < 0 ∨ 2 ^ 64 - 1 < v) := by omega
        simp only [hr, if_false, hn, if_true]
  cases c with
  | enum i inner =>
    have hi := wf_enum_inner h
    by_cases hu : r.unwrapEnum = true
    · simp only [sizeSite, hu, if_true, countOf]
      exact key inner hi
    · have hu' : r.unwrapEnum = false := by simpa using hu
      simp only [sizeSite, hu', countOf]
      have : toUint64 (.enum i inner) = none := by simp [toUint64, lookup, toUint64Table, Constant.kind]
      simp [this]
  | _ => simp only [sizeSite, countOf]; exact key _ h

/-- sound: an accepted count is the integer value of the evaluated constant and lies in the range of the place -/
theorem sizeSite_sound (r : SizeRule) (c : Constant) (h : wf c = true) (n : Int) (hs : sizeSite r (.ok c) = .count n) :
    countOf r c = some n ∧ 0 ≤ n ∧ n ≤ 2 ^ 64 - 1 ∧ (r.rejectZero = true → n ≠ 0) ∧ (r.max32 = true → n ≤ 2 ^ 32 - 1) := by
  rw [sizeSite_ok r c h] at hs
  cases hv : countOf r c with
  | none => simp [hv] at hs
  | some v =>
    simp only [hv] at hs
    split at hs
    · cases hs
    · rename_i h1
      split at hs
      · cases hs
      · rename_i h2
        split at hs
        · cases hs
        · rename_i h3
          cases hs
          refine ⟨rfl, by omega, by omega, fun hz hn => h2 ⟨hz, hn⟩, fun hm => ?_⟩
          have : ¬ (2 ^ 32 - 1 < n) := fun hlt => h3 ⟨hm, hlt⟩
          omega

/-- complete: every integer-like constant whose value fits the place is accepted with exactly that value -/
theorem sizeSite_complete (r : SizeRule) (c : Constant) (h : wf c = true) (n : Int) (hc : countOf r c = some n)
    (h0 : 0 ≤ n) (h1 : n ≤ 2 ^ 64 - 1) (hz : r.rejectZero = true → n ≠ 0) (hm : r.max32 = true → n ≤ 2 ^ 32 - 1) :
    sizeSite r (.ok c) = .count n := by
  rw [sizeSite_ok r c h, hc]
  have a : ¬ (n < 0 ∨ 2 ^ 64 - 1 < n) := by omega
  have b : ¬ (r.rejectZero = true ∧ n = 0) := fun ⟨x, y⟩ => hz x y
  have c' : ¬ (r.max32 = true ∧ 2 ^ 32 - 1 < n) := fun ⟨x, y⟩ => by have := hm x; omega
  simp only [a, b, c', if_false]

/-- a rejection says something definite about the value -/
theorem sizeSite_reject (r : SizeRule) (c : Constant) (h : wf c = true) :
    (sizeSite r (.ok c) = .zeroSize → countOf r c = some 0) ∧
    (sizeSite r (.ok c) = .outOfRange → ∃ n, countOf r c = some n ∧ 2 ^ 32 - 1 < n) ∧
    (sizeSite r (.ok c) = .notConstant → countOf r c = none ∨ ∃ n, countOf r c = some n ∧ (n < 0 ∨ 2 ^ 64 - 1 < n)) := by
  rw [sizeSite_ok r c h]
  cases hv : countOf r c with
  | none => simp
  | some v =>
    simp only []
    refine ⟨?_, ?_, ?_⟩
    · intro hs
      split at hs
      · cases hs
      · split at hs
        · rename_i hz; rw [hz.2]
        · split at hs <;> cases hs
    · intro hs
      split at hs
      · cases hs
      · split at hs
        · cases hs
        · split at hs
          · rename_i hm; exact ⟨v, rfl, hm.2⟩
          · cases hs
    · intro hs
      split at hs
      · rename_i hn; exact .inr ⟨v, rfl, hn⟩
      · split at hs
        · cases hs
        · split at hs <;> cases hs

/-- the evaluator never makes a position panic when it does not panic itself, and a non-constant expression is
rejected by every position that needs a count -/
theorem sizeSite_error (r : SizeRule) : sizeSite r (.error .notConst) = .notConstant := rfl

/-! ## float-valued properties (`Constant::to_f32`) -/

/-- sound: an accepted value is the constant converted to `float` by the HLSL conversion rules -/
theorem toF32_sound (c : Constant) (h64 : c.kind ≠ .Int64 ∧ c.kind ≠ .UInt64) (b : Nat) (h : toF32 c = some b) :
    S.castScalar .Float32 c = some (.float32 b) := by
  cases c <;> simp [toF32, lookup, toF32Table, Constant.kind, Constant.intVal?, Constant.floatBits?, floatFmtOf] at h h64 ⊢ <;>
    simp [S.castScalar] <;> (try (split at h <;> simp_all)) <;> (try simp_all [c13])

/-- **`Constant::to_f32`** on the 32-bit kinds *is* the HLSL conversion to `float`: defined exactly where the
conversion is (bool, untyped integer and float literals, `int` of either sign, `uint`, `half`, `float`, `double`),
with the same bit pattern -/
theorem toF32_spec (c : Constant) (h : wf c = true) (h64 : c.kind ≠ .Int64 ∧ c.kind ≠ .UInt64) (b : Nat) :
    toF32 c = some b ↔ S.castScalar .Float32 c = some (.float32 b) := by
  cases c <;> simp [toF32, lookup, toF32Table, Constant.kind, Constant.intVal?, Constant.floatBits?, floatFmtOf,
    S.castScalar] at h64 ⊢ <;>
    (try (simp [wf, IntTy.inRange, IntTy.lo, IntTy.hi, i128] at h)) <;>
    (try (split <;> simp_all)) <;> (try simp_all [c13]) <;> (try omega)

/-- complete: every constant the HLSL rules convert to `float` is accepted with the converted value — an untyped float
literal and a negative `int` included -/
theorem toF32_complete (c : Constant) (h : wf c = true) (b : Nat) (hc : S.castScalar .Float32 c = some (.float32 b)) :
    toF32 c = some b := by
  have h64 : c.kind ≠ .Int64 ∧ c.kind ≠ .UInt64 := by
    cases c <;> simp [S.castScalar, Constant.kind] at hc ⊢
  exact (toF32_spec c h h64 b).2 hc

/-- a refusal is justified: the constant has no conversion to `float` (an enum, a string) -/
theorem toF32_none (c : Constant) (h : wf c = true) (hn : toF32 c = none) : S.castScalar .Float32 c = none := by
  cases hc : S.castScalar .Float32 c with
  | none => rfl
  | some v =>
    have : ∃ b, v = .float32 b := by
      cases c <;> simp [S.castScalar] at hc <;> exact ⟨_, hc.symm⟩
    obtain ⟨b, rfl⟩ := this
    rw [toF32_complete c h b hc] at hn
    cases hn

/-! ## positions that keep the constant -/

/-- a case label is the evaluated constant -/
theorem caseSite_ok (c : Constant) : caseSite (.ok c) = .stored c := by simp [caseSite, caseLabelAsIs]

/-- a template value argument keeps kind and value of the evaluated constant; only `bool` and integer kinds are
accepted (floats, enums: "not a constant expression") -/
theorem templateSite_ok (c : Constant) :
    templateSite (.ok c) =
      (if c.kind = .Bool ∨ c.kind = .IntLiteral ∨ c.kind = .Int32 ∨ c.kind = .UInt32 ∨ c.kind = .Int64 ∨ c.kind = .UInt64
       then .stored c else .notConstant) := by
  cases c <;> simp [templateSite, templateKinds, Constant.kind]

/-- **no conversion to the declared parameter type** (a defect of the pinned source, recorded as a known finding):
`f<-1>()` for `template<uint N>` binds the untyped literal `-1`, where the HLSL conversion to `uint` gives
`4294967295`; `f<2>()` for `template<bool B>` binds `2`, where the conversion gives `true` -/
theorem templateSite_does_not_convert :
    templateSite (eval (.lit (.intLit (-1)))) = .stored (.intLit (-1)) ∧
    S.castScalar .UInt32 (.intLit (-1)) = some (.uint32 4294967295) ∧
    templateSite (eval (.lit (.intLit 2))) = .stored (.intLit 2) ∧
    S.castScalar .Bool (.intLit 2) = some (.bool true) := by decide

end RsslVerif.Lemmas.ConstPos

import RsslVerif.Driver.Util
/-! Line-protocol front end of the C09 model (stub until the model is built). -/
namespace RsslVerif.Driver.C09

def handle (op : String) (args : List String) : String :=
  let _ := (op, args)
  "unsupported-op"

end RsslVerif.Driver.C09

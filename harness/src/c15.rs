//! C15 — renaming is harmless and emitted names are hygienic.
//!
//! Request: `C15.names \t <h|m> \t <program descriptor>` (see `parse_items` for the grammar).
//! Observation: the assignment of the real `NameMap::build` on the type-checked program (qualified names of
//! namespaces, structs, enums, globals, functions, locals by ordinal) — compared with the Lean model.
//! Oracle (independent of the model, in the property's words), evaluated on the assignment *and* on the text
//! the real `compile()` emits for the program P and for its skeleton P0 (same program, every entity renamed to
//! a unique fresh identifier):
//!   * P and P0 give the same token sequence up to identifiers, and the identifier printed for an entity is
//!     the same at every occurrence (output identical up to renaming);
//!   * no declared name is in the independent keyword/built-in list of the target (Spec/Names.lean);
//!   * no two distinct entities declared in one scope of the output share a name;
//!   * every printed (qualified) identifier resolves, by C++ lookup over the declarations of the output, to the
//!     entity the source referred to;
//!   * a source name that is unique in its scope and not reserved is printed verbatim.
use crate::util::*;
use rssl::ir;
mod astwalk;
mod res;
use rssl::ir::name_generator::{NameMap, NameSymbol};
use std::collections::{BTreeMap, BTreeSet, HashMap, HashSet};

// ------------------------------------------------------------------------------------------ tables

fn repo_root() -> String {
    std::env::var("VERIF_REPO").unwrap_or_else(|_| "/repo".to_string())
}

/// `RESERVED_NAMES` of `<crate>/src/names.rs`, read from the source tree (the module is private); the result is
/// cross-checked against the compiled-in table through the names `compile()` prints (oracle `tie`).
pub fn reserved_from_source(krate: &str) -> Vec<String> {
    let text = std::fs::read_to_string(format!("{}/{}/src/names.rs", repo_root(), krate)).unwrap_or_default();
    let mut consts = HashMap::new();
    for line in text.lines() {
        let l = line.trim();
        if let Some(rest) = l.strip_prefix("pub const ") {
            if let Some((name, val)) = rest.split_once(": &str = ") {
                let v = val.trim().trim_end_matches(';').trim_matches('"');
                consts.insert(name.trim().to_string(), v.to_string());
            }
        }
    }
    let key = "RESERVED_NAMES: &[&str] = &[";
    let mut out = Vec::new();
    if let Some(s) = text.find(key) {
        let body = &text[s + key.len()..];
        let end = body.find("];").unwrap_or(body.len());
        for line in body[..end].lines() {
            let l = line.split("//").next().unwrap_or("").trim().trim_end_matches(',');
            if l.is_empty() {
                continue;
            }
            if l.starts_with('"') {
                out.push(l.trim_matches('"').to_string());
            } else if let Some(v) = consts.get(l) {
                out.push(v.clone());
            }
        }
    }
    out
}

const SPEC_LEAN: &str = include_str!("../../lean/RsslVerif/Spec/Names.lean");

/// the independent keyword list `def <name> : List String := [...]` of Spec/Names.lean
fn spec_list(name: &str) -> Vec<String> {
    let key = format!("def {} : List String :=", name);
    let mut out = Vec::new();
    if let Some(s) = SPEC_LEAN.find(&key) {
        let body = &SPEC_LEAN[s + key.len()..];
        let end = body.find(']').unwrap_or(body.len());
        let mut it = body[..end].split('"');
        it.next();
        while let Some(x) = it.next() {
            out.push(x.to_string());
            it.next();
        }
    }
    out
}

struct Tables {
    real: [Vec<String>; 2],
    spec: [HashSet<String>; 2],
}

fn tables() -> Tables {
    Tables {
        real: [reserved_from_source("hlsl"), reserved_from_source("msl")],
        spec: [
            spec_list("hlslKeywords").into_iter().collect(),
            spec_list("mslKeywords").into_iter().collect(),
        ],
    }
}

// ------------------------------------------------------------------------------------------ descriptor

#[derive(Clone, Debug)]
enum Stmt {
    Lv(String),
    Block(Vec<Stmt>),
    Use(String),
    /// `lvi NAME REF[@p]`: `int NAME = <use of REF at position p>;` (the initialiser is typed before the local is declared)
    Lvi(String, String),
}

#[derive(Clone, Debug)]
enum Item {
    Ns(String, Vec<Item>),
    St(String, Vec<String>),
    En(String, Vec<String>),
    Gl(String),
    Fn(String, String, Vec<String>, Vec<Stmt>),
}

fn is_ident(s: &str) -> bool {
    let mut cs = s.chars();
    match cs.next() {
        Some(c) if c.is_ascii_alphabetic() || c == '_' => cs.all(|c| c.is_ascii_alphanumeric() || c == '_'),
        _ => false,
    }
}

const STRUCTURE_WORDS: &[&str] = &["ns", "st", "en", "gl", "fn", "lv", "lvi", "use", "end", "{", "}"];

fn parse_stmts(t: &[&str], mut i: usize) -> Option<(Vec<Stmt>, usize)> {
    let mut out = Vec::new();
    loop {
        match *t.get(i)? {
            "}" => return Some((out, i + 1)),
            "lv" => {
                out.push(Stmt::Lv(t.get(i + 1)?.to_string()));
                i += 2;
            }
            "use" => {
                out.push(Stmt::Use(t.get(i + 1)?.to_string()));
                i += 2;
            }
            "lvi" => {
                out.push(Stmt::Lvi(t.get(i + 1)?.to_string(), t.get(i + 2)?.to_string()));
                i += 3;
            }
            "{" => {
                let (b, j) = parse_stmts(t, i + 1)?;
                out.push(Stmt::Block(b));
                i = j;
            }
            _ => return None,
        }
    }
}

fn parse_items(t: &[&str], mut i: usize, top: bool) -> Option<(Vec<Item>, usize)> {
    let mut out = Vec::new();
    loop {
        if i >= t.len() {
            return if top { Some((out, i)) } else { None };
        }
        match t[i] {
            "end" => return if top { None } else { Some((out, i + 1)) },
            "ns" => {
                let name = t.get(i + 1)?.to_string();
                let (inner, j) = parse_items(t, i + 2, false)?;
                out.push(Item::Ns(name, inner));
                i = j;
            }
            k @ ("st" | "en") => {
                let name = t.get(i + 1)?.to_string();
                let mut j = i + 2;
                let mut xs = Vec::new();
                while *t.get(j)? != "end" {
                    xs.push(t[j].to_string());
                    j += 1;
                }
                out.push(if k == "st" { Item::St(name, xs) } else { Item::En(name, xs) });
                i = j + 1;
            }
            "gl" => {
                out.push(Item::Gl(t.get(i + 1)?.to_string()));
                i += 2;
            }
            "fn" => {
                let name = t.get(i + 1)?.to_string();
                let pt = t.get(i + 2)?.to_string();
                let np = if pt == "-" { 0 } else { pt.len() };
                let mut params = Vec::new();
                for k in 0..np {
                    params.push(t.get(i + 3 + k)?.to_string());
                }
                if *t.get(i + 3 + np)? != "{" {
                    return None;
                }
                let (body, j) = parse_stmts(t, i + 4 + np)?;
                out.push(Item::Fn(name, pt, params, body));
                i = j;
            }
            _ => return None,
        }
    }
}

fn parse_program(s: &str) -> Option<Vec<Item>> {
    let t: Vec<&str> = s.split(' ').filter(|x| !x.is_empty()).collect();
    let (items, i) = parse_items(&t, 0, true)?;
    if i == t.len() { Some(items) } else { None }
}

fn show_stmts(ss: &[Stmt], out: &mut Vec<String>) {
    for s in ss {
        match s {
            Stmt::Lv(n) => {
                out.push("lv".into());
                out.push(n.clone());
            }
            Stmt::Use(r) => {
                out.push("use".into());
                out.push(r.clone());
            }
            Stmt::Lvi(n, r) => {
                out.push("lvi".into());
                out.push(n.clone());
                out.push(r.clone());
            }
            Stmt::Block(b) => {
                out.push("{".into());
                show_stmts(b, out);
                out.push("}".into());
            }
        }
    }
}

fn show_items(items: &[Item], out: &mut Vec<String>) {
    for it in items {
        match it {
            Item::Ns(n, inner) => {
                out.push("ns".into());
                out.push(n.clone());
                show_items(inner, out);
                out.push("end".into());
            }
            Item::St(n, xs) | Item::En(n, xs) => {
                out.push(if matches!(it, Item::St(..)) { "st" } else { "en" }.into());
                out.push(n.clone());
                out.extend(xs.iter().cloned());
                out.push("end".into());
            }
            Item::Gl(n) => {
                out.push("gl".into());
                out.push(n.clone());
            }
            Item::Fn(n, pt, ps, body) => {
                out.push("fn".into());
                out.push(n.clone());
                out.push(pt.clone());
                out.extend(ps.iter().cloned());
                out.push("{".into());
                show_stmts(body, out);
                out.push("}".into());
            }
        }
    }
}

fn show_program(items: &[Item]) -> String {
    let mut v = Vec::new();
    show_items(items, &mut v);
    v.join(" ")
}

/// entity key: kind letter (N S E G F L M V), ordinal, sub-index (members / enum values)
type Key = (char, usize, usize);

#[derive(Clone, Debug)]
struct Ent {
    key: Key,
    name: String,
    /// containing namespace ordinal (N S E G F), owning function (L), struct (M), enum (V)
    owner: Option<usize>,
    /// for functions: parameter type string
    ptypes: String,
}

#[derive(Default, Clone)]
struct Table {
    ents: Vec<Ent>,
    counts: HashMap<char, usize>,
}

impl Table {
    fn of(&self, kind: char) -> Vec<&Ent> {
        let mut v: Vec<&Ent> = self.ents.iter().filter(|e| e.key.0 == kind).collect();
        v.sort_by_key(|e| (e.key.1, e.key.2));
        v
    }
    fn get(&self, key: Key) -> Option<&Ent> {
        self.ents.iter().find(|e| e.key == key)
    }
    fn ns_path(&self, ns: Option<usize>) -> Vec<usize> {
        let mut v = Vec::new();
        let mut cur = ns;
        while let Some(i) = cur {
            v.insert(0, i);
            cur = self.get(('N', i, 0)).and_then(|e| e.owner);
        }
        v
    }
}

/// Walk the program in registry order, calling `f(key, owner, old name)` for every entity and rebuilding the
/// tree with the returned names.  Ordinals: namespaces by first opening, everything else by declaration order.
struct Walker<'a> {
    table: Table,
    ns_ids: HashMap<(Option<usize>, String), usize>,
    f: &'a mut dyn FnMut(Key, &str) -> String,
}

impl<'a> Walker<'a> {
    fn next(&mut self, k: char) -> usize {
        let c = self.table.counts.entry(k).or_insert(0);
        *c += 1;
        *c - 1
    }
    fn ent(&mut self, key: Key, name: &str, owner: Option<usize>, ptypes: &str) -> String {
        if !self.table.ents.iter().any(|e| e.key == key) {
            self.table.ents.push(Ent { key, name: name.to_string(), owner, ptypes: ptypes.to_string() });
        }
        (self.f)(key, name)
    }
    fn stmts(&mut self, ss: &[Stmt], func: usize) -> Vec<Stmt> {
        ss.iter()
            .map(|s| match s {
                Stmt::Lv(n) => {
                    let o = self.next('L');
                    Stmt::Lv(self.ent(('L', o, 0), n, Some(func), ""))
                }
                Stmt::Use(r) => Stmt::Use(r.clone()),
                Stmt::Lvi(n, r) => {
                    let o = self.next('L');
                    Stmt::Lvi(self.ent(('L', o, 0), n, Some(func), ""), r.clone())
                }
                Stmt::Block(b) => Stmt::Block(self.stmts(b, func)),
            })
            .collect()
    }
    fn items(&mut self, items: &[Item], cur: Option<usize>) -> Vec<Item> {
        let mut out = Vec::new();
        for it in items {
            out.push(match it {
                Item::Ns(n, inner) => {
                    let id = match self.ns_ids.get(&(cur, n.clone())) {
                        Some(i) => *i,
                        None => {
                            let i = self.next('N');
                            self.ns_ids.insert((cur, n.clone()), i);
                            i
                        }
                    };
                    let nn = self.ent(('N', id, 0), n, cur, "");
                    Item::Ns(nn, self.items(inner, Some(id)))
                }
                Item::St(n, ms) => {
                    let o = self.next('S');
                    let nn = self.ent(('S', o, 0), n, cur, "");
                    let ms2 = ms.iter().enumerate().map(|(i, m)| self.ent(('M', o, i), m, Some(o), "")).collect();
                    Item::St(nn, ms2)
                }
                Item::En(n, vs) => {
                    let o = self.next('E');
                    let nn = self.ent(('E', o, 0), n, cur, "");
                    let vs2 = vs.iter().enumerate().map(|(i, v)| self.ent(('V', o, i), v, Some(o), "")).collect();
                    Item::En(nn, vs2)
                }
                Item::Gl(n) => {
                    let o = self.next('G');
                    Item::Gl(self.ent(('G', o, 0), n, cur, ""))
                }
                Item::Fn(n, pt, ps, body) => {
                    let o = self.next('F');
                    let nn = self.ent(('F', o, 0), n, cur, pt);
                    let ps2 = ps
                        .iter()
                        .map(|p| {
                            let l = self.next('L');
                            self.ent(('L', l, 0), p, Some(o), "")
                        })
                        .collect();
                    Item::Fn(nn, pt.clone(), ps2, self.stmts(body, o))
                }
            });
        }
        out
    }
}

fn walk(items: &[Item], f: &mut dyn FnMut(Key, &str) -> String) -> (Vec<Item>, Table) {
    let mut w = Walker { table: Table::default(), ns_ids: HashMap::new(), f };
    let out = w.items(items, None);
    (out, w.table)
}

fn table_of(items: &[Item]) -> Table {
    walk(items, &mut |_, n| n.to_string()).1
}

fn fresh_name(key: Key) -> String {
    if key.0 == 'M' || key.0 == 'V' {
        format!("zq{}{}x{}z", key.0, key.1, key.2)
    } else {
        format!("zq{}{}z", key.0, key.1)
    }
}

/// `zqF12z` / `zqM3x1z` (+ suffix the exporter may have appended) -> (key, suffix)
fn decode_fresh(tok: &str) -> Option<(Key, String)> {
    let b = tok.as_bytes();
    if b.len() < 5 || &b[0..2] != b"zq" || !b[2].is_ascii_uppercase() {
        return None;
    }
    let kind = b[2] as char;
    let mut i = 3;
    let mut ord = 0usize;
    let s = i;
    while i < b.len() && b[i].is_ascii_digit() {
        ord = ord * 10 + (b[i] - b'0') as usize;
        i += 1;
    }
    if i == s {
        return None;
    }
    let mut sub = 0usize;
    if i < b.len() && b[i] == b'x' {
        i += 1;
        let s2 = i;
        while i < b.len() && b[i].is_ascii_digit() {
            sub = sub * 10 + (b[i] - b'0') as usize;
            i += 1;
        }
        if i == s2 {
            return None;
        }
    }
    if i >= b.len() || b[i] != b'z' {
        return None;
    }
    Some(((kind, ord, sub), tok[i + 1..].to_string()))
}

// ------------------------------------------------------------------------------------------ source text

fn ptype(c: char) -> &'static str {
    match c {
        'f' => "float",
        'u' => "uint",
        _ => "int",
    }
}

fn parg(c: char) -> &'static str {
    match c {
        'f' => "0.0",
        'u' => "0u",
        _ => "0",
    }
}

fn qualified_src(t: &Table, e: &Ent) -> String {
    let mut parts: Vec<String> = Vec::new();
    let ns = match e.key.0 {
        'V' => {
            let en = t.get(('E', e.key.1, 0)).unwrap();
            parts.push(en.name.clone());
            en.owner
        }
        _ => e.owner,
    };
    let mut path: Vec<String> = t.ns_path(ns).iter().map(|i| t.get(('N', *i, 0)).unwrap().name.clone()).collect();
    path.extend(parts);
    path.push(e.name.clone());
    format!("::{}", path.join("::"))
}

/// expression position classes a use can be printed at (`use G0@i`): every operand field of an ir::Expression variant that
/// gather_usage_for_expression has to descend into.  No suffix = the whole expression statement.
const USE_POSITIONS: &[char] = &['i', 'j', 'a', 't', 'c', 'b', 'k', 'n', 's', 'o'];

fn ref_pos(r: &str) -> Option<char> {
    r.split_once('@').and_then(|(_, p)| p.chars().next())
}

/// the use `x` (a qualified path or a call) wrapped so that it sits at position class `p`
fn at_pos(x: &str, p: Option<char>) -> String {
    match p {
        // subscript INDEX (ArraySubscript field 1), also nested in the index of an index
        Some('i') => format!("int4(0, 0, 0, 0)[{}]", x),
        Some('j') => format!("int4(0, 0, 0, 0)[int4(0, 0, 0, 0)[{}]]", x),
        // subscript OBJECT (ArraySubscript field 0)
        Some('o') => format!("int4({}, 0, 0, 0)[0]", x),
        // intrinsic argument, ternary arm / condition, binary operand, cast operand, constructor argument, swizzle object
        Some('a') => format!("abs({})", x),
        Some('t') => format!("(true ? {} : 0)", x),
        Some('c') => format!("({} != 0 ? 1 : 0)", x),
        Some('b') => format!("(1 + {})", x),
        Some('k') => format!("(float){}", x),
        Some('n') => format!("int2({}, 0)", x),
        Some('s') => format!("int2({}, 0).x", x),
        _ => x.to_string(),
    }
}

fn parse_ref(r: &str) -> Option<Key> {
    let r = r.split_once('@').map(|(a, _)| a).unwrap_or(r);
    let kind = r.chars().next()?;
    let rest = &r[1..];
    if let Some((a, b)) = rest.split_once('.') {
        Some((kind, a.parse().ok()?, b.parse().ok()?))
    } else {
        Some((kind, rest.parse().ok()?, 0))
    }
}

fn use_expr(r: &str, t: &Table) -> String {
    let p = ref_pos(r);
    match parse_ref(r).and_then(|k| t.get(k)) {
        Some(e) if e.key.0 == 'L' => at_pos(&e.name, p),
        Some(e) if e.key.0 == 'F' => {
            let args: Vec<&str> = if e.ptypes == "-" { vec![] } else { e.ptypes.chars().map(parg).collect() };
            at_pos(&format!("{}({})", qualified_src(t, e), args.join(", ")), p)
        }
        Some(e) => at_pos(&qualified_src(t, e), p),
        None => "0".to_string(),
    }
}

fn src_stmts(ss: &[Stmt], t: &Table, out: &mut String, depth: usize) {
    for s in ss {
        out.push_str(&"    ".repeat(depth));
        match s {
            Stmt::Lv(n) => out.push_str(&format!("int {} = 0;\n", n)),
            Stmt::Block(b) => {
                out.push_str("{\n");
                src_stmts(b, t, out, depth + 1);
                out.push_str(&"    ".repeat(depth));
                out.push_str("}\n");
            }
            Stmt::Use(r) => out.push_str(&format!("{};\n", use_expr(r, t))),
            Stmt::Lvi(n, r) => out.push_str(&format!("int {} = {};\n", n, use_expr(r, t))),
        }
    }
}

fn src_items(items: &[Item], t: &Table, out: &mut String) {
    for it in items {
        match it {
            Item::Ns(n, inner) => {
                out.push_str(&format!("namespace {} {{\n", n));
                src_items(inner, t, out);
                out.push_str("}\n");
            }
            Item::St(n, ms) => {
                out.push_str(&format!("struct {} {{", n));
                for m in ms {
                    out.push_str(&format!(" int {};", m));
                }
                out.push_str(" };\n");
            }
            Item::En(n, vs) => out.push_str(&format!("enum {} {{ {} }};\n", n, vs.join(", "))),
            Item::Gl(n) => out.push_str(&format!("static int {} = 0;\n", n)),
            Item::Fn(n, pt, ps, body) => {
                let params: Vec<String> = if pt == "-" {
                    vec![]
                } else {
                    pt.chars().zip(ps.iter()).map(|(c, p)| format!("{} {}", ptype(c), p)).collect()
                };
                out.push_str(&format!("int {}({}) {{\n", n, params.join(", ")));
                src_stmts(body, t, out, 1);
                out.push_str("    return 0;\n}\n");
            }
        }
    }
}

fn source_of(items: &[Item]) -> String {
    let t = table_of(items);
    let mut s = String::new();
    src_items(items, &t, &mut s);
    s
}

// ------------------------------------------------------------------------------------------ real code

fn compile_text(src: &str, msl: bool) -> Result<String, String> {
    let mut inc = MemFiles(vec![("main.rssl".to_string(), src.to_string())]);
    let target = if msl { rssl::Target::Msl } else { rssl::Target::HlslForDirectX };
    let args = rssl::CompileArgs::new("main.rssl", &mut inc, target).no_pipeline_mode();
    match guard(|| rssl::compile(args)) {
        Err(p) => Err(format!("panic {}", p)),
        Ok(Err(rssl::CompileError::Text(t))) => Err(format!("error {}", t.lines().next().unwrap_or(""))),
        Ok(Err(_)) => Err("error other".to_string()),
        Ok(Ok(ps)) => Ok(String::from_utf8_lossy(&ps[0].data).to_string()),
    }
}

/// (key, qualified name) for every symbol `NameMap::build` names, keyed by ordinal; also the registry's source
/// names so that the ordinal convention of the descriptor can be checked
fn real_names(module: &ir::Module, reserved: &[String], intr: bool) -> Vec<(Key, Vec<String>, String)> {
    let rs: Vec<&str> = reserved.iter().map(|s| s.as_str()).collect();
    let nm = NameMap::build(module, &rs, intr);
    let mut out = Vec::new();
    for i in 0..module.namespace_registry.get_namespace_count() {
        let id = ir::NamespaceId(i);
        out.push((
            ('N', i as usize, 0),
            nm.get_name_qualified(NameSymbol::Namespace(id)).0,
            module.namespace_registry.get_namespace_name(id).to_string(),
        ));
    }
    for i in 0..module.struct_registry.len() {
        out.push((
            ('S', i, 0),
            nm.get_name_qualified(NameSymbol::Struct(ir::StructId(i as u32))).0,
            module.struct_registry[i].name.node.clone(),
        ));
    }
    for i in 0..module.enum_registry.get_enum_count() {
        out.push((
            ('E', i as usize, 0),
            nm.get_name_qualified(NameSymbol::Enum(ir::EnumId(i))).0,
            module.enum_registry.get_enum_definition(ir::EnumId(i)).name.node.clone(),
        ));
    }
    // enum values are symbols of the scope that contains their enum
    for i in 0..module.enum_registry.get_enum_count() {
        for (j, vid) in module.enum_registry.get_values(ir::EnumId(i)).iter().enumerate() {
            out.push((
                ('V', i as usize, j),
                nm.get_name_qualified(NameSymbol::EnumValue(*vid)).0,
                module.enum_registry.get_enum_value(*vid).name.node.clone(),
            ));
        }
    }
    let mut k = 0;
    for i in 0..module.global_registry.len() {
        if module.global_registry[i].is_intrinsic {
            continue;
        }
        out.push((
            ('G', k, 0),
            nm.get_name_qualified(NameSymbol::GlobalVariable(ir::GlobalId(i as u32))).0,
            module.global_registry[i].name.node.clone(),
        ));
        k += 1;
    }
    let mut k = 0;
    for id in module.function_registry.iter() {
        if module.function_registry.get_intrinsic_data(id).is_some() {
            continue;
        }
        let sig = module.function_registry.get_function_signature(id);
        if !sig.template_params.is_empty() && module.function_registry.get_template_instantiation_data(id).is_none() {
            continue;
        }
        out.push((
            ('F', k, 0),
            nm.get_name_qualified(NameSymbol::Function(id)).0,
            module.function_registry.get_function_name(id).to_string(),
        ));
        k += 1;
    }
    for id in module.variable_registry.iter() {
        out.push((
            ('L', id.0 as usize, 0),
            nm.get_name_qualified(NameSymbol::LocalVariable(id)).0,
            module.variable_registry.get_local_variable(id).name.node.clone(),
        ));
    }
    out
}

// ------------------------------------------------------------------------------------------ output lexer

#[derive(Clone, Debug, PartialEq)]
enum Tok {
    Id(String),
    Other(String),
}

fn lex(text: &str) -> Vec<Tok> {
    let b: Vec<char> = text.chars().collect();
    let mut i = 0;
    let mut out = Vec::new();
    while i < b.len() {
        let c = b[i];
        if c.is_whitespace() {
            i += 1;
        } else if c == '/' && i + 1 < b.len() && b[i + 1] == '/' {
            while i < b.len() && b[i] != '\n' {
                i += 1;
            }
        } else if c == '/' && i + 1 < b.len() && b[i + 1] == '*' {
            i += 2;
            while i + 1 < b.len() && !(b[i] == '*' && b[i + 1] == '/') {
                i += 1;
            }
            i += 2;
        } else if c.is_ascii_alphabetic() || c == '_' {
            let s = i;
            while i < b.len() && (b[i].is_ascii_alphanumeric() || b[i] == '_') {
                i += 1;
            }
            out.push(Tok::Id(b[s..i].iter().collect()));
        } else if c.is_ascii_digit() {
            let s = i;
            while i < b.len() && (b[i].is_ascii_alphanumeric() || b[i] == '_' || b[i] == '.') {
                i += 1;
            }
            out.push(Tok::Other(b[s..i].iter().collect()));
        } else if c == ':' && i + 1 < b.len() && b[i + 1] == ':' {
            out.push(Tok::Other("::".into()));
            i += 2;
        } else {
            out.push(Tok::Other(c.to_string()));
            i += 1;
        }
    }
    out
}

// ------------------------------------------------------------------------------------------ output oracle

#[derive(Clone, Debug, PartialEq, Eq, Hash, PartialOrd, Ord)]
enum ScopeKey {
    Root,
    Ns(usize),
    St(usize),
    En(usize),
    Anon(usize),
}

struct Resolver {
    scopes: HashMap<ScopeKey, Vec<(String, Key)>>,
    frames: Vec<ScopeKey>,
    anon: usize,
    declared: HashSet<Key>,
    fails: BTreeSet<String>,
    emitted: BTreeMap<Key, String>,
    target: String,
}

impl Resolver {
    fn in_function(&self) -> bool {
        self.frames.iter().any(|f| matches!(f, ScopeKey::Anon(_)))
    }
    fn declare_in(&mut self, scope: ScopeKey, name: &str, key: Key) {
        let v = self.scopes.entry(scope).or_default();
        if v.iter().any(|(n, k)| n == name && *k == key) {
            return;
        }
        if let Some((_, other)) = v.iter().find(|(n, k)| n == name && *k != key) {
            let mut ks = [other.0, key.0];
            ks.sort();
            self.fails.insert(format!(
                "dup:{}:{}{} | {} and {} are both declared as '{}' in one scope of the output",
                self.target,
                ks[0],
                ks[1],
                show_key(*other),
                show_key(key),
                name
            ));
        }
        v.push((name.to_string(), key));
    }
    fn declare(&mut self, name: &str, key: Key) {
        let cur = self.frames.last().cloned().unwrap_or(ScopeKey::Root);
        self.declare_in(cur, name, key);
        self.declared.insert(key);
    }
    fn sub_scope(key: Key) -> Option<ScopeKey> {
        match key.0 {
            'N' => Some(ScopeKey::Ns(key.1)),
            'S' => Some(ScopeKey::St(key.1)),
            'E' => Some(ScopeKey::En(key.1)),
            _ => None,
        }
    }
    /// C++ lookup of `a::b::c` (or `::a::b::c`) from the current frame stack
    fn resolve(&self, chain: &[String], absolute: bool) -> Vec<Key> {
        let qualified = chain.len() > 1;
        let first = &chain[0];
        let pick = |scope: &ScopeKey| -> Vec<Key> {
            self.scopes
                .get(scope)
                .map(|v| {
                    v.iter()
                        .filter(|(n, k)| n == first && (!qualified || Self::sub_scope(*k).is_some()))
                        .map(|(_, k)| *k)
                        .collect()
                })
                .unwrap_or_default()
        };
        let mut cands: Vec<Key> = Vec::new();
        if absolute {
            cands = pick(&ScopeKey::Root);
        } else {
            for f in self.frames.iter().rev() {
                cands = pick(f);
                if !cands.is_empty() {
                    break;
                }
            }
        }
        for comp in &chain[1..] {
            let mut next = Vec::new();
            for c in &cands {
                if let Some(sc) = Self::sub_scope(*c) {
                    if let Some(v) = self.scopes.get(&sc) {
                        let last = std::ptr::eq(comp, chain.last().unwrap());
                        for (n, k) in v {
                            if n == comp && (last || Self::sub_scope(*k).is_some()) {
                                next.push(*k);
                            }
                        }
                    }
                }
            }
            cands = next;
        }
        cands.sort();
        cands.dedup();
        cands
    }
}

fn show_key(k: Key) -> String {
    if k.0 == 'M' || k.0 == 'V' { format!("{}{}.{}", k.0, k.1, k.2) } else { format!("{}{}", k.0, k.1) }
}

/// Walk the two aligned token streams (t0 = output for the skeleton P0, t1 = output for P)
fn check_output(t0: &[Tok], t1: &[Tok], spec: &HashSet<String>, real: &[String], target: &str) -> Resolver {
    let mut r = Resolver {
        scopes: HashMap::new(),
        frames: vec![ScopeKey::Root],
        anon: 0,
        declared: HashSet::new(),
        fails: BTreeSet::new(),
        emitted: BTreeMap::new(),
        target: target.to_string(),
    };
    // skeleton
    if t0.len() != t1.len() {
        r.fails.insert(format!("skeleton:{} | {} tokens for the skeleton program, {} for the renamed one", target, t0.len(), t1.len()));
        return r;
    }
    for (a, b) in t0.iter().zip(t1.iter()) {
        match (a, b) {
            (Tok::Other(x), Tok::Other(y)) if x == y => {}
            (Tok::Id(x), Tok::Id(y)) => match decode_fresh(x) {
                Some((key, suffix)) => {
                    if !suffix.is_empty() {
                        r.fails.insert(format!("verbatim:fresh:{} | unique fresh name of {} printed as '{}'", key.0, show_key(key), x));
                    }
                    match r.emitted.get(&key) {
                        Some(prev) if prev != y => {
                            r.fails.insert(format!("inconsistent:{}:{} | {} printed as '{}' and '{}'", target, key.0, show_key(key), prev, y));
                        }
                        Some(_) => {}
                        None => {
                            r.emitted.insert(key, y.clone());
                        }
                    }
                }
                None => {
                    if x != y {
                        r.fails.insert(format!("skeleton:{} | non-entity identifier '{}' became '{}'", target, x, y));
                    }
                }
            },
            _ => {
                r.fails.insert(format!("skeleton:{} | token {:?} became {:?}", target, a, b));
                return r;
            }
        }
    }
    let id0 = |i: usize| -> Option<&str> {
        match t0.get(i) {
            Some(Tok::Id(s)) => Some(s.as_str()),
            _ => None,
        }
    };
    let id1 = |i: usize| -> String {
        match t1.get(i) {
            Some(Tok::Id(s)) => s.clone(),
            _ => String::new(),
        }
    };
    let is = |i: usize, s: &str| -> bool { matches!(t0.get(i), Some(Tok::Other(x)) if x == s) };
    let reserved_check = |r: &mut Resolver, name: &str, key: Key| {
        if spec.contains(name) {
            let listed = real.iter().any(|x| x == name);
            let k = match key.0 {
                'M' | 'V' => format!("reserved-unrenamed:{}:{}", target, key.0),
                'N' => format!("reserved-namespace-decl:{}", target),
                _ if listed => format!("reserved-listed-but-printed:{}:{}", target, key.0),
                _ => format!("reserved-missing:{}:{}", target, name),
            };
            r.fails.insert(format!("{} | {} is declared as '{}', a reserved/built-in name of the target", k, show_key(key), name));
        }
    };
    let mut i = 0;
    // state of a function header being scanned: depth of parentheses
    let mut header_paren: Option<usize> = None;
    let mut paren = 0usize;
    while i < t0.len() {
        match &t0[i] {
            Tok::Other(s) => {
                match s.as_str() {
                    "(" => paren += 1,
                    ")" => {
                        paren = paren.saturating_sub(1);
                        if header_paren == Some(paren) {
                            // end of a parameter list: a body `{` keeps the function frame, `;` drops it
                            header_paren = None;
                            let mut j = i + 1;
                            while j < t0.len() && !is(j, "{") && !is(j, ";") {
                                j += 1;
                            }
                            if is(j, ";") {
                                r.frames.pop();
                            }
                            i = j + 1;
                            continue;
                        }
                    }
                    "{" => {
                        r.anon += 1;
                        let k = ScopeKey::Anon(r.anon);
                        r.frames.push(k);
                    }
                    "}" => {
                        if r.frames.len() > 1 {
                            r.frames.pop();
                        }
                    }
                    _ => {}
                }
                i += 1;
            }
            Tok::Id(w) => {
                // scope-opening keywords
                if (w == "namespace" || w == "struct" || w == "enum") && id0(i + 1).is_some() {
                    let mut j = i + 1;
                    let scoped_enum = w == "enum" && (id0(j) == Some("class") || id0(j) == Some("struct"));
                    if scoped_enum {
                        j += 1;
                    }
                    if let Some((key, _)) = id0(j).and_then(decode_fresh) {
                        let name = id1(j);
                        reserved_check(&mut r, &name, key);
                        r.declare(&name, key);
                        if is(j + 1, "{") {
                            let sk = Resolver::sub_scope(key).unwrap_or(ScopeKey::Root);
                            r.frames.push(sk);
                            if w == "enum" {
                                // enumerators: first identifier after `{` or `,`; unscoped ones are also visible outside
                                let mut k = j + 2;
                                let mut expect = true;
                                while k < t0.len() && !is(k, "}") {
                                    if expect {
                                        if let Some((vk, _)) = id0(k).and_then(decode_fresh) {
                                            let vn = id1(k);
                                            reserved_check(&mut r, &vn, vk);
                                            r.declare(&vn, vk);
                                            if !scoped_enum && r.frames.len() >= 2 {
                                                let parent = r.frames[r.frames.len() - 2].clone();
                                                r.declare_in(parent, &vn, vk);
                                            }
                                        }
                                        expect = false;
                                    }
                                    if is(k, ",") {
                                        expect = true;
                                    }
                                    k += 1;
                                }
                                r.frames.pop();
                                i = k + 1;
                                continue;
                            }
                            i = j + 2;
                            continue;
                        }
                        i = j + 1;
                        continue;
                    }
                }
                // member access: `.name` is looked up in the object's type, not by scope
                if i > 0 && is(i - 1, ".") {
                    i += 1;
                    continue;
                }
                // identifier chain
                let absolute = i > 0 && is(i - 1, "::");
                let mut j = i;
                let mut chain0 = vec![w.clone()];
                let mut chain1 = vec![id1(i)];
                while is(j + 1, "::") && id0(j + 2).is_some() {
                    chain0.push(id0(j + 2).unwrap().to_string());
                    chain1.push(id1(j + 2));
                    j += 2;
                }
                let last = decode_fresh(chain0.last().unwrap());
                if let Some((key, _)) = last {
                    let single = chain0.len() == 1 && !absolute;
                    let in_fn = r.in_function();
                    let in_header = header_paren.is_some();
                    let decl = single
                        && match key.0 {
                            'F' => !in_fn && is(j + 1, "("),
                            'L' => !r.declared.contains(&key) || (in_header && false),
                            'G' => (in_header) || (!in_fn && !r.declared.contains(&key)),
                            'M' => !r.declared.contains(&key),
                            _ => false,
                        };
                    if decl {
                        let name = chain1[0].clone();
                        reserved_check(&mut r, &name, key);
                        r.declare(&name, key);
                        if key.0 == 'F' {
                            // open the function frame for the parameter list (and the body, if any)
                            r.anon += 1;
                            let k = ScopeKey::Anon(r.anon);
                            r.frames.push(k);
                            header_paren = Some(paren);
                        }
                    } else {
                        let got = r.resolve(&chain1, absolute);
                        if got != vec![key] {
                            let shown: Vec<String> = got.iter().map(|k| show_key(*k)).collect();
                            let kinds: String = got.iter().map(|k| k.0).collect::<BTreeSet<char>>().into_iter().collect();
                            r.fails.insert(format!(
                                "capture:{}:{}:{}{} | '{}' printed for {} resolves to [{}] in the output",
                                target,
                                key.0,
                                if chain1.len() > 1 { "q" } else { "" },
                                kinds,
                                chain1.join("::"),
                                show_key(key),
                                shown.join(",")
                            ));
                        }
                    }
                }
                i = j + 1;
            }
        }
    }
    r
}

// ------------------------------------------------------------------------------------------ one case

struct Ctx {
    tables: Tables,
    hist: Hist,
}

fn source_scope_names(t: &Table, e: &Ent) -> Vec<String> {
    // the names declared in the source scope of `e` (other than `e` itself)
    let mut v = Vec::new();
    for o in &t.ents {
        if o.key == e.key {
            continue;
        }
        let same = match (e.key.0, o.key.0) {
            ('L', 'L') => o.owner == e.owner,
            // the names visible inside a function body: everything declared in the function's namespace or an
            // enclosing one (a local that shares such a name is not "unique in its scope": one of the two has to
            // be renamed when the other is used in the body)
            ('L', k) if "NSEGFV".contains(k) => {
                let fns = e.owner.and_then(|f| t.get(('F', f, 0))).and_then(|f| f.owner);
                let chain = t.ns_path(fns);
                let decl = if k == 'V' { enum_parent(t, o).unwrap_or(None) } else { o.owner };
                match decl {
                    None => true,
                    Some(n) => chain.contains(&n),
                }
            }
            ('M', 'M') => o.owner == e.owner,
            ('V', 'V') => o.owner == e.owner || enum_parent(t, o) == enum_parent(t, e),
            ('V', k) if "NSEGF".contains(k) => enum_parent(t, e) == Some(o.owner),
            (k, 'V') if "NSEGF".contains(k) => enum_parent(t, o) == Some(e.owner),
            (a, b) if "NSEGF".contains(a) && "NSEGF".contains(b) => o.owner == e.owner,
            _ => false,
        };
        if same {
            v.push(o.name.clone());
        }
    }
    v
}

fn enum_parent(t: &Table, v: &Ent) -> Option<Option<usize>> {
    t.get(('E', v.key.1, 0)).map(|e| e.owner)
}

fn run_case(target: &str, prog: &str, cx: &mut Ctx, out: &mut Out) {
    let req = format!("C15.names\t{}\t{}", target, prog);
    let msl = target == "m";
    let ti = if msl { 1 } else { 0 };
    let items = match parse_program(prog) {
        Some(i) => i,
        None => {
            out.case(&req, "bad-request", "SKIP:descriptor does not parse");
            return;
        }
    };
    let table = table_of(&items);
    let src = source_of(&items);
    let module = match guard(|| front_end_src(&src)) {
        Err(p) => {
            cx.hist.add("skip:front-end panic");
            out.case(&req, &format!("front-end-panic {}", p), "SKIP:front end panics (not an accepted program; see notes, C08)");
            return;
        }
        Ok(Err(e)) => {
            cx.hist.add(&format!("skip:{}-error", e.stage()));
            out.case(&req, &format!("{}-error", e.stage()), "SKIP:not an accepted program");
            return;
        }
        Ok(Ok(m)) => m,
    };
    let reserved = &cx.tables.real[ti];
    let intr = !msl;
    let names = match guard(|| real_names(&module, reserved, intr)) {
        Ok(n) => n,
        Err(p) => {
            cx.hist.add("panic:NameMap::build");
            out.case(&req, &format!("panic:{}", p), &format!("FAIL:panic {}", p));
            return;
        }
    };
    let mut nv = 0;
    let obs: Vec<String> = names
        .iter()
        .map(|(k, q, _)| {
            // enum values are numbered through all enums (EnumValueId order)
            let ord = if k.0 == 'V' {
                nv += 1;
                nv - 1
            } else {
                k.1
            };
            format!("{}{}={}", k.0, ord, q.join("::"))
        })
        .collect();
    let obs = obs.join(" ");
    // the descriptor's ordinal convention against the registries
    for (k, _, srcname) in &names {
        match table.get(*k) {
            Some(e) if &e.name == srcname => {}
            _ => {
                cx.hist.add("skip:registry order differs from descriptor order");
                out.case(&req, &obs, &format!("SKIP:registry order differs at {}", show_key(*k)));
                return;
            }
        }
    }
    let n_named = table.ents.iter().filter(|e| "NSEVGFL".contains(e.key.0)).count();
    if n_named != names.len() {
        cx.hist.add("skip:registry size differs");
        out.case(&req, &obs, "SKIP:registry size differs from descriptor");
        return;
    }
    let mut fails: BTreeSet<String> = BTreeSet::new();
    let spec = &cx.tables.spec[ti];
    let is_reserved = |n: &str| spec.contains(n) || reserved.iter().any(|r| r == n);
    // ---- oracle on the assignment itself
    let leaf: HashMap<Key, String> = names.iter().map(|(k, q, _)| (*k, q.last().cloned().unwrap_or_default())).collect();
    for (k, q, _) in &names {
        let l = q.last().unwrap();
        if is_reserved(l) {
            fails.insert(format!("reserved-missing:{}:{} | NameMap::build names {} '{}', a reserved/built-in name of the target", target, l, show_key(*k), l));
        }
    }
    for a in &table.ents {
        for b in &table.ents {
            let scope_of = |e: &Ent| if e.key.0 == 'V' { enum_parent(&table, e).unwrap_or(None) } else { e.owner };
            if a.key < b.key && "NSEVGF".contains(a.key.0) && "NSEVGF".contains(b.key.0) && scope_of(a) == scope_of(b) && leaf[&a.key] == leaf[&b.key] {
                fails.insert(format!("dup-namemap:{} | NameMap::build names {} and {} both '{}' in one scope", target, show_key(a.key), show_key(b.key), leaf[&a.key]));
            }
        }
    }
    // ---- oracle on the emitted text
    let (p0, _) = walk(&items, &mut |k, _| fresh_name(k));
    let src0 = source_of(&p0);
    let text1 = compile_text(&src, msl);
    let text0 = compile_text(&src0, msl);
    let mut emitted: BTreeMap<Key, String> = BTreeMap::new();
    match (&text0, &text1) {
        (Err(e), _) => {
            cx.hist.add("skip:skeleton does not compile");
            out.case(&req, &obs, &format!("SKIP:skeleton program does not compile: {}", e));
            return;
        }
        (Ok(_), Err(e)) => {
            if e.starts_with("panic") {
                fails.insert(format!("panic {}", e.trim_start_matches("panic ")));
            } else {
                fails.insert(format!("accept:{} | renamed program fails to export while the skeleton exports: {}", target, e));
            }
        }
        (Ok(a), Ok(b)) => {
            let (t0, t1) = (lex(a), lex(b));
            let r = check_output(&t0, &t1, spec, reserved, target);
            fails.extend(r.fails.iter().cloned());
            emitted = r.emitted.clone();
            for (k, n) in &r.emitted {
                if let Some(l) = leaf.get(k) {
                    if l != n {
                        fails.insert(format!("tie:{}:{} | {} printed as '{}' but NameMap::build with the source table gives '{}'", target, k.0, show_key(*k), n, l));
                    }
                }
            }
        }
    }
    // ---- verbatim
    let all_emitted: HashSet<String> = emitted.values().cloned().chain(leaf.values().cloned()).collect();
    for e in &table.ents {
        let printed = emitted.get(&e.key).or_else(|| leaf.get(&e.key));
        if let Some(p) = printed {
            if p != &e.name && !is_reserved(&e.name) && !source_scope_names(&table, e).contains(&e.name) {
                let class = if all_emitted.contains(&e.name) { "generated-clash" } else { "other" };
                let lvl = if e.key.0 == 'L' { "local" } else { "global" };
                fails.insert(format!(
                    "verbatim:{}:{}:{} | {} '{}' is unique in its scope and not reserved but printed as '{}'",
                    class, lvl, e.key.0, show_key(e.key), e.name, p
                ));
            }
        }
    }
    cx.hist.add(if fails.is_empty() { "ok" } else { "fail" });
    cx.hist.add(&format!("entities:{}", (table.ents.len() / 4) * 4));
    if obs.contains("_0") || obs.contains("_1") {
        cx.hist.add("with-generated-name");
    }
    {
        // the same generated leaf (name_k) assigned in two different scopes: the case that tells the per-scope
        // `used_names` from `used_names_all_scopes`
        let mut seen: HashMap<String, BTreeSet<String>> = HashMap::new();
        for (k, q, srcname) in &names {
            let l = q.last().unwrap();
            if k.0 != 'L' && l != srcname {
                seen.entry(l.clone()).or_default().insert(q[..q.len() - 1].join("::"));
            }
        }
        if seen.values().any(|v| v.len() >= 2) {
            cx.hist.add("same-generated-name-in-2-scopes");
        }
    }
    if fails.is_empty() {
        out.case(&req, &obs, "ok");
    } else {
        for f in &fails {
            cx.hist.add(&format!("fail:{}", f.split(|c| c == ':' || c == ' ').next().unwrap_or("")));
            out.case(&req, &obs, &format!("FAIL:{}", f));
        }
    }
}

// ------------------------------------------------------------------------------------------ generator

struct Pools {
    ordinary: Vec<String>,
    special: Vec<String>,
}

struct Gen<'a> {
    rng: &'a mut Rng,
    pool: Vec<String>,
    refs_g: Vec<String>,
    refs_f: Vec<String>,
    refs_v: Vec<String>,
    counts: HashMap<char, usize>,
}

impl<'a> Gen<'a> {
    fn name(&mut self) -> String {
        let base = self.rng.pick(&self.pool).clone();
        match self.rng.below(10) {
            0 => format!("{}_0", base),
            1 => format!("{}_1", base),
            2 => format!("{}_0_0", base),
            _ => base,
        }
    }
    fn next(&mut self, k: char) -> usize {
        let c = self.counts.entry(k).or_insert(0);
        *c += 1;
        *c - 1
    }
    fn stmts(&mut self, depth: usize, visible: &mut Vec<usize>) -> Vec<Stmt> {
        let n = self.rng.below(4) as usize;
        let mut out = Vec::new();
        for _ in 0..n {
            match self.rng.below(10) {
                0..=3 => {
                    let l = self.next('L');
                    visible.push(l);
                    out.push(Stmt::Lv(self.name()));
                }
                4 if depth < 2 => {
                    let mark = visible.len();
                    let b = self.stmts(depth + 1, visible);
                    visible.truncate(mark);
                    out.push(Stmt::Block(b));
                }
                5 | 6 if !self.refs_g.is_empty() => out.push(Stmt::Use(self.rng.pick(&self.refs_g).clone())),
                7 if !self.refs_f.is_empty() => out.push(Stmt::Use(self.rng.pick(&self.refs_f).clone())),
                8 if !self.refs_v.is_empty() => out.push(Stmt::Use(self.rng.pick(&self.refs_v).clone())),
                _ if !visible.is_empty() => out.push(Stmt::Use(format!("L{}", self.rng.pick(visible)))),
                _ => {}
            }
        }
        out
    }
    fn items(&mut self, depth: usize, n: usize) -> Vec<Item> {
        let mut out = Vec::new();
        for _ in 0..n {
            match self.rng.below(12) {
                0 | 1 if depth < 2 => {
                    let name = self.name();
                    self.next('N');
                    let k = 1 + self.rng.below(3) as usize;
                    let inner = self.items(depth + 1, k);
                    out.push(Item::Ns(name, inner));
                }
                2 => {
                    let s = self.next('S');
                    let _ = s;
                    let k = 1 + self.rng.below(2) as usize;
                    let ms = (0..k).map(|_| self.name()).collect();
                    out.push(Item::St(self.name(), ms));
                }
                3 => {
                    let e = self.next('E');
                    let k = 1 + self.rng.below(2) as usize;
                    let vs: Vec<String> = (0..k).map(|_| self.name()).collect();
                    for i in 0..k {
                        self.refs_v.push(format!("V{}.{}", e, i));
                    }
                    out.push(Item::En(self.name(), vs));
                }
                4 | 5 | 6 => {
                    let g = self.next('G');
                    self.refs_g.push(format!("G{}", g));
                    out.push(Item::Gl(self.name()));
                }
                _ => {
                    let f = self.next('F');
                    let np = self.rng.below(3) as usize;
                    let pt: String = if np == 0 { "-".into() } else { (0..np).map(|_| *self.rng.pick(&['i', 'f', 'u'])).collect() };
                    let mut visible = Vec::new();
                    let ps: Vec<String> = (0..np)
                        .map(|_| {
                            let l = self.next('L');
                            visible.push(l);
                            self.name()
                        })
                        .collect();
                    let name = self.name();
                    let body = self.stmts(0, &mut visible);
                    self.refs_f.push(format!("F{}", f));
                    out.push(Item::Fn(name, pt, ps, body));
                }
            }
        }
        out
    }
}

/// Namespace ordinals of the generator must follow first opening; reopening an existing namespace would shift
/// them, so the generator's references are only valid when every `ns` opens a new namespace.  The references are
/// re-validated here against the real table: uses whose target does not exist or is not visible are dropped.
fn sanitize(items: &[Item]) -> Vec<Item> {
    let t = table_of(items);
    fn fix(ss: &[Stmt], t: &Table, func: usize, vis: &mut Vec<(usize, String)>, next_local: &mut usize) -> Vec<Stmt> {
        let mut out = Vec::new();
        for s in ss {
            match s {
                Stmt::Lv(n) => {
                    vis.push((*next_local, n.clone()));
                    *next_local += 1;
                    out.push(s.clone());
                }
                Stmt::Block(b) => {
                    let mark = vis.len();
                    let b2 = fix(b, t, func, vis, next_local);
                    vis.truncate(mark);
                    out.push(Stmt::Block(b2));
                }
                Stmt::Use(r) => {
                    let ok = match parse_ref(r) {
                        Some(k) if k.0 == 'L' => {
                            // visible, and the innermost visible local of that source name
                            match vis.iter().rev().find(|(o, _)| *o == k.1) {
                                Some((_, n)) => vis.iter().rev().find(|(_, m)| m == n).map(|(o, _)| *o) == Some(k.1),
                                None => false,
                            }
                        }
                        Some(k) if k.0 == 'F' => k.1 <= func && t.get(k).is_some(),
                        Some(k) => t.get(k).is_some(),
                        None => false,
                    };
                    if ok {
                        out.push(s.clone());
                    }
                }
                Stmt::Lvi(n, _) => {
                    vis.push((*next_local, n.clone()));
                    *next_local += 1;
                    out.push(s.clone());
                }
            }
        }
        out
    }
    fn go(items: &[Item], t: &Table, nf: &mut usize, nl: &mut usize) -> Vec<Item> {
        items
            .iter()
            .map(|it| match it {
                Item::Ns(n, inner) => Item::Ns(n.clone(), go(inner, t, nf, nl)),
                Item::Fn(n, pt, ps, body) => {
                    let f = *nf;
                    *nf += 1;
                    let mut vis = Vec::new();
                    for p in ps {
                        vis.push((*nl, p.clone()));
                        *nl += 1;
                    }
                    let b = fix(body, t, f, &mut vis, nl);
                    Item::Fn(n.clone(), pt.clone(), ps.clone(), b)
                }
                other => other.clone(),
            })
            .collect()
    }
    go(items, &t, &mut 0, &mut 0)
}

fn random_program(rng: &mut Rng, pools: &Pools) -> Vec<Item> {
    let mut pool = Vec::new();
    let n_ord = 1 + rng.below(3);
    for _ in 0..n_ord {
        pool.push(rng.pick(&pools.ordinary).clone());
    }
    let n_sp = rng.below(3);
    for _ in 0..n_sp {
        pool.push(rng.pick(&pools.special).clone());
    }
    let mut g = Gen { rng, pool, refs_g: vec![], refs_f: vec![], refs_v: vec![], counts: HashMap::new() };
    let n = 2 + g.rng.below(5) as usize;
    let items = g.items(0, n);
    sanitize(&items)
}

/// deterministic sweep: every name of the real tables and of the independent lists in every declaration position
fn sweep_programs(name: &str) -> Vec<String> {
    vec![
        format!("fn {} - {{ }}", name),
        format!("gl {}", name),
        format!("st {} zqm end", name),
        format!("st zqs {} end", name),
        format!("en {} zqv end", name),
        format!("en zqe {} end", name),
        format!("ns {} gl zqg end", name),
        format!("fn zqf i {} {{ lv zql use L0 }}", name),
        format!("fn zqf - {{ lv {} use L0 }}", name),
        // the same overloaded / reserved base name in two namespaces and at the root (per-scope used_names)
        format!("ns zqn fn {0} i zqa {{ }} fn {0} f zqb {{ }} end ns zqm fn {0} i zqc {{ }} fn {0} f zqd {{ use F0 use F2 }} end fn {0} u zqe {{ use F1 use F3 }}", name),
        format!("ns zqn gl {0} end ns zqm gl {0} fn zqf - {{ use G0 use G1 }} ns zqk gl {0} end end", name),
        // the name next to the candidates the generator derives from it
        format!("fn {0} i zqa {{ }} fn {0} f zqb {{ }} fn {0}_0 - {{ }} gl {0}_1", name),
        format!("fn {0}_0 - {{ }} fn zqf i {0} {{ use L0 use F0 }}", name),
    ]
}

/// directed programs: symbol `x` (global, namespaced global, function) whose every use sits at ONE position class, and a
/// local / parameter `x` in the using function
fn position_programs() -> Vec<String> {
    let mut v = Vec::new();
    let mut ps: Vec<String> = vec![String::new()];
    ps.extend(USE_POSITIONS.iter().map(|c| format!("@{}", c)));
    for p in &ps {
        // `::x` with a local / parameter / block local `x` in scope
        v.push(format!("gl x fn zqf - {{ lv x use G0{} }}", p));
        v.push(format!("gl x fn zqf i x {{ use G0{} }}", p));
        v.push(format!("gl x fn zqf - {{ {{ lv x use G0{} }} }}", p));
        // `N::x`
        v.push(format!("ns N gl x end fn zqf - {{ lv x use G0{} }}", p));
        // the initialiser is typed before the local is declared: `int x = <use of x>;`
        v.push(format!("gl x fn zqf - {{ lvi x G0{} }}", p));
        v.push(format!("fn x i zqa {{ }} fn zqf - {{ lvi x F0{} }}", p));
        v.push(format!("ns N fn x - {{ }} end fn zqf - {{ lvi x F0{} }}", p));
        // function called only there
        v.push(format!("fn x - {{ }} fn zqf - {{ lv x use F0{} }}", p));
        // the use sits in another function than the local (the reservation is module-wide)
        v.push(format!("gl x fn zqg - {{ use G0{} }} fn zqf - {{ lv x use F0 }}", p));
        // one use there and the local declared by `lvi` from another symbol
        v.push(format!("gl x gl y fn zqf - {{ lvi x G1{} use G0{} }}", p, p));
    }
    v
}

/// every use of a global / function moves to a random position class; a third of the plain locals that follow a visible
/// symbol get that symbol as initialiser
fn scatter_positions(items: &[Item], rng: &mut Rng) -> Vec<Item> {
    fn stmts(ss: &[Stmt], rng: &mut Rng) -> Vec<Stmt> {
        ss.iter()
            .map(|s| match s {
                Stmt::Use(r) if (r.starts_with('G') || r.starts_with('F')) && !r.contains('@') => {
                    let k = rng.below(USE_POSITIONS.len() as u64 + 2) as usize;
                    match USE_POSITIONS.get(k) {
                        Some(c) => Stmt::Use(format!("{}@{}", r, c)),
                        // the subscript index twice as often as the others
                        None if k == USE_POSITIONS.len() => Stmt::Use(format!("{}@i", r)),
                        None => s.clone(),
                    }
                }
                Stmt::Block(b) => Stmt::Block(stmts(b, rng)),
                other => other.clone(),
            })
            .collect()
    }
    items
        .iter()
        .map(|it| match it {
            Item::Ns(n, inner) => Item::Ns(n.clone(), scatter_positions(inner, rng)),
            Item::Fn(n, pt, ps, body) => Item::Fn(n.clone(), pt.clone(), ps.clone(), stmts(body, rng)),
            other => other.clone(),
        })
        .collect()
}

pub fn run(args: &Args, out: &mut Out) {
    let mut cx = Ctx { tables: tables(), hist: Hist::default() };
    if let Some(lines) = args.request_lines() {
        for line in lines {
            let f: Vec<&str> = line.split('\t').collect();
            if f.len() == 3 && f[0] == "C15.names" {
                run_case(f[1], f[2], &mut cx, out);
            } else if f.len() == 3 && f[0] == "C15.res" {
                let Ctx { tables, hist } = &mut cx;
                let mut rcx = res::RCtx { real: &tables.real, spec: &tables.spec, hist };
                res::run_case(f[1], f[2], &mut rcx, out);
            } else if f.len() == 3 && f[0] == "C15.rshow" {
                res::show(&line, f[1], f[2], out);
            } else if f.len() == 3 && f[0] == "C15.raw" {
                res::raw(&line, f[1], f[2], out);
            } else if f.len() == 3 && f[0] == "C15.src" {
                // reproducer aid: raw RSSL source (\n escaped) -> emitted text; answered `unsupported` by the model
                let src = f[2].replace("\\n", "\n");
                let text = compile_text(&src, f[1] == "m").unwrap_or_else(|e| e);
                out.case(&line, &format!("unsupported-op {}", text), "ok");
            }
        }
        out.stat(&format!("{{\"mode\":\"replay\",\"hist\":{}}}", cx.hist.json()));
        return;
    }
    let mut rng = Rng::new(args.seed);
    // (1) sweep over reserved / built-in names
    let mut special: Vec<String> = Vec::new();
    for t in 0..2 {
        for n in cx.tables.real[t].iter().chain(cx.tables.spec[t].iter()) {
            if is_ident(n) && !STRUCTURE_WORDS.contains(&n.as_str()) && !special.contains(n) {
                special.push(n.clone());
            }
        }
    }
    special.sort();
    let mut swept = 0u64;
    let stride = if args.thorough() { 1 } else { 4 };
    let off = (args.seed % stride) as usize;
    for (i, n) in special.iter().enumerate() {
        for (j, p) in sweep_programs(n).iter().enumerate() {
            // quick: every name as a function and as a local; the other positions on a seed-dependent quarter
            if !(j == 0 || j == 8 || j == 9 || (i + j) % stride as usize == off) {
                continue;
            }
            for t in ["h", "m"] {
                run_case(t, p, &mut cx, out);
                swept += 1;
            }
        }
    }
    // (2) random programs over small name pools (shared names across scopes, name_N forms, reserved names)
    let pools = Pools {
        ordinary: ["a", "b", "c", "x", "y", "foo", "N", "S", "v"].iter().map(|s| s.to_string()).collect(),
        special: special.clone(),
    };
    let n = args.n.unwrap_or(if args.thorough() { 20000 } else { 1200 });
    for _ in 0..n {
        let items = random_program(&mut rng, &pools);
        let prog = show_program(&items);
        for t in ["h", "m"] {
            run_case(t, &prog, &mut cx, out);
        }
    }
    // (2b) usage positions: a function / global used ONLY at one expression position class (subscript index, nested index,
    // subscript object, intrinsic argument, ternary arm / condition, binary operand, cast, constructor argument, swizzle
    // object, initialiser of a local declared under the symbol's own name) next to a same-named local / parameter of the
    // using function; then random programs (own generator: the older stream keeps its programs) whose uses sit at random
    // positions.  NameMap::build must keep the local off the emitted name wherever the use sits.
    let mut pos_cases = 0u64;
    for p in position_programs() {
        for t in ["h", "m"] {
            run_case(t, &p, &mut cx, out);
            pos_cases += 1;
        }
    }
    {
        let mut prng = Rng::new(args.seed ^ 0x705c_15a7);
        let pools2 = Pools { ordinary: ["a", "b", "x", "N"].iter().map(|s| s.to_string()).collect(), special: vec!["a".to_string()] };
        let np = if args.thorough() { 3000 } else { 300 };
        for _ in 0..np {
            let items = random_program(&mut prng, &pools2);
            let items = scatter_positions(&items, &mut prng);
            let prog = show_program(&items);
            for t in ["h", "m"] {
                run_case(t, &prog, &mut cx, out);
                pos_cases += 1;
            }
        }
    }
    cx.hist.add(&format!("position-cases:{}", pos_cases));
    // (3) resources, pipelines and generated declarations on all four target configurations
    let (rswept, rn) = {
        let Ctx { tables, hist } = &mut cx;
        let mut rcx = res::RCtx { real: &tables.real, spec: &tables.spec, hist };
        res::generate(args, &special, &mut rcx, out)
    };
    out.stat(&format!(
        "{{\"sweep_cases\":{},\"random_programs\":{},\"res_sweep_cases\":{},\"res_random_programs\":{},\"special_names\":{},\"hist\":{}}}",
        swept,
        n,
        rswept,
        rn,
        special.len(),
        cx.hist.json()
    ));
}

//! Programs around calls that LEAVE OUT defaulted trailing arguments of a callee that (transitively) uses a threaded global.
//! On Metal such a callee receives the global as an extra trailing reference parameter and is therefore declared WITHOUT
//! default values; `generate_user_call` has to write the default values of the left-out parameters itself, between the
//! provided arguments and the arguments for the globals.  The position where the left-out parameters start is counted on the
//! call's operand list, which for `CallType::MethodExternal` (`obj.m(..)` from outside the struct) starts with the OBJECT
//! (seeded mutant C02-6 counted it as an argument: `a.scale(x)` was emitted as `a.scale(x, bias)` against
//! `scale(int v, int factor, thread int& bias)`).
//!
//! Every program has ONE callee with 0..2 required parameters (optionally an `inout` one: the callee then gets an out
//! trampoline, which is declared without default values as well) and 1..3 defaulted trailing parameters, whose result weighs
//! every parameter differently (a default in another parameter's position changes the value), and one caller PER number of
//! left-out arguments (0..k) so that every request is a minimal input:
//!
//! * call kind: `ext` — `obj.m(..)` from a free function (object = a local, an `inout` parameter, an array element, a member
//!   of another struct); `int` — from another method of the struct (`CallType::MethodInternal`), itself called from outside;
//!   `free` — a free function (file scope or in a namespace); `nest` — `obj.m(obj.m(..))`, a call with left-out arguments as
//!   an argument of another one
//! * global class: `static` read and written by the callee, `helper` — only through a function the callee calls, `default` —
//!   only named by a default value, `groupshared`, `extern` (a constant buffer), `none` (control: the declaration keeps its
//!   default values and the call stays as written).  The typed evaluator has no groupshared / extern globals: those programs
//!   are judged by the arity oracle of `vec.rs` alone (every emitted call binds every parameter of a declaration of that name)
//! * default values: literals, constant expressions, file-scope constants, the threaded global itself
#![allow(dead_code)]
use crate::util::Rng;

pub const KINDS: [&str; 4] = ["ext", "int", "free", "nest"];
pub const GLOBALS: [&str; 6] = ["static", "helper", "default", "groupshared", "extern", "none"];

#[derive(Clone, Copy, Debug)]
pub struct Shape {
    /// scalar kind of everything: 0 int, 1 float, 2 uint
    pub ty: u64,
    /// index into KINDS
    pub kind: u64,
    /// index into GLOBALS
    pub global: u64,
    /// number of required parameters (0..=2)
    pub required: u64,
    /// the first required parameter is `inout` (needs `required >= 1`)
    pub inout: bool,
    /// number of defaulted trailing parameters (1..=3)
    pub defaults: u64,
    /// rotation of the default-value forms
    pub dform: u64,
    /// rotation of the object form (ext / nest) or of the namespace (free)
    pub oform: u64,
}

fn tyname(ty: u64) -> &'static str {
    ["int", "float", "uint"][ty as usize % 3]
}

fn lit(ty: u64, v: u64) -> String {
    match ty % 3 {
        0 => format!("{}", v),
        1 => format!("{}.0f", v),
        _ => format!("{}u", v),
    }
}

/// the default value of the j-th defaulted parameter
fn default_value(s: &Shape, j: u64, rng: &mut Rng) -> String {
    let v = 2 + rng.below(7) + 10 * (j + 1);
    let threaded = matches!(GLOBALS[s.global as usize], "static" | "helper" | "default");
    if GLOBALS[s.global as usize] == "default" && j == 0 {
        return "gs".into();
    }
    match (s.dform + j) % 4 {
        0 => lit(s.ty, v),
        1 => format!("({} + {})", lit(s.ty, v), lit(s.ty, 1 + rng.below(5))),
        2 => "KC".into(),
        _ if threaded => "gs".into(),
        _ => format!("({} * KC)", lit(s.ty, 2)),
    }
}

/// (source, tag for the input distribution)
pub fn program(s: &Shape, rng: &mut Rng) -> (String, String) {
    let t = tyname(s.ty);
    let kind = KINDS[s.kind as usize];
    let glob = GLOBALS[s.global as usize];
    let required = if s.inout { s.required.max(1) } else { s.required };
    let mut src = String::new();
    src.push_str(&format!("static const {} KC = {};\n", t, lit(s.ty, 4)));
    match glob {
        "static" | "helper" | "default" => src.push_str(&format!("static {} gs = {};\n", t, lit(s.ty, 10 + rng.below(5)))),
        "groupshared" => src.push_str(&format!("groupshared {} gsh[4];\n", t)),
        "extern" => src.push_str(&format!("struct CbS\n{{\n    {}4 v;\n}};\nConstantBuffer<CbS> gcb;\n", t)),
        _ => {}
    }
    if glob == "helper" {
        src.push_str(&format!("{} hread({} d)\n{{\n    gs = gs + d;\n    return gs;\n}}\n", t, t));
    }
    // parameters of the callee
    let mut params: Vec<String> = Vec::new();
    for i in 0..required {
        params.push(format!("{}{} r{}", if s.inout && i == 0 { "inout " } else { "" }, t, i));
    }
    for j in 0..s.defaults {
        params.push(format!("{} d{} = {}", t, j, default_value(s, j, rng)));
    }
    // the result weighs every parameter differently
    let mut value = if kind == "free" { lit(s.ty, 1) } else { "total".to_string() };
    let mut w = 3;
    for i in 0..required {
        value = format!("({} * {} + r{})", value, lit(s.ty, w), i);
        w += 2;
    }
    for j in 0..s.defaults {
        value = format!("({} * {} + d{})", value, lit(s.ty, w), j);
        w += 2;
    }
    let mut body: Vec<String> = Vec::new();
    match glob {
        "static" => {
            body.push(format!("gs = gs + {};", lit(s.ty, 1)));
            value = format!("{} + gs", value);
        }
        "helper" => value = format!("{} + hread({})", value, lit(s.ty, 2)),
        "groupshared" => {
            body.push(format!("gsh[1] = d0;"));
            value = format!("{} + gsh[1]", value);
        }
        "extern" => value = format!("{} + gcb.v.y", value),
        _ => {}
    }
    if s.inout {
        body.push(format!("r0 = r0 + {};", lit(s.ty, 1)));
    }
    body.push(format!("return {};", value));
    let indent = if kind == "free" { "    " } else { "        " };
    let callee_body: String = body.iter().map(|l| format!("{}{}\n", indent, l)).collect();
    // the provided arguments of the call that leaves out `omit` defaulted parameters
    let args_of = |omit: u64, x: &str| -> String {
        let mut a: Vec<String> = Vec::new();
        for i in 0..required {
            a.push(if s.inout && i == 0 { "y".to_string() } else if i % 2 == 0 { x.to_string() } else { format!("({} + {})", x, lit(s.ty, 1)) });
        }
        for j in 0..(s.defaults - omit) {
            a.push(if j % 2 == 0 { lit(s.ty, 40 + j) } else { format!("({} + {})", x, lit(s.ty, 50 + j)) });
        }
        a.join(", ")
    };
    let pre_y = if s.inout { format!("    {} y = x;\n", t) } else { String::new() };
    let post_y = if s.inout { " + y" } else { "" };
    if kind == "free" {
        let (open, close, q) = if s.oform % 2 == 1 { ("namespace N\n{\n", "}\n", "N::") } else { ("", "", "") };
        src.push_str(open);
        src.push_str(&format!("{} fm({})\n{{\n{}}}\n", t, params.join(", "), callee_body));
        src.push_str(close);
        for omit in 0..=s.defaults {
            src.push_str(&format!("{} run{}({} x)\n{{\n{}    {} r = {}fm({});\n    return r{};\n}}\n", t, omit, t, pre_y, t, q, args_of(omit, "x"), post_y));
        }
    } else {
        src.push_str(&format!("struct Acc\n{{\n    {} total;\n    {} m({})\n    {{\n{}    }}\n", t, t, params.join(", "), callee_body));
        if kind == "int" {
            for omit in 0..=s.defaults {
                let pre = if s.inout { format!("        {} y = x;\n", t) } else { String::new() };
                src.push_str(&format!("    {} call{}({} x)\n    {{\n{}        {} r = m({});\n        return r + total{};\n    }}\n", t, omit, t, pre, t, args_of(omit, "x"), post_y));
            }
        }
        src.push_str("};\n");
        if s.oform % 4 == 3 {
            src.push_str("struct Outer\n{\n    Acc inner;\n    int pad;\n};\n");
        }
        for omit in 0..=s.defaults {
            // the object: a local, an inout parameter, an array element, a member of another struct
            let (sig, decl, obj) = match s.oform % 4 {
                0 => (format!("{} x", t), format!("    Acc a;\n    a.total = x;\n"), "a".to_string()),
                1 => (format!("{} x, inout Acc a", t), String::new(), "a".to_string()),
                2 => (format!("{} x", t), format!("    Acc arr[2];\n    arr[0].total = x;\n    arr[1].total = x + {};\n", lit(s.ty, 2)), "arr[1]".to_string()),
                _ => (format!("{} x", t), format!("    Outer o;\n    o.pad = 1;\n    o.inner.total = x;\n"), "o.inner".to_string()),
            };
            let call = match kind {
                "int" => format!("{}.call{}(x)", obj, omit),
                "nest" if required >= 1 && !s.inout => {
                    // the inner call leaves out `omit`, the outer one everything
                    let mut outer: Vec<String> = vec![format!("{}.m({})", obj, args_of(omit, "x"))];
                    for _ in 1..required {
                        outer.push("x".to_string());
                    }
                    format!("{}.m({})", obj, outer.join(", "))
                }
                "nest" => format!("{}.m({}) + {}.m({})", obj, args_of(omit, "x"), obj, args_of(s.defaults, "x")),
                _ => format!("{}.m({})", obj, args_of(omit, "x")),
            };
            src.push_str(&format!("{} run{}({})\n{{\n{}{}    {} r = {};\n    return r{};\n}}\n", t, omit, sig, decl, pre_y, t, call, post_y));
        }
    }
    let tag = format!("c:call:{}:{}:req{}{}:def{}", kind, glob, required, if s.inout { "io" } else { "" }, s.defaults);
    (src, tag)
}

/// the enumerated part: every call kind x every global class x 1..3 defaulted parameters; the other choices rotate
pub fn enumerated_len() -> u64 {
    (KINDS.len() * GLOBALS.len() * 3) as u64
}

pub fn shape_at(idx: u64) -> Shape {
    let kind = idx % KINDS.len() as u64;
    let global = (idx / KINDS.len() as u64) % GLOBALS.len() as u64;
    let defaults = 1 + (idx / (KINDS.len() * GLOBALS.len()) as u64) % 3;
    let r = idx / 4 + idx;
    Shape { ty: if idx % 5 == 3 { 1 } else if idx % 7 == 5 { 2 } else { 0 }, kind, global, required: (r + defaults) % 3, inout: idx % 6 == 4, defaults, dform: r % 4, oform: (idx / 2 + global) % 4 }
}

pub fn random_shape(rng: &mut Rng) -> Shape {
    Shape {
        ty: if rng.chance(2, 3) { 0 } else { 1 + rng.below(2) },
        kind: rng.below(KINDS.len() as u64),
        // the control class less often
        global: if rng.chance(1, 10) { 5 } else { rng.below(5) },
        required: rng.below(3),
        inout: rng.chance(1, 4),
        defaults: 1 + rng.below(3),
        dform: rng.below(4),
        oform: rng.below(4),
    }
}

/// the `idx`-th program of the family
pub fn call_program(idx: u64, rng: &mut Rng) -> (String, String) {
    let s = if idx < enumerated_len() { shape_at(idx) } else { random_shape(rng) };
    program(&s, rng)
}

import RsslVerif.Lemmas.GenSemExpr
import RsslVerif.Model.GenHlslVec
import RsslVerif.Spec.SemVec
/-! Vector layer: the emitted vector expression simulates the typed one (`VSim`), by induction, re-using the scalar
`sim_expr` at the scalar leaves. -/
namespace RsslVerif.Lemmas.GenSemVec
open RsslVerif.Gen.HlslGenTables RsslVerif.Gen.HlslVecTables RsslVerif.Model RsslVerif.Model.IrVec
open RsslVerif.Model.GenHlsl RsslVerif.Model.GenHlslVec RsslVerif.Spec.Sem RsslVerif.Spec.SemVec RsslVerif.Lemmas.GenSem
open RsslVerif.Model.Ir (Ty Var Const Dir)

/-- static type of the emitted expression: an unsuffixed typed constant is a literal int -/
def vastTy (e : VExpr) (t : VTy) : VTy := if e.litlike then .sc .lit else t

/-- value of the emitted expression -/
def vastVal (e : VExpr) (v : VVal) : VVal :=
  if e.litlike then (match v with | .sc (.i x) => .sc (.lit x.toInt) | w => w) else v

/-- the emitted names denote the entities the IR referred to (C15's conclusion), also for vector-typed ones -/
structure VAgree (cx : Ctx) (env : VAst.VEnv) (vvty : Var → VTy) : Prop where
  base : Agree cx env.base
  vres : ∀ x, env.vres (cx.name x) = some x
  vvty : env.vvty = vvty

def VSim (W : World) (env : VAst.VEnv) (ρ : VStore) (e : VExpr) (a : VAExpr) (t : VTy) : Prop :=
  VAst.typeOf W.sig env a = some (vastTy e t) ∧
  ∀ σ, VAst.eval W env ρ a σ = (VIr.eval W ρ e σ).map (fun r => (vastVal e r.1, r.2))

theorem vlitlike_cases {e : VExpr} (h : e.litlike = true) : ∃ v, e = .sc (.lit (.int32 v)) := by
  cases e with
  | sc x =>
    cases x with
    | lit c => cases c <;> simp [VExpr.litlike] at h; exact ⟨_, rfl⟩
    | _ => simp [VExpr.litlike] at h
  | _ => simp [VExpr.litlike] at h

theorem VSim.plain {W : World} {env : VAst.VEnv} {ρ : VStore} {e : VExpr} {a : VAExpr} {t : VTy}
    (h : VSim W env ρ e a t) (hl : e.litlike = false) :
    VAst.typeOf W.sig env a = some t ∧ ∀ σ, VAst.eval W env ρ a σ = VIr.eval W ρ e σ := by
  obtain ⟨h1, h2⟩ := h
  refine ⟨by simpa [vastTy, hl] using h1, fun σ => ?_⟩
  rw [h2 σ]
  cases VIr.eval W ρ e σ <;> simp [vastVal, hl]

theorem VSim.lit {W : World} {env : VAst.VEnv} {ρ : VStore} {a : VAExpr} {t : VTy} {v : BitVec 32}
    (h : VSim W env ρ (.sc (.lit (.int32 v))) a t) :
    VAst.typeOf W.sig env a = some (.sc .lit) ∧ ∀ σ, VAst.eval W env ρ a σ = some (.sc (.lit v.toInt), σ) := by
  obtain ⟨h1, h2⟩ := h
  refine ⟨by simpa [vastTy, VExpr.litlike] using h1, fun σ => ?_⟩
  rw [h2 σ]
  simp [VIr.eval, Ir.eval, Ir.constVal, vastVal, VExpr.litlike]

theorem vlitlike_ty {sig : Sig} {vty : Var → Ty} {vvty : Var → VTy} {e : VExpr} {t : VTy}
    (ht : VIr.typeOf sig vty vvty e = some t) (hl : e.litlike = true) : t = .sc .int := by
  obtain ⟨v, rfl⟩ := vlitlike_cases hl
  simp [VIr.typeOf, Ir.typeOf, Const.ty] at ht
  exact ht.symm

theorem castShape_lit_int (P : Prim) (T : VTy) (v : BitVec 32) :
    castShape P T (.sc (.lit v.toInt)) = castShape P T (.sc (.i v)) := by
  cases T <;> simp [castShape, castVal_lit_int]

theorem VSim.conv {W : World} {env : VAst.VEnv} {ρ : VStore} {e : VExpr} {a : VAExpr} {t : VTy}
    {vty : Var → Ty} {vvty : Var → VTy}
    (h : VSim W env ρ e a t) (ht : VIr.typeOf W.sig vty vvty e = some t) (σ : Store) :
    VAst.vconvR W.P (vastTy e t) t (VAst.eval W env ρ a σ) = VIr.eval W ρ e σ := by
  by_cases hl : e.litlike = true
  · have htt := vlitlike_ty ht hl
    obtain ⟨v, rfl⟩ := vlitlike_cases hl
    subst htt
    simp [h.lit.2 σ, vastTy, VExpr.litlike, VAst.vconvR, VAst.vconvert, castShape, castVal, VIr.eval, Ir.eval,
      Ir.constVal, BitVec.ofInt_toInt]
  · have hl' : e.litlike = false := by simpa using hl
    rw [(h.plain hl').2 σ]
    cases hr : VIr.eval W ρ e σ with
    | none => simp [VAst.vconvR]
    | some r => simp [VAst.vconvR, VAst.vconvert, vastTy, hl']

theorem VSim.castShapeR {W : World} {env : VAst.VEnv} {ρ : VStore} {e : VExpr} {a : VAExpr} {t : VTy}
    (h : VSim W env ρ e a t) (T : VTy) (σ : Store) :
    castShapeR W.P T (VAst.eval W env ρ a σ) = castShapeR W.P T (VIr.eval W ρ e σ) := by
  by_cases hl : e.litlike = true
  · obtain ⟨v, rfl⟩ := vlitlike_cases hl
    simp [h.lit.2 σ, VIr.eval, Ir.eval, Ir.constVal, castShape_lit_int, Spec.SemVec.castShapeR]
  · have hl' : e.litlike = false := by simpa using hl
    rw [(h.plain hl').2 σ]

theorem vtypeName_vtyOfName {ty : VTy} {n : String} (h : vtypeName ty = .ok n)
    (h1 : ty.scalar ≠ .lit) (h2 : ty.scalar ≠ .flit) (h3 : ty.scalar ≠ .void) :
    VAst.vtyOfName n = some ty := by
  cases ty with
  | sc t =>
    cases t <;> simp [VTy.scalar] at h1 h2 h3 <;>
      simp [vtypeName, typeName, scalarKey, scalarTypeName] at h <;> subst h <;> decide
  | vec t k =>
    cases t <;> simp [VTy.scalar] at h1 h2 h3 <;>
      simp [vtypeName, typeName, scalarKey, scalarTypeName] at h <;>
      (match k, h with
       | 1, h => simp [dimSuffix] at h; subst h; decide
       | 2, h => simp [dimSuffix] at h; subst h; decide
       | 3, h => simp [dimSuffix] at h; subst h; decide
       | 4, h => simp [dimSuffix] at h; subst h; decide
       | 0, h => simp [dimSuffix] at h
       | k + 5, h => simp [dimSuffix] at h)

theorem charIdx_swizzleChar (s : SwizzleSlot) : VAst.charIdx (swizzleChar s) = some (slotIdx s) := by
  cases s <;> rfl

theorem parse_swizzleName (sl : List SwizzleSlot) : VAst.parseSwizzle (swizzleName sl) = some (sl.map slotIdx) := by
  simp only [VAst.parseSwizzle, swizzleName, String.toList_ofList]
  induction sl with
  | nil => rfl
  | cons s r ih => simp [mapOpt, charIdx_swizzleChar, ih]

set_option linter.unusedSimpArgs false

theorem withScalar_self {t : VTy} {k : Ty} (h : t.scalar = k) : t.withScalar k = t := by
  cases t <;> simp [VTy.scalar] at h <;> subst h <;> rfl

theorem common_self (k : Ty) : Ast.common k k = some k := by simp [Ast.common]

theorem vcommon_self (t : VTy) : VAst.vcommon t t = some t := by
  cases t with
  | sc k => simp [VAst.vcommon, VTy.scalar, common_self]
  | vec k n => simp [VAst.vcommon, VTy.scalar, common_self]

theorem vconvR_self (P : Prim) (t : VTy) (r : VR) : VAst.vconvR P t t r = r := by
  cases r with
  | none => rfl
  | some p => simp [VAst.vconvR, VAst.vconvert]

/-- the common type of the two emitted operands of a typed binary node is the node's operand type -/
theorem vcommon_vastTy {sig : Sig} {vty : Var → Ty} {vvty : Var → VTy} {x y : VExpr} {t : VTy}
    (hx : VIr.typeOf sig vty vvty x = some t) (hy : VIr.typeOf sig vty vvty y = some t)
    (hl : (x.litlike && y.litlike) = false) :
    VAst.vcommon (vastTy x t) (vastTy y t) = some t := by
  by_cases lx : x.litlike = true
  · have ly : y.litlike = false := by simpa [lx] using hl
    have := vlitlike_ty hx lx; subst this
    simp [vastTy, lx, ly, VAst.vcommon, VTy.scalar, Ast.common]
  · have lx' : x.litlike = false := by simpa using lx
    by_cases ly : y.litlike = true
    · have := vlitlike_ty hy ly; subst this
      simp [vastTy, lx', ly, VAst.vcommon, VTy.scalar, Ast.common]
    · have ly' : y.litlike = false := by simpa using ly
      simp [vastTy, lx', ly', vcommon_self]

variable {W : World} {env : VAst.VEnv} {ρ : VStore} {cx : Ctx} {vvty : Var → VTy}

theorem sim_vcast {ty : VTy} {x : VExpr} {x' a : VAExpr} {tx t : VTy}
    (hgx : genV cx x = .ok x') (hg : genV cx (.cast ty x) = .ok a)
    (hx : VSim W env ρ x x' tx) (htx : VIr.typeOf W.sig cx.vty vvty x = some tx)
    (ht : VIr.typeOf W.sig cx.vty vvty (.cast ty x) = some t) :
    VSim W env ρ (.cast ty x) a t := by
  simp only [VIr.typeOf, htx] at ht
  by_cases hlt : ty.scalar = .lit ∨ ty.scalar = .flit ∨ ty.scalar = .void
  · simp [hlt] at ht
  · simp [hlt] at ht
    subst ht
    have h1 : ty.scalar ≠ .lit := fun h => hlt (Or.inl h)
    have h2 : ty.scalar ≠ .flit := fun h => hlt (Or.inr (Or.inl h))
    have h3 : ty.scalar ≠ .void := fun h => hlt (Or.inr (Or.inr h))
    have hnl : ¬ (ty = .sc .lit ∨ ty = .sc .flit) := by
      intro h; rcases h with h | h <;> subst h <;> simp [VTy.scalar] at h1 h2
    simp only [genV, hgx, hnl, if_false] at hg
    cases hn : vtypeName ty with
    | error e => simp [hn] at hg
    | ok n =>
      simp [hn] at hg
      subst hg
      have htn := vtypeName_vtyOfName hn h1 h2 h3
      constructor
      · simp [VAst.typeOf, hx.1, htn, vastTy, VExpr.litlike]
      · intro σ
        simp only [VAst.eval, htn, VIr.eval]
        rw [hx.castShapeR ty σ]
        cases castShapeR W.P ty (VIr.eval W ρ x σ) <;> simp [vastVal, VExpr.litlike]


theorem all_map_slotIdx (sl : List SwizzleSlot) (n : Nat) :
    (sl.map slotIdx).all (fun i => decide (i < n)) = sl.all (fun s => decide (slotIdx s < n)) := by
  induction sl with
  | nil => rfl
  | cons s r ih => simp [List.all_cons, ih]

theorem sim_vswz {x : VExpr} {sl : List SwizzleSlot} {x' : VAExpr} {tx t : VTy}
    (hx : VSim W env ρ x x' tx) (htx : VIr.typeOf W.sig cx.vty vvty x = some tx)
    (ht : VIr.typeOf W.sig cx.vty vvty (.swz x sl) = some t) :
    VSim W env ρ (.swz x sl) (.member x' (swizzleName sl)) t := by
  have hcond : sl ≠ [] ∧ sl.all (fun s => decide (slotIdx s < tx.count)) = true ∧ x.litlike = false ∧
      t = swzTy tx.scalar sl.length := by
    simp only [VIr.typeOf, htx] at ht
    cases tx with
    | sc k =>
      simp only [] at ht
      split at ht
      · rename_i h; simp only [Option.some.injEq] at ht; exact ⟨h.1, h.2.1, h.2.2, ht.symm⟩
      · simp at ht
    | vec k n =>
      simp only [] at ht
      split at ht
      · rename_i h; simp only [Option.some.injEq] at ht; exact ⟨h.1, h.2.1, h.2.2, ht.symm⟩
      · simp at ht
  obtain ⟨hne, hall, hlx, rfl⟩ := hcond
  have hp := hx.plain hlx
  have hmt : VAst.memberTy tx (swizzleName sl) = some (swzTy tx.scalar sl.length) := by
    have hne' : sl.map slotIdx ≠ [] := by simpa using hne
    simp only [VAst.memberTy, parse_swizzleName, all_map_slotIdx, hall, List.length_map]
    simp [hne']
  constructor
  · simp [VAst.typeOf, hp.1, hmt, vastTy, VExpr.litlike]
  · intro σ
    simp only [VAst.eval, hp.1, hmt, parse_swizzleName, hp.2 σ, VIr.eval]
    cases VIr.eval W ρ x σ with
    | none => rfl
    | some r =>
      obtain ⟨v, σ1⟩ := r
      cases select (sl.map slotIdx) v <;> simp [vastVal, VExpr.litlike]

theorem sim_vun {o : IntrinsicOp} {u : UnaryOp} {x : VExpr} {x' : VAExpr} {tx t : VTy}
    (hf : opForm o = .unary u)
    (hx : VSim W env ρ x x' tx) (htx : VIr.typeOf W.sig cx.vty vvty x = some tx)
    (ht : VIr.typeOf W.sig cx.vty vvty (.op o (.cons x .nil)) = some t) :
    VSim W env ρ (.op o (.cons x .nil)) (.un u x') t := by
  have hsem := op_unary hf
  simp only [VIr.typeOf, htx] at ht
  cases hm : irOpSem o with
  | un m =>
    have hlx : x.litlike = false ∧ t = tx ∧ (m = .lnot → tx.scalar = .bool) := by
      rw [hm] at ht
      cases m <;> simp at ht
      all_goals first
        | (obtain ⟨h1, h2⟩ := ht; subst h2; simp [h1])
        | (obtain ⟨⟨h0, h1⟩, h2⟩ := ht; subst h2; simp [h0, h1])
    obtain ⟨hlx, rfl, hb⟩ := hlx
    have hp := hx.plain hlx
    have hconv : (if m = MUn.lnot then t.withScalar .bool else t) = t := by
      by_cases hmm : m = .lnot
      · simp [hmm, withScalar_self (hb hmm)]
      · simp [hmm]
    constructor
    · simp only [VAst.typeOf, hsem, hm, hp.1, vastTy, VExpr.litlike]
      cases m <;> simp
      exact withScalar_self (hb rfl)
    · intro σ
      simp only [VAst.eval, hsem, hm, hp.1, hconv, vconvR_self, hp.2 σ, VIr.eval]
      cases VIr.eval W ρ x σ with
      | none => rfl
      | some r =>
        obtain ⟨v, σ1⟩ := r
        cases lift1 (unop W.P m) v <;> simp [vastVal, VExpr.litlike]
  | _ => rw [hm] at ht; simp at ht


theorem sim_vbin {o : IntrinsicOp} {b : BinOp} {x y : VExpr} {x' y' : VAExpr} {tx ty t : VTy}
    (hf : opForm o = .binary b)
    (hx : VSim W env ρ x x' tx) (htx : VIr.typeOf W.sig cx.vty vvty x = some tx)
    (hy : VSim W env ρ y y' ty) (hty : VIr.typeOf W.sig cx.vty vvty y = some ty)
    (ht : VIr.typeOf W.sig cx.vty vvty (.op o (.cons x (.cons y .nil))) = some t) :
    VSim W env ρ (.op o (.cons x (.cons y .nil))) (.bin b x' y') t := by
  have hsem := op_binary hf
  simp only [VIr.typeOf, htx, hty] at ht
  cases hm : irOpSem o with
  | bin m =>
    rw [hm] at ht
    simp only [] at ht
    split at ht
    · rename_i hc
      obtain ⟨rfl, hl⟩ := hc
      have hcm := vcommon_vastTy htx hty hl
      have hres : t = (if m.isCmp then tx.withScalar .bool else tx) := by
        cases hcmp : m.isCmp <;> simp [hcmp] at ht ⊢ <;> exact ht.symm
      constructor
      · simp only [VAst.typeOf, hsem, hm, hx.1, hy.1, hcm]
        have : vastTy (.op o (.cons x (.cons y .nil))) t = t := by simp [vastTy, VExpr.litlike]
        rw [this, hres]
        cases m.isCmp <;> simp
      · intro σ
        simp only [VAst.eval, hsem, hm, hx.1, hy.1, hcm, hx.conv htx σ, VIr.eval]
        cases VIr.eval W ρ x σ with
        | none => rfl
        | some r =>
          obtain ⟨va, σ1⟩ := r
          simp only [hy.conv hty σ1]
          cases VIr.eval W ρ y σ1 with
          | none => rfl
          | some r2 =>
            obtain ⟨vb, σ2⟩ := r2
            cases lift2 (binop W.P m) va vb <;> simp [vastVal, VExpr.litlike]
    · simp at ht
  | land =>
    rw [hm] at ht
    have hb : tx = .sc .bool ∧ ty = .sc .bool ∧ t = .sc .bool := by
      cases tx with
      | vec k n => simp at ht
      | sc k =>
        cases ty with
        | vec k2 n2 => cases k <;> simp at ht
        | sc k2 => cases k <;> cases k2 <;> simp at ht <;> exact ⟨rfl, rfl, ht.symm⟩
    obtain ⟨rfl, rfl, rfl⟩ := hb
    have lx : x.litlike = false := by
      cases h : x.litlike <;> simp
      have := vlitlike_ty htx h
      simp at this
    have ly : y.litlike = false := by
      cases h : y.litlike <;> simp
      have := vlitlike_ty hty h
      simp at this
    have hpx := hx.plain lx
    have hpy := hy.plain ly
    constructor
    · simp [VAst.typeOf, hsem, hm, hpx.1, hpy.1, vastTy, VExpr.litlike]
    · intro σ
      simp only [VAst.eval, hsem, hm, hpx.1, hpy.1, vconvR_self, hpx.2 σ, VIr.eval]
      cases VIr.eval W ρ x σ with
      | none => rfl
      | some r =>
        obtain ⟨v, σ1⟩ := r
        cases v with
        | vec vs => simp
        | sc sv =>
          cases sv with
          | b bv =>
            cases bv
            · simp [vastVal, VExpr.litlike]
            · simp only [hpy.2 σ1]
              cases VIr.eval W ρ y σ1 with
              | none => simp
              | some r2 =>
                obtain ⟨w, σ2⟩ := r2
                cases w with
                | vec ws => simp
                | sc sw => cases sw <;> simp [vastVal, VExpr.litlike]
          | _ => simp
  | lor =>
    rw [hm] at ht
    have hb : tx = .sc .bool ∧ ty = .sc .bool ∧ t = .sc .bool := by
      cases tx with
      | vec k n => simp at ht
      | sc k =>
        cases ty with
        | vec k2 n2 => cases k <;> simp at ht
        | sc k2 => cases k <;> cases k2 <;> simp at ht <;> exact ⟨rfl, rfl, ht.symm⟩
    obtain ⟨rfl, rfl, rfl⟩ := hb
    have lx : x.litlike = false := by
      cases h : x.litlike <;> simp
      have := vlitlike_ty htx h
      simp at this
    have ly : y.litlike = false := by
      cases h : y.litlike <;> simp
      have := vlitlike_ty hty h
      simp at this
    have hpx := hx.plain lx
    have hpy := hy.plain ly
    constructor
    · simp [VAst.typeOf, hsem, hm, hpx.1, hpy.1, vastTy, VExpr.litlike]
    · intro σ
      simp only [VAst.eval, hsem, hm, hpx.1, hpy.1, vconvR_self, hpx.2 σ, VIr.eval]
      cases VIr.eval W ρ x σ with
      | none => rfl
      | some r =>
        obtain ⟨v, σ1⟩ := r
        cases v with
        | vec vs => simp
        | sc sv =>
          cases sv with
          | b bv =>
            cases bv
            · simp only [hpy.2 σ1]
              cases VIr.eval W ρ y σ1 with
              | none => simp
              | some r2 =>
                obtain ⟨w, σ2⟩ := r2
                cases w with
                | vec ws => simp
                | sc sw => cases sw <;> simp [vastVal, VExpr.litlike]
            · simp [vastVal, VExpr.litlike]
          | _ => simp
  | _ => rw [hm] at ht; simp at ht

theorem sim_vtern {c f g : VExpr} {c' f' g' : VAExpr} {tc tf tg t : VTy}
    (hc : VSim W env ρ c c' tc) (htc : VIr.typeOf W.sig cx.vty vvty c = some tc)
    (hf : VSim W env ρ f f' tf) (htf : VIr.typeOf W.sig cx.vty vvty f = some tf)
    (hg : VSim W env ρ g g' tg) (htg : VIr.typeOf W.sig cx.vty vvty g = some tg)
    (ht : VIr.typeOf W.sig cx.vty vvty (.tern c f g) = some t) :
    VSim W env ρ (.tern c f g) (.tern c' f' g') t := by
  simp only [VIr.typeOf, htc, htf, htg] at ht
  have hb : tc = .sc .bool ∧ tf = t ∧ tg = t ∧ (f.litlike && g.litlike) = false := by
    cases tc with
    | vec k n => simp at ht
    | sc k =>
      cases k <;> simp at ht
      obtain ⟨⟨h1, h2⟩, h3⟩ := ht
      subst h1; subst h3; simp; exact h2
  obtain ⟨rfl, rfl, rfl, hlit⟩ := hb
  have hcm := vcommon_vastTy htf htg hlit
  have lc : c.litlike = false := by
    cases h : c.litlike <;> simp
    have := vlitlike_ty htc h
    simp at this
  constructor
  · simp only [VAst.typeOf, hc.1, hf.1, hg.1, hcm]
    simp [vastTy, VExpr.litlike]
  · intro σ
    have hcc := hc.conv htc σ
    simp only [vastTy, lc, Bool.false_eq_true, if_false] at hcc
    have hct : VAst.typeOf W.sig env c' = some (.sc .bool) := (hc.plain lc).1
    simp only [VAst.eval, hct, hf.1, hg.1, hcm, VIr.eval]
    rw [hcc]
    cases h1 : VIr.eval W ρ c σ with
    | none => simp
    | some r =>
      obtain ⟨v, σ1⟩ := r
      cases v with
      | vec vs => simp
      | sc sv =>
        cases sv with
        | b bv =>
          cases bv
          · show VAst.vconvR W.P (vastTy g tg) tg (VAst.eval W env ρ g' σ1) = _
            rw [hg.conv htg]; cases hgv : VIr.eval W ρ g σ1 <;> simp [hgv, vastVal, VExpr.litlike]
          · show VAst.vconvR W.P (vastTy f tg) tg (VAst.eval W env ρ f' σ1) = _
            rw [hf.conv htf]; cases hfv : VIr.eval W ρ f σ1 <;> simp [hfv, vastVal, VExpr.litlike]
        | _ => simp


/-- what the induction proves about a constructor's slots -/
def VSimSlots (W : World) (env : VAst.VEnv) (ρ : VStore) (k : Ty) (slots : VSlots) (as : VAExprs) : Prop :=
  VAst.argsTyped W.sig env as = true ∧ ∀ σ, VAst.evalCtorArgs W env ρ k as σ = VIr.evalSlots W ρ slots σ

theorem litlike_sc (e : Ir.Expr) : (VExpr.sc e).litlike = Ir.litlike e := by
  cases e with
  | lit c => cases c <;> rfl
  | _ => rfl

theorem sim_vsc (hs : Sim W env.base e a t) : VSim W env ρ (.sc e) (.sc a) (.sc t) := by
  constructor
  · simp only [VAst.typeOf, hs.1, vastTy, litlike_sc, astTy]
    cases Ir.litlike e <;> simp
  · intro σ
    simp only [VAst.eval, hs.2 σ, VIr.eval]
    cases Ir.eval W e σ with
    | none => rfl
    | some r =>
      obtain ⟨v, σ1⟩ := r
      simp only [Option.map, vastVal, litlike_sc, astVal]
      cases Ir.litlike e <;> simp
      cases v <;> simp

/-- the static type of an emitted slot, with the constructor's scalar kind, is the slot's IR type -/
theorem slot_conv_ty {sig : Sig} {vty : Var → Ty} {e : VExpr} {te : VTy} {k : Ty}
    (ht : VIr.typeOf sig vty vvty e = some te) (hk : te.scalar = k) : (vastTy e te).withScalar k = te := by
  by_cases hl : e.litlike = true
  · have := vlitlike_ty ht hl; subst this
    simp [VTy.scalar] at hk; subst hk
    simp [vastTy, hl, VTy.withScalar]
  · have hl' : e.litlike = false := by simpa using hl
    simp [vastTy, hl', withScalar_self hk]

mutual
theorem sim_v (hag : VAgree cx env vvty) :
    ∀ (e : VExpr) (a : VAExpr) (t : VTy),
      genV cx e = .ok a → VIr.typeOf W.sig cx.vty vvty e = some t → VIr.litOK e = true → VSim W env ρ e a t
  | .sc e, a, t, hg, ht, hl => by
    cases hge : genExpr cx e with
    | error err => simp [genV, hge] at hg
    | ok a' =>
      simp [genV, hge] at hg; subst hg
      cases hte : Ir.typeOf W.sig cx.vty e with
      | none => simp [VIr.typeOf, hte] at ht
      | some t' =>
        simp [VIr.typeOf, hte] at ht; subst ht
        exact sim_vsc (sim_expr hag.base e a' t' hge hte (by simpa [VIr.litOK] using hl))
  | .vvar id, a, t, hg, ht, _ => by
    simp [VIr.typeOf] at ht; subst ht
    simp [genV] at hg; subst hg
    have hr := hag.vres (.loc id)
    simp only [Ctx.name] at hr
    constructor
    · simp [VAst.typeOf, hr, hag.vvty, vastTy, VExpr.litlike]
    · intro σ; simp [VAst.eval, hr, VIr.eval, vastVal, VExpr.litlike]
  | .vglobal id, a, t, hg, ht, _ => by
    simp [VIr.typeOf] at ht; subst ht
    simp [genV] at hg; subst hg
    have hr := hag.vres (.glob id)
    simp only [Ctx.name] at hr
    constructor
    · simp [VAst.typeOf, hr, hag.vvty, vastTy, VExpr.litlike]
    · intro σ; simp [VAst.eval, hr, VIr.eval, vastVal, VExpr.litlike]
  | .cast ty x, a, t, hg, ht, hl => by
    cases hgx : genV cx x with
    | error e => simp [genV, hgx] at hg
    | ok x' =>
      cases htx : VIr.typeOf W.sig cx.vty vvty x with
      | none => simp [VIr.typeOf, htx] at ht
      | some tx =>
        have hx := sim_v hag x x' tx hgx htx (by simpa [VIr.litOK] using hl)
        exact sim_vcast hgx hg hx htx ht
  | .swz x sl, a, t, hg, ht, hl => by
    cases hgx : genV cx x with
    | error e => simp [genV, hgx] at hg
    | ok x' =>
      simp [genV, hgx] at hg; subst hg
      cases htx : VIr.typeOf W.sig cx.vty vvty x with
      | none => simp [VIr.typeOf, htx] at ht
      | some tx =>
        have hx := sim_v hag x x' tx hgx htx (by simpa [VIr.litOK] using hl)
        exact sim_vswz hx htx ht
  | .ctor ty slots, a, t, hg, ht, hl => by
    cases hn : vtypeName ty with
    | error e => simp [genV, hn] at hg
    | ok n =>
      cases hgs : genSlots cx slots with
      | error e => simp [genV, hn, hgs] at hg
      | ok as =>
        simp [genV, hn, hgs] at hg; subst hg
        cases hso : VIr.slotsOK W.sig cx.vty vvty ty.scalar slots with
        | none => simp [VIr.typeOf, hso] at ht
        | some total =>
          simp only [VIr.typeOf, hso] at ht
          split at ht
          · rename_i hc
            simp only [Option.some.injEq] at ht; subst ht
            have htn := vtypeName_vtyOfName hn hc.2.1 hc.2.2.1 hc.2.2.2
            have hs := sim_slots hag slots as ty.scalar total hgs hso (by simpa [VIr.litOK] using hl)
            constructor
            · simp [VAst.typeOf, htn, hs.1, vastTy, VExpr.litlike]
            · intro σ
              simp only [VAst.eval, htn, hs.2 σ, VIr.eval]
              cases VIr.evalSlots W ρ slots σ with
              | none => rfl
              | some r =>
                obtain ⟨vals, σ1⟩ := r
                cases build ty vals <;> simp [vastVal, VExpr.litlike]
          · simp at ht
  | .tern c f g, a, t, hg, ht, hl => by
    simp only [VIr.litOK, Bool.and_eq_true] at hl
    obtain ⟨⟨lc, lf⟩, lg⟩ := hl
    cases hgc : genV cx c with
    | error e => simp [genV, hgc] at hg
    | ok c' =>
      cases hgf : genV cx f with
      | error e => simp [genV, hgc, hgf] at hg
      | ok f' =>
        cases hgg : genV cx g with
        | error e => simp [genV, hgc, hgf, hgg] at hg
        | ok g' =>
          simp [genV, hgc, hgf, hgg] at hg; subst hg
          cases htc : VIr.typeOf W.sig cx.vty vvty c with
          | none => simp [VIr.typeOf, htc] at ht
          | some tc =>
            cases htf : VIr.typeOf W.sig cx.vty vvty f with
            | none => simp only [VIr.typeOf, htc, htf] at ht; simp at ht
            | some tf =>
              cases htg : VIr.typeOf W.sig cx.vty vvty g with
              | none => simp only [VIr.typeOf, htc, htf, htg] at ht; simp at ht
              | some tg =>
                exact sim_vtern (sim_v hag c c' tc hgc htc lc) htc (sim_v hag f f' tf hgf htf lf) htf
                  (sim_v hag g g' tg hgg htg lg) htg ht
  | .op o .nil, a, t, hg, ht, _ => by simp [VIr.typeOf] at ht
  | .op o (.cons x .nil), a, t, hg, ht, hl => by
    simp only [VIr.litOK, VIr.litOKs, Bool.and_eq_true, Bool.and_true] at hl
    cases htx : VIr.typeOf W.sig cx.vty vvty x with
    | none => simp only [VIr.typeOf, htx] at ht; split at ht <;> simp_all
    | some tx =>
      cases hf : opForm o with
      | unexpected => simp [genV, hf] at hg
      | binary b => simp [genV, hf] at hg
      | unary u =>
        cases hgx : genV cx x with
        | error e => simp [genV, hf, hgx] at hg
        | ok x' =>
          simp [genV, hf, hgx] at hg; subst hg
          exact sim_vun hf (sim_v hag x x' tx hgx htx hl) htx ht
  | .op o (.cons x (.cons y .nil)), a, t, hg, ht, hl => by
    simp only [VIr.litOK, VIr.litOKs, Bool.and_eq_true, Bool.and_true] at hl
    obtain ⟨lx, ly⟩ := hl
    cases htx : VIr.typeOf W.sig cx.vty vvty x with
    | none => simp only [VIr.typeOf, htx] at ht; split at ht <;> simp_all
    | some tx =>
      cases hty : VIr.typeOf W.sig cx.vty vvty y with
      | none => simp only [VIr.typeOf, htx, hty] at ht; split at ht <;> simp_all
      | some ty =>
        cases hf : opForm o with
        | unexpected => simp [genV, hf] at hg
        | unary u => simp [genV, hf] at hg
        | binary b =>
          cases hgx : genV cx x with
          | error e => simp [genV, hf, hgx] at hg
          | ok x' =>
            cases hgy : genV cx y with
            | error e => simp [genV, hf, hgx, hgy] at hg
            | ok y' =>
              simp [genV, hf, hgx, hgy] at hg; subst hg
              exact sim_vbin hf (sim_v hag x x' tx hgx htx lx) htx (sim_v hag y y' ty hgy hty ly) hty ht
  | .op o (.cons x (.cons y (.cons z r))), a, t, hg, ht, _ => by simp [VIr.typeOf] at ht
theorem sim_slots (hag : VAgree cx env vvty) :
    ∀ (slots : VSlots) (as : VAExprs) (k : Ty) (total : Nat),
      genSlots cx slots = .ok as → VIr.slotsOK W.sig cx.vty vvty k slots = some total → VIr.litOKSlots slots = true →
      VSimSlots W env ρ k slots as
  | .nil, as, k, total, hg, _, _ => by
    simp [genSlots] at hg; subst hg
    exact ⟨rfl, fun σ => by simp [VAst.evalCtorArgs, VIr.evalSlots]⟩
  | .cons n e r, as, k, total, hg, hso, hl => by
    simp only [VIr.litOKSlots, Bool.and_eq_true] at hl
    cases hge : genV cx e with
    | error err => simp [genSlots, hge] at hg
    | ok a1 =>
      cases hgr : genSlots cx r with
      | error err => simp [genSlots, hge, hgr] at hg
      | ok ar =>
        simp [genSlots, hge, hgr] at hg; subst hg
        cases hte : VIr.typeOf W.sig cx.vty vvty e with
        | none => simp [VIr.slotsOK, hte] at hso
        | some te =>
          cases hsr : VIr.slotsOK W.sig cx.vty vvty k r with
          | none => simp [VIr.slotsOK, hte, hsr] at hso
          | some m =>
            simp only [VIr.slotsOK, hte, hsr] at hso
            split at hso
            · rename_i hc
              have h1 := sim_v hag e a1 te hge hte hl.1
              have h2 := sim_slots hag r ar k m hgr hsr hl.2
              have hct := slot_conv_ty hte hc.1
              constructor
              · simp [VAst.argsTyped, h1.1, h2.1]
              · intro σ
                simp only [VAst.evalCtorArgs, h1.1, hct, h1.conv hte σ, VIr.evalSlots]
                cases VIr.eval W ρ e σ with
                | none => rfl
                | some p => obtain ⟨v, σ1⟩ := p; simp [h2.2 σ1]
            · simp at hso
end


/-- the emitted assignment target denotes the variable and components of the IR's place -/
theorem lval_genV (hag : VAgree cx env vvty) {lhs : VExpr} {lhs' : VAExpr} {x : Var} {sl : Option (List SwizzleSlot)}
    (hp : VIr.placeOf lhs = some (x, sl)) (hg : genV cx lhs = .ok lhs') :
    VAst.lvalOfV env lhs' = some (x, sl.map (·.map slotIdx)) ∧ lhs.litlike = false ∧ VIr.litOK lhs = true := by
  cases lhs with
  | vvar id =>
    simp [VIr.placeOf] at hp; obtain ⟨rfl, rfl⟩ := hp
    simp [genV] at hg; subst hg
    have hr := hag.vres (.loc id); simp only [Ctx.name] at hr
    simp [VAst.lvalOfV, hr, VExpr.litlike, VIr.litOK]
  | vglobal id =>
    simp [VIr.placeOf] at hp; obtain ⟨rfl, rfl⟩ := hp
    simp [genV] at hg; subst hg
    have hr := hag.vres (.glob id); simp only [Ctx.name] at hr
    simp [VAst.lvalOfV, hr, VExpr.litlike, VIr.litOK]
  | swz e l =>
    cases e with
    | vvar id =>
      simp [VIr.placeOf] at hp; obtain ⟨rfl, rfl⟩ := hp
      simp [genV] at hg; subst hg
      have hr := hag.vres (.loc id); simp only [Ctx.name] at hr
      simp [VAst.lvalOfV, hr, parse_swizzleName, VExpr.litlike, VIr.litOK]
    | vglobal id =>
      simp [VIr.placeOf] at hp; obtain ⟨rfl, rfl⟩ := hp
      simp [genV] at hg; subst hg
      have hr := hag.vres (.glob id); simp only [Ctx.name] at hr
      simp [VAst.lvalOfV, hr, parse_swizzleName, VExpr.litlike, VIr.litOK]
    | _ => simp [VIr.placeOf] at hp
  | _ => simp [VIr.placeOf] at hp

theorem vconvert_self (P : Prim) (t : VTy) (v : VVal) : VAst.vconvert P t t v = some v := by simp [VAst.vconvert]

/-- statement-level assignment / compound assignment to a vector variable or a swizzle of one -/
theorem sim_vassign (hag : VAgree cx env vvty) {o : IntrinsicOp} {b : BinOp} {lhs rhs : VExpr} {lhs' rhs' : VAExpr} {T : VTy}
    (hf : opForm o = .binary b) (hgl : genV cx lhs = .ok lhs') (hgr : genV cx rhs = .ok rhs')
    (hok : VIr.assignOK W.sig cx.vty vvty lhs rhs = some T) (hlr : VIr.litOK rhs = true)
    (hsem : irOpSem o = .assign ∨ ∃ m, irOpSem o = .compound m) :
    ∀ ρ σ, VAst.evalTop W env ρ (.bin b lhs' rhs') σ = VIr.evalTop W ρ (.op o (.cons lhs (.cons rhs .nil))) σ := by
  intro ρ σ
  have hbs := op_binary hf
  -- unpack the typing
  cases hp : VIr.placeOf lhs with
  | none => simp [VIr.assignOK, hp] at hok
  | some pl =>
    obtain ⟨x, sl⟩ := pl
    cases htl : VIr.typeOf W.sig cx.vty vvty lhs with
    | none => simp [VIr.assignOK, hp, htl] at hok
    | some tl =>
      cases htr : VIr.typeOf W.sig cx.vty vvty rhs with
      | none => simp [VIr.assignOK, hp, htl, htr] at hok
      | some tr =>
        simp [VIr.assignOK, hp, htl, htr] at hok
        obtain ⟨rfl, rfl⟩ := hok
        obtain ⟨hlv, hll, hlol⟩ := lval_genV hag hp hgl
        have hL := (sim_v (ρ := ρ) hag lhs lhs' tl hgl htl hlol).plain hll
        have hR := sim_v (ρ := ρ) hag rhs rhs' tl hgr htr hlr
        have hRc := hR.conv htr σ
        rcases hsem with ha | ⟨m, hc⟩
        · simp only [VAst.evalTop, hbs, ha, hlv, hL.1, hR.1, hRc, VIr.evalTop, hp]
        · have hcm : VAst.vcommon tl (vastTy rhs tl) = some tl := by
            have := vcommon_vastTy htl htr (by simp [hll])
            simpa [vastTy, hll] using this
          simp only [VAst.evalTop, hbs, hc, hlv, hL.1, hR.1, hcm, hRc, VIr.evalTop, hp]
          cases VIr.eval W ρ rhs σ with
          | none => rfl
          | some r =>
            obtain ⟨v, σ1⟩ := r
            simp only []
            cases readPlace (ρ x) (Option.map (List.map slotIdx) sl) with
            | none => rfl
            | some cur =>
              simp only [vconvert_self]


end RsslVerif.Lemmas.GenSemVec
